(* CodeEqC11.v — the hand-written models of the sampling / selection primitives (RandomPrims.v) are EQUAL to the
   definitions that harness/translate_code.py generates from the source of utils/__init__.py, utils/random.py and
   utils/selections.py (coq/gen/GenCode.v).  These proofs are re-checked on every run against the regenerated
   file: an edit of one of those function bodies changes the generated definition and the proof below it. *)
From TF Require Import Py PyLemmas.
From TFG Require Import GenCode.
Open Scope Z_scope.

(* ---------- check_for_value ---------- *)
Lemma cfv_loop v arr k : forall (i : nat) found, (i + k <= length arr)%nat ->
  for_brk_nat_p k (Z.of_nat i)
    (fun i0 found0 => if v =? getZ arr i0 then (true, true) else (found0, false)) found
  = if existsb (Z.eqb v) (firstn k (skipn i arr)) then true else found.
Proof.
  induction k as [|k IH]; intros i found H; [reflexivity|].
  cbn [for_brk_nat_p]. rewrite getZ_nat.
  assert (Hs : skipn i arr = nth i arr 0 :: skipn (Datatypes.S i) arr).
  { clear -H. revert i H; induction arr as [|x t IHa]; intros [|i] H; simpl in *; try lia; auto.
    apply IHa. lia. }
  rewrite Hs. cbn [firstn existsb].
  destruct (v =? nth i arr 0) eqn:E; [reflexivity|]. cbn [orb].
  replace (Z.of_nat i + 1) with (Z.of_nat (Datatypes.S i)) by lia. apply IH. lia.
Qed.

Theorem code_check_for_value v arr (k : nat) : (k <= length arr)%nat ->
  py_check_for_value v arr (Z.of_nat k) = memZ v (firstn k arr).
Proof.
  intro H. unfold py_check_for_value, for_brk_p, memZ. cbv zeta.
  rewrite Z.sub_0_r, Nat2Z.id.
  pose proof (cfv_loop v arr k 0 false) as H'. cbn [Z.of_nat] in H'. rewrite H' by lia.
  simpl skipn. destruct (existsb (Z.eqb v) (firstn k arr)); reflexivity.
Qed.

(* ---------- random_sample ---------- *)
Lemma firstn_app_exact {A} (a b : list A) : firstn (length a) (a ++ b) = a.
Proof. rewrite firstn_app, Nat.sub_diag, firstn_all. simpl. apply app_nil_r. Qed.

Lemma rs_loop n (q : nat) replace : forall ds acc rest, (length acc + length rest = q)%nat ->
  while_f (length ds) (fun '(sample, i) => i <? Z.of_nat q)
    (fun '(sample, i) =>
       bind (popI n) (fun r_1 =>
         let ind := r_1 in
         if negb replace then
           if py_check_for_value ind sample i then ret (sample, i)
           else let sample := setA sample i ind in let i := i + 1 in ret (sample, i)
         else let sample := setA sample i ind in let i := i + 1 in ret (sample, i)))
    (acc ++ rest, Z.of_nat (length acc)) ds
  = match random_sample_loop n q replace acc ds with
    | Some (r, ds') => Some ((r, Z.of_nat (length r)), ds')
    | None => None
    end.
Proof.
  induction ds as [|d r IH]; intros acc rest Hlen.
  - cbn [length while_f random_sample_loop].
    destruct (Z.of_nat (length acc) <? Z.of_nat q) eqn:E.
    + replace (q <=? length acc)%nat with false by (symmetry; apply Nat.leb_gt; lia). reflexivity.
    + replace (q <=? length acc)%nat with true by (symmetry; apply Nat.leb_le; lia).
      assert (rest = []) by (destruct rest; [reflexivity|simpl in Hlen; lia]). subst rest.
      now rewrite app_nil_r.
  - cbn [length while_f random_sample_loop].
    destruct (Z.of_nat (length acc) <? Z.of_nat q) eqn:E.
    + replace (q <=? length acc)%nat with false by (symmetry; apply Nat.leb_gt; lia).
      unfold bind at 1. unfold bind at 1. unfold popI.
      destruct d as [u|m v|x]; try reflexivity.
      destruct (m =? n) eqn:Em; [|reflexivity].
      assert (Hrest : exists z rest', rest = z :: rest').
      { destruct rest as [|z rest']; [simpl in Hlen; lia|eauto]. }
      destruct Hrest as (z & rest' & ->).
      assert (Hset : setA (acc ++ z :: rest') (Z.of_nat (length acc)) v = (acc ++ [v]) ++ rest').
      { rewrite setA_nat, upd_app_r. cbn [upd]. now rewrite <- app_assoc. }
      assert (Hi : Z.of_nat (length acc) + 1 = Z.of_nat (length (acc ++ [v]))).
      { rewrite app_length. simpl. lia. }
      assert (Hstep : forall X, while_f (length r) (fun '(_, i) => i <? Z.of_nat q) X
                        (setA (acc ++ z :: rest') (Z.of_nat (length acc)) v, Z.of_nat (length acc) + 1) r
                     = match random_sample_loop n q replace (acc ++ [v]) r with
                       | Some (r0, ds') => Some (r0, Z.of_nat (length r0), ds') | None => None end -> True) by auto.
      clear Hstep.
      destruct replace; cbn [negb andb].
      * unfold ret at 1. rewrite Hset, Hi. apply IH. rewrite app_length. simpl in *. lia.
      * rewrite code_check_for_value by (rewrite app_length; lia).
        rewrite firstn_app_exact.
        destruct (memZ v acc) eqn:Emem.
        -- unfold ret at 1. apply IH. exact Hlen.
        -- unfold ret at 1. rewrite Hset, Hi. apply IH. rewrite app_length. simpl in *. lia.
    + replace (q <=? length acc)%nat with true by (symmetry; apply Nat.leb_le; lia).
      assert (rest = []) by (destruct rest; [reflexivity|simpl in Hlen; lia]). subst rest.
      now rewrite app_nil_r.
Qed.

Theorem code_random_sample n (q : nat) replace ds :
  replace = true \/ Z.of_nat q <= n ->
  py_random_sample n (Z.of_nat q) replace ds = random_sample n q replace ds.
Proof.
  intro Hpre. unfold py_random_sample, random_sample.
  assert (Hg : forall K : unit -> M (list Z),
      bind (if negb replace then bind (guard (n >=? Z.of_nat q)) (fun _ => ret tt) else ret tt) K ds = K tt ds).
  { intro K. destruct replace; cbn [negb]; [reflexivity|].
    destruct Hpre as [Hc|Hle]; [discriminate|].
    unfold bind, guard. replace (n >=? Z.of_nat q) with true by (symmetry; apply Z.geb_le; lia). reflexivity. }
  rewrite Hg. clear Hg.
  cbv zeta. unfold bind at 1. unfold while_ds. cbn [Nat.add].
  rewrite zerosZ_nat.
  pose proof (rs_loop n q replace ds [] (repeat 0 q)) as H.
  cbn [app length Z.of_nat] in H. rewrite H by (rewrite repeat_length; reflexivity).
  destruct (random_sample_loop n q replace [] ds) as [[r ds']|]; reflexivity.
Qed.

(* ---------- binary_search_interval ---------- *)
Lemma Zgtb_false a b : a <= b -> (a >? b) = false.
Proof. intro H. rewrite Z.gtb_ltb. apply Z.ltb_ge. lia. Qed.
Lemma Zgtb_true a b : b < a -> (a >? b) = true.
Proof. intro H. rewrite Z.gtb_ltb. apply Z.ltb_lt. lia. Qed.

(* the loop's final [right] is the model's answer; the final [left] is not used by the caller *)
Lemma bsi_while v c : forall fuel2 fuel1 (l r : nat) ds,
  (l <= r)%nat -> (r - l <= fuel1)%nat -> (r - l <= fuel2)%nat ->
  exists l', while_f fuel1 (fun '(right_, left_) => right_ - left_ >? 1)
    (fun '(right_, left_) =>
       let mid := (left_ + right_) / 2 in
       let '(right_, left_) := if Qle_bool v (getQ c mid) then (mid, left_) else (right_, mid) in
       ret (right_, left_))
    (Z.of_nat r, Z.of_nat l) ds
  = Some ((Z.of_nat (bsi_loop fuel2 v c l r), l'), ds).
Proof.
  induction fuel2 as [|f2 IH]; intros fuel1 l r ds Hlr H1 H2.
  - assert (r = l) by lia. subst r. destruct fuel1; cbn [while_f bsi_loop];
      replace (Z.of_nat l - Z.of_nat l >? 1) with false by (symmetry; apply Zgtb_false; lia);
      eexists; reflexivity.
  - cbn [bsi_loop].
    destruct (1 <? r - l)%nat eqn:E.
    + apply Nat.ltb_lt in E.
      destruct fuel1 as [|f1]; [lia|]. cbn [while_f].
      replace (Z.of_nat r - Z.of_nat l >? 1) with true by (symmetry; apply Zgtb_true; lia).
      cbv zeta. unfold bind at 1.
      assert (Hmid : (Z.of_nat l + Z.of_nat r) / 2 = Z.of_nat ((l + r) / 2)).
      { rewrite <- Nat2Z.inj_add. now rewrite (Nat2Z.inj_div (l + r) 2). }
      rewrite Hmid, getQ_nat.
      assert (Hm1 : (l < (l + r) / 2)%nat).
      { apply Nat.div_le_lower_bound; lia. }
      assert (Hm2 : ((l + r) / 2 < r)%nat).
      { apply Nat.div_lt_upper_bound; lia. }
      destruct (Qle_bool v (nth ((l + r) / 2) c 0%Q)); unfold ret at 1.
      * apply IH; lia.
      * apply IH; lia.
    + apply Nat.ltb_ge in E.
      destruct fuel1; cbn [while_f];
        replace (Z.of_nat r - Z.of_nat l >? 1) with false by (symmetry; apply Zgtb_false; lia);
        eexists; reflexivity.
Qed.

Theorem code_binary_search_interval v c ds : c <> [] ->
  py_binary_search_interval v c ds = Some (Z.of_nat (bsi v c), ds).
Proof.
  intro Hc. unfold py_binary_search_interval, bsi. cbv zeta. rewrite getQ_0.
  destruct (Qle_bool v (nth 0 c 0%Q)); [reflexivity|].
  unfold bind at 1. unfold bind at 1. unfold while_ds.
  assert (Hr : zlen c - 1 = Z.of_nat (length c - 1)).
  { unfold zlen. destruct c; [congruence|]. simpl length. lia. }
  rewrite Hr.
  destruct (bsi_while v c (length c) (length c + length ds) 0 (length c - 1) ds) as [l' Hw]; try lia.
  cbv zeta in Hw. cbn [Z.of_nat] in Hw. rewrite Hw. reflexivity.
Qed.

(* ---------- random_weighted_sample ---------- *)
Lemma cumsum_from_length a w : length (cumsum_from a w) = length w.
Proof. revert a; induction w as [|x t IH]; intro a; simpl; auto. Qed.
Lemma cumsum_length w : length (cumsum w) = length w.
Proof. apply cumsum_from_length. Qed.

Lemma rws_loop' w (q : nat) replace s : w <> [] -> s = total w -> forall ds acc rest, (length acc + length rest = q)%nat ->
  while_f (length ds) (fun '(sample, i) => i <? Z.of_nat q)
    (fun '(sample, i) =>
       bind popU (fun r_1 =>
         bind (py_binary_search_interval (s * r_1)%Q (cumsum w)) (fun r_2 =>
           if negb replace then
             if py_check_for_value r_2 sample i then ret (sample, i)
             else ret (setA sample i r_2, i + 1)
           else ret (setA sample i r_2, i + 1))))
    (acc ++ rest, Z.of_nat (length acc)) ds
  = match rws_loop w q replace acc ds with
    | Some (r, ds') => Some ((r, Z.of_nat (length r)), ds')
    | None => None
    end.
Proof.
  intros Hw Hs. assert (Hc : cumsum w <> []).
  { intro E. apply (f_equal (@length Q)) in E. rewrite cumsum_length in E. destruct w; [congruence|discriminate]. }
  induction ds as [|d r IH]; intros acc rest Hlen.
  - cbn [length while_f rws_loop].
    destruct (Z.of_nat (length acc) <? Z.of_nat q) eqn:E.
    + replace (q <=? length acc)%nat with false by (symmetry; apply Nat.leb_gt; lia). reflexivity.
    + replace (q <=? length acc)%nat with true by (symmetry; apply Nat.leb_le; lia).
      assert (rest = []) by (destruct rest; [reflexivity|simpl in Hlen; lia]). subst rest.
      now rewrite app_nil_r.
  - cbn [length while_f rws_loop].
    destruct (Z.of_nat (length acc) <? Z.of_nat q) eqn:E.
    + replace (q <=? length acc)%nat with false by (symmetry; apply Nat.leb_gt; lia).
      unfold bind at 1. unfold bind at 1. unfold popU at 1.
      destruct d as [u|m v|x]; try reflexivity.
      unfold bind at 1. rewrite code_binary_search_interval by exact Hc.
      assert (Hv : Z.of_nat (bsi (s * u) (cumsum w)) = Z.of_nat (weighted_pick w u)) by (subst s; reflexivity).
      rewrite Hv. clear Hv.
      set (v := Z.of_nat (weighted_pick w u)).
      assert (Hrest : exists z rest', rest = z :: rest').
      { destruct rest as [|z rest']; [simpl in Hlen; lia|eauto]. }
      destruct Hrest as (z & rest' & ->).
      assert (Hset : setA (acc ++ z :: rest') (Z.of_nat (length acc)) v = (acc ++ [v]) ++ rest').
      { rewrite setA_nat, upd_app_r. cbn [upd]. now rewrite <- app_assoc. }
      assert (Hi : Z.of_nat (length acc) + 1 = Z.of_nat (length (acc ++ [v]))).
      { rewrite app_length. simpl. lia. }
      destruct replace; cbn [negb andb].
      * unfold ret at 1. rewrite Hset, Hi. apply IH. rewrite app_length. simpl in *. lia.
      * rewrite code_check_for_value by (rewrite app_length; lia).
        rewrite firstn_app_exact.
        destruct (memZ v acc) eqn:Emem.
        -- unfold ret at 1. apply IH. exact Hlen.
        -- unfold ret at 1. rewrite Hset, Hi. apply IH. rewrite app_length. simpl in *. lia.
    + replace (q <=? length acc)%nat with true by (symmetry; apply Nat.leb_le; lia).
      assert (rest = []) by (destruct rest; [reflexivity|simpl in Hlen; lia]). subst rest.
      now rewrite app_nil_r.
Qed.

Theorem code_random_weighted_sample w (q : nat) replace ds :
  w <> [] -> replace = true \/ (q <= length w)%nat ->
  py_random_weighted_sample w (Z.of_nat q) replace ds = random_weighted_sample w q replace ds.
Proof.
  intros Hw Hpre. unfold py_random_weighted_sample, random_weighted_sample.
  assert (Hg : forall K : unit -> M (list Z),
      bind (if negb replace then bind (guard (zlen w >=? Z.of_nat q)) (fun _ => ret tt) else ret tt) K ds = K tt ds).
  { intro K. destruct replace; cbn [negb]; [reflexivity|].
    destruct Hpre as [Hc|Hle]; [discriminate|].
    unfold bind, guard, zlen. replace (Z.of_nat (length w) >=? Z.of_nat q) with true by (symmetry; apply Z.geb_le; lia). reflexivity. }
  rewrite Hg. clear Hg.
  cbv zeta. unfold bind at 1. unfold while_ds. cbn [Nat.add].
  rewrite zerosZ_nat.
  assert (Hs : getQ (cumsum w) (-1) = total w) by (rewrite getQ_last, cumsum_length; reflexivity).
  pose proof (rws_loop' w q replace _ Hw Hs ds [] (repeat 0 q)) as H.
  cbn [app length Z.of_nat] in H. rewrite H by (rewrite repeat_length; reflexivity).
  destruct (rws_loop w q replace [] ds) as [[r ds']|]; reflexivity.
Qed.

(* ---------- flip_coin, randint ---------- *)
Theorem code_flip_coin p ds : py_flip_coin p ds = flip_coin p ds.
Proof. reflexivity. Qed.

Lemma randint_loop low high : forall (k : nat) (i : nat) acc rest ds, length acc = i -> length rest = k ->
  for_idx k i (fun j result => bind popU (fun r_1 =>
      ret (setA result (Z.of_nat j) (low + Qfloor' (ZtoQ (high - low) * r_1)%Q)))) (acc ++ rest) ds
  = match randint low high k ds with
    | Some (r, ds') => Some (acc ++ r, ds')
    | None => None
    end.
Proof.
  induction k as [|k IH]; intros i acc rest ds Ha Hr.
  - destruct rest; [|discriminate]. reflexivity.
  - cbn [for_idx randint]. unfold bind at 1. unfold bind at 1. unfold bind at 2. unfold popU.
    destruct ds as [|[u|m v|x] ds]; try reflexivity.
    unfold ret at 1.
    destruct rest as [|z rest']; [discriminate|].
    rewrite setA_nat, <- Ha, upd_app_r. cbn [upd].
    replace (acc ++ (low + Qfloor' (ZtoQ (high - low) * u)) :: rest')
      with ((acc ++ [low + Qfloor' (ZtoQ (high - low) * u)]) ++ rest') by now rewrite <- app_assoc.
    rewrite (IH (Datatypes.S (length acc))); [| rewrite app_length; simpl; lia | simpl in Hr; lia].
    unfold bind. destruct (randint low high k ds) as [[r ds']|]; [|reflexivity].
    unfold ret. now rewrite <- app_assoc.
Qed.

Theorem code_randint low high (k : nat) ds :
  py_randint low high (Z.of_nat k) ds = randint low high k ds.
Proof.
  unfold py_randint. cbv zeta. unfold bind at 1. rewrite for_range_0, zerosZ_nat.
  pose proof (randint_loop low high k 0 [] (repeat 0 k) ds eq_refl (repeat_length _ _)) as H.
  cbn [app] in H. rewrite H. destruct (randint low high k ds) as [[r ds']|]; reflexivity.
Qed.

(* ---------- selections ---------- *)
Theorem code_proportional_selection fitness rank tour (q : nat) ds : fitness <> [] ->
  py_proportional_selection fitness rank tour (Z.of_nat q) ds = proportional_selection fitness rank (Z.to_nat tour) q ds.
Proof.
  intro H. unfold py_proportional_selection, proportional_selection. cbv zeta. unfold bind.
  rewrite code_random_weighted_sample by auto.
  destruct (random_weighted_sample fitness q true ds) as [[r ds']|]; reflexivity.
Qed.
Theorem code_rank_selection fitness rank tour (q : nat) ds : rank <> [] ->
  py_rank_selection fitness rank tour (Z.of_nat q) ds = rank_selection fitness rank (Z.to_nat tour) q ds.
Proof.
  intro H. unfold py_rank_selection, rank_selection. cbv zeta. unfold bind.
  rewrite code_random_weighted_sample by auto.
  destruct (random_weighted_sample rank q true ds) as [[r ds']|]; reflexivity.
Qed.

(* ---------- tournament_selection ---------- *)
From TF Require Import RandomPrimsProofs RandomPrimsProofs2.
Open Scope Z_scope.

Lemma gatherQz_nonneg f t : Forall (fun v => 0 <= v) t -> gatherQz f t = gatherQ f t.
Proof.
  intro H. unfold gatherQz, gatherQ. apply map_ext_in. intros v Hv.
  rewrite Forall_forall in H. apply getQ_nonneg. auto.
Qed.

Lemma tournament_loop fitness (tour : nat) (body : nat -> list Z -> M (list Z)) :
  (tour <= length fitness)%nat ->
  (forall j s ds, body j s ds =
      bind (py_random_sample (zlen fitness) (Z.of_nat tour) false) (fun r_1 =>
        ret (setA s (Z.of_nat j) (getZ r_1 (argmaxZ (gatherQz fitness r_1))))) ds) ->
  forall (k i : nat) acc rest ds, valid_draws ds -> length acc = i -> length rest = k ->
  for_idx k i body (acc ++ rest) ds
  = match tournament_selection fitness tour k ds with
    | Some (ws, ds') => Some (acc ++ ws, ds')
    | None => None
    end.
Proof.
  intros Ht Hb. induction k as [|k IH]; intros i acc rest ds Hv Ha Hr.
  - destruct rest; [|discriminate]. reflexivity.
  - cbn [for_idx tournament_selection]. unfold tournament_one.
    unfold bind at 1. rewrite Hb. unfold bind at 1.
    rewrite code_random_sample by (right; unfold zlen; lia).
    unfold zlen. unfold bind at 1. unfold bind at 1.
    destruct (random_sample (Z.of_nat (length fitness)) tour false ds) as [[t ds1]|] eqn:Ers; [|reflexivity].
    destruct (random_sample_spec _ _ _ _ _ _ Hv Ers) as (Hlt & Hrange & _).
    pose proof (random_sample_suffix _ _ _ _ _ _ Hv Ers) as Hv1.
    unfold ret at 1. unfold ret at 1.
    rewrite gatherQz_nonneg by (eapply Forall_impl; [|exact Hrange]; simpl; intros; lia).
    unfold argmaxZ. rewrite getZ_nat.
    destruct rest as [|z rest']; [discriminate|].
    rewrite setA_nat, <- Ha, upd_app_r. cbn [upd].
    set (w := nth (argmax (gatherQ fitness t)) t 0).
    replace (acc ++ w :: rest') with ((acc ++ [w]) ++ rest') by now rewrite <- app_assoc.
    rewrite (IH (Datatypes.S (length acc)) (acc ++ [w]) rest' ds1 Hv1);
      [| rewrite app_length; simpl; lia | simpl in Hr; lia].
    unfold bind, ret. destruct (tournament_selection fitness tour k ds1) as [[ws ds']|]; [|reflexivity].
    now rewrite <- app_assoc.
Qed.

Theorem code_tournament_selection fitness rank (tour q : nat) ds :
  valid_draws ds -> (tour <= length fitness)%nat ->
  py_tournament_selection fitness rank (Z.of_nat tour) (Z.of_nat q) ds = tournament_selection fitness tour q ds.
Proof.
  intros Hv Ht. unfold py_tournament_selection. cbv zeta. unfold bind at 1. rewrite for_range_0, zerosZ_nat.
  match goal with |- context [for_idx q 0 ?b _ ds] =>
    pose proof (tournament_loop fitness tour b Ht (fun _ _ _ => eq_refl) q 0 [] (repeat 0 q) ds Hv eq_refl (repeat_length _ _)) as H end.
  cbn [app] in H. rewrite H. destruct (tournament_selection fitness tour q ds) as [[r ds']|]; reflexivity.
Qed.

(* ---------- sattolo_shuffle ---------- *)
Lemma for_down_sattolo : forall (i : nat) arr ds, valid_draws ds ->
  for_down_nat i (Z.of_nat i) (fun i0 shuffled_arr =>
      bind popU (fun r_1 =>
        let j := Qfloor' (r_1 * ZtoQ i0)%Q in
        let v_2 := getZ shuffled_arr j in
        let v_3 := getZ shuffled_arr i0 in
        let shuffled_arr := setA shuffled_arr i0 v_2 in
        let shuffled_arr := setA shuffled_arr j v_3 in
        ret shuffled_arr)) arr ds
  = sattolo_loop 0 i arr ds.
Proof.
  induction i as [|i IH]; intros arr ds Hv; [reflexivity|].
  cbn [for_down_nat sattolo_loop]. unfold bind at 1. unfold bind at 1. unfold bind at 2. unfold popU.
  destruct ds as [|[u|m v|x] ds]; try reflexivity.
  inversion Hv as [|? ? Hd Hv']; subst. cbn in Hd. destruct Hd as [Hu0 Hu1].
  cbv zeta. unfold ret at 1.
  assert (Hj : 0 <= Qfloor' (u * ZtoQ (Z.of_nat (Datatypes.S i)))).
  { unfold ZtoQ. apply (Qfloor'_bounds u (Z.of_nat (Datatypes.S i)) Hu0 Hu1). lia. }
  rewrite (getZ_nonneg _ _ Hj), getZ_nat, setA_nat, (setA_nonneg _ _ _ Hj).
  replace (Z.of_nat (Datatypes.S i) - 1) with (Z.of_nat i) by lia.
  rewrite IH by exact Hv'. unfold swap, ZtoQ. reflexivity.
Qed.

Theorem code_sattolo_shuffle arr ds : valid_draws ds ->
  py_sattolo_shuffle arr ds = sattolo 0 arr ds.
Proof.
  intro Hv. unfold py_sattolo_shuffle, sattolo. cbv zeta. unfold bind at 1. unfold for_down.
  assert (Hn : zlen arr - 1 - 0 = Z.of_nat (length arr - 1) /\ zlen arr - 1 = Z.of_nat (length arr - 1) \/ arr = []).
  { destruct arr; [right; reflexivity|left]. unfold zlen. simpl length. lia. }
  destruct Hn as [[H1 H2]| ->]; [|reflexivity].
  rewrite H1, H2, Nat2Z.id. pose proof (for_down_sattolo (length arr - 1) arr ds Hv) as H.
  cbv zeta in H. rewrite H. destruct (sattolo_loop 0 (length arr - 1) arr ds) as [[r ds']|]; reflexivity.
Qed.

(* ---------- argsort_k, find_pbest_id ---------- *)
Lemma upd_map {A B} (f : A -> B) l i x : upd (map f l) i (f x) = map f (upd l i x).
Proof. revert i; induction l as [|h t IH]; intros [|i]; simpl; auto. now rewrite IH. Qed.
Lemma nth_map_Zofnat l i : nth i (map Z.of_nat l) 0 = Z.of_nat (nth i l O).
Proof. change 0 with (Z.of_nat 0). apply map_nth. Qed.

Lemma find_max_inner (a : list Q) : forall (n j : nat) mx (mid : nat),
  snd (for_nat_p n (Z.of_nat j)
         (fun j0 '(max_, max_id) => if Qltb max_ (getQ a j0) then (getQ a j0, j0) else (max_, max_id))
         (mx, Z.of_nat mid))
  = Z.of_nat (find_max_from a j n mx mid).
Proof.
  induction n as [|n IH]; intros j mx mid; [reflexivity|].
  cbn [for_nat_p find_max_from]. rewrite getQ_nat.
  replace (Z.of_nat j + 1) with (Z.of_nat (Datatypes.S j)) by lia.
  destruct (Qltb mx (nth j a 0%Q)); apply IH.
Qed.

Definition argsort_step (n : nat) (i0 : Z) (array_copy : list Q) (to_return : list Z) : list Q * list Z :=
       let max_ := getQ array_copy i0 in
       let max_id := i0 in
       let '(max_, max_id) := for_range_p i0 (Z.of_nat n) (max_, max_id)
           (fun j '(max_, max_id) =>
              let '(max_, max_id) := if Qltb max_ (getQ array_copy j) then (getQ array_copy j, j) else (max_, max_id) in
              (max_, max_id)) in
       let v_1 := getQ array_copy max_id in
       let v_2 := getQ array_copy i0 in
       let array_copy := setA array_copy i0 v_1 in
       let array_copy := setA array_copy max_id v_2 in
       let v_3 := getZ to_return max_id in
       let v_4 := getZ to_return i0 in
       let to_return := setA to_return i0 v_3 in
       let to_return := setA to_return max_id v_4 in
       (array_copy, to_return).

Lemma argsort_step_eq (ac : list Q) (idx : list nat) (i : nat) :
  argsort_step (length ac) (Z.of_nat i) ac (map Z.of_nat idx)
  = (swap 0%Q ac i (find_max_from ac i (length ac - i) (nth i ac 0%Q) i),
     map Z.of_nat (swap O idx i (find_max_from ac i (length ac - i) (nth i ac 0%Q) i))).
Proof.
  unfold argsort_step. cbv zeta. unfold for_range_p.
  replace (Z.to_nat (Z.of_nat (length ac) - Z.of_nat i)) with (length ac - i)%nat by lia.
  pose proof (find_max_inner ac (length ac - i) i (getQ ac (Z.of_nat i)) i) as Hin.
  match goal with |- context [for_nat_p (length ac - i) (Z.of_nat i) ?b ?s] =>
    assert (Hb : for_nat_p (length ac - i) (Z.of_nat i) b s
               = for_nat_p (length ac - i) (Z.of_nat i)
                   (fun j0 '(max_, max_id) => if Qltb max_ (getQ ac j0) then (getQ ac j0, j0) else (max_, max_id))
                   (getQ ac (Z.of_nat i), Z.of_nat i))
  end.
  { rewrite !for_nat_p_fold. apply fold_left_ext. intros [m mi] b. destruct (Qltb m (getQ ac (Z.of_nat i + Z.of_nat b))); reflexivity. }
  rewrite Hb. clear Hb.
  destruct (for_nat_p (length ac - i) (Z.of_nat i)
              (fun j0 '(max_, max_id) => if Qltb max_ (getQ ac j0) then (getQ ac j0, j0) else (max_, max_id))
              (getQ ac (Z.of_nat i), Z.of_nat i)) as [mx' mid'] eqn:E.
  cbn [snd] in Hin. subst mid'. rewrite getQ_nat in *.
  set (mid := find_max_from ac i (length ac - i) (nth i ac 0%Q) i).
  rewrite !getQ_nat, !getZ_nat, !setA_nat, !nth_map_Zofnat, !upd_map. reflexivity.
Qed.

Lemma argsort_outer (n : nat) (body : Z -> list Q * list Z -> list Q * list Z) :
  (forall i0 ac tr, body i0 (ac, tr) = argsort_step n i0 ac tr) ->
  forall (k i : nat) (ac : list Q) (idx : list nat), length ac = n ->
  snd (for_nat_p k (Z.of_nat i) body (ac, map Z.of_nat idx)) = map Z.of_nat (argsort_k_loop k i ac idx).
Proof.
  intro Hb. induction k as [|k IH]; intros i ac idx Hlen; [reflexivity|].
  cbn [for_nat_p argsort_k_loop]. rewrite Hb. subst n. rewrite argsort_step_eq.
  replace (Z.of_nat i + 1) with (Z.of_nat (Datatypes.S i)) by lia.
  apply IH. unfold swap. now rewrite !upd_length.
Qed.

Theorem code_argsort_k a (k : nat) : py_argsort_k a (Z.of_nat k) = map Z.of_nat (argsort_k a k).
Proof.
  unfold py_argsort_k, argsort_k. cbv zeta. unfold for_range_p at 1.
  rewrite Z.sub_0_r, Nat2Z.id.
  assert (Har : arange (zlen a) = map Z.of_nat (seq 0 (length a))).
  { unfold arange, zlen. now rewrite Nat2Z.id. }
  rewrite Har. unfold zlen.
  match goal with |- (let '(_, to_return) := for_nat_p k 0 ?b ?s in to_return) = _ =>
    change (snd (for_nat_p k (Z.of_nat 0) b s) = map Z.of_nat (argsort_k_loop k 0 a (seq 0 (length a)))) end.
  apply (argsort_outer (length a)); [|reflexivity].
  intros i0 ac tr. reflexivity.
Qed.

Lemma pbest_count_eq q : Z.max 1 (Qtrunc q) = Z.of_nat (Nat.max 1 (Z.to_nat (Qfloor' q))).
Proof.
  unfold Qtrunc, Qfloor'. destruct q as [num den]. cbn [Qnum Qden].
  destruct (Z_lt_le_dec num 0) as [Hneg|Hpos].
  - assert (Z.quot num (Z.pos den) <= 0) by (apply Z.quot_le_upper_bound; lia).
    assert (num / Z.pos den < 0) by (apply Z.div_lt_upper_bound; lia).
    lia.
  - rewrite Z.quot_div_nonneg by lia.
    assert (0 <= num / Z.pos den) by (apply Z.div_pos; lia). lia.
Qed.

Theorem code_find_pbest_id a p : py_find_pbest_id a p = map Z.of_nat (find_pbest_id a p).
Proof.
  unfold py_find_pbest_id, find_pbest_id, pbest_count. cbv zeta.
  unfold ZtoQ, zlen. rewrite pbest_count_eq.
  set (c := Nat.max 1 (Z.to_nat (Qfloor' (p * inject_Z (Z.of_nat (length a)))))).
  rewrite code_argsort_k. unfold sliceTo. rewrite pyidx_nat. apply firstn_map.
Qed.

(* ---------- the property theorems, restated about the GENERATED definitions ---------- *)
From Coq Require Import Permutation.

Theorem src_tournament_selection fitness rank (tour q : nat) ds ws ds' :
  valid_draws ds -> (0 < tour <= length fitness)%nat ->
  py_tournament_selection fitness rank (Z.of_nat tour) (Z.of_nat q) ds = Some (ws, ds') ->
  length ws = q /\
  Forall (fun w => 0 <= w < Z.of_nat (length fitness) /\ (tour <= count_le fitness w)%nat) ws.
Proof.
  intros Hv [Ht1 Ht2] H. rewrite code_tournament_selection in H by auto.
  exact (tournament_selection_spec fitness tour q ds ws ds' Hv Ht1 H).
Qed.

Theorem src_random_sample n (q : nat) replace ds r ds' :
  valid_draws ds -> replace = true \/ Z.of_nat q <= n ->
  py_random_sample n (Z.of_nat q) replace ds = Some (r, ds') ->
  length r = q /\ Forall (fun v => 0 <= v < n) r /\ (replace = false -> NoDup r).
Proof.
  intros Hv Hpre H. rewrite code_random_sample in H by auto.
  exact (random_sample_spec n q replace ds r ds' Hv H).
Qed.

Theorem src_weighted_selection w (q : nat) ds r ds' : w <> [] ->
  py_random_weighted_sample w (Z.of_nat q) true ds = Some (r, ds') ->
  length r = q /\ Forall (fun v => 0 <= v < Z.of_nat (length w)) r.
Proof.
  intros Hw H. rewrite code_random_weighted_sample in H by auto.
  exact (weighted_selection_count_range w q ds r ds' Hw H).
Qed.

Theorem src_sattolo_permutation arr ds r ds' :
  valid_draws ds -> py_sattolo_shuffle arr ds = Some (r, ds') -> Permutation arr r.
Proof.
  intros Hv H. rewrite code_sattolo_shuffle in H by auto. exact (sattolo_perm 0 arr ds r ds' Hv H).
Qed.

Theorem src_interval v c ds : c <> [] -> sorted c ->
  exists i, py_binary_search_interval v c ds = Some (Z.of_nat i, ds) /\
    (forall j, (j < i)%nat -> (nth j c 0 < v)%Q) /\ ((v <= nth i c 0)%Q \/ i = (length c - 1)%nat).
Proof.
  intros Hc Hs. exists (bsi v c). split; [now apply code_binary_search_interval|].
  exact (bsi_first v c Hc Hs).
Qed.

(* ---------- minmax_scale (utils/transformations.py; plain numpy, translated with the same reading) ---------- *)
Theorem code_minmax_scale l : py_minmax_scale l = minmax_scale l.
Proof.
  unfold py_minmax_scale, minmax_scale. cbv zeta.
  destruct (Qeq_bool (Qmax_list l) (Qmin_list l)).
  - unfold onesQ, zlen. rewrite Nat2Z.id. induction l as [|x t IH]; simpl; [reflexivity|]. now rewrite IH.
  - unfold vdivs, vsubs. rewrite map_map. reflexivity.
Qed.
