(* EALoop.v — the generation loop shared by all ten optimizers (C01, C02, C03, C05, C17).
   Sources: base/_ea.py (TheFittest._update/_replace, EvolutionaryAlgorithm.fit, _termitation_check,
   _get_aim, _get_fitness, _update_data, _from_population_g_to_fitness) and the overrides in
   optimizers/_differentialevolution.py, _jde.py, _shade.py, _shaga.py (_get_init_population,
   _get_new_population, _from_population_g_to_fitness).

   Two loop shapes:
     Generational (GA, SelfCGA, PDPGA, GP, SelfCGP, PDPGP): new population -> evaluate -> record -> elitism
     Greedy (DE, jDE, SHADE, SHAGA): evaluate pop_size trials, slot i takes its trial iff
        trial_fit >= parent_fit, then record (over the POPULATION) -> elitism.
   The variation operators are an arbitrary oracle  var : state -> list G  (their own correctness is
   C06-C08); the objective is the normalised fitness  nf p = sign * f p. *)
From TF Require Export Base.
Open Scope Q_scope.

Section Loop.
Variables G P : Type.
Variable g2p : G -> P.
Variable nf : P -> Q.

Record indiv := { ig : G; iph : P; ifit : Q }.
Definition eval (g : G) : indiv := {| ig := g; iph := g2p g; ifit := nf (g2p g) |}.

(* np.argmax: first maximum *)
Fixpoint first_max (b : indiv) (l : list indiv) : indiv :=
  match l with
  | [] => b
  | x :: t => if Qltb (ifit b) (ifit x) then first_max x t else first_max b t
  end.
Definition best_of (l : list indiv) : option indiv :=
  match l with [] => None | x :: t => Some (first_max x t) end.

(* one history entry (Statistics._update of _update_data): taken BEFORE the elitism write *)
Record snapshot := { s_pop : list indiv; s_max : option indiv }.

Inductive kind := Generational | Greedy.

Record state := {
  pop : list indiv;           (* working population (after elitism) *)
  best : option indiv;        (* TheFittest: None = nothing recorded yet (fitness -inf) *)
  counter : nat;              (* _no_update_counter *)
  gens : nat;                 (* evaluation batches so far *)
  calls : nat;                (* self._calls *)
  evaluated : list indiv;     (* ghost: every individual ever handed to the objective *)
  hist : list snapshot;       (* get_stats() when keep_history *)
  callbacks : nat             (* on_generation invocations *)
}.

Definition init_state : state :=
  {| pop := []; best := None; counter := 0; gens := 0; calls := 0; evaluated := []; hist := []; callbacks := 0 |}.

(* TheFittest._update: strict improvement replaces and resets the counter *)
Definition update_best (b : option indiv) (cnt : nat) (p : list indiv) : option indiv * nat :=
  match best_of p with
  | None => (b, cnt)
  | Some c =>
    match b with
    | None => (Some c, 0%nat)
    | Some b0 => if Qltb (ifit b0) (ifit c) then (Some c, 0%nat) else (Some b0, S cnt)
    end
  end.

Definition set_last (p : list indiv) (b : indiv) : list indiv :=
  match p with [] => [] | _ => removelast p ++ [b] end.

(* greedy replacement mask: trial >= parent *)
Fixpoint greedy (trials parents : list indiv) : list indiv :=
  match trials, parents with
  | t :: ts, p :: ps => (if Qle_bool (ifit p) (ifit t) then t else p) :: greedy ts ps
  | _, _ => parents
  end.

Variable k : kind.
Variable elitism : bool.
Variable keep_history : bool.

(* evaluate a batch of genotypes, merge it into the population, record, elitism *)
Definition step (first : bool) (st : state) (gs : list G) : state :=
  let batch := map eval gs in
  let pop1 := match k with
              | Generational => batch
              | Greedy => if first then batch else greedy batch (pop st)
              end in
  let '(b1, c1) := update_best (best st) (counter st) pop1 in
  let pop2 := if elitism then match b1 with Some b => set_last pop1 b | None => pop1 end else pop1 in
  {| pop := pop2; best := b1; counter := c1; gens := S (gens st);
     calls := (calls st + length batch)%nat;
     evaluated := evaluated st ++ batch;
     hist := if keep_history then hist st ++ [{| s_pop := pop1; s_max := best_of pop1 |}] else hist st;
     callbacks := callbacks st |}.

(* _get_aim / _termitation_check *)
Variable aim : option Q.             (* sign*optimal_value - termination_error_value, or None (= +inf) *)
Variable no_increase_num : option nat.

Definition terminate (st : state) : bool :=
  (match aim, best st with Some a, Some b => Qle_bool a (ifit b) | _, _ => false end) ||
  (match no_increase_num with Some n => (counter st =? n)%nat | None => false end).

Variable var : state -> list G.      (* variation oracle: the next batch of genotypes *)

Definition callback (st : state) : state :=
  {| pop := pop st; best := best st; counter := counter st; gens := gens st; calls := calls st;
     evaluated := evaluated st; hist := hist st; callbacks := S (callbacks st) |}.

(* for i in range(iters-1): if terminate: break  else: new generation; on_generation *)
Fixpoint loop (n : nat) (st : state) : state :=
  match n with
  | O => st
  | S n' => if terminate st then st else loop n' (callback (step false st (var st)))
  end.

Definition fit (iters : nat) (gs0 : list G) : state :=
  loop (iters - 1) (step true init_state gs0).

(* the states after each generation, in order (for "stops immediately after the first hit, never earlier") *)
Fixpoint trajectory (n : nat) (st : state) : list state :=
  match n with
  | O => [st]
  | S n' => if terminate st then [st] else st :: trajectory n' (callback (step false st (var st)))
  end.

End Loop.

Arguments ig {G P}. Arguments iph {G P}. Arguments ifit {G P}.
Arguments pop {G P}. Arguments best {G P}. Arguments counter {G P}. Arguments gens {G P}.
Arguments calls {G P}. Arguments evaluated {G P}. Arguments hist {G P}. Arguments callbacks {G P}.
Arguments s_pop {G P}. Arguments s_max {G P}.

(* normalisation: fitness = sign * objective,  aim = sign * optimal_value - termination_error_value *)
Definition sign_of (minimization : bool) : Q := if minimization then -1 # 1 else 1.
Definition norm_fit {P} (minimization : bool) (f : P -> Q) (p : P) : Q := sign_of minimization * f p.
Definition aim_of (minimization : bool) (optimal : option Q) (err : Q) : option Q :=
  match optimal with Some v => Some (sign_of minimization * v - err) | None => None end.
