(* C15Check.v — one-step case checkers for the parameter adaptation of SHADE / SHAGA / jDE. *)
From TF Require Import Base RandomPrims Adapt C11Check C07Check.
Open Scope Q_scope.

Definition pair3_close (a b : Z * Q * Q) : bool :=
  (fst (fst a) =? fst (fst b))%Z && Qclose_rel (snd (fst a)) (snd (fst b)) && Qclose_rel (snd a) (snd b).
Fixpoint pairs_close (a b : list (Z * Q * Q)) : bool :=
  match a, b with
  | [], [] => true
  | x :: a', y :: b' => pair3_close x y && pairs_close a' b'
  | _, _ => false
  end.
Definition chk_gen_shade (c : nat * Z * list draw * list (Z * Q * Q)) : bool :=
  let '(pop, H, ds, out) := c in chk_done pairs_close (shade_generate pop H ds) out.
Definition chk_gen_shaga (c : Q * nat * Z * list draw * list (Z * Q * Q)) : bool :=
  let '(hi, pop, H, ds, out) := c in chk_done pairs_close (shaga_generate hi pop H ds) out.

Definition qs_close (a b : list Q) : bool :=
  (length a =? length b)%nat && forallb (fun p => Qclose_rel (fst p) (snd p)) (combine a b).
Definition mem_close (a b : memory) : bool :=
  qs_close (mem_a a) (mem_a b) && qs_close (mem_b a) (mem_b b) && (mem_k a =? mem_k b)%nat.
Definition chk_mem_shade (c : memory * list Q * list Q * list Q * list Q * memory) : bool :=
  let '(m, par, trial, F, CR, out) := c in mem_close (shade_memory_step m par trial F CR) out.
Definition chk_mem_shaga (c : memory * list Q * list Q * list Q * list Q * memory) : bool :=
  let '(m, par, trial, MR, CR, out) := c in mem_close (shaga_memory_step m par trial MR CR) out.

Definition chk_archive (c : nat * list Z * list Z * list draw * list Z) : bool :=
  let '(pop, arch, worse, ds, out) := c in chk_done Zlist_eqb (append_archive 0%Z pop arch worse ds) out.

Definition chk_jde_F (c : Q * Q * Q * list Q * list draw * list Q) : bool :=
  let '(fmin, fmax, t, old, ds, out) := c in chk_done qs_close (jde_mutate_F fmin fmax t old ds) out.
Definition chk_jde_CR (c : Q * list Q * list draw * list Q) : bool :=
  let '(t, old, ds, out) := c in chk_done qs_close (jde_mutate_CR t old ds) out.
Definition chk_accept (c : list Q * list Q * list Q * list Q * list Q) : bool :=
  let '(par, trial, old, new, out) := c in qs_close (accept_only par trial old new) out.

(* direct one-step cases of the cell update: code 0 = SHADE F, 1 = SHADE CR, 2 = SHAGA (MR or CR) *)
Definition chk_upd (c : nat * Q * list Q * list Q * Q) : bool :=
  let '(code, u, Sv, df, out) := c in
  Qclose_rel (match code with 0%nat => shade_update_F u Sv | 1%nat => shade_update_CR u Sv df | _ => shaga_update u Sv df end) out.
