(* GPOpsProofs3.v — C08, part 3: swap mutation.
   The repaired code (splices from the right-most argument position to the left) permutes the
   arguments of ONE node of arity > 1 and changes nothing else — for EVERY arity.  The code as it
   was (splices in argument order, positions stale after the first splice) is refuted by an
   arity-3 witness evaluated with vm_compute. *)
From Coq Require Import List Arith Bool Lia ZArith QArith Permutation Sorted.
Import ListNotations.
From TF Require Import Base RandomPrims RandomPrimsProofs RandomPrimsProofs2 Tree TreeIdx TreeProofs TreeProofs2 GPOps GPOpsProofs.
Open Scope nat_scope.

(* ------------------------------------------------------------------ sorting by decreasing key *)
Fixpoint ins_d (x : nat) (l : list nat) : list nat :=
  match l with
  | [] => [x]
  | y :: r => if y <? x then x :: l else y :: ins_d x r
  end.
Fixpoint sort_d (l : list nat) : list nat :=
  match l with [] => [] | x :: r => ins_d x (sort_d r) end.

Lemma insert_desc_snd x l : map snd (insert_desc x l) = ins_d (snd x) (map snd l).
Proof. induction l as [|y r IH]; simpl; auto. destruct (snd y <? snd x); simpl; congruence. Qed.
Lemma sort_desc_snd l : map snd (sort_desc l) = sort_d (map snd l).
Proof. induction l as [|x r IH]; simpl; auto. rewrite insert_desc_snd, IH. reflexivity. Qed.
Lemma insert_desc_perm x l : Permutation (insert_desc x l) (x :: l).
Proof.
  induction l as [|y r IH]; simpl; auto. destruct (snd y <? snd x); auto.
  eapply Permutation_trans; [apply perm_skip; exact IH|]. apply perm_swap.
Qed.
Lemma sort_desc_perm l : Permutation (sort_desc l) l.
Proof.
  induction l as [|x r IH]; simpl; auto.
  eapply Permutation_trans; [apply insert_desc_perm|]. auto.
Qed.
Lemma ins_d_perm x l : Permutation (ins_d x l) (x :: l).
Proof.
  induction l as [|y r IH]; simpl; auto. destruct (y <? x); auto.
  eapply Permutation_trans; [apply perm_skip; exact IH|]. apply perm_swap.
Qed.
Lemma sort_d_perm l : Permutation (sort_d l) l.
Proof.
  induction l as [|x r IH]; simpl; auto.
  eapply Permutation_trans; [apply ins_d_perm|]. auto.
Qed.

Definition desc (l : list nat) : Prop := StronglySorted (fun a b => b <= a) l.
Lemma ins_d_desc x l : desc l -> desc (ins_d x l).
Proof.
  unfold desc. induction l as [|y r IH]; intros H; simpl.
  - repeat constructor.
  - apply StronglySorted_inv in H. destruct H as (Hr & Hy). destruct (y <? x) eqn:E.
    + apply Nat.ltb_lt in E. apply SSorted_cons.
      * apply SSorted_cons; auto.
      * constructor; [lia|]. eapply Forall_impl; [|exact Hy]. simpl. intros; lia.
    + apply Nat.ltb_ge in E. apply SSorted_cons; auto.
      rewrite Forall_forall. intros z Hz. apply (Permutation_in _ (ins_d_perm x r)) in Hz.
      destruct Hz as [<-|Hz]; auto. rewrite Forall_forall in Hy. auto.
Qed.
Lemma sort_d_desc l : desc (sort_d l).
Proof. induction l; simpl; [constructor|]. apply ins_d_desc; auto. Qed.

(* a decreasing list is determined by its elements *)
Lemma desc_unique : forall l1 l2, desc l1 -> desc l2 -> Permutation l1 l2 -> l1 = l2.
Proof.
  unfold desc. induction l1 as [|x l1 IH]; intros l2 H1 H2 P.
  - apply Permutation_nil in P. auto.
  - destruct l2 as [|y l2]; [apply Permutation_sym, Permutation_nil in P; discriminate|].
    apply StronglySorted_inv in H1. destruct H1 as (S1 & F1).
    apply StronglySorted_inv in H2. destruct H2 as (S2 & F2).
    rewrite Forall_forall in F1, F2.
    assert (x = y).
    { assert (Hx : In x (y :: l2)) by (eapply Permutation_in; [exact P|left; auto]).
      assert (Hy : In y (x :: l1)) by (eapply Permutation_in; [apply Permutation_sym; exact P|left; auto]).
      destruct Hx as [Hx|Hx]; auto. destruct Hy as [Hy|Hy]; auto.
      apply F2 in Hx. apply F1 in Hy. lia. }
    subst y. f_equal. apply IH; auto. eapply Permutation_cons_inv; eauto.
Qed.

Lemma map_fst_combine {A B} : forall (a : list A) (b : list B), length a = length b -> map fst (combine a b) = a.
Proof. induction a; intros [|y b] H; simpl in *; try discriminate; auto. f_equal. auto. Qed.
Lemma map_snd_combine {A B} : forall (a : list A) (b : list B), length a = length b -> map snd (combine a b) = b.
Proof. induction a; intros [|y b] H; simpl in *; try discriminate; auto. f_equal. auto. Qed.

(* validity of the remaining draws *)
Lemma flip_coin_valid p ds b ds' : valid_draws ds -> flip_coin p ds = Some (b, ds') -> valid_draws ds'.
Proof.
  unfold flip_coin, bind, popU, ret. intros Hv H. destruct ds as [|[u|? ?|?] r]; try discriminate.
  inversion H; subst. inversion Hv; auto.
Qed.
Lemma sample_index_valid n ds i ds' : valid_draws ds -> sample_index n ds = Some (i, ds') -> valid_draws ds'.
Proof.
  unfold sample_index. intros Hv H. minv H. minv H. inversion H; subst.
  eapply random_sample_suffix; eauto.
Qed.

Ltac lst := unfold flats; repeat first [rewrite flat_map_app | rewrite <- app_assoc | rewrite app_nil_r | progress simpl]; try reflexivity.

Section S.
  Context {sym : Type}.
  Variable arity : sym -> nat.
  Notation tree := (tree sym).
  Notation nargs := (nargs arity).
  Notation wft := (wft arity).
  Notation wff := (wff arity).
  Notation mk := (mk arity).
  Notation good := (good arity).

  Lemma child_starts_app : forall (a b : list tree) o,
    child_starts o (a ++ b) = child_starts o a ++ child_starts (o + sizes a) b.
  Proof.
    induction a as [|k a IH]; intros b o; simpl.
    - unfold sizes; simpl. rewrite Nat.add_0_r. reflexivity.
    - rewrite IH, sizes_cons. f_equal. f_equal. f_equal. lia.
  Qed.

  Lemma child_starts_ge : forall (kids : list tree) o x, In x (child_starts o kids) -> o <= x.
  Proof.
    induction kids as [|k r IH]; intros o x H; simpl in H; [contradiction|].
    destruct H as [<-|H]; auto. apply IH in H. lia.
  Qed.
  (* argument positions increase: reversed they are decreasing *)
  Lemma child_starts_rev_desc : forall (kids : list tree) o, desc (rev (child_starts o kids)).
  Proof.
    unfold desc. induction kids as [|k r IH] using rev_ind; intros o; simpl; [constructor|].
    rewrite child_starts_app. simpl. rewrite rev_app_distr. simpl.
    apply SSorted_cons; auto. rewrite Forall_forall. intros x Hx. apply in_rev in Hx.
    clear IH. revert o x Hx. induction r as [|k' r IH]; intros o x Hx; simpl in Hx; [contradiction|].
    rewrite sizes_cons. destruct Hx as [<-|Hx]; [lia|]. apply IH in Hx. pose proof (size_pos k'). lia.
  Qed.

  (* what subtree(o) returns at every argument position *)
  Definition arg_at (orig : list sym) (o : nat) (k : tree) : Prop :=
    wft k = true /\ subtree arity orig o = Some (flatten k).
  Lemma args_subtrees : forall (kids : list tree) pre post, wff kids = true ->
    Forall2 (arg_at (pre ++ flats kids ++ post)) (child_starts (length pre) kids) kids.
  Proof.
    induction kids as [|k r IH]; intros pre post W; cbn [child_starts]; [constructor|].
    apply wff_cons in W. destruct W as (Wk & Wr). constructor.
    - split; auto. rewrite flats_cons, <- app_assoc. apply subtree_occ; auto.
    - specialize (IH (pre ++ flatten k) post Wr).
      rewrite app_length, flatten_length in IH.
      rewrite flats_cons. replace (pre ++ (flatten k ++ flats r) ++ post) with ((pre ++ flatten k) ++ flats r ++ post)
        by (rewrite <- !app_assoc; reflexivity).
      exact IH.
  Qed.

  (* THE loop: slots are visited from the right-most to the left; [todo] are the arguments not yet
     overwritten (their positions are still those of the original tree), [done] the new suffix *)
  Lemma splice_all_desc s post (orig : list sym) : forall (todo : list tree) pre (done : list tree) L Ks,
    wff todo = true ->
    map snd L = rev (child_starts (S (length pre)) todo) ->
    Forall2 (arg_at orig) (map fst L) Ks ->
    splice_all (mk orig) L (mk (pre ++ s :: flats todo ++ flats done ++ post))
    = Some (mk (pre ++ s :: flats (rev Ks) ++ flats done ++ post)).
  Proof.
    induction todo as [|k todo IH] using rev_ind; intros pre done L Ks W HL HK.
    - simpl in HL. destruct L; [|discriminate]. inversion HK; subst. reflexivity.
    - rewrite child_starts_app in HL. simpl in HL. rewrite rev_app_distr in HL. simpl in HL.
      destruct L as [|[old nw] L]; [discriminate|]. simpl in HL. inversion HL as [[Hnw HL']]; clear HL.
      simpl in HK. inversion HK as [|? K0 ? Ks' (WK0 & HS) HK']; subst.
      unfold Tree.wff in W. rewrite forallb_app in W. apply andb_true_iff in W. destruct W as (Wt & Wk).
      simpl in Wk. rewrite andb_true_r in Wk.
      cbn [splice_all]. rewrite subtree_p_mk, HS. cbn [option_map].
      rewrite concat_p_mk.
      replace (pre ++ s :: flats (todo ++ [k]) ++ flats done ++ post)
        with ((pre ++ s :: flats todo) ++ flatten k ++ (flats done ++ post)).
      2:{ lst. }
      replace (S (length pre + sizes todo)) with (length (pre ++ s :: flats todo)).
      2:{ rewrite app_length. simpl. rewrite flats_length. lia. }
      rewrite concat_occ by auto. cbn [option_map obind].
      replace ((pre ++ s :: flats todo) ++ flatten K0 ++ flats done ++ post)
        with (pre ++ s :: flats todo ++ flats (K0 :: done) ++ post).
      2:{ lst. }
      rewrite (IH pre (K0 :: done) L Ks' Wt HL' HK').
      f_equal. f_equal. lst.
  Qed.

  (* ---------------------------------------------------------------- swap_mutation *)
  (* named behaviour: the arguments of ONE node of arity > 1 are permuted; nothing else changes *)
  Definition is_arg_perm (T C : tree) : Prop :=
    exists i s kids K, sub_at T i = Some (Node s kids) /\ 1 < arity s /\ Permutation kids K /\
      C = replace_at T i (Node s K).

  Theorem swap_mutation_spec t T (U : uniset) proba ds c ds' :
    good t T -> valid_draws ds ->
    swap_mutation t U proba ds = Some (c, ds') ->
    exists C, good c C /\ (C = T \/ is_arg_perm T C).
  Proof.
    intros G Hv H. unfold swap_mutation, swap_with in H.
    minv H. pose proof (flip_coin_valid _ _ _ _ Hv Hm) as Hv1. destruct a.
    2:{ minv H. inversion H; subst. exists T. auto. }
    destruct (positions_where (fun n => 1 <? n) (snd t)) as [|i0 idx] eqn:Ei.
    { minv H. inversion H; subst. exists T. auto. }
    minv H. pose proof (sample_index_valid _ _ _ _ Hv1 Hm0) as Hv2.
    destruct (nth_error (i0 :: idx) a) as [i|] eqn:En; [|minv H].
    destruct (find_args (snd t) i) as [args|] eqn:Ea; [|minv H].
    minv H. minv H. inversion H; subst; clear H.
    pose proof G as (W & Et).
    assert (Hpos : In i (positions_where (fun n => 1 <? n) (snd t))) by (rewrite Ei; eapply nth_error_In; eauto).
    apply positions_where_In in Hpos. destruct Hpos as (n & Hn & Hn1). apply Nat.ltb_lt in Hn1.
    assert (Hi : i < size T).
    { assert (i < length (snd t)) by (apply nth_error_Some; congruence).
      rewrite Et in H. simpl in H. rewrite nargs_length, flatten_length in H. auto. }
    destruct (node_at T i Hi) as (s & kids & pre & post & Hu & E & L & R).
    pose proof (sub_at_wf arity T W _ _ Hu) as Wu.
    assert (Hargs : args = child_starts (S i) kids).
    { rewrite Et in Ea. simpl in Ea. rewrite E, <- L in Ea. rewrite (find_args_flat arity s kids pre post Wu) in Ea.
      congruence. }
    assert (Har : arity s = n).
    { rewrite Et in Hn. simpl in Hn. rewrite E, <- L in Hn. rewrite flatten_Node in Hn.
      unfold Tree.nargs in Hn. rewrite map_app in Hn. simpl in Hn.
      rewrite <- (map_length arity pre) in Hn. rewrite nth_error_occ in Hn. congruence. }
    apply wft_Node in Wu. destruct Wu as (Lk & Wk).
    (* the shuffled positions *)
    pose proof (sattolo_perm _ _ _ _ _ Hv2 Hm1) as Pn.
    pose proof (Permutation_length Pn) as Ln.
    set (Lp := sort_desc (combine args a0)) in *.
    assert (HLsnd : map snd Lp = rev args).
    { apply desc_unique.
      - unfold Lp. rewrite sort_desc_snd. apply sort_d_desc.
      - rewrite Hargs. apply child_starts_rev_desc.
      - unfold Lp. rewrite sort_desc_snd, map_snd_combine by auto.
        eapply Permutation_trans; [apply sort_d_perm|].
        eapply Permutation_trans; [apply Permutation_sym; exact Pn|]. apply Permutation_rev. }
    assert (HLfst : Permutation args (map fst Lp)).
    { unfold Lp. apply Permutation_sym.
      eapply Permutation_trans; [apply Permutation_map; apply sort_desc_perm|].
      rewrite map_fst_combine by auto. apply Permutation_refl. }
    pose proof (args_subtrees kids (pre ++ [s]) post Wk) as HA.
    replace (length (pre ++ [s])) with (S i) in HA by (rewrite app_length; simpl; lia).
    rewrite <- Hargs in HA.
    destruct (Permutation_Forall2 HLfst HA) as (Ks & PK & HK).
    assert (Eorig : (pre ++ [s]) ++ flats kids ++ post = flatten T).
    { rewrite E, flatten_Node, <- app_assoc. reflexivity. }
    rewrite Eorig in HK.
    pose proof (splice_all_desc s post (flatten T) kids pre [] Lp Ks Wk) as X.
    rewrite L in X. rewrite <- Hargs in X. specialize (X HLsnd HK).
    simpl flats in X. rewrite !app_nil_l in X.
    replace (pre ++ s :: flats kids ++ post) with (flatten T) in X by (rewrite E, flatten_Node; reflexivity).
    rewrite Et in Hl. fold Lp in Hl. rewrite X in Hl. inversion Hl; subst a1; clear Hl.
    assert (WK : Forall (fun k => wft k = true) Ks).
    { clear - HK. induction HK as [|o k l1 l2 (Wk' & _) _ IH]; constructor; auto. }
    assert (PK' : Permutation kids (rev Ks)) by (eapply Permutation_trans; [exact PK|apply Permutation_rev]).
    exists (replace_at T i (Node s (rev Ks))). split.
    - split.
      + apply replace_at_wf; auto. apply wft_Node. split.
        * rewrite <- (Permutation_length PK'). auto.
        * unfold Tree.wff. apply forallb_forall. intros k Hk. apply in_rev in Hk.
          rewrite Forall_forall in WK. auto.
      + rewrite R, flatten_Node. reflexivity.
    - right. exists i, s, kids, (rev Ks). repeat split; auto. lia.
  Qed.

  Lemma depth_f_perm (a b : list tree) : Permutation a b -> depth_f a = depth_f b.
  Proof.
    induction 1 as [|x l l' P IH|x y l|l l' l'' P1 IH1 P2 IH2].
    - reflexivity.
    - rewrite !depth_f_cons. lia.
    - rewrite !depth_f_cons. lia.
    - lia.
  Qed.
  Lemma flats_perm_In (a b : list tree) x : Permutation a b -> In x (flats a) -> In x (flats b).
  Proof.
    intros P H. unfold flats in *. apply in_flat_map in H. destruct H as (k & Hk & Hx).
    apply in_flat_map. exists k. split; auto. eapply Permutation_in; eauto.
  Qed.
  Lemma sizes_perm (a b : list tree) : Permutation a b -> sizes a = sizes b.
  Proof.
    induction 1 as [|x l l' P IH|x y l|l l' l'' P1 IH1 P2 IH2].
    - reflexivity.
    - rewrite !sizes_cons. lia.
    - rewrite !sizes_cons. lia.
    - lia.
  Qed.

  Lemma arg_perm_depth T C : is_arg_perm T C -> depth C <= depth T.
  Proof.
    intros (i & s & kids & K & Hu & _ & P & ->). eapply replace_depth_le; eauto.
    rewrite !depth_Node, (depth_f_perm _ _ P). lia.
  Qed.
  Lemma arg_perm_syms T C x : is_arg_perm T C -> In x (flatten C) -> In x (flatten T).
  Proof.
    intros (i & s & kids & K & Hu & _ & P & ->) Hx.
    destruct (replace_syms arity _ _ _ _ _ Hu Hx) as [|Hy]; auto.
    eapply sub_syms; eauto. rewrite flatten_Node in *. destruct Hy as [<-|Hy]; [left; auto|right].
    eapply flats_perm_In; [apply Permutation_sym; exact P|auto].
  Qed.
  Lemma arg_perm_size T C : is_arg_perm T C -> size C = size T.
  Proof.
    intros (i & s & kids & K & Hu & _ & P & ->).
    destruct (sub_at_decomp T i _ Hu) as (pre & post & E & _ & R).
    rewrite <- !flatten_length, R, E, !app_length, !flatten_length, !size_Node, (sizes_perm _ _ P). reflexivity.
  Qed.

  Theorem swap_mutation_closed t (U : uniset) proba ds c ds' ml :
    wfp arity t -> valid_draws ds ->
    swap_mutation t U proba ds = Some (c, ds') ->
    wfp arity c /\ (forall x, In x (fst c) -> In x (fst t)) /\ (depthp t <= ml -> depthp c <= ml).
  Proof.
    intros W Hv H. apply wfp_good in W. destruct W as (T & G).
    destruct (swap_mutation_spec _ _ _ _ _ _ _ G Hv H) as (C & GC & HC).
    split; [eapply good_wfp; eauto|].
    rewrite (good_depth _ _ _ G), (good_depth _ _ _ GC).
    destruct G as (_ & ->). destruct GC as (_ & ->). simpl. split.
    - intros x Hx. destruct HC as [->|HC]; auto. eapply arg_perm_syms; eauto.
    - intros D. destruct HC as [->|HC]; auto. pose proof (arg_perm_depth _ _ HC). lia.
  Qed.
End S.

(* ------------------------------------------------------------------ the code before the repair *)
Definition sy2 := (nat * nat)%type.
Definition U0 : uniset (sym := sy2) := {| u_funcs := []; u_terms := [] |}.
(* f(g(x2), x3, x4): arguments of different sizes under a node of arity 3 *)
Definition wit_tree : list sy2 := [(96, 3); (33, 1); (2, 0); (3, 0); (4, 0)].
Definition wit_draws : list draw := [DU (1 # 4); DI 1 0; DU (3 # 4); DU (1 # 2)].
(* f(x1, g(x3), x4): the stale position runs past the end of the arity array *)
Definition wit_tree2 : list sy2 := [(96, 3); (1, 0); (34, 1); (3, 0); (4, 0)].
Definition wit_draws2 : list draw := [DU (1 # 4); DI 1 0; DU (1 # 4); DU (1 # 2)].

Lemma wit_valid : valid_draws wit_draws /\ valid_draws wit_draws2.
Proof. split; repeat constructor; simpl; try lra; try lia. Qed.

(* the old code returns f(x3, x3, x4): one argument lost, one duplicated, size 4 instead of 5 —
   no permutation of the arguments of any node; the same call on the repaired model permutes *)
Theorem swap_old_refuted :
  exists (T : tree sy2) ds c ds',
    wft snd T = true /\ valid_draws ds /\
    swap_mutation_old (mk snd (flatten T)) U0 (1 # 2) ds = Some (c, ds') /\
    ~ (exists C, good snd c C /\ (C = T \/ is_arg_perm snd T C)).
Proof.
  exists (Node (96, 3) [Node (33, 1) [Node (2, 0) []]; Node (3, 0) []; Node (4, 0) []]).
  exists wit_draws, ([(96, 3); (3, 0); (3, 0); (4, 0)], [3; 0; 0; 0]), [].
  split; [reflexivity|]. split; [apply wit_valid|]. split; [vm_compute; reflexivity|].
  intros (C & (WC & EC) & HC).
  assert (HS : size C = 5).
  { destruct HC as [->|HC]; [reflexivity|]. rewrite (arg_perm_size snd _ _ HC). reflexivity. }
  assert (H4 : length (flatten C) = 4).
  { unfold mk in EC. injection EC as E1 E2. apply (f_equal (@length _)) in E1. simpl in E1. lia. }
  rewrite flatten_length in H4. lia.
Qed.

(* the old code reads out of range (IndexError as plain python, unchecked read when compiled) *)
Theorem swap_old_out_of_range :
  exists (T : tree sy2) ds,
    wft snd T = true /\ valid_draws ds /\ swap_mutation_old (mk snd (flatten T)) U0 (1 # 2) ds = None /\
    exists c, swap_mutation (mk snd (flatten T)) U0 (1 # 2) ds = Some (c, []).
Proof.
  exists (Node (96, 3) [Node (1, 0) []; Node (34, 1) [Node (3, 0) []]; Node (4, 0) []]), wit_draws2.
  split; [reflexivity|]. split; [apply wit_valid|]. split; [vm_compute; reflexivity|].
  eexists. vm_compute. reflexivity.
Qed.
