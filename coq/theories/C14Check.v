(* C14Check.v — one-step case checkers for the self-configuration rules. *)
From TF Require Import Base RandomPrims SelfConf C11Check C07Check.
Open Scope Q_scope.

Definition qs_close (a b : list Q) : bool :=
  (length a =? length b)%nat && forallb (fun p => Qclose_rel (fst p) (snd p)) (combine a b).
Definition maps_close (a b : maps) : bool :=
  qs_close (m_sel a) (m_sel b) && qs_close (m_cx a) (m_cx b) && qs_close (m_mu a) (m_mu b).
Definition ops_eqb (a b : ops) : bool :=
  natlist_eqb (o_sel a) (o_sel b) && natlist_eqb (o_cx a) (o_cx b) && natlist_eqb (o_mu a) (o_mu b).
Definition chk_step (r : option (maps * ops * list draw)) (em : maps) (eo : ops) : bool :=
  match r with Some (m, o, []) => maps_close m em && ops_eqb o eo | _ => false end.

Definition chk_selfc (c : Q * Q * (Q * Q * Q) * nat * maps * ops * list Q * list draw * maps * ops) : bool :=
  let '(K, iters, (ts, tc, tm), pop, m, o, fit, ds, em, eo) := c in
  chk_step (selfc_adapt K iters ts tc tm pop m o fit ds) em eo.
Definition chk_pdp (c : (Q * Q * Q) * nat * maps * ops * list Q * list Q * list draw * maps * ops) : bool :=
  let '((ts, tc, tm), pop, m, o, prev, fit, ds, em, eo) := c in
  chk_step (pdp_adapt ts tc tm pop m o prev fit ds) em eo.
(* constructor: (z, position of 'empty' among the sorted crossover names or None, the map) *)
Definition chk_init (c : nat * option nat * list Q) : bool :=
  let '(z, e, p) := c in
  qs_close (match e with Some i => init_with_empty z i | None => init_uniform z end) p.
