(* Gray.v — model of GrayCode.gray_to_bit / GrayCode.bit_to_gray
   (src/thefittest/utils/transformations.py).  One row of the 2-D array = list bool, MSB first.
   Model only; proofs are in GridProofs.v. *)
From TF Require Import Base.

(* np.logical_xor.accumulate(gray_array, axis=-1):
     out[0] = gray[0];  out[i] = out[i-1] xor gray[i] *)
Fixpoint xor_acc (acc : bool) (g : list bool) : list bool :=
  match g with
  | [] => []
  | x :: t => let a := xorb acc x in a :: xor_acc a t
  end.
Definition gray_to_bits (g : list bool) : list bool :=
  match g with
  | [] => []
  | x :: t => x :: xor_acc x t
  end.

(* cut_gray = logical_xor(bit[:, :-1], bit[:, 1:]);  gray = hstack([bit[:, 0], cut_gray])
   (on an array with zero columns the code raises IndexError; the model returns []) *)
Fixpoint xor_pairs (prev : bool) (bs : list bool) : list bool :=
  match bs with
  | [] => []
  | x :: t => xorb prev x :: xor_pairs x t
  end.
Definition bits_to_gray (bs : list bool) : list bool :=
  match bs with
  | [] => []
  | x :: t => x :: xor_pairs x t
  end.

(* number of positions in which two strings differ (specification vocabulary) *)
Fixpoint hamming (a b : list bool) : nat :=
  match a, b with
  | x :: a', y :: b' => ((if Bool.eqb x y then 0 else 1) + hamming a' b')%nat
  | _, _ => O
  end.
