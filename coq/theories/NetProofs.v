(* NetProofs.v — C13, part 1: set/list lemmas, the dispatch of __add__/__gt__ terminates,
   the layering invariant and its preservation by add_plain / gt_plain.                           *)
From TF Require Import Base Net NetAlgebra.
From Coq Require Import Permutation Sorted.
Local Open Scope nat_scope.

(* ------------------------------------------------------------------ sets as lists *)
Lemma mem_In x l : mem x l = true <-> In x l.
Proof.
  unfold mem. rewrite existsb_exists. split.
  - intros [y [H E]]. apply Nat.eqb_eq in E. subst; auto.
  - intro H. exists x. split; auto. apply Nat.eqb_refl.
Qed.
Lemma mem_false x l : mem x l = false <-> ~ In x l.
Proof.
  rewrite <- mem_In. destruct (mem x l); split; intro H; try congruence.
Qed.
Lemma union_In a b x : In x (union a b) <-> In x a \/ In x b.
Proof.
  unfold union. rewrite in_app_iff, filter_In, negb_true_iff, mem_false.
  split; [tauto|]. intros [H|H]; auto. destruct (in_dec Nat.eq_dec x a); auto.
Qed.
Lemma diff_In a b x : In x (diff a b) <-> In x a /\ ~ In x b.
Proof. unfold diff. rewrite filter_In, negb_true_iff, mem_false. tauto. Qed.
Lemma subset_spec a b : subset a b = true <-> (forall x, In x a -> In x b).
Proof.
  unfold subset. rewrite forallb_forall. split; intros H x Hx.
  - apply mem_In, H, Hx.
  - apply mem_In, H, Hx.
Qed.
Lemma set_eq_spec a b : set_eq a b = true <-> (forall x, In x a <-> In x b).
Proof.
  unfold set_eq. rewrite andb_true_iff, !subset_spec. split.
  - intros [H1 H2] x; split; auto.
  - intro H; split; intros x; apply H.
Qed.
Lemma is_nil_true {A} (l : list A) : is_nil l = true <-> l = [].
Proof. destruct l; simpl; split; congruence. Qed.
Lemma is_nil_false {A} (l : list A) : is_nil l = false <-> l <> [].
Proof. destruct l; simpl; split; congruence. Qed.

Lemma NoDup_app_intro {A} (l1 l2 : list A) :
  NoDup l1 -> NoDup l2 -> (forall x, In x l1 -> In x l2 -> False) -> NoDup (l1 ++ l2).
Proof.
  induction l1 as [|h t IH]; simpl; intros H1 H2 H; auto.
  inversion H1; subst. constructor.
  - rewrite in_app_iff. intros [Hc|Hc]; auto. apply (H h); auto.
  - apply IH; auto. intros x Hx Hy. apply (H x); auto.
Qed.
Lemma NoDup_app_elim {A} (l1 l2 : list A) :
  NoDup (l1 ++ l2) -> NoDup l1 /\ NoDup l2 /\ (forall x, In x l1 -> In x l2 -> False).
Proof.
  induction l1 as [|h t IH]; simpl; intro H.
  - repeat split; auto. constructor.
  - inversion H; subst. destruct (IH H3) as [A1 [A2 A3]]. repeat split; auto.
    + constructor; auto. intro Hc. apply H2. apply in_app_iff; auto.
    + intros x [Hx|Hx] Hy.
      * subst. apply H2. apply in_app_iff; auto.
      * apply (A3 x); auto.
Qed.
Lemma NoDup_filter {A} (f : A -> bool) l : NoDup l -> NoDup (filter f l).
Proof.
  induction l as [|h t IH]; simpl; intro H; auto. inversion H; subst.
  destruct (f h); auto. constructor; auto. rewrite filter_In. tauto.
Qed.
Lemma NoDup_union a b : NoDup a -> NoDup b -> NoDup (union a b).
Proof.
  intros Ha Hb. unfold union. apply NoDup_app_intro; auto.
  - apply NoDup_filter; auto.
  - intros x Hx Hy. apply filter_In in Hy. destruct Hy as [_ Hy].
    apply negb_true_iff, mem_false in Hy. auto.
Qed.
Lemma NoDup_diff a b : NoDup a -> NoDup (diff a b).
Proof. apply NoDup_filter. Qed.
Lemma union_nil_r a : union a [] = a.
Proof. unfold union. simpl. apply app_nil_r. Qed.
Lemma union_nil_l a : union [] a = a.
Proof.
  unfold union. simpl. induction a as [|h t IH]; simpl; auto. f_equal; auto.
Qed.
Lemma union_disjoint a b : (forall x, In x a -> In x b -> False) -> union a b = a ++ b.
Proof.
  intro H. unfold union. f_equal. induction b as [|h t IH]; simpl; auto.
  destruct (mem h a) eqn:E.
  - apply mem_In in E. exfalso. apply (H h); simpl; auto.
  - simpl. f_equal. apply IH. intros x Hx Hy. apply (H x); simpl; auto.
Qed.

Lemma assemble_In hs x : In x (assemble hs) <-> In x (concat hs).
Proof.
  induction hs as [|h t IH]; simpl; [tauto|].
  rewrite union_In, in_app_iff, IH. tauto.
Qed.
Lemma NoDup_assemble hs : Forall (@NoDup nat) hs -> NoDup (assemble hs).
Proof.
  induction 1; simpl. constructor. apply NoDup_union; auto.
Qed.

(* ------------------------------------------------------------------ np.unique(axis=0) *)
Lemma pair_eqb_eq p q : pair_eqb p q = true <-> p = q.
Proof.
  unfold pair_eqb. destruct p, q; simpl. rewrite andb_true_iff, !Nat.eqb_eq.
  split; [intros [-> ->]; auto | intro H; inversion H; auto].
Qed.
Lemma ins_uniq_In x l y : In y (ins_uniq x l) <-> y = x \/ In y l.
Proof.
  induction l as [|h t IH]; simpl.
  - intuition.
  - destruct (pair_eqb x h) eqn:E.
    + apply pair_eqb_eq in E. subst. simpl. intuition.
    + destruct (pair_ltb x h); simpl; rewrite ?IH; intuition.
Qed.
Lemma sort_dedup_In l y : In y (sort_dedup l) <-> In y l.
Proof.
  induction l as [|h t IH]; simpl; [tauto|].
  unfold sort_dedup in *. simpl. rewrite ins_uniq_In, IH. intuition.
Qed.
Definition plt (p q : nat * nat) : Prop := pair_ltb p q = true.
Lemma plt_spec p q : plt p q <-> fst p < fst q \/ (fst p = fst q /\ snd p < snd q).
Proof.
  unfold plt, pair_ltb. rewrite orb_true_iff, andb_true_iff, !Nat.ltb_lt, Nat.eqb_eq. tauto.
Qed.
Lemma plt_irrefl p : ~ plt p p.
Proof. rewrite plt_spec. lia. Qed.
Lemma plt_trans p q r : plt p q -> plt q r -> plt p r.
Proof. rewrite !plt_spec. lia. Qed.
Lemma plt_total p q : pair_eqb p q = false -> pair_ltb p q = false -> plt q p.
Proof.
  intros H1 H2. rewrite plt_spec.
  assert (A : ~ plt p q) by (unfold plt; congruence). rewrite plt_spec in A.
  assert (B : p <> q) by (intro E; apply pair_eqb_eq in E; congruence).
  destruct p as [a b], q as [c d]; simpl in *.
  destruct (Nat.eq_dec a c); [subst|lia].
  destruct (Nat.eq_dec b d); [subst; congruence|lia].
Qed.
Lemma ins_uniq_sorted x l : StronglySorted plt l -> StronglySorted plt (ins_uniq x l).
Proof.
  induction l as [|h t IH]; simpl; intro H.
  - repeat constructor.
  - inversion H; subst. destruct (pair_eqb x h) eqn:E; auto.
    destruct (pair_ltb x h) eqn:E2.
    + constructor; auto. constructor; auto.
      eapply Forall_impl; [|exact H3]. intros a Ha. eapply plt_trans; eauto.
    + constructor; auto. apply Forall_forall. intros y Hy. apply ins_uniq_In in Hy.
      destruct Hy as [->|Hy].
      * apply plt_total; auto.
      * rewrite Forall_forall in H3. auto.
Qed.
Lemma sort_dedup_sorted l : StronglySorted plt (sort_dedup l).
Proof.
  induction l as [|h t IH]; simpl. constructor.
  unfold sort_dedup in *. simpl. apply ins_uniq_sorted; auto.
Qed.
Lemma sorted_NoDup l : StronglySorted plt l -> NoDup l.
Proof.
  induction 1; constructor; auto.
  intro Hc. rewrite Forall_forall in H0. apply (plt_irrefl a). auto.
Qed.
Lemma sort_dedup_NoDup l : NoDup (sort_dedup l).
Proof. apply sorted_NoDup, sort_dedup_sorted. Qed.
Lemma ins_uniq_length x l : length (ins_uniq x l) <= S (length l).
Proof.
  induction l as [|h t IH]; simpl; auto.
  destruct (pair_eqb x h); simpl; auto. destruct (pair_ltb x h); simpl; lia.
Qed.
Lemma sort_dedup_length l : length (sort_dedup l) <= length l.
Proof.
  induction l as [|h t IH]; simpl; auto. unfold sort_dedup in *. simpl.
  pose proof (ins_uniq_length h (fold_right ins_uniq [] t)). lia.
Qed.

(* ------------------------------------------------------------------ dispatch terminates *)
(* The mutual recursion __add__ <-> __gt__ ends after at most two redirections: with OPFUEL = 3
   the result is always one of the three general branches, and more fuel changes nothing. *)
Lemma net_op_cases fixed o a b :
  exists r, net_op fixed OPFUEL o a b = Some r /\
            (r = gt_plain a b \/ r = gt_plain b a \/ r = add_plain a b).
Proof.
  unfold OPFUEL. simpl.
  destruct o, fixed, (has (n_in a)), (has (n_hid a)), (has (n_in b)), (has (n_hid b)),
    (is_nil (n_out b)), (is_nil (n_out a)); simpl; eauto 6.
Qed.
Lemma net_op_fuel fixed k o a b :
  net_op fixed (OPFUEL + k) o a b = net_op fixed OPFUEL o a b.
Proof.
  unfold OPFUEL. simpl.
  destruct o, fixed, (has (n_in a)), (has (n_hid a)), (has (n_in b)), (has (n_hid b)),
    (is_nil (n_out b)), (is_nil (n_out a)); simpl; auto.
Qed.
(* the final  pack[0] > Net(outputs=...)  always takes the general branch *)
Lemma net_op_out fixed a O act :
  net_op fixed OPFUEL true a (unit_out O act) = Some (gt_plain a (unit_out O act)).
Proof.
  unfold OPFUEL. simpl. destruct (has (n_in a)), (has (n_hid a)); simpl; auto.
Qed.

(* ------------------------------------------------------------------ projections of the branches *)
Lemma get_connect_In l r x y : In (x, y) (fst (get_connect l r)) <-> In x l /\ In y r.
Proof.
  unfold get_connect. destruct l as [|a l]; simpl.
  - tauto.
  - destruct r as [|b r]; simpl.
    + tauto.
    + change (In (x, y) (list_prod (a :: l) (b :: r)) <-> In x (a :: l) /\ In y (b :: r)).
      apply in_prod_iff.
Qed.
Lemma get_connect_len l r : snd (get_connect l r) = length (fst (get_connect l r)).
Proof. unfold get_connect. destruct (is_nil l || is_nil r); reflexivity. Qed.

Definition gt_new (a b : net) := fst (get_connect (gt_from a) (gt_to b)).
Lemma gt_plain_in a b : n_in (gt_plain a b) = union (n_in a) (n_in b).
Proof. unfold gt_plain. destruct (get_connect _ _). reflexivity. Qed.
Lemma gt_plain_hid a b : n_hid (gt_plain a b) = n_hid a ++ n_hid b.
Proof. unfold gt_plain. destruct (get_connect _ _). reflexivity. Qed.
Lemma gt_plain_out a b : n_out (gt_plain a b) = union (n_out a) (n_out b).
Proof. unfold gt_plain. destruct (get_connect _ _). reflexivity. Qed.
Lemma gt_plain_con a b : n_con (gt_plain a b) = n_con a ++ n_con b ++ gt_new a b.
Proof. unfold gt_plain, gt_new. destruct (get_connect _ _). reflexivity. Qed.
Lemma gt_plain_nw a b : n_nw (gt_plain a b) = n_nw a + n_nw b + length (gt_new a b).
Proof.
  unfold gt_plain, gt_new. pose proof (get_connect_len (gt_from a) (gt_to b)) as H.
  destruct (get_connect _ _). simpl in *. subst. reflexivity.
Qed.
Lemma gt_plain_act a b : n_act (gt_plain a b) = amerge (n_act a) (n_act b).
Proof. unfold gt_plain. destruct (get_connect _ _). reflexivity. Qed.

(* ------------------------------------------------------------------ activs *)
Lemma map_fst_filter (f : nat -> bool) (a : list (nat * nat)) :
  map fst (filter (fun p => f (fst p)) a) = filter f (map fst a).
Proof.
  induction a as [|h t IH]; simpl; auto. destruct (f (fst h)); simpl; rewrite IH; auto.
Qed.
Lemma amerge_keys a b :
  map fst (amerge a b) = diff (map fst a) (map fst b) ++ map fst b.
Proof.
  unfold amerge, diff. rewrite map_app.
  rewrite (map_fst_filter (fun k => negb (mem k (map fst b)))). reflexivity.
Qed.
Lemma amerge_In a b k : In k (map fst (amerge a b)) <-> In k (map fst a) \/ In k (map fst b).
Proof.
  rewrite amerge_keys, in_app_iff, diff_In.
  destruct (in_dec Nat.eq_dec k (map fst b)); tauto.
Qed.
Lemma amerge_NoDup a b :
  NoDup (map fst a) -> NoDup (map fst b) -> NoDup (map fst (amerge a b)).
Proof.
  intros Ha Hb. rewrite amerge_keys. apply NoDup_app_intro; auto.
  - apply NoDup_diff; auto.
  - intros x Hx Hy. apply diff_In in Hx. tauto.
Qed.

(* ------------------------------------------------------------------ levels *)
Definition level (n : net) (v k : nat) : Prop :=
  (k = 0 /\ In v (n_in n)) \/
  (exists i L, k = S i /\ nth_error (n_hid n) i = Some L /\ In v L) \/
  (k = S (length (n_hid n)) /\ In v (n_out n)).

Lemma In_concat_nth (hs : list (list nat)) v :
  In v (concat hs) <-> exists i L, nth_error hs i = Some L /\ In v L.
Proof.
  rewrite in_concat. split.
  - intros [L [HL Hv]]. apply In_nth_error in HL. destruct HL as [i Hi]. eauto.
  - intros [i [L [Hi Hv]]]. exists L. split; auto. eapply nth_error_In; eauto.
Qed.

(* the layering invariant (nv = number of input columns) *)
Record LInv (nv : nat) (n : net) : Prop := {
  li_in  : forall v, In v (n_in n) -> v < nv;
  li_ho  : forall v, In v (hidden n ++ n_out n) -> nv <= v;
  li_ndi : NoDup (n_in n);
  li_ndh : NoDup (hidden n ++ n_out n);
  li_con : forall a b, In (a, b) (n_con n) -> exists ka kb, level n a ka /\ level n b kb /\ ka < kb;
  li_nw  : n_nw n = length (n_con n);
  li_ak  : NoDup (map fst (n_act n));
  li_act : forall v, In v (map fst (n_act n)) <-> In v (hidden n ++ n_out n)
}.

(* ------------------------------------------------------------------ zip_union *)
Lemma zip_union_nth_l A B i L :
  nth_error A i = Some L -> exists L', nth_error (zip_union A B) i = Some L' /\ incl L L'.
Proof.
  revert B i. induction A as [|x A IH]; intros B i H.
  - destruct i; discriminate.
  - destruct B as [|y B].
    + exists L. split; auto. apply incl_refl.
    + destruct i; simpl in *.
      * inversion H; subst. exists (union L y). split; auto. intros v Hv. apply union_In; auto.
      * apply IH; auto.
Qed.
Lemma zip_union_nth_r A B i L :
  nth_error B i = Some L -> exists L', nth_error (zip_union A B) i = Some L' /\ incl L L'.
Proof.
  revert B i. induction A as [|x A IH]; intros B i H.
  - exists L. split; auto. apply incl_refl.
  - destruct B as [|y B].
    + destruct i; discriminate.
    + destruct i; simpl in *.
      * inversion H; subst. exists (union x L). split; auto. intros v Hv. apply union_In; auto.
      * apply IH; auto.
Qed.
Lemma zip_union_In A B v :
  In v (concat (zip_union A B)) <-> In v (concat A) \/ In v (concat B).
Proof.
  revert B. induction A as [|x A IH]; intros B.
  - simpl. tauto.
  - destruct B as [|y B].
    + simpl. tauto.
    + simpl. rewrite !in_app_iff, union_In, IH. tauto.
Qed.
Lemma zip_union_NoDup A B :
  NoDup (concat A) -> NoDup (concat B) ->
  (forall v, In v (concat A) -> In v (concat B) -> False) ->
  NoDup (concat (zip_union A B)).
Proof.
  revert B. induction A as [|x A IH]; intros B HA HB HD.
  - simpl. auto.
  - destruct B as [|y B]; [exact HA|].
    simpl in *. apply NoDup_app_elim in HA. destruct HA as [Hx [HA HxA]].
    apply NoDup_app_elim in HB. destruct HB as [Hy [HB HyB]].
    apply NoDup_app_intro.
    + apply NoDup_union; auto.
    + apply IH; auto. intros v H1 H2. apply (HD v); apply in_app_iff; auto.
    + intros v H1 H2. apply union_In in H1. apply zip_union_In in H2.
      destruct H1 as [H1|H1], H2 as [H2|H2].
      * apply (HxA v); auto.
      * apply (HD v); apply in_app_iff; auto.
      * apply (HD v); apply in_app_iff; auto.
      * apply (HyB v); auto.
Qed.

(* ------------------------------------------------------------------ add_plain keeps the invariant *)
Lemma level_add_l a b v k : n_out a = [] -> level a v k -> level (add_plain a b) v k.
Proof.
  intros Ho [[-> H]|[[i [L [-> [Hi Hv]]]]|[_ H]]].
  - left. split; auto. simpl. apply union_In; auto.
  - right; left. destruct (zip_union_nth_l _ (n_hid b) _ _ Hi) as [L' [H1 H2]].
    exists i, L'. simpl. auto.
  - rewrite Ho in H. destruct H.
Qed.
Lemma level_add_r a b v k : n_out b = [] -> level b v k -> level (add_plain a b) v k.
Proof.
  intros Ho [[-> H]|[[i [L [-> [Hi Hv]]]]|[_ H]]].
  - left. split; auto. simpl. apply union_In; auto.
  - right; left. destruct (zip_union_nth_r (n_hid a) _ _ _ Hi) as [L' [H1 H2]].
    exists i, L'. simpl. auto.
  - rewrite Ho in H. destruct H.
Qed.

Lemma add_plain_LInv nv a b :
  LInv nv a -> LInv nv b -> n_out a = [] -> n_out b = [] ->
  (forall v, In v (hidden a) -> In v (hidden b) -> False) ->
  LInv nv (add_plain a b) /\ n_out (add_plain a b) = [] /\
  (forall v, In v (hidden (add_plain a b)) <-> In v (hidden a) \/ In v (hidden b)).
Proof.
  intros Ia Ib Oa Ob HD.
  assert (Oab : n_out (add_plain a b) = []) by (simpl; rewrite Oa, Ob; reflexivity).
  assert (Hh : forall v, In v (hidden (add_plain a b)) <-> In v (hidden a) \/ In v (hidden b)).
  { intro v. unfold hidden. simpl. apply zip_union_In. }
  destruct Ia as [a1 a2 a3 a4 a5 a6 a7 a8], Ib as [b1 b2 b3 b4 b5 b6 b7 b8].
  rewrite Oa, app_nil_r in *. rewrite Ob, app_nil_r in *.
  split; [|split; auto].
  constructor; rewrite ?Oab, ?app_nil_r.
  - simpl. intros v Hv. apply union_In in Hv. destruct Hv; auto.
  - intros v Hv. apply Hh in Hv. destruct Hv; auto.
  - simpl. apply NoDup_union; auto.
  - unfold hidden. simpl. apply zip_union_NoDup; auto.
  - simpl. intros x y Hc. apply in_app_iff in Hc. destruct Hc as [Hc|Hc].
    + destruct (a5 _ _ Hc) as [ka [kb [H1 [H2 H3]]]]. exists ka, kb.
      repeat split; auto; apply level_add_l; auto.
    + destruct (b5 _ _ Hc) as [ka [kb [H1 [H2 H3]]]]. exists ka, kb.
      repeat split; auto; apply level_add_r; auto.
  - simpl. rewrite app_length. lia.
  - simpl. apply amerge_NoDup; auto.
  - intro v. simpl. rewrite amerge_In, a8, b8. symmetry. apply Hh.
Qed.

(* ------------------------------------------------------------------ gt_plain keeps the invariant *)
Definition shift (la k : nat) : nat := match k with 0 => 0 | S i => S (la + i) end.

Lemma level_gt_l a b v k : n_out a = [] -> level a v k -> level (gt_plain a b) v k.
Proof.
  intros Ho [[-> H]|[[i [L [-> [Hi Hv]]]]|[_ H]]].
  - left. split; auto. rewrite gt_plain_in. apply union_In; auto.
  - right; left. exists i, L. rewrite gt_plain_hid. repeat split; auto.
    rewrite nth_error_app1; auto. apply nth_error_Some. congruence.
  - rewrite Ho in H. destruct H.
Qed.
Lemma level_gt_r a b v k :
  n_out b = [] -> level b v k -> level (gt_plain a b) v (shift (length (n_hid a)) k).
Proof.
  intros Ho [[-> H]|[[i [L [-> [Hi Hv]]]]|[_ H]]].
  - left. split; auto. rewrite gt_plain_in. apply union_In; auto.
  - right; left. exists (length (n_hid a) + i), L. rewrite gt_plain_hid. repeat split; auto.
    rewrite nth_error_app2 by lia. replace (length (n_hid a) + i - length (n_hid a)) with i by lia. auto.
  - rewrite Ho in H. destruct H.
Qed.
Lemma gt_from_level a x : In x (gt_from a) -> exists k, level a x k /\ k <= length (n_hid a).
Proof.
  unfold gt_from. intro H. apply diff_In in H. destruct H as [H _].
  apply union_In in H. destruct H as [H|H].
  - exists 0. split; [left; auto|lia].
  - apply assemble_In, In_concat_nth in H. destruct H as [i [L [Hi Hv]]].
    exists (S i). split.
    + right; left. eauto.
    + assert (i < length (n_hid a)) by (apply nth_error_Some; congruence). lia.
Qed.
Lemma gt_to_sub b y : In y (gt_to b) -> In y (hidden b) \/ In y (n_out b).
Proof.
  unfold gt_to. intro H. apply diff_In in H. destruct H as [H _].
  apply union_In in H. destruct H as [H|H]; auto. left. apply assemble_In; auto.
Qed.

Lemma gt_plain_LInv nv a b :
  LInv nv a -> LInv nv b -> n_out a = [] -> n_out b = [] ->
  (forall v, In v (hidden a) -> In v (hidden b) -> False) ->
  LInv nv (gt_plain a b) /\ n_out (gt_plain a b) = [] /\
  (forall v, In v (hidden (gt_plain a b)) <-> In v (hidden a) \/ In v (hidden b)).
Proof.
  intros Ia Ib Oa Ob HD.
  assert (Oab : n_out (gt_plain a b) = []) by (rewrite gt_plain_out, Oa, Ob; reflexivity).
  assert (Hh : forall v, In v (hidden (gt_plain a b)) <-> In v (hidden a) \/ In v (hidden b)).
  { intro v. unfold hidden. rewrite gt_plain_hid, concat_app, in_app_iff. tauto. }
  destruct Ia as [a1 a2 a3 a4 a5 a6 a7 a8], Ib as [b1 b2 b3 b4 b5 b6 b7 b8].
  rewrite Oa, app_nil_r in *. rewrite Ob, app_nil_r in *.
  split; [|split; auto].
  constructor; rewrite ?Oab, ?app_nil_r.
  - rewrite gt_plain_in. intros v Hv. apply union_In in Hv. destruct Hv; auto.
  - intros v Hv. apply Hh in Hv. destruct Hv; auto.
  - rewrite gt_plain_in. apply NoDup_union; auto.
  - unfold hidden. rewrite gt_plain_hid, concat_app. apply NoDup_app_intro; auto.
  - rewrite gt_plain_con. intros x y Hc. rewrite !in_app_iff in Hc. destruct Hc as [Hc|[Hc|Hc]].
    + destruct (a5 _ _ Hc) as [ka [kb [H1 [H2 H3]]]]. exists ka, kb.
      repeat split; auto; apply level_gt_l; auto.
    + destruct (b5 _ _ Hc) as [ka [kb [H1 [H2 H3]]]].
      exists (shift (length (n_hid a)) ka), (shift (length (n_hid a)) kb).
      repeat split; try (apply level_gt_r; auto).
      destruct ka, kb; simpl; lia.
    + unfold gt_new in Hc. apply get_connect_In in Hc. destruct Hc as [Hx Hy].
      apply gt_from_level in Hx. destruct Hx as [kx [Hx Hk]].
      apply gt_to_sub in Hy. rewrite Ob in Hy. destruct Hy as [Hy|[]].
      apply In_concat_nth in Hy. destruct Hy as [j [L [Hj Hv]]].
      exists kx, (shift (length (n_hid a)) (S j)). repeat split.
      * apply level_gt_l; auto.
      * apply level_gt_r; auto. right; left. eauto.
      * simpl. lia.
  - rewrite gt_plain_nw, gt_plain_con, !app_length. lia.
  - rewrite gt_plain_act. apply amerge_NoDup; auto.
  - intro v. rewrite gt_plain_act, amerge_In, a8, b8. symmetry. apply Hh.
Qed.
