(* Base.v — conventions shared by all models (DESIGN §4).
   Randomness is an explicit list of primitive results ("draws") consumed in order. *)
From Coq Require Export List ZArith QArith Qabs Bool Lia Lqa.
Export ListNotations.

(* DU u   : result of random.random()                    (0 <= u < 1)
   DI n v : result of np.random.randint(0, n)            (0 <= v < n)
   DX v   : result of a real-valued primitive (cauchy, normal, uniform(l,h)) *)
Inductive draw := DU (u : Q) | DI (n v : Z) | DX (v : Q).

Definition M (A : Type) := list draw -> option (A * list draw).
Definition ret {A} (a : A) : M A := fun ds => Some (a, ds).
Definition bind {A B} (m : M A) (f : A -> M B) : M B :=
  fun ds => match m ds with Some (a, ds') => f a ds' | None => None end.
Notation "x <- m ;; k" := (bind m (fun x => k)) (at level 61, m at next level, right associativity).

Definition popU : M Q := fun ds => match ds with DU u :: r => Some (u, r) | _ => None end.
Definition popI (n : Z) : M Z :=
  fun ds => match ds with DI m v :: r => if (m =? n)%Z then Some (v, r) else None | _ => None end.
Definition popX : M Q := fun ds => match ds with DX v :: r => Some (v, r) | _ => None end.

Definition valid_draw (d : draw) : Prop :=
  match d with
  | DU u => 0 <= u /\ u < 1
  | DI n v => (0 <= v < n)%Z
  | DX _ => True
  end.
Definition valid_draws (ds : list draw) : Prop := Forall valid_draw ds.

Definition Qltb (a b : Q) : bool := negb (Qle_bool b a).
Lemma Qltb_lt a b : Qltb a b = true <-> a < b.
Proof.
  unfold Qltb. rewrite negb_true_iff. split; intro H.
  - apply Qnot_le_lt. intro Hle. apply Qle_bool_iff in Hle. congruence.
  - destruct (Qle_bool b a) eqn:E; [|reflexivity].
    apply Qle_bool_iff in E. exfalso. apply (Qlt_not_le _ _ H E).
Qed.
Lemma Qle_bool_false a b : Qle_bool a b = false <-> b < a.
Proof.
  split; intro H.
  - apply Qnot_le_lt. intro Hle. apply Qle_bool_iff in Hle. congruence.
  - destruct (Qle_bool a b) eqn:E; [|reflexivity].
    apply Qle_bool_iff in E. exfalso. apply (Qlt_not_le _ _ H E).
Qed.

(* floor of a rational, as used by  np.int64(np.floor(x))  and  np.int64(x)  for x >= 0 *)
Definition Qfloor' (q : Q) : Z := (Qnum q / Zpos (Qden q))%Z.

(* list helpers *)
Fixpoint upd {A} (l : list A) (i : nat) (x : A) : list A :=
  match l, i with
  | [], _ => []
  | _ :: t, O => x :: t
  | h :: t, S i' => h :: upd t i' x
  end.
Definition swap {A} (d : A) (l : list A) (i j : nat) : list A :=
  upd (upd l i (nth j l d)) j (nth i l d).

Lemma upd_length {A} (l : list A) i x : length (upd l i x) = length l.
Proof. revert i; induction l as [|h t IH]; intros [|i]; simpl; auto. Qed.
Lemma nth_upd_eq {A} (l : list A) i x d : (i < length l)%nat -> nth i (upd l i x) d = x.
Proof. revert i; induction l as [|h t IH]; intros [|i] H; simpl in *; try lia; auto. apply IH; lia. Qed.
Lemma nth_upd_neq {A} (l : list A) i j x d : i <> j -> nth j (upd l i x) d = nth j l d.
Proof.
  revert i j; induction l as [|h t IH]; intros [|i] [|j] H; simpl; auto; try congruence.
Qed.

(* index of first maximum (np.argmax) over Q *)
Fixpoint argmax_from (best : Q) (bi : nat) (i : nat) (l : list Q) : nat :=
  match l with
  | [] => bi
  | x :: t => if Qltb best x then argmax_from x i (S i) t else argmax_from best bi (S i) t
  end.
Definition argmax (l : list Q) : nat :=
  match l with [] => O | x :: t => argmax_from x O 1 t end.

Definition Zs_of_nats (l : list nat) : list Z := map Z.of_nat l.

(* bad_indices: indices of the cases on which a boolean check fails *)
Fixpoint bad_indices_from {A} (chk : A -> bool) (i : nat) (cs : list A) : list nat :=
  match cs with
  | [] => []
  | c :: t => if chk c then bad_indices_from chk (S i) t else i :: bad_indices_from chk (S i) t
  end.
Definition bad_indices {A} (chk : A -> bool) (cs : list A) := bad_indices_from chk O cs.

Definition Qlist_eqb (a b : list Q) : bool :=
  (length a =? length b)%nat && forallb (fun p => Qeq_bool (fst p) (snd p)) (combine a b).
Fixpoint Zlist_eqb (a b : list Z) : bool :=
  match a, b with
  | [], [] => true
  | x :: a', y :: b' => (x =? y)%Z && Zlist_eqb a' b'
  | _, _ => false
  end.
Fixpoint natlist_eqb (a b : list nat) : bool :=
  match a, b with
  | [], [] => true
  | x :: a', y :: b' => (x =? y)%nat && natlist_eqb a' b'
  | _, _ => false
  end.
