(* Entropy.v — what determines the random streams of a run (C04).
   Source: utils/random.py (check_random_state, numba_seed).  The two compiled generators (numba's
   `random` and `np.random`) are modelled as positions in a stream that is a FUNCTION of the seed
   (Section variable: the MT19937 bit stream itself is trusted, see DESIGN §8). *)
From TF Require Export Base.

Inductive seed_arg :=
| SNone                 (* random_state=None: the generators are left where they are *)
| SInt (z : Z)          (* integer seed: RandomState(z).get_state()[1][0] = z mod 2^32 is handed to numba_seed *)
| SState (key0 : Z).    (* a RandomState object whose first key word is key0 *)

Record gens := { g_py : Z * nat; g_np : Z * nat }.     (* (seed, draws consumed) of each compiled stream *)

Definition numba_seed (s : Z) (g : gens) : gens := {| g_py := (s, O); g_np := (s, O) |}.
Definition check_random_state (a : seed_arg) (g : gens) : gens :=
  match a with
  | SNone => g
  | SInt z => numba_seed (z mod 4294967296) g
  | SState k => numba_seed k g
  end.

Section Streams.
Variable stream_py stream_np : Z -> nat -> draw.      (* each stream is a function of its seed *)
Definition next_py (g : gens) : draw * gens :=
  (stream_py (fst (g_py g)) (snd (g_py g)), {| g_py := (fst (g_py g), S (snd (g_py g))); g_np := g_np g |}).
Definition next_np (g : gens) : draw * gens :=
  (stream_np (fst (g_np g)) (snd (g_np g)), {| g_py := g_py g; g_np := (fst (g_np g), S (snd (g_np g))) |}).
(* the draws a run consumes: a run is any function of its arguments and of the two streams from the
   positions the generators are in when fit() has called check_random_state *)
Fixpoint take (which : list bool) (g : gens) : list draw :=
  match which with
  | [] => []
  | true :: r => let '(d, g') := next_py g in d :: take r g'
  | false :: r => let '(d, g') := next_np g in d :: take r g'
  end.
End Streams.
