(* EstimatorProofs.v — label round trip, arg-max label, probability rows, reserved arguments (C18). *)
From Coq Require Import String.
From TF Require Import Base RandomPrims RandomPrimsProofs Estimator.
Open Scope Q_scope.

Lemma insert_dedup_in y l x : In x (insert_dedup y l) <-> x = y \/ In x l.
Proof.
  induction l as [|a l IH]; cbn [insert_dedup].
  - cbn. split; [intros [H|[]]; auto|intros [H|[]]; auto].
  - destruct (y <? a)%Z.
    + cbn [In]. split; [intros [H|H]; auto|intros [H|H]; auto].
    + destruct (y =? a)%Z eqn:E.
      * apply Z.eqb_eq in E. subst. cbn [In]. split; [intros [H|H]; auto|intros [H|[H|H]]; auto].
      * cbn [In]. rewrite IH. split; [intros [H|[H|H]]; auto|intros [H|[H|H]]; auto].
Qed.

Lemma classes_in ys x : In x (classes ys) <-> In x ys.
Proof.
  unfold classes. induction ys as [|y ys IH]; cbn [fold_right]; [tauto|].
  rewrite insert_dedup_in, IH. cbn [In]. split; [intros [H|H]; auto|intros [H|H]; auto].
Qed.

Lemma index_of_spec y l : In y l -> exists i, index_of y l = Some i /\ (i < length l)%nat /\ nth i l 0%Z = y.
Proof.
  induction l as [|x t IH]; intros H; [contradiction|]. cbn [index_of].
  destruct (x =? y)%Z eqn:E.
  - apply Z.eqb_eq in E. subst. exists 0%nat. cbn. repeat split; lia.
  - destruct H as [H|H]; [apply Z.eqb_neq in E; congruence|].
    destruct (IH H) as (i & Hi & Hl & Hn). exists (S i). rewrite Hi. cbn. repeat split; auto. lia.
Qed.

(* decode (encode l) = l for every label occurring in y *)
Theorem label_roundtrip ys y : In y ys ->
  exists i, encode (classes ys) y = Some i /\ (i < length (classes ys))%nat /\ decode (classes ys) i = y.
Proof. intros H. apply index_of_spec. apply classes_in. exact H. Qed.

(* predict returns one of the original class labels: the one at an arg-max column *)
Theorem predict_label_spec cs proba : proba <> [] -> length proba = length cs ->
  In (predict_label cs proba) cs /\
  predict_label cs proba = nth (argmax proba) cs 0%Z /\
  Forall (fun p => p <= nth (argmax proba) proba 0) proba.
Proof.
  intros Hne Hl. destruct (argmax_spec proba 0 Hne) as (Ha & Hb). unfold predict_label, decode.
  split; [apply nth_In; lia|]. split; auto.
Qed.

(* probability rows: non-negative, summing to 1 *)
Theorem proba_pair_row s : 0 <= s -> s <= 1 ->
  Forall (fun p => 0 <= p) (proba_pair s) /\ qsum (proba_pair s) == 1.
Proof. intros H0 H1. unfold proba_pair. split; [repeat constructor; lra|cbn; lra]. Qed.

Lemma qsum_pos es : es <> [] -> Forall (fun e => 0 < e) es -> 0 < qsum es.
Proof.
  intros Hne H. induction H as [|e t He Ht IH]; [congruence|]. cbn [qsum].
  destruct t as [|e' t']; [cbn; lra|]. assert (0 < qsum (e' :: t')) by (apply IH; congruence). lra.
Qed.

Theorem softmax_row es : es <> [] -> Forall (fun e => 0 < e) es ->
  Forall (fun p => 0 < p) (normalise es) /\ qsum (normalise es) == 1 /\ length (normalise es) = length es.
Proof.
  intros Hne Hpos. pose proof (qsum_pos es Hne Hpos) as HS. unfold normalise. split; [|split].
  - apply Forall_forall. intros p Hp. apply in_map_iff in Hp. destruct Hp as (e & <- & He).
    rewrite Forall_forall in Hpos. specialize (Hpos e He). apply Qlt_shift_div_l; lra.
  - assert (H : forall l S, ~ S == 0 -> qsum (map (fun e => e / S) l) == qsum l / S).
    { intros l S HS0. induction l as [|a l IH]; cbn [map qsum]; [field; auto|]. rewrite IH. field. auto. }
    rewrite H by lra. field. lra.
  - apply map_length.
Qed.

(* reserved optimizer arguments: accepted iff no key is reserved *)
Theorem accepts_spec reserved keys :
  accepts reserved keys = true <-> forall k, In k keys -> ~ In k reserved.
Proof.
  unfold accepts. rewrite forallb_forall. split; intros H k Hk.
  - specialize (H k Hk). rewrite negb_true_iff in H. intro Hin.
    assert (existsb (String.eqb k) reserved = true) by (apply existsb_exists; exists k; split; auto; apply String.eqb_refl).
    congruence.
  - rewrite negb_true_iff. destruct (existsb (String.eqb k) reserved) eqn:E; auto.
    apply existsb_exists in E. destruct E as (x & Hx & He). apply String.eqb_eq in He. subst. exfalso. apply (H x Hk Hx).
Qed.

(* the error of the training-set predictions is the training objective of the stored model *)
Theorem train_error {Model Data Out} (evalm : Model -> Data -> Out) (metric : Out -> Out -> Q) y X m :
  metric y (predict_out Model Data Out evalm m X) = training_objective Model Data Out evalm metric y X m.
Proof. reflexivity. Qed.
