(* SelfConfProofs.v — the operator maps stay distributions; update rules; redraw (C14). *)
From TF Require Import Base RandomPrims RandomPrimsProofs SelfConf.
Open Scope Q_scope.

(* ------------------------------------------------------------------ sums *)
Lemma qsum_map_div (c : list Q) S : ~ S == 0 -> qsum (map (fun x => x / S) c) == qsum c / S.
Proof.
  intros HS. induction c as [|x t IH]; cbn [map qsum].
  - field. exact HS.
  - rewrite IH. field. exact HS.
Qed.

Lemma qsum_map_affine (r : list Q) a c :
  qsum (map (fun x => a + x * c) r) == inject_Z (Z.of_nat (length r)) * a + c * qsum r.
Proof.
  induction r as [|x t IH]; cbn [map qsum length].
  - change (inject_Z (Z.of_nat 0)) with 0. ring.
  - rewrite IH. rewrite Nat2Z.inj_succ, <- Z.add_1_r, inject_Z_plus. change (inject_Z 1) with 1. ring.
Qed.

Lemma qsum_nonneg (l : list Q) : Forall (fun x => 0 <= x) l -> 0 <= qsum l.
Proof. induction 1; cbn; lra. Qed.

Lemma qsum_lower (l : list Q) lo : Forall (fun x => lo <= x) l -> inject_Z (Z.of_nat (length l)) * lo <= qsum l.
Proof.
  induction 1 as [|x t Hx Ht IH]; cbn [qsum length].
  - change (inject_Z (Z.of_nat 0)) with 0. lra.
  - rewrite Nat2Z.inj_succ, <- Z.add_1_r, inject_Z_plus. change (inject_Z 1) with 1. lra.
Qed.

Lemma qsum_le_pointwise : forall (a b : list Q), length a = length b ->
  (forall i, (i < length a)%nat -> nth i a 0 <= nth i b 0) -> qsum a <= qsum b.
Proof.
  induction a as [|x a IH]; intros [|y b] Hl H; simpl in Hl; try lia; cbn [qsum]; [lra|].
  pose proof (H 0%nat ltac:(simpl; lia)) as H0. cbn in H0.
  assert (qsum a <= qsum b).
  { apply IH; [lia|]. intros i Hi. apply (H (S i)). simpl. lia. }
  lra.
Qed.

Lemma inject_nat_pos z : (0 < z)%nat -> 0 < inject_Z (Z.of_nat z).
Proof. intros H. unfold Qlt. cbn. lia. Qed.

(* ------------------------------------------------------------------ SelfC*: new map is a distribution *)
Lemma clip_range lo hi x : lo <= hi -> lo <= clip lo hi x /\ clip lo hi x <= hi.
Proof.
  intros H. unfold clip. destruct (Qltb x lo) eqn:E1; [lra|]. destruct (Qltb hi x) eqn:E2; [lra|].
  assert (lo <= x). { destruct (Qlt_le_dec x lo) as [Hc|Hc]; auto. apply Qltb_lt in Hc. congruence. }
  assert (x <= hi). { destruct (Qlt_le_dec hi x) as [Hc|Hc]; auto. apply Qltb_lt in Hc. congruence. }
  lra.
Qed.

Lemma clip_upper lo hi x y : 0 <= lo -> lo <= hi -> x <= y -> 0 <= y -> clip lo hi x <= lo + y.
Proof.
  intros H0 Hlh Hxy Hy. unfold clip. destruct (Qltb x lo) eqn:E1; [lra|]. destruct (Qltb hi x) eqn:E2.
  - apply Qltb_lt in E2. lra.
  - lra.
Qed.

Theorem selfc_distribution K iters thr p w :
  0 < thr -> thr <= 1 -> p <> [] ->
  let q := selfc_new_proba K iters thr p w in
  length q = length p /\ qsum q == 1 /\ Forall (fun x => 0 < x) q.
Proof.
  intros Ht0 Ht1 Hne. cbv zeta. unfold selfc_new_proba.
  set (c := map (clip thr 1) (selfc_raw K iters p w)).
  assert (Hlen : length c = length p).
  { unfold c, selfc_raw. rewrite !map_length, upd_length. reflexivity. }
  assert (Hc : Forall (fun x => thr <= x /\ x <= 1) c).
  { unfold c. apply Forall_forall. intros x Hx. apply in_map_iff in Hx. destruct Hx as (y & <- & _).
    apply clip_range. lra. }
  assert (Hz : (0 < length c)%nat) by (rewrite Hlen; destruct p; simpl; [congruence|lia]).
  assert (HS : 0 < qsum c).
  { pose proof (qsum_lower c thr) as Hl.
    assert (Forall (fun x => thr <= x) c) by (eapply Forall_impl; [|exact Hc]; intros a Ha; cbn in Ha; tauto).
    specialize (Hl H). pose proof (inject_nat_pos (length c) Hz). nra. }
  split; [rewrite map_length; auto|]. split.
  - rewrite qsum_map_div by lra. field. lra.
  - apply Forall_forall. intros x Hx. apply in_map_iff in Hx. destruct Hx as (y & <- & Hy).
    rewrite Forall_forall in Hc. destruct (Hc y Hy). apply Qlt_shift_div_l; lra.
Qed.

(* the floor after renormalisation: thr / (1 + z*thr + K/iters) *)
Lemma upd_nth_cases {A} (l : list A) w x i d : nth i (upd l w x) d = if (i =? w)%nat then (if (w <? length l)%nat then x else nth i l d) else nth i l d.
Proof.
  destruct (i =? w)%nat eqn:E.
  - apply Nat.eqb_eq in E. subst. destruct (w <? length l)%nat eqn:El.
    + apply Nat.ltb_lt in El. now apply nth_upd_eq.
    + apply Nat.ltb_ge in El. revert w El. induction l as [|a l IH]; intros [|w] El; simpl in *; auto; try lia. apply IH. lia.
  - apply Nat.eqb_neq in E. apply nth_upd_neq. auto.
Qed.

Theorem selfc_floor K iters thr p w :
  0 < thr -> thr <= 1 -> 0 <= K -> 0 < iters -> p <> [] ->
  qsum p == 1 -> Forall (fun x => 0 <= x) p ->
  let z := inject_Z (Z.of_nat (length p)) in
  Forall (fun x => thr / (1 + z * thr + K / iters) <= x) (selfc_new_proba K iters thr p w).
Proof.
  intros Ht0 Ht1 HK Hit Hne Hsum Hpos. cbv zeta. unfold selfc_new_proba.
  set (z := inject_Z (Z.of_nat (length p))).
  set (c := map (clip thr 1) (selfc_raw K iters p w)).
  assert (Hzpos : 0 < z) by (apply inject_nat_pos; destruct p; simpl; [congruence|lia]).
  assert (Hki : 0 <= K / iters) by (apply Qle_shift_div_l; lra).
  assert (Hkz : 0 <= K / (z * iters)) by (apply Qle_shift_div_l; nra).
  assert (Hlen : length c = length p).
  { unfold c, selfc_raw. rewrite !map_length, upd_length. reflexivity. }
  assert (Hc : Forall (fun x => thr <= x /\ x <= 1) c).
  { unfold c. apply Forall_forall. intros x Hx. apply in_map_iff in Hx. destruct Hx as (y & <- & _).
    apply clip_range. lra. }
  (* upper bound on the normaliser: pointwise c_i <= thr + p_i + [i=w] K/iters *)
  set (b := map (fun i => thr + (nth i p 0 + if (i =? w)%nat then K / iters else 0)) (seq 0 (length p))).
  assert (Hcb : qsum c <= qsum b).
  { apply qsum_le_pointwise.
    - unfold b. rewrite map_length, seq_length. auto.
    - intros i Hi. rewrite Hlen in Hi. unfold c, b.
      rewrite (nth_map_default (clip thr 1) _ i 0 0) by (unfold selfc_raw; rewrite map_length, upd_length; auto).
      rewrite (nth_map_default (fun i => thr + (nth i p 0 + if (i =? w)%nat then K / iters else 0)) (seq 0 (length p)) i O 0)
        by (rewrite seq_length; auto).
      rewrite seq_nth by auto. cbn [Nat.add].
      unfold selfc_raw. fold z.
      rewrite (nth_map_default (fun x => x - K / (z * iters)) _ i 0 0) by (rewrite upd_length; auto).
      rewrite upd_nth_cases.
      assert (Hpi : 0 <= nth i p 0). { rewrite Forall_forall in Hpos. apply Hpos. apply nth_In; auto. }
      apply clip_upper; try lra.
      + destruct (i =? w)%nat eqn:E; [|lra]. apply Nat.eqb_eq in E. subst i.
        assert ((w <? length p)%nat = true) as -> by (apply Nat.ltb_lt; auto). lra.
      + destruct (i =? w)%nat; lra. }
  assert (Hb : qsum b <= z * thr + 1 + K / iters).
  { unfold b.
    assert (Hgen : forall (l : list Q) o, Forall (fun x => 0 <= x) l ->
              qsum (map (fun i => thr + (nth (i - o) l 0 + if (i =? w)%nat then K / iters else 0)) (seq o (length l)))
              <= inject_Z (Z.of_nat (length l)) * thr + qsum l + (if ((o <=? w) && (w <? o + length l))%nat then K / iters else 0)).
    { induction l as [|x l IH]; intros o Hl; cbn [length seq map qsum].
      - change (inject_Z (Z.of_nat 0)) with 0. destruct ((o <=? w) && (w <? o + 0))%nat; lra.
      - inversion Hl; subst. specialize (IH (S o) H2).
        rewrite Nat2Z.inj_succ, <- Z.add_1_r, inject_Z_plus. replace (o - o)%nat with 0%nat by lia. cbn [nth].
        assert (Hshift : qsum (map (fun i => thr + (nth (i - o) (x :: l) 0 + (if (i =? w)%nat then K / iters else 0))) (seq (S o) (length l)))
                       == qsum (map (fun i => thr + (nth (i - S o) l 0 + (if (i =? w)%nat then K / iters else 0))) (seq (S o) (length l)))).
        { assert (Hext : forall i, In i (seq (S o) (length l)) ->
                    thr + (nth (i - o) (x :: l) 0 + (if (i =? w)%nat then K / iters else 0)) =
                    thr + (nth (i - S o) l 0 + (if (i =? w)%nat then K / iters else 0))).
          { intros i Hi. apply in_seq in Hi. replace (i - o)%nat with (S (i - S o)) by lia. reflexivity. }
          rewrite (map_ext_in _ _ _ Hext). reflexivity. }
        rewrite Hshift.
        destruct (o =? w)%nat eqn:Eow.
        + apply Nat.eqb_eq in Eow. subst o.
          assert (((w <=? w) && (w <? w + S (length l)))%nat = true) as -> by (apply andb_true_iff; split; [apply Nat.leb_le|apply Nat.ltb_lt]; lia).
          assert (((S w <=? w) && (w <? S w + length l))%nat = false) as Hf by (apply andb_false_iff; left; apply Nat.leb_gt; lia).
          rewrite Hf in IH. change (inject_Z 1) with 1. lra.
        + apply Nat.eqb_neq in Eow.
          assert (((o <=? w) && (w <? o + S (length l)))%nat = ((S o <=? w) && (w <? S o + length l))%nat) as ->.
          { destruct (Nat.le_gt_cases (S o) w).
            - assert ((o <=? w)%nat = true) as -> by (apply Nat.leb_le; lia).
              assert ((S o <=? w)%nat = true) as -> by (apply Nat.leb_le; lia). cbn [andb].
              replace (o + S (length l))%nat with (S o + length l)%nat by lia. reflexivity.
            - assert ((o <=? w)%nat = false) as -> by (apply Nat.leb_gt; lia).
              assert ((S o <=? w)%nat = false) as -> by (apply Nat.leb_gt; lia). reflexivity. }
          change (inject_Z 1) with 1. lra. }
    specialize (Hgen p 0%nat Hpos).
    assert (Hext0 : forall i, In i (seq 0 (length p)) ->
               thr + (nth i p 0 + (if (i =? w)%nat then K / iters else 0)) =
               thr + (nth (i - 0) p 0 + (if (i =? w)%nat then K / iters else 0))).
    { intros i _. now rewrite Nat.sub_0_r. }
    rewrite (map_ext_in _ _ _ Hext0). fold z in Hgen.
    destruct ((0 <=? w) && (w <? 0 + length p))%nat; lra. }
  assert (HSlo : 0 < qsum c).
  { pose proof (qsum_lower c thr) as Hl.
    assert (Forall (fun x => thr <= x) c) by (eapply Forall_impl; [|exact Hc]; intros a Ha; cbn in Ha; tauto).
    specialize (Hl H). rewrite Hlen in Hl. fold z in Hl. nra. }
  apply Forall_forall. intros x Hx. apply in_map_iff in Hx. destruct Hx as (y & <- & Hy).
  rewrite Forall_forall in Hc. destruct (Hc y Hy) as (Hy1 & Hy2).
  assert (HD : 0 < 1 + z * thr + K / iters) by nra.
  apply Qle_shift_div_r; [exact HD|].
  assert (Heq : y / qsum c * (1 + z * thr + K / iters) == y * ((1 + z * thr + K / iters) / qsum c)) by (field; lra).
  rewrite Heq.
  assert (1 <= (1 + z * thr + K / iters) / qsum c) by (apply Qle_shift_div_l; lra).
  nra.
Qed.

(* ------------------------------------------------------------------ PDP*: new map is a distribution with floor thr *)
Lemma r_value_nonneg j labels succ : 0 <= r_value j labels succ.
Proof.
  unfold r_value. destruct (uses j labels =? 0)%nat; [lra|].
  apply Qle_shift_div_l.
  - assert (0 <= inject_Z (Z.of_nat (uses j labels))) by (unfold Qle; cbn; lia). lra.
  - assert (0 <= inject_Z (Z.of_nat (successes j labels succ * successes j labels succ))) by (unfold Qle; cbn; lia). lra.
Qed.

Lemma r_value_pos j labels succ : (0 < uses j labels)%nat -> 0 < r_value j labels succ.
Proof.
  intros H. unfold r_value. assert ((uses j labels =? 0)%nat = false) as -> by (apply Nat.eqb_neq; lia).
  apply Qlt_shift_div_l.
  - assert (0 <= inject_Z (Z.of_nat (uses j labels))) by (unfold Qle; cbn; lia). lra.
  - assert (0 <= inject_Z (Z.of_nat (successes j labels succ * successes j labels succ))) by (unfold Qle; cbn; lia). lra.
Qed.

Lemma qsum_pos_exists (l : list Q) : Forall (fun x => 0 <= x) l -> (exists x, In x l /\ 0 < x) -> 0 < qsum l.
Proof.
  induction 1 as [|y t Hy Ht IH]; intros (x & Hin & Hx); [contradiction|]. cbn [qsum].
  pose proof (qsum_nonneg t Ht). destruct Hin as [->|Hin]; [lra|].
  assert (0 < qsum t) by (apply IH; eauto). lra.
Qed.

Theorem pdp_distribution thr z labels succ :
  0 < thr -> inject_Z (Z.of_nat z) * thr <= 1 ->
  (exists j, (j < z)%nat /\ In j labels) ->
  distribution thr z (pdp_new_proba thr z labels succ).
Proof.
  intros Ht Hzt (j & Hj & Hin). unfold distribution, pdp_new_proba.
  set (r := map (fun j => r_value j labels succ) (seq 0 z)).
  assert (Hrl : length r = z) by (unfold r; rewrite map_length, seq_length; auto).
  assert (Hr0 : Forall (fun x => 0 <= x) r).
  { unfold r. apply Forall_forall. intros x Hx. apply in_map_iff in Hx. destruct Hx as (i & <- & _). apply r_value_nonneg. }
  assert (HS : 0 < qsum r).
  { apply qsum_pos_exists; auto. exists (r_value j labels succ). split.
    - unfold r. apply in_map_iff. exists j. split; auto. apply in_seq. lia.
    - apply r_value_pos. unfold uses. destruct (filter (Nat.eqb j) labels) eqn:E; [|simpl; lia].
      exfalso. assert (In j (filter (Nat.eqb j) labels)) by (apply filter_In; split; auto; apply Nat.eqb_refl).
      rewrite E in H. contradiction. }
  set (c := (1 - inject_Z (Z.of_nat z) * thr) / qsum r).
  assert (Hc : 0 <= c) by (unfold c; apply Qle_shift_div_l; lra).
  split; [rewrite map_length; auto|]. split.
  - assert (Hext : forall x, thr + x * ((1 - inject_Z (Z.of_nat z) * thr) / qsum r) = thr + x * c) by reflexivity.
    rewrite qsum_map_affine. rewrite Hrl. unfold c. field. lra.
  - apply Forall_forall. intros x Hx. apply in_map_iff in Hx. destruct Hx as (y & <- & Hy).
    rewrite Forall_forall in Hr0. specialize (Hr0 y Hy). fold c. split; nra.
Qed.

(* ------------------------------------------------------------------ the fittest operator *)
Definition present (j : nat) (labels : list nat) (fit : list Q) : Prop := members j labels fit <> [].

Lemma fittest_from_spec : forall z j labels fit best,
  (forall b mb, best = Some (b, mb) -> (b < j)%nat /\ present b labels fit /\ mb = mean (members b labels fit) /\
      forall i, (i < j)%nat -> present i labels fit -> mean (members i labels fit) <= mb) ->
  (best = None -> forall i, (i < j)%nat -> ~ present i labels fit) ->
  match fittest_from z j labels fit best with
  | Some (w, mw) => (w < j + z)%nat /\ present w labels fit /\ mw = mean (members w labels fit) /\
      forall i, (i < j + z)%nat -> present i labels fit -> mean (members i labels fit) <= mw
  | None => forall i, (i < j + z)%nat -> ~ present i labels fit
  end.
Proof.
  induction z as [|z IH]; intros j labels fit best Hs Hn; cbn [fittest_from].
  - rewrite Nat.add_0_r. destruct best as [[b mb]|].
    + destruct (Hs b mb eq_refl) as (H1 & H2 & H3 & H4). auto.
    + apply Hn. reflexivity.
  - replace (j + S z)%nat with (S j + z)%nat by lia. apply IH.
    + intros b mb Hb. destruct (members j labels fit) as [|m0 ms] eqn:Em.
      * destruct (Hs b mb Hb) as (H1 & H2 & H3 & H4). split; [lia|]. split; [auto|]. split; [auto|].
        intros i Hi Hp. destruct (Nat.eq_dec i j) as [->|Hne]; [unfold present in Hp; congruence|]. apply H4; auto. lia.
      * destruct best as [[b0 mb0]|].
        -- destruct (Hs b0 mb0 eq_refl) as (H1 & H2 & H3 & H4).
           destruct (Qltb mb0 (mean (m0 :: ms))) eqn:E.
           ++ apply Qltb_lt in E. injection Hb as <- <-. split; [lia|]. split; [unfold present; congruence|]. split; [now rewrite Em|].
              intros i Hi Hp. destruct (Nat.eq_dec i j) as [->|Hne]; [rewrite Em; lra|].
              specialize (H4 i ltac:(lia) Hp). lra.
           ++ injection Hb as <- <-. split; [lia|]. split; [auto|]. split; [auto|].
              intros i Hi Hp. destruct (Nat.eq_dec i j) as [->|Hne].
              ** rewrite Em. destruct (Qlt_le_dec mb0 (mean (m0 :: ms))) as [Hc|Hc]; auto. apply Qltb_lt in Hc. congruence.
              ** apply H4; auto. lia.
        -- injection Hb as <- <-. split; [lia|]. split; [unfold present; congruence|]. split; [now rewrite Em|].
           intros i Hi Hp. destruct (Nat.eq_dec i j) as [->|Hne]; [rewrite Em; lra|].
           exfalso. apply (Hn eq_refl i); auto. lia.
    + intros Hb i Hi. destruct (members j labels fit) as [|m0 ms] eqn:Em.
      * destruct (Nat.eq_dec i j) as [->|Hne]; [unfold present; congruence|]. apply Hn; auto. lia.
      * destruct best as [[b0 mb0]|]; [destruct (Qltb mb0 _)|]; discriminate.
Qed.

Theorem find_fittest_spec z labels fit : (exists j, (j < z)%nat /\ present j labels fit) ->
  let w := find_fittest_operator z labels fit in
  (w < z)%nat /\ present w labels fit /\
  forall i, (i < z)%nat -> present i labels fit -> mean (members i labels fit) <= mean (members w labels fit).
Proof.
  intros (j & Hj & Hp). cbv zeta. unfold find_fittest_operator.
  pose proof (fittest_from_spec z 0 labels fit None) as H. cbn [Nat.add] in H.
  destruct (fittest_from z 0 labels fit None) as [[w mw]|].
  - destruct H as (H1 & H2 & H3 & H4); [intros; discriminate|intros _ i Hi; lia|]. subst mw. auto.
  - exfalso. apply (H ltac:(intros; discriminate) ltac:(intros _ i Hi; lia) j Hj Hp).
Qed.

(* ------------------------------------------------------------------ redraw from the UPDATED maps *)
Ltac minv H :=
  unfold bind, ret in H;
  repeat match type of H with
  | match ?m with Some _ => _ | None => _ end = Some _ =>
      let E := fresh "E" in destruct m as [[? ?]|] eqn:E; [|discriminate]
  end;
  match type of H with
  | Some _ = Some _ => inversion H; subst; clear H
  | _ => idtac
  end.

Theorem selfc_redraw K iters ts tc tm pop_size m o fit ds m' o' ds' :
  selfc_adapt K iters ts tc tm pop_size m o fit ds = Some ((m', o'), ds') ->
  m_sel m' = selfc_new_proba K iters ts (m_sel m) (find_fittest_operator (length (m_sel m)) (o_sel o) fit) /\
  m_cx m' = selfc_new_proba K iters tc (m_cx m) (find_fittest_operator (length (m_cx m)) (o_cx o) fit) /\
  m_mu m' = selfc_new_proba K iters tm (m_mu m) (find_fittest_operator (length (m_mu m)) (o_mu o) fit) /\
  exists s c u ds1 ds2,
    choice_operators (m_sel m') pop_size ds = Some (s, ds1) /\
    choice_operators (m_cx m') pop_size ds1 = Some (c, ds2) /\
    choice_operators (m_mu m') pop_size ds2 = Some (u, ds') /\
    o_sel o' = nats s /\ o_cx o' = nats c /\ o_mu o' = nats u.
Proof.
  intros H. unfold selfc_adapt in H. minv H. cbn [m_sel m_cx m_mu o_sel o_cx o_mu].
  repeat split; auto. do 5 eexists. repeat split; eauto.
Qed.

Theorem pdp_redraw ts tc tm pop_size m o previous fit ds m' o' ds' : previous <> [] ->
  pdp_adapt ts tc tm pop_size m o previous fit ds = Some ((m', o'), ds') ->
  let sc := success_mask previous fit in
  m_sel m' = pdp_new_proba ts (length (m_sel m)) (o_sel o) sc /\
  m_cx m' = pdp_new_proba tc (length (m_cx m)) (o_cx o) sc /\
  m_mu m' = pdp_new_proba tm (length (m_mu m)) (o_mu o) sc /\
  exists s c u ds1 ds2,
    choice_operators (m_sel m') pop_size ds = Some (s, ds1) /\
    choice_operators (m_cx m') pop_size ds1 = Some (c, ds2) /\
    choice_operators (m_mu m') pop_size ds2 = Some (u, ds') /\
    o_sel o' = nats s /\ o_cx o' = nats c /\ o_mu o' = nats u.
Proof.
  intros Hne H. unfold pdp_adapt in H. destruct previous as [|p0 pr]; [congruence|]. minv H.
  cbv zeta. cbn [m_sel m_cx m_mu o_sel o_cx o_mu]. repeat split; auto. do 5 eexists. repeat split; eauto.
Qed.

(* one operator per individual, each a valid position *)
Theorem choice_count_range p pop_size ds s ds' : p <> [] ->
  choice_operators p pop_size ds = Some (s, ds') ->
  length s = pop_size /\ Forall (fun v => (0 <= v < Z.of_nat (length p))%Z) s.
Proof. intros Hne H. unfold choice_operators in H. eapply weighted_selection_count_range; eauto. Qed.

(* the code before the repair: the maps change, the operators never do *)
Theorem pdp_old_never_redraws ts tc tm m o previous fit : snd (pdp_adapt_old ts tc tm m o previous fit) = o.
Proof. unfold pdp_adapt_old. destruct previous; reflexivity. Qed.
