(* CodeEqC10.v — the decoders of the sampling grid (SamplingGrid.bit_to_int / _decode, GrayCode.gray_to_bit / bit_to_gray / _decode;
   whole-array numpy, translated on every run into gen/GenCode.v with the array forms of Py.v) ARE the row-wise models of Gray.v /
   Grid.v: a 2-D 0/1 array is a list of rows, a row read as booleans (non-zero = true). *)
From TF Require Import Py PyLemmas Gray Grid.
From TFG Require Import GenCode.
Open Scope Z_scope.

Definition bz (r : list Z) : list bool := map z2b r.
Definition bit01 (z : Z) : Prop := z = 0 \/ z = 1.

Lemma z2b_b2z b : z2b (b2z b) = b. Proof. destruct b; reflexivity. Qed.
Lemma b2z_z2b z : bit01 z -> b2z (z2b z) = z. Proof. intros [-> | ->]; reflexivity. Qed.
Lemma Zb2z_z2b z : bit01 z -> Z.b2z (z2b z) = z. Proof. intros [-> | ->]; reflexivity. Qed.

(* ---------- gray_to_bit ---------- *)
Lemma xor_accZ_model : forall g acc, bz (xor_accZ acc g) = xor_acc acc (bz g).
Proof. induction g as [|x t IH]; intro acc; cbn; [reflexivity|]. now rewrite z2b_b2z, IH. Qed.

Lemma xor_accZ_row r : bz (xor_accZ false r) = gray_to_bits (bz r).
Proof. destruct r as [|x t]; [reflexivity|]. cbn. rewrite z2b_b2z, xor_accZ_model. now destruct (z2b x). Qed.

Theorem code_gray_to_bit m : map bz (py_gray_to_bit m) = map (fun r => gray_to_bits (bz r)) m.
Proof. unfold py_gray_to_bit, xor_accumulate_rows. cbv zeta. rewrite map_map. apply map_ext. apply xor_accZ_row. Qed.

Lemma xor_accZ_bits : forall g acc, Forall bit01 (xor_accZ acc g) /\ length (xor_accZ acc g) = length g.
Proof.
  induction g as [|x t IH]; intro acc; cbn; [split; [constructor|reflexivity]|].
  destruct (IH (xorb acc (z2b x))) as [F L]. split; [constructor; [destruct (xorb acc (z2b x)); [right|left]; reflexivity|exact F]|now rewrite L].
Qed.

(* ---------- bit_to_gray ---------- *)
Lemma zip_with_map_same {A B C D} (f : B -> C -> D) (g : A -> B) (h : A -> C) l :
  zip_with f (map g l) (map h l) = map (fun x => f (g x) (h x)) l.
Proof. induction l; cbn; [reflexivity|]. now rewrite IHl. Qed.
Lemma zip_with_map_r {A B C} (f : A -> B -> C) (h : A -> B) l : zip_with f l (map h l) = map (fun x => f x (h x)) l.
Proof. induction l; cbn; [reflexivity|]. now rewrite IHl. Qed.

Lemma xor_pairs_code : forall t x,
  bz (zip_with (fun a b => b2z (xorb (z2b a) (z2b b))) (removelast (x :: t)) t) = xor_pairs (z2b x) (bz t).
Proof.
  induction t as [|y t IH]; intro x; [reflexivity|].
  change (removelast (x :: y :: t)) with (x :: removelast (y :: t)). cbn [zip_with bz map xor_pairs].
  rewrite z2b_b2z. f_equal. apply IH.
Qed.

Theorem code_bit_to_gray m : Forall (fun r => r <> []) m ->
  map bz (py_bit_to_gray m) = map (fun r => bits_to_gray (bz r)) m.
Proof.
  intro H. unfold py_bit_to_gray, logical_xor2, cols_but_last, cols_from1, hstack_col0. cbv zeta.
  rewrite zip_with_map_same, zip_with_map_r, map_map. apply map_ext_in. intros r Hr.
  rewrite Forall_forall in H. destruct r as [|x t]; [exfalso; now apply (H [] Hr)|].
  cbn [hd tl]. change (bz (x :: ?l)) with (z2b x :: bz l). cbn [bz map bits_to_gray]. f_equal. apply xor_pairs_code.
Qed.

(* ---------- bit_to_int ---------- *)
Lemma sumZ_acc : forall l a, fold_left Z.add l a = a + fold_left Z.add l 0.
Proof. induction l as [|x l IH]; intro a; cbn; [lia|]. rewrite (IH (a + x)), (IH x). lia. Qed.
Lemma dotZ_cons x t p ps : dotZ (x :: t) (p :: ps) = x * p + dotZ t ps.
Proof. unfold dotZ, sumZ. cbn. rewrite sumZ_acc. reflexivity. Qed.

Lemma arange_S (k : nat) : arange (Z.of_nat (S k)) = arange (Z.of_nat k) ++ [Z.of_nat k].
Proof. unfold arange. rewrite !Nat2Z.id, seq_S, map_app. reflexivity. Qed.

Lemma rev_pow2s_S (k : nat) : rev (pow2s (arange (Z.of_nat (S k)))) = 2 ^ Z.of_nat k :: rev (pow2s (arange (Z.of_nat k))).
Proof. rewrite arange_S. unfold pow2s. rewrite map_app, rev_app_distr. reflexivity. Qed.

Lemma dot_bits : forall r, Forall bit01 r -> dotZ r (rev (pow2s (arange (zlen r)))) = bits_to_int (bz r).
Proof.
  induction r as [|x t IH]; intro H; [reflexivity|].
  inversion H as [|? ? Hx Ht]; subst. unfold zlen. cbn [length]. rewrite rev_pow2s_S, dotZ_cons.
  fold (zlen t). rewrite (IH Ht). cbn [bz map bits_to_int]. rewrite (Zb2z_z2b x Hx). unfold bz. now rewrite map_length.
Qed.

Lemma firstn_pow2s (w n : nat) : (w <= n)%nat -> firstn w (pow2s (arange (Z.of_nat n))) = pow2s (arange (Z.of_nat w)).
Proof.
  intro H. unfold pow2s, arange. rewrite !Nat2Z.id, !firstn_map. do 2 f_equal.
  replace n with (w + (n - w))%nat by lia. rewrite seq_app, firstn_app, seq_length, Nat.sub_diag, firstn_O, app_nil_r.
  rewrite firstn_all2 by (rewrite seq_length; lia). reflexivity.
Qed.

(* every row has the width of the first one, 0/1 entries; the power table holds at least that many powers of two *)
Definition grid_rows (w : nat) (m : list (list Z)) : Prop := Forall (fun r => length r = w /\ Forall bit01 r) m.

Theorem code_bit_to_int_powers (w n : nat) m : m <> [] -> grid_rows w m -> (w <= n)%nat ->
  py_bit_to_int_powers m (pow2s (arange (Z.of_nat n))) = map (fun r => bits_to_int (bz r)) m.
Proof.
  intros Hne Hm Hw. unfold py_bit_to_int_powers, matvecZ. cbv zeta.
  assert (Hfirst : zlen (getR m 0) = Z.of_nat w).
  { destruct m as [|r0 m']; [congruence|]. inversion Hm as [|? ? [Hl _] _]; subst. rewrite getR_0. reflexivity. }
  rewrite Hfirst. unfold sliceTo. rewrite pyidx_nat, (firstn_pow2s w n Hw).
  apply map_ext_in. intros r Hr. unfold grid_rows in Hm. rewrite Forall_forall in Hm. destruct (Hm r Hr) as [Hl Hb].
  rewrite <- Hl. apply (dot_bits r Hb).
Qed.

Theorem code_bit_to_int_default (w : nat) m : m <> [] -> grid_rows w m ->
  py_bit_to_int_default m = map (fun r => bits_to_int (bz r)) m.
Proof.
  intros Hne Hm. unfold py_bit_to_int_default. cbv zeta.
  assert (Hfirst : zlen (getR m 0) = Z.of_nat w).
  { destruct m as [|r0 m']; [congruence|]. inversion Hm as [|? ? [Hl _] _]; subst. rewrite getR_0. reflexivity. }
  rewrite Hfirst. pose proof (code_bit_to_int_powers w w m Hne Hm (le_n w)) as H.
  unfold py_bit_to_int_powers in H. cbv zeta in H. rewrite Hfirst in H. exact H.
Qed.

(* ---------- _decode ---------- *)
Theorem code_SamplingGrid_decode (w n : nat) m : m <> [] -> grid_rows w m -> (w <= n)%nat ->
  py_SamplingGrid_decode (pow2s (arange (Z.of_nat n))) m = map (fun r => decode Binary (bz r)) m.
Proof. intros. unfold py_SamplingGrid_decode. cbv zeta. now apply (code_bit_to_int_powers w n). Qed.

Theorem code_GrayCode_decode (w n : nat) m : m <> [] -> Forall (fun r => length r = w) m -> (w <= n)%nat ->
  py_GrayCode_decode (pow2s (arange (Z.of_nat n))) m = map (fun r => decode Gray (bz r)) m.
Proof.
  intros Hne Hm Hw. unfold py_GrayCode_decode. cbv zeta.
  rewrite (code_bit_to_int_powers w n (py_gray_to_bit m)).
  - unfold py_gray_to_bit, xor_accumulate_rows. cbv zeta. rewrite map_map. apply map_ext. intro r. cbn [decode]. now rewrite xor_accZ_row.
  - unfold py_gray_to_bit, xor_accumulate_rows. cbv zeta. destruct m; [congruence|discriminate].
  - unfold py_gray_to_bit, xor_accumulate_rows, grid_rows. cbv zeta. apply Forall_map. eapply Forall_impl; [|exact Hm].
    intros r Hr. destruct (xor_accZ_bits r false) as [F L]. split; [now rewrite L|exact F].
  - exact Hw.
Qed.

(* ---------- the round trip, stated about the source's own functions ---------- *)
From TF Require Import GridProofs.
Theorem src_gray_roundtrip m : Forall (fun r => r <> []) m ->
  map bz (py_gray_to_bit (py_bit_to_gray m)) = map bz m.
Proof.
  intro H. rewrite code_gray_to_bit.
  rewrite <- (map_map bz gray_to_bits), (code_bit_to_gray m H), map_map.
  transitivity (map (fun r => bz r) m); [|apply map_ext; reflexivity].
  apply map_ext. intro r. apply gray_to_bits_to_gray.
Qed.
