(* TreeProofs.v — the index helpers of TreeIdx.v refine the recursive definitions of Tree.v,
   for ALL well-formed trees (nested induction, no bound).  Shared by C08 and C09. *)
From Coq Require Import List Arith Bool Lia.
Import ListNotations.
From TF Require Import Tree TreeIdx.

(* ------------------------------------------------------------------ small list facts *)
Lemma skipn_skipn' {A} (l : list A) x y : skipn x (skipn y l) = skipn (y + x) l.
Proof.
  revert l; induction y as [|y IH]; intros l; simpl; auto.
  destruct l; simpl; auto. destruct x; reflexivity.
Qed.

Lemma nth_error_skipn_cons {A} (l : list A) n x :
  nth_error l n = Some x -> skipn n l = x :: skipn (S n) l.
Proof.
  revert l; induction n as [|n IH]; intros [|h t] H; simpl in *; try discriminate.
  - inversion H; reflexivity.
  - rewrite (IH t H). reflexivity.
Qed.

Lemma skipn_app_len {A} (l1 l2 : list A) : skipn (length l1) (l1 ++ l2) = l2.
Proof. induction l1; simpl; auto. Qed.
Lemma firstn_app_len {A} (l1 l2 : list A) : firstn (length l1) (l1 ++ l2) = l1.
Proof. induction l1; simpl; auto; f_equal; auto. Qed.
Lemma skipn_app_plus {A} (l1 l2 : list A) n : skipn (length l1 + n) (l1 ++ l2) = skipn n l2.
Proof. induction l1; simpl; auto. Qed.

Lemma walk_0 l : walk 0 l = Some 0.
Proof. destruct l; reflexivity. Qed.

Lemma option_map_plus_S (n : nat) (x : option nat) :
  option_map (Nat.add (S n)) x = option_map (Nat.add n) (option_map S x).
Proof. destruct x; simpl; auto; f_equal; lia. Qed.

(* ------------------------------------------------------------------ trees *)
Section Proofs.
  Context {sym : Type}.
  Variable arity : sym -> nat.
  Notation tree := (tree sym).
  Notation nargs := (nargs arity).
  Notation wft := (wft arity).
  Notation wff := (wff arity).

  Lemma flats_cons (t : tree) ts : flats (t :: ts) = flatten t ++ flats ts.
  Proof. reflexivity. Qed.
  Lemma flats_app (a b : list tree) : flats (a ++ b) = flats a ++ flats b.
  Proof. apply flat_map_app. Qed.
  Lemma sizes_cons (t : tree) ts : sizes (t :: ts) = size t + sizes ts.
  Proof. reflexivity. Qed.
  Lemma flatten_Node s (kids : list tree) : flatten (Node s kids) = s :: flats kids.
  Proof. reflexivity. Qed.
  Lemma size_Node s (kids : list tree) : size (Node s kids) = S (sizes kids).
  Proof. reflexivity. Qed.
  Lemma wft_Node s (kids : list tree) :
    wft (Node s kids) = true <-> length kids = arity s /\ wff kids = true.
  Proof.
    simpl. rewrite andb_true_iff, Nat.eqb_eq. reflexivity.
  Qed.
  Lemma wff_cons (t : tree) ts : wff (t :: ts) = true <-> wft t = true /\ wff ts = true.
  Proof. unfold wff; simpl. apply andb_true_iff. Qed.
  Lemma nargs_app a b : nargs (a ++ b) = nargs a ++ nargs b.
  Proof. apply map_app. Qed.
  Lemma nargs_length a : length (nargs a) = length a.
  Proof. apply map_length. Qed.

  Lemma flatten_length : forall t : tree, length (flatten t) = size t.
  Proof.
    apply (tree_ind2 (fun t => length (flatten t) = size t)
                     (fun ts => length (flats ts) = sizes ts)).
    - intros s kids H. rewrite flatten_Node, size_Node. simpl. congruence.
    - reflexivity.
    - intros t ts Ht Hts. rewrite flats_cons, sizes_cons, app_length. congruence.
  Qed.
  Lemma flats_length : forall ts : list tree, length (flats ts) = sizes ts.
  Proof.
    induction ts as [|t ts IH]; auto.
    rewrite flats_cons, sizes_cons, app_length, flatten_length. congruence.
  Qed.
  Lemma size_pos (t : tree) : 1 <= size t.
  Proof. destruct t; simpl; lia. Qed.

  (* ---------------------------------------------------------------- the counter walk *)
  Lemma walk_wf :
    forall t : tree, wft t = true -> forall k rest,
      walk (S k) (nargs (flatten t) ++ rest) = option_map (Nat.add (size t)) (walk k rest).
  Proof.
    apply (tree_ind2
      (fun t => wft t = true -> forall k rest,
         walk (S k) (nargs (flatten t) ++ rest) = option_map (Nat.add (size t)) (walk k rest))
      (fun ts => wff ts = true -> forall k rest,
         walk (length ts + k) (nargs (flats ts) ++ rest) = option_map (Nat.add (sizes ts)) (walk k rest))).
    - intros s kids IH Hwf k rest. apply wft_Node in Hwf. destruct Hwf as [Hlen Hk].
      rewrite flatten_Node, size_Node. simpl.
      rewrite <- Hlen, (Nat.add_comm k), (IH Hk).
      destruct (walk k rest); reflexivity.
    - intros _ k rest. simpl. destruct (walk k rest); reflexivity.
    - intros t ts IHt IHts Hwf k rest. apply wff_cons in Hwf. destruct Hwf as [Ht Hts].
      rewrite flats_cons, nargs_app, <- app_assoc, sizes_cons. simpl length.
      change (S (length ts) + k) with (S (length ts + k)).
      rewrite (IHt Ht), (IHts Hts).
      destruct (walk k rest); simpl; auto. f_equal; lia.
  Qed.

  Lemma walk_forest :
    forall ts : list tree, wff ts = true -> forall k rest,
      walk (length ts + k) (nargs (flats ts) ++ rest) = option_map (Nat.add (sizes ts)) (walk k rest).
  Proof.
    induction ts as [|t ts IH]; intros Hwf k rest.
    - simpl. destruct (walk k rest); reflexivity.
    - apply wff_cons in Hwf. destruct Hwf as [Ht Hts].
      rewrite flats_cons, nargs_app, <- app_assoc, sizes_cons. simpl length.
      change (S (length ts) + k) with (S (length ts + k)).
      rewrite (walk_wf t Ht), (IH Hts).
      destruct (walk k rest); simpl; auto. f_equal; lia.
  Qed.

  Lemma walk_bounds : forall l steps c, walk steps l = Some c -> c <= length l /\ (0 < steps -> 0 < c).
  Proof.
    induction l as [|x l IH]; intros [|s] c H; simpl in *; try discriminate.
    - inversion H; lia.
    - inversion H; lia.
    - destruct (walk (s + x) l) eqn:E; simpl in H; try discriminate. inversion H; subst.
      apply IH in E. lia.
  Qed.

  (* the index-based loop of the code is the suffix walk *)
  Lemma find_end_loop_walk : forall fuel a n steps, length a - n <= fuel ->
    find_end_loop fuel a n steps = option_map (Nat.add n) (walk steps (skipn n a)).
  Proof.
    induction fuel as [|f IH]; intros a n steps Hf.
    - destruct steps; simpl.
      + rewrite walk_0. simpl. f_equal; lia.
      + rewrite skipn_all2 by lia. reflexivity.
    - destruct steps; simpl.
      + rewrite walk_0. simpl. f_equal; lia.
      + destruct (nth_error a n) eqn:E.
        * rewrite (nth_error_skipn_cons _ _ _ E). rewrite IH.
          -- apply option_map_plus_S.
          -- assert (n < length a) by (apply nth_error_Some; congruence). lia.
        * apply nth_error_None in E. rewrite skipn_all2 by lia. reflexivity.
  Qed.

  Lemma find_end_walk a i :
    find_end a i = option_map (Nat.add i) (walk 1 (skipn i a)).
  Proof.
    unfold find_end. destruct (nth_error a i) eqn:E.
    - rewrite (nth_error_skipn_cons _ _ _ E). simpl.
      rewrite find_end_loop_walk by lia. apply option_map_plus_S.
    - apply nth_error_None in E. rewrite skipn_all2 by lia. reflexivity.
  Qed.

  (* any successful find_end lands strictly after i and inside the array *)
  Lemma find_end_bounds a i e : find_end a i = Some e -> i < e <= length a.
  Proof.
    rewrite find_end_walk. destruct (walk 1 (skipn i a)) eqn:E; simpl; intro H; inversion H; subst.
    apply walk_bounds in E. rewrite skipn_length in E. lia.
  Qed.

  (* THE refinement: the counter walk started at the root of an encoded sub-term stops exactly
     behind it; fuel = length of the array suffices (it is what find_end passes) *)
  Theorem find_end_flat : forall (t : tree) pre rest, wft t = true ->
    find_end (nargs (pre ++ flatten t ++ rest)) (length pre) = Some (length pre + size t).
  Proof.
    intros t pre rest Hwf. rewrite find_end_walk.
    rewrite nargs_app, <- (nargs_length pre), skipn_app_len, nargs_app.
    rewrite (walk_wf t Hwf 0 (nargs rest)), walk_0. simpl. f_equal. lia.
  Qed.
  Corollary find_end_flat0 : forall (t : tree) rest, wft t = true ->
    find_end (nargs (flatten t ++ rest)) 0 = Some (size t).
  Proof. intros t rest H. apply (find_end_flat t [] rest H). Qed.

  (* ---------------------------------------------------------------- positions and sub-terms *)
  Lemma sub_at_Node s (kids : list tree) j : sub_at (Node s kids) (S j) = sub_at_f kids j.
  Proof. reflexivity. Qed.
  Lemma sub_at_f_cons (k : tree) r j :
    sub_at_f (k :: r) j = if j <? size k then sub_at k j else sub_at_f r (j - size k).
  Proof. reflexivity. Qed.
  Lemma replace_at_Node s (kids : list tree) j u :
    replace_at (Node s kids) (S j) u = Node s (replace_at_f u kids j).
  Proof. reflexivity. Qed.
  Lemma replace_at_f_cons u (k : tree) r j :
    replace_at_f u (k :: r) j =
    if j <? size k then replace_at k j u :: r else k :: replace_at_f u r (j - size k).
  Proof. reflexivity. Qed.

  (* decomposition of the encoding around a position *)
  Lemma sub_at_decomp : forall (t : tree) i u, sub_at t i = Some u ->
    exists pre post, flatten t = pre ++ flatten u ++ post /\ length pre = i /\
      forall v, flatten (replace_at t i v) = pre ++ flatten v ++ post.
  Proof.
    apply (tree_ind2
      (fun t => forall i u, sub_at t i = Some u ->
         exists pre post, flatten t = pre ++ flatten u ++ post /\ length pre = i /\
           forall v, flatten (replace_at t i v) = pre ++ flatten v ++ post)
      (fun ts => forall j u, sub_at_f ts j = Some u ->
         exists pre post, flats ts = pre ++ flatten u ++ post /\ length pre = j /\
           forall v, flats (replace_at_f v ts j) = pre ++ flatten v ++ post)).
    - intros s kids IH [|j] u H.
      + simpl in H. inversion H; subst. exists [], []. simpl. rewrite !app_nil_r.
        repeat split; auto. intros v. rewrite app_nil_r. reflexivity.
      + rewrite sub_at_Node in H. destruct (IH _ _ H) as (pre & post & E & L & R).
        exists (s :: pre), post. rewrite flatten_Node, E. split; [reflexivity|]. split; [simpl; lia|].
        intros v. rewrite replace_at_Node, flatten_Node, R. reflexivity.
    - intros j u H. discriminate.
    - intros t ts IHt IHts j u H. rewrite sub_at_f_cons in H.
      destruct (j <? size t) eqn:C.
      + destruct (IHt _ _ H) as (pre & post & E & L & R).
        exists pre, (post ++ flats ts). rewrite flats_cons, E, <- !app_assoc. repeat split; auto.
        intros v. rewrite replace_at_f_cons, C, flats_cons, R, <- !app_assoc. reflexivity.
      + apply Nat.ltb_ge in C. destruct (IHts _ _ H) as (pre & post & E & L & R).
        exists (flatten t ++ pre), post. rewrite flats_cons, E, <- !app_assoc. repeat split; auto.
        * rewrite app_length, flatten_length. lia.
        * intros v. rewrite replace_at_f_cons.
          replace (j <? size t) with false by (symmetry; apply Nat.ltb_ge; lia).
          rewrite flats_cons, R, <- !app_assoc. reflexivity.
  Qed.

  Lemma sub_at_wf : forall (t : tree), wft t = true -> forall i u, sub_at t i = Some u -> wft u = true.
  Proof.
    apply (tree_ind2
      (fun t => wft t = true -> forall i u, sub_at t i = Some u -> wft u = true)
      (fun ts => wff ts = true -> forall j u, sub_at_f ts j = Some u -> wft u = true)).
    - intros s kids IH Hwf [|j] u H.
      + simpl in H. inversion H; subst; auto.
      + rewrite sub_at_Node in H. apply wft_Node in Hwf. eapply IH; eauto. tauto.
    - intros _ j u H. discriminate.
    - intros t ts IHt IHts Hwf j u H. apply wff_cons in Hwf. rewrite sub_at_f_cons in H.
      destruct (j <? size t); [eapply IHt | eapply IHts]; eauto; tauto.
  Qed.

  Lemma sub_at_some : forall (t : tree) i, i < size t -> exists u, sub_at t i = Some u.
  Proof.
    apply (tree_ind2
      (fun t => forall i, i < size t -> exists u, sub_at t i = Some u)
      (fun ts => forall j, j < sizes ts -> exists u, sub_at_f ts j = Some u)).
    - intros s kids IH [|j] H.
      + eexists; reflexivity.
      + rewrite sub_at_Node. apply IH. rewrite size_Node in H. lia.
    - intros j H. unfold sizes in H; simpl in H. lia.
    - intros t ts IHt IHts j H. rewrite sub_at_f_cons. rewrite sizes_cons in H.
      destruct (j <? size t) eqn:C.
      + apply IHt. apply Nat.ltb_lt; auto.
      + apply Nat.ltb_ge in C. apply IHts. lia.
  Qed.

  Lemma sub_at_none : forall (t : tree) i, size t <= i -> sub_at t i = None.
  Proof.
    apply (tree_ind2
      (fun t => forall i, size t <= i -> sub_at t i = None)
      (fun ts => forall j, sizes ts <= j -> sub_at_f ts j = None)).
    - intros s kids IH [|j] H; rewrite size_Node in H; [lia|].
      rewrite sub_at_Node. apply IH. lia.
    - reflexivity.
    - intros t ts IHt IHts j H. rewrite sub_at_f_cons. rewrite sizes_cons in H.
      replace (j <? size t) with false by (symmetry; apply Nat.ltb_ge; lia).
      apply IHts. lia.
  Qed.

  Lemma replace_at_wf : forall (t : tree), wft t = true -> forall i v, wft v = true ->
    wft (replace_at t i v) = true.
  Proof.
    apply (tree_ind2
      (fun t => wft t = true -> forall i v, wft v = true -> wft (replace_at t i v) = true)
      (fun ts => wff ts = true -> forall j v, wft v = true ->
                 wff (replace_at_f v ts j) = true /\ length (replace_at_f v ts j) = length ts)).
    - intros s kids IH Hwf [|j] v Hv; auto.
      rewrite replace_at_Node. apply wft_Node in Hwf. destruct Hwf as [L W].
      destruct (IH W j v Hv) as [W' L']. apply wft_Node. split; congruence.
    - intros _ j v _. split; reflexivity.
    - intros t ts IHt IHts Hwf j v Hv. apply wff_cons in Hwf. destruct Hwf as [Wt Wts].
      rewrite replace_at_f_cons. destruct (j <? size t).
      + split; auto. apply wff_cons. split; auto.
      + destruct (IHts Wts (j - size t) v Hv) as [W' L']. split.
        * apply wff_cons; auto.
        * simpl; congruence.
  Qed.

  (* ---------------------------------------------------------------- slices *)
  Lemma slice_mid {A} (pre mid post : list A) :
    slice (pre ++ mid ++ post) (length pre) (length pre + length mid) = mid.
  Proof.
    unfold slice. rewrite skipn_app_len.
    replace (length pre + length mid - length pre) with (length mid) by lia.
    apply firstn_app_len.
  Qed.
  Lemma splice_mid {A} (pre mid post m : list A) :
    splice (pre ++ mid ++ post) (length pre) (length pre + length mid) m = pre ++ m ++ post.
  Proof.
    unfold splice. rewrite firstn_app_len, skipn_app_plus, skipn_app_len. reflexivity.
  Qed.
  Lemma splice_slice_id {A} (l : list A) i e : i <= e ->
    splice l i e (slice l i e) = l.
  Proof.
    intros H. unfold splice, slice.
    replace (skipn e l) with (skipn (e - i) (skipn i l)).
    - rewrite firstn_skipn, firstn_skipn. reflexivity.
    - rewrite skipn_skipn'. f_equal. lia.
  Qed.

  (* ---------------------------------------------------------------- subtree / concat *)
  Theorem subtree_flatten : forall (t : tree) i u, wft t = true -> sub_at t i = Some u ->
    subtree arity (flatten t) i = Some (flatten u).
  Proof.
    intros t i u Hwf Hs. destruct (sub_at_decomp t i u Hs) as (pre & post & E & L & _).
    unfold subtree. rewrite E, <- L, (find_end_flat u pre post (sub_at_wf t Hwf i u Hs)). simpl.
    rewrite <- flatten_length, slice_mid. reflexivity.
  Qed.

  Theorem concat_flatten : forall (t : tree) i u v, wft t = true -> sub_at t i = Some u ->
    concat arity (flatten t) i (flatten v) = Some (flatten (replace_at t i v)).
  Proof.
    intros t i u v Hwf Hs. destruct (sub_at_decomp t i u Hs) as (pre & post & E & L & R).
    unfold concat. rewrite R, E, <- L, (find_end_flat u pre post (sub_at_wf t Hwf i u Hs)). simpl.
    rewrite <- flatten_length, splice_mid. reflexivity.
  Qed.

  (* concat(i, subtree(i)) is the identity — for ANY node list on which subtree(i) is defined *)
  Theorem concat_subtree_id : forall (p : list sym) i q,
    subtree arity p i = Some q -> concat arity p i q = Some p.
  Proof.
    intros p i q. unfold subtree, concat.
    destruct (find_end (nargs p) i) eqn:E; simpl; intro H; inversion H; subst.
    apply find_end_bounds in E. rewrite splice_slice_id by lia. reflexivity.
  Qed.

  (* the pair representation (node list, arity array) stays consistent *)
  Lemma nargs_slice p i e : nargs (slice p i e) = slice (nargs p) i e.
  Proof. unfold slice, nargs. rewrite skipn_map, firstn_map. reflexivity. Qed.
  Lemma nargs_splice p i e q : nargs (splice p i e q) = splice (nargs p) i e (nargs q).
  Proof. unfold splice, nargs. rewrite !map_app, firstn_map, skipn_map. reflexivity. Qed.
  Theorem subtree_p_mk p i : subtree_p (mk arity p) i = option_map (mk arity) (subtree arity p i).
  Proof.
    unfold subtree_p, subtree, mk. simpl. destruct (find_end (nargs p) i); simpl; auto.
    rewrite nargs_slice. reflexivity.
  Qed.
  Theorem concat_p_mk p i q :
    concat_p (mk arity p) i (mk arity q) = option_map (mk arity) (concat arity p i q).
  Proof.
    unfold concat_p, concat, mk. simpl. destruct (find_end (nargs p) i); simpl; auto.
    rewrite nargs_splice. reflexivity.
  Qed.

  (* ---------------------------------------------------------------- find_id_args_from_i *)
  Lemma find_args_loop_flat : forall (r : list tree) (k : tree) pre rest,
    wft k = true -> wff r = true ->
    find_args_loop (nargs (pre ++ flats (k :: r) ++ rest)) (length r) (length pre)
    = Some (child_starts (length pre + size k) r).
  Proof.
    induction r as [|k2 r IH]; intros k pre rest Hk Hr; simpl find_args_loop; auto.
    apply wff_cons in Hr. destruct Hr as [Hk2 Hr].
    rewrite <- app_assoc. rewrite (find_end_flat k pre _ Hk).
    specialize (IH k2 (pre ++ flatten k) rest Hk2 Hr).
    rewrite flats_cons, app_length, flatten_length, <- app_assoc in IH. rewrite IH. reflexivity.
  Qed.

  Theorem find_args_flat : forall s (kids : list tree) pre rest, wft (Node s kids) = true ->
    find_args (nargs (pre ++ flatten (Node s kids) ++ rest)) (length pre)
    = Some (child_starts (S (length pre)) kids).
  Proof.
    intros s kids pre rest Hwf. apply wft_Node in Hwf. destruct Hwf as [L W].
    assert (Hn : nth_error (nargs (pre ++ flatten (Node s kids) ++ rest)) (length pre) = Some (arity s)).
    { rewrite nargs_app, nth_error_app2 by (rewrite nargs_length; lia).
      rewrite nargs_length, Nat.sub_diag. reflexivity. }
    unfold find_args. rewrite Hn, <- L. destruct kids as [|k r]; [reflexivity|]. simpl length.
    apply wff_cons in W. destruct W as [Wk Wr].
    pose proof (find_args_loop_flat r k (pre ++ [s]) rest Wk Wr) as H.
    replace (pre ++ flatten (Node s (k :: r)) ++ rest) with ((pre ++ [s]) ++ flats (k :: r) ++ rest)
      by (rewrite <- app_assoc; reflexivity).
    replace (S (length pre)) with (length (pre ++ [s])) by (rewrite app_length; simpl; lia).
    rewrite H. reflexivity.
  Qed.
End Proofs.
