(* Net.v — data model of thefittest.base._net.Net (C12, C13).  Model only, no proofs.

   A Python  set  of node ids is a duplicate-free list (compared up to permutation by the
   correspondence);  _connects  is the list of (source, target) rows in array order;  _weights  is
   represented here only by its length (the values live in NetForward.v);  _activs  is the
   dict  node id -> activation code  as an association list (keys unique).                       *)
From TF Require Import Base.
Local Open Scope nat_scope.

Record net := mkNet {
  n_in  : list nat;            (* self._inputs                     *)
  n_hid : list (list nat);     (* self._hidden_layers              *)
  n_out : list nat;            (* self._outputs                    *)
  n_con : list (nat * nat);    (* self._connects  (rows)           *)
  n_nw  : nat;                 (* len(self._weights)               *)
  n_act : list (nat * nat)     (* self._activs    (id, code)       *)
}.

Definition empty_net : net := mkNet [] [] [] [] 0 [].

(* ---- sets of ids as lists ---- *)
Definition mem (x : nat) (l : list nat) : bool := existsb (Nat.eqb x) l.
(* a.union(b) *)
Definition union (a b : list nat) : list nat := a ++ filter (fun x => negb (mem x a)) b.
(* a.difference(b) *)
Definition diff (a b : list nat) : list nat := filter (fun x => negb (mem x b)) a.
(* set(a).issubset(b) *)
Definition subset (a b : list nat) : bool := forallb (fun x => mem x b) a.
(* a == b  for sets *)
Definition set_eq (a b : list nat) : bool := subset a b && subset b a.
Definition is_nil {A} (l : list A) : bool := match l with [] => true | _ => false end.

(* Net._assemble_hiddens : the union of all layers *)
Definition assemble (hs : list (list nat)) : list nat := fold_right union [] hs.
(* flat list of hidden ids, used in statements *)
Definition hidden (n : net) : list nat := concat (n_hid n).

(* {**a, **b} *)
Definition amerge (a b : list (nat * nat)) : list (nat * nat) :=
  filter (fun p => negb (mem (fst p) (map fst b))) a ++ b.
Fixpoint alookup (k : nat) (a : list (nat * nat)) : option nat :=
  match a with
  | [] => None
  | (k', v) :: t => if (k =? k')%nat then Some v else alookup k t
  end.

(* ---- sorting helpers (insertion sort, stable) ---- *)
Fixpoint ins_nat (x : nat) (l : list nat) : list nat :=
  match l with
  | [] => [x]
  | y :: t => if (x <=? y)%nat then x :: l else y :: ins_nat x t
  end.
Definition sort_nat (l : list nat) : list nat := fold_right ins_nat [] l.

(* lexicographic order on rows, np.unique(axis=0) = sorted, duplicates removed *)
Definition pair_ltb (p q : nat * nat) : bool :=
  ((fst p <? fst q) || ((fst p =? fst q) && (snd p <? snd q)))%nat.
Definition pair_eqb (p q : nat * nat) : bool := ((fst p =? fst q) && (snd p =? snd q))%nat.
Fixpoint ins_uniq (x : nat * nat) (l : list (nat * nat)) : list (nat * nat) :=
  match l with
  | [] => [x]
  | y :: t => if pair_eqb x y then l else if pair_ltb x y then x :: l else y :: ins_uniq x t
  end.
Definition sort_dedup (l : list (nat * nat)) : list (nat * nat) := fold_right ins_uniq [] l.

(* sorted multiset of rows (used only to compare connection multisets) *)
Fixpoint ins_pair (x : nat * nat) (l : list (nat * nat)) : list (nat * nat) :=
  match l with
  | [] => [x]
  | y :: t => if pair_ltb y x then y :: ins_pair x t else x :: l
  end.
Definition sort_pairs (l : list (nat * nat)) : list (nat * nat) := fold_right ins_pair [] l.

(* ---- equality tests used by the checkers ---- *)
Fixpoint pairlist_eqb (a b : list (nat * nat)) : bool :=
  match a, b with
  | [], [] => true
  | x :: a', y :: b' => pair_eqb x y && pairlist_eqb a' b'
  | _, _ => false
  end.
Fixpoint natll_eqb (a b : list (list nat)) : bool :=
  match a, b with
  | [], [] => true
  | x :: a', y :: b' => natlist_eqb x y && natll_eqb a' b'
  | _, _ => false
  end.

(* canonical form: sets sorted, activs sorted by key; connects left as they are *)
Definition canon (n : net) : net :=
  mkNet (sort_nat (n_in n)) (map sort_nat (n_hid n)) (sort_nat (n_out n)) (n_con n) (n_nw n)
        (sort_pairs (n_act n)).
Definition canon_ms (n : net) : net :=
  let c := canon n in mkNet (n_in c) (n_hid c) (n_out c) (sort_pairs (n_con c)) (n_nw c) (n_act c).
Definition net_eqb (a b : net) : bool :=
  natlist_eqb (n_in a) (n_in b) && natll_eqb (n_hid a) (n_hid b) && natlist_eqb (n_out a) (n_out b)
  && pairlist_eqb (n_con a) (n_con b) && (n_nw a =? n_nw b)%nat && pairlist_eqb (n_act a) (n_act b).
