(* NetAlgebra.v — model of the graph algebra behind the network genotype (C13).  Model only.

   Sources modelled (file /repo/src/thefittest/...):
     base/_net.py   Net._get_connect, Net.__add__, Net.__gt__, Net._fix
     base/_gpnn.py  genotype_to_phenotype_tree
     base/_mlp.py   BaseMLPEA._defitne_net
   Weight *values* (uniform(-2,2) draws) are not modelled, only their number.                     *)
From TF Require Import Base Net.
Local Open Scope nat_scope.

(* Net._get_connect(left, right): product(left, right) when both are non-empty *)
Definition get_connect (l r : list nat) : list (nat * nat) * nat :=
  if is_nil l || is_nil r then ([], 0) else let c := list_prod l r in (c, length c).

(* map(union, zip(h1, h2)) + excess *)
Fixpoint zip_union (a b : list (list nat)) : list (list nat) :=
  match a, b with
  | x :: a', y :: b' => union x y :: zip_union a' b'
  | [], _ => b
  | _, [] => a
  end.

(* the general branch of Net.__add__ *)
Definition add_plain (a b : net) : net :=
  mkNet (union (n_in a) (n_in b)) (zip_union (n_hid a) (n_hid b)) (union (n_out a) (n_out b))
        (n_con a ++ n_con b) (n_nw a + n_nw b) (amerge (n_act a) (n_act b)).

(* open sources of the left operand / open targets of the right operand in Net.__gt__ *)
Definition gt_from (a : net) : list nat :=
  diff (union (n_in a) (assemble (n_hid a))) (map fst (n_con a)).
Definition gt_to (b : net) : list nat :=
  let connects_no_i := map snd (filter (fun c => negb (mem (fst c) (n_in b))) (n_con b)) in
  diff (union (assemble (n_hid b)) (n_out b)) connects_no_i.

(* the general branch of Net.__gt__ *)
Definition gt_plain (a b : net) : net :=
  let '(c, w) := get_connect (gt_from a) (gt_to b) in
  mkNet (union (n_in a) (n_in b)) (n_hid a ++ n_hid b) (union (n_out a) (n_out b))
        (n_con a ++ n_con b ++ c) (n_nw a + n_nw b + w) (amerge (n_act a) (n_act b)).

Definition has {A} (l : list A) : bool := negb (is_nil l).

(* Net.__add__ (isgt = false) and Net.__gt__ (isgt = true) call each other; the mutual recursion
   is modelled with fuel (None = fuel exhausted).
   [fixed] selects the repaired first special case of __gt__ ("two inputs-only nets": now also
   requires that the right operand has no outputs); fixed = false is the code before the repair. *)
Fixpoint net_op (fixed : bool) (fuel : nat) (isgt : bool) (a b : net) : option net :=
  match fuel with
  | O => None
  | S f =>
    let i1 := has (n_in a) in let i2 := has (n_in b) in
    let h1 := has (n_hid a) in let h2 := has (n_hid b) in
    if isgt then
      if (i1 && negb h1) && (i2 && negb h2) && (negb fixed || is_nil (n_out b))
      then net_op fixed f false a b
      else if (negb i1 && h1) && (i2 && negb h2) then net_op fixed f true b a
      else Some (gt_plain a b)
    else
      if (i1 && negb i2) && (negb h1 && h2) then net_op fixed f true a b
      else if (negb i1 && i2) && (h1 && negb h2) then net_op fixed f true b a
      else Some (add_plain a b)
  end.

(* fuel that always suffices (NetProofs: net_op_total) *)
Definition OPFUEL : nat := 3.
Definition net_add (fixed : bool) := net_op fixed OPFUEL false.
Definition net_gt (fixed : bool) := net_op fixed OPFUEL true.

(* Net._fix(inputs) *)
Definition fix_net (inputs : list nat) (n : net) : net :=
  let to_ := diff (union (assemble (n_hid n)) (n_out n)) (map snd (n_con n)) in
  let n1 :=
    if is_nil to_ then n
    else
      let ins := if is_nil (n_in n) then inputs else n_in n in
      let '(c, w) := get_connect ins to_ in
      mkNet ins (n_hid n) (n_out n) (n_con n ++ c) (n_nw n + w) (n_act n) in
  let con := sort_dedup (n_con n1) in
  mkNet (n_in n1) (n_hid n1) (n_out n1) con (Nat.min (n_nw n1) (length con)) (n_act n1).

(* the three kinds of unit nets *)
Definition unit_in (ids : list nat) : net := mkNet ids [] [] [] 0 [].
Definition unit_hid (ids : list nat) (act : nat) : net :=
  mkNet [] [ids] [] [] 0 (map (fun i => (i, act)) ids).
Definition unit_out (ids : list nat) (act : nat) : net :=
  mkNet [] [] ids [] 0 (map (fun i => (i, act)) ids).

(* nodes of a tree over the network universal set (init_net_uniset):
   input block (set of column ids), the bias column n_variables-1 (only with offset),
   hidden block (size, activation code), and the two binary operators *)
Inductive gnode := GIn (ids : list nat) | GBias | GHid (size act : nat) | GOp (isgt : bool).

(* one step of  for node in reversed(tree._nodes)  with  pack  = stack (head = top), n = next id *)
Fixpoint run_stack (fixed : bool) (nv : nat) (nodes : list gnode) (stack : list net) (n : nat)
  : option (list net * nat) :=
  match nodes with
  | [] => Some (stack, n)
  | g :: rest =>
    match g with
    | GOp o =>
      match stack with
      | x :: y :: st =>
        match net_op fixed OPFUEL o x y with
        | Some r => run_stack fixed nv rest (r :: st) n
        | None => None
        end
      | _ => None            (* pack.pop() from an empty list *)
      end
    | GIn ids => run_stack fixed nv rest (unit_in ids :: stack) n
    | GBias => run_stack fixed nv rest (unit_in [nv - 1] :: stack) n
    | GHid size act => run_stack fixed nv rest (unit_hid (seq n size) act :: stack) (n + size)
    end
  end.

(* genotype_to_phenotype_tree(tree, n_variables, n_outputs, output_activation, offset);
   [nodes] is tree._nodes in prefix order *)
Definition decode_nodes (fixed : bool) (nv nout oact : nat) (nodes : list gnode) : option net :=
  match run_stack fixed nv (rev nodes) [] nv with
  | Some (stack, n) =>
    match rev stack with
    | bottom :: _ =>               (* pack[0] *)
      match net_op fixed OPFUEL true bottom (unit_out (seq n nout) oact) with
      | Some r => Some (fix_net (seq 0 nv) r)
      | None => None
      end
    | [] => None
    end
  | None => None
  end.

(* the same on an inductive tree *)
Inductive gtree :=
| TIn (ids : list nat) | TBias | THid (size act : nat) | TNode (isgt : bool) (l r : gtree).

Fixpoint prefix (t : gtree) : list gnode :=
  match t with
  | TIn ids => [GIn ids]
  | TBias => [GBias]
  | THid s a => [GHid s a]
  | TNode o l r => GOp o :: prefix l ++ prefix r
  end.

(* right subtree first: it is numbered first by the reversed pass *)
Fixpoint decode_rec (fixed : bool) (nv : nat) (t : gtree) (n : nat) : option (net * nat) :=
  match t with
  | TIn ids => Some (unit_in ids, n)
  | TBias => Some (unit_in [nv - 1], n)
  | THid s a => Some (unit_hid (seq n s) a, n + s)
  | TNode o l r =>
    match decode_rec fixed nv r n with
    | Some (nr, n1) =>
      match decode_rec fixed nv l n1 with
      | Some (nl, n2) =>
        match net_op fixed OPFUEL o nl nr with Some x => Some (x, n2) | None => None end
      | None => None
      end
    | None => None
    end
  end.

Definition decode (fixed : bool) (nv nout oact : nat) (t : gtree) : option net :=
  decode_nodes fixed nv nout oact (prefix t).

(* BaseMLPEA._defitne_net(n_inputs, n_outputs) with self.hidden_layers = hs,
   ACTIV_NAME_INV[self.activation] = act, self.offset = offset,
   oact = 5 (softmax) for classifiers and 4 (ln) for regressors *)
Definition mlp_layer (fixed offset : bool) (bias : nat) (u : net) : option net :=
  if offset then net_op fixed OPFUEL true (unit_in [bias]) u else Some u.

Fixpoint mlp_hidden (fixed offset : bool) (act bias : nat) (hs : list nat) (nt : net) (e : nat)
  : option (net * nat) :=
  match hs with
  | [] => Some (nt, e)
  | h :: t =>
    match mlp_layer fixed offset bias (unit_hid (seq e h) act) with
    | Some ln =>
      match net_op fixed OPFUEL true nt ln with
      | Some nt' => mlp_hidden fixed offset act bias t nt' (e + h)
      | None => None
      end
    | None => None
    end
  end.

Definition define_net (fixed : bool) (n_inputs n_outputs : nat) (hs : list nat) (act : nat)
           (offset : bool) (oact : nat) : option net :=
  match mlp_hidden fixed offset act (n_inputs - 1) hs (unit_in (seq 0 n_inputs)) n_inputs with
  | Some (nt, e) =>
    match mlp_layer fixed offset (n_inputs - 1) (unit_out (seq e n_outputs) oact) with
    | Some ln => net_op fixed OPFUEL true nt ln
    | None => None
    end
  | None => None
  end.

(* ---------------------------------------------------------------------------------------------
   Valid : the property of C13 on a net                                                          *)
Definition rank_ok (n : net) (rank : nat -> nat) : Prop :=
  (forall v, In v (n_in n) -> rank v = 0) /\
  (forall i L v, nth_error (n_hid n) i = Some L -> In v L -> rank v = S i) /\
  (forall v, In v (n_out n) -> rank v = S (length (n_hid n))) /\
  (forall a b, In (a, b) (n_con n) ->
     rank a < rank b /\ (In a (n_in n) \/ In a (hidden n)) /\ (In b (hidden n) \/ In b (n_out n))).

Record Valid (n : net) : Prop := {
  v_sets     : NoDup (n_in n ++ hidden n ++ n_out n);          (* the id sets are sets, disjoint *)
  v_nodup    : NoDup (n_con n);                                (* connections unique *)
  v_rank     : exists rank, rank_ok n rank;                    (* layered: acyclic, forward only *)
  v_incoming : forall v, In v (hidden n) \/ In v (n_out n) -> exists a, In (a, v) (n_con n);
  v_outgoing : forall v, In v (hidden n) -> exists b, In (v, b) (n_con n);
  v_weights  : n_nw n = length (n_con n);                      (* one weight per connection *)
  v_activs   : NoDup (map fst (n_act n)) /\
               forall v, In v (map fst (n_act n)) <-> In v (hidden n) \/ In v (n_out n)
}.

(* boolean form, evaluated by the correspondence on the implementation's own nets *)
Fixpoint find_layer (v : nat) (hs : list (list nat)) (i : nat) : option nat :=
  match hs with
  | [] => None
  | L :: t => if mem v L then Some i else find_layer v t (S i)
  end.
Definition rank_of (n : net) (v : nat) : nat :=
  if mem v (n_in n) then 0
  else match find_layer v (n_hid n) 0 with Some i => S i | None => S (length (n_hid n)) end.
Fixpoint nodupb (l : list nat) : bool :=
  match l with [] => true | x :: t => negb (mem x t) && nodupb t end.
Fixpoint nodup_pairs (l : list (nat * nat)) : bool :=
  match l with [] => true | x :: t => negb (existsb (pair_eqb x) t) && nodup_pairs t end.

Definition valid_b (n : net) : bool :=
  let hid := hidden n in
  nodupb (n_in n ++ hid ++ n_out n)
  && nodup_pairs (n_con n)
  && forallb (fun c => (rank_of n (fst c) <? rank_of n (snd c))%nat
                       && (mem (fst c) (n_in n) || mem (fst c) hid)
                       && (mem (snd c) hid || mem (snd c) (n_out n))) (n_con n)
  && forallb (fun v => existsb (fun c => (snd c =? v)%nat) (n_con n)) (hid ++ n_out n)
  && forallb (fun v => existsb (fun c => (fst c =? v)%nat) (n_con n)) hid
  && (n_nw n =? length (n_con n))%nat
  && nodupb (map fst (n_act n))
  && set_eq (map fst (n_act n)) (hid ++ n_out n).

(* the architecture the MLP builder is asked for: full bipartite between consecutive layers,
   bias -> every layer when offset *)
Fixpoint mlp_ranges (e : nat) (hs : list nat) : list (list nat) :=
  match hs with [] => [] | h :: t => seq e h :: mlp_ranges (e + h) t end.
Fixpoint consecutive (ls : list (list nat)) : list (nat * nat) :=
  match ls with
  | a :: ((b :: _) as t) => list_prod a b ++ consecutive t
  | _ => []
  end.
Definition mlp_spec_connects (n_inputs n_outputs : nat) (hs : list nat) (offset : bool)
  : list (nat * nat) :=
  let layers := mlp_ranges n_inputs (hs ++ [n_outputs]) in
  consecutive (seq 0 n_inputs :: layers)
  ++ (if offset then list_prod [n_inputs - 1] (concat layers) else []).
