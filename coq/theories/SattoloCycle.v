(* SattoloCycle.v — the Sattolo shuffle yields a CYCLIC permutation (C11), for every length and every
   outcome of the draws.  Proof idea: the shuffle is  swap(i, j_i), j_i < i,  for i = n-1 .. 1; as a map on
   positions the result is  tau_(n-1) o ( tau_(n-2) o ( ... o tau_1 ) );  a cycle on {0..i-1} composed
   with the transposition (i j), j < i, is a cycle on {0..i}: the edge  x -> j  becomes  x -> i -> j. *)
From TF Require Import Base RandomPrims RandomPrimsProofs RandomPrimsProofs2.
Open Scope Q_scope.

Fixpoint iter {A} (f : A -> A) (k : nat) (x : A) : A :=
  match k with O => x | S k' => f (iter f k' x) end.

Lemma iter_plus {A} (f : A -> A) a b x : iter f (a + b) x = iter f a (iter f b x).
Proof. induction a as [|a IH]; cbn; [reflexivity|now rewrite IH]. Qed.

(* pi restricted to {0..m} is one cycle through all of them, and the identity above m *)
Definition cyclic_on (m : nat) (pi : nat -> nat) : Prop :=
  (forall p, (p <= m)%nat -> (pi p <= m)%nat) /\
  (forall p, (m < p)%nat -> pi p = p) /\
  (forall a b, (a <= m)%nat -> (b <= m)%nat -> exists k, iter pi k a = b).

(* the index-level shuffle: js = [j_i; j_(i-1); ...; j_1] *)
Fixpoint sat {A} (d : A) (i : nat) (js : list nat) (arr : list A) : list A :=
  match i, js with
  | S i', j :: js' => sat d i' js' (swap d arr (S i') j)
  | _, _ => arr
  end.
Fixpoint sat_perm (i : nat) (js : list nat) : nat -> nat :=
  match i, js with
  | S i', j :: js' => fun p => transp (S i') j (sat_perm i' js' p)
  | _, _ => fun p => p
  end.
Fixpoint js_ok (i : nat) (js : list nat) : Prop :=
  match i, js with
  | S i', j :: js' => (j <= i')%nat /\ js_ok i' js'
  | O, [] => True
  | _, _ => False
  end.

Lemma sat_length {A} (d : A) : forall i js arr, length (sat d i js arr) = length arr.
Proof.
  induction i as [|i IH]; intros js arr; cbn [sat]; [reflexivity|]. destruct js as [|j js]; [reflexivity|].
  rewrite IH. apply swap_length.
Qed.

(* position p of the output holds what was at position (sat_perm i js p) of the input *)
Lemma sat_nth {A} (d : A) : forall i js arr p, (i < length arr)%nat -> js_ok i js ->
  nth p (sat d i js arr) d = nth (sat_perm i js p) arr d.
Proof.
  induction i as [|i IH]; intros js arr p Hi Hok; cbn [sat sat_perm].
  - destruct js; reflexivity.
  - destruct js as [|j js]; [destruct Hok|]. destruct Hok as (Hj & Hok).
    rewrite IH by (rewrite ?swap_length; auto; lia).
    apply nth_swap_transp; lia.
Qed.

Lemma sat_perm_step i j js p : sat_perm (S i) (j :: js) p = transp (S i) j (sat_perm i js p).
Proof. reflexivity. Qed.

Theorem sat_perm_cyclic : forall i js, js_ok i js -> cyclic_on i (sat_perm i js).
Proof.
  induction i as [|i IH]; intros js Hok.
  - destruct js; [|destruct Hok]. cbn [sat_perm]. unfold cyclic_on. repeat split; auto.
    intros a b Ha Hb. exists 0%nat. cbn. lia.
  - destruct js as [|j js]; [destruct Hok|]. destruct Hok as (Hj & Hok).
    destruct (IH js Hok) as (Hin & Hfix & Hreach). set (q := sat_perm i js) in *.
    set (pi := sat_perm (S i) (j :: js)).
    assert (Hpi : forall p, pi p = transp (S i) j (q p)) by reflexivity.
    (* how pi acts *)
    assert (Hlow : forall p, (p <= i)%nat -> (q p = j -> pi p = S i) /\ (q p <> j -> pi p = q p)).
    { intros p Hp. rewrite Hpi. unfold transp. specialize (Hin p Hp). split; intros Hq.
      - rewrite Hq, Nat.eqb_refl. reflexivity.
      - assert ((q p =? j)%nat = false) as -> by (apply Nat.eqb_neq; auto).
        assert ((q p =? S i)%nat = false) as -> by (apply Nat.eqb_neq; lia). reflexivity. }
    assert (Htop : pi (S i) = j).
    { rewrite Hpi. rewrite (Hfix (S i)) by lia. unfold transp.
      destruct (S i =? j)%nat eqn:E; [apply Nat.eqb_eq in E; lia|]. now rewrite Nat.eqb_refl. }
    (* every q-step is simulated by one or two pi-steps *)
    assert (Hiter_in : forall k a, (a <= i)%nat -> (iter q k a <= i)%nat).
    { induction k as [|k IHk]; intros a Ha; cbn; auto. }
    assert (Hsim : forall k a, (a <= i)%nat -> exists k', iter pi k' a = iter q k a).
    { induction k as [|k IHk]; intros a Ha; [exists 0%nat; reflexivity|].
      destruct (IHk a Ha) as (k' & Hk'). cbn [iter]. set (x := iter q k a) in *.
      assert (Hx : (x <= i)%nat) by (apply Hiter_in; auto).
      destruct (Nat.eq_dec (q x) j) as [Hq|Hq].
      - exists (S (S k')). cbn [iter]. rewrite Hk'. rewrite (proj1 (Hlow x Hx) Hq). rewrite Htop. auto.
      - exists (S k'). cbn [iter]. rewrite Hk'. apply (proj2 (Hlow x Hx) Hq). }
    assert (Hreach' : forall a b, (a <= i)%nat -> (b <= i)%nat -> exists k, iter pi k a = b).
    { intros a b Ha Hb. destruct (Hreach a b Ha Hb) as (k & Hk). destruct (Hsim k a Ha) as (k' & Hk'). exists k'. congruence. }
    (* a predecessor of j under q *)
    assert (Hpred : exists x, (x <= i)%nat /\ q x = j).
    { destruct (Hreach (q j) j (Hin j Hj) Hj) as (k & Hk). destruct k as [|k].
      - exists j. split; auto.
      - exists (iter q k (q j)). split; [apply Hiter_in; auto|exact Hk]. }
    unfold cyclic_on. split; [|split].
    + intros p Hp. destruct (Nat.eq_dec p (S i)) as [->|Hne]; [rewrite Htop; lia|].
      assert (Hp' : (p <= i)%nat) by lia. destruct (Nat.eq_dec (q p) j) as [Hq|Hq].
      * rewrite (proj1 (Hlow p Hp') Hq). lia.
      * rewrite (proj2 (Hlow p Hp') Hq). specialize (Hin p Hp'). lia.
    + intros p Hp. rewrite Hpi. rewrite (Hfix p) by lia. unfold transp.
      assert ((p =? j)%nat = false) as -> by (apply Nat.eqb_neq; lia).
      assert ((p =? S i)%nat = false) as -> by (apply Nat.eqb_neq; lia). reflexivity.
    + intros a b Ha Hb.
      destruct (Nat.eq_dec a (S i)) as [->|Hna]; destruct (Nat.eq_dec b (S i)) as [->|Hnb].
      * exists 0%nat. reflexivity.
      * destruct (Hreach' j b Hj ltac:(lia)) as (k & Hk). exists (k + 1)%nat. rewrite iter_plus. cbn [iter]. rewrite Htop. exact Hk.
      * destruct Hpred as (x & Hx & Hqx). destruct (Hreach' a x ltac:(lia) Hx) as (k & Hk).
        exists (S k). cbn [iter]. rewrite Hk. apply (proj1 (Hlow x Hx) Hqx).
      * apply Hreach'; lia.
Qed.

(* link with the draw-level model *)
Lemma sattolo_loop_sat {A} (d : A) : forall i arr ds r ds',
  valid_draws ds -> sattolo_loop d i arr ds = Some (r, ds') ->
  exists js, js_ok i js /\ r = sat d i js arr.
Proof.
  induction i as [|i IH]; intros arr ds r ds' Hv H; cbn [sattolo_loop] in H.
  - unfold ret in H. inversion H; subst. exists []. split; [exact I|reflexivity].
  - unfold bind, popU in H. destruct ds as [|[u|? ?|?] ds1]; try discriminate.
    inversion Hv as [|? ? Hd Hv1]; subst. cbn in Hd.
    pose proof (Qfloor'_bounds u (Z.of_nat (S i)) (proj1 Hd) (proj2 Hd) ltac:(lia)) as Hj.
    set (j := Z.to_nat (Qfloor' (u * inject_Z (Z.of_nat (S i))))) in *.
    destruct (IH _ _ _ _ Hv1 H) as (js & Hok & Hr). exists (j :: js). split; [|exact Hr].
    split; [unfold j; lia|exact Hok].
Qed.

(* C11_sattolo_cyclic: the output is the input read through a permutation of the positions that is a
   single cycle through ALL n positions *)
Theorem sattolo_cyclic {A} (d : A) (arr : list A) ds r ds' :
  valid_draws ds -> arr <> [] -> sattolo d arr ds = Some (r, ds') ->
  exists pi, cyclic_on (length arr - 1) pi /\ length r = length arr /\
    forall p, (p < length arr)%nat -> nth p r d = nth (pi p) arr d.
Proof.
  intros Hv Hne H. unfold sattolo in H.
  destruct (sattolo_loop_sat d _ _ _ _ _ Hv H) as (js & Hok & ->).
  exists (sat_perm (length arr - 1) js). split; [apply sat_perm_cyclic; auto|]. split; [apply sat_length|].
  intros p Hp. apply sat_nth; auto. destruct arr; [congruence|]. simpl. lia.
Qed.

(* consequence: for n >= 2 no element stays in place when the input has no duplicates *)
Theorem sattolo_no_fixed_point {A} (d : A) (arr : list A) ds r ds' p :
  valid_draws ds -> NoDup arr -> (2 <= length arr)%nat -> (p < length arr)%nat ->
  sattolo d arr ds = Some (r, ds') -> nth p r d <> nth p arr d.
Proof.
  intros Hv Hnd Hn Hp H.
  destruct (sattolo_cyclic d arr ds r ds' Hv ltac:(destruct arr; [simpl in Hn; lia|congruence]) H) as (pi & (Hin & Hfix & Hreach) & Hl & Hnth).
  rewrite (Hnth p Hp). intro Heq.
  assert (Hpp : pi p = p).
  { apply (proj1 (NoDup_nth arr d) Hnd); auto. specialize (Hin p ltac:(lia)). lia. }
  (* a fixed point of a cycle through >= 2 positions is impossible: nothing else would be reachable from p *)
  assert (Hstay : forall k, iter pi k p = p) by (induction k as [|k IHk]; cbn; [reflexivity|now rewrite IHk]).
  set (other := if (p =? 0)%nat then 1%nat else 0%nat).
  assert (Ho : (other <= length arr - 1)%nat /\ other <> p).
  { unfold other. destruct (p =? 0)%nat eqn:E; [apply Nat.eqb_eq in E|apply Nat.eqb_neq in E]; lia. }
  destruct (Hreach p other ltac:(lia) (proj1 Ho)) as (k & Hk). rewrite Hstay in Hk. destruct Ho; congruence.
Qed.
