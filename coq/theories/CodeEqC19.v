(* CodeEqC19.v — the counting metrics of utils/_metrics.py: the hand-written models (Metrics.v) are EQUAL to the
   definitions generated from the source (gen/GenCode.v) on label arrays (int64 labels as naturals). *)
From TF Require Import Py PyLemmas Metrics CodeEqC11 CodeEqC07.
From TFG Require Import GenCode.
From Coq Require Import Sorting.Sorted Permutation.
Open Scope Z_scope.

Definition zs (a : list nat) : list Z := map Z.of_nat a.
Lemma zs_length a : length (zs a) = length a. Proof. apply map_length. Qed.
Lemma getZ_zs' a (j : nat) : getZ (zs a) (Z.of_nat j) = Z.of_nat (nth j a O).
Proof. rewrite getZ_nat. apply nth_map_Zofnat. Qed.

(* ---------- accuracy_score ---------- *)
Lemma combine_zs a b : combine (zs a) (zs b) = map (fun p => (Z.of_nat (fst p), Z.of_nat (snd p))) (combine a b).
Proof. revert b; induction a as [|x a IH]; intros [|y b]; simpl; auto. now rewrite IH. Qed.

Theorem code_accuracy_score y p : py_accuracy_score (zs y) (zs p) = accuracy_score y p.
Proof.
  unfold py_accuracy_score, accuracy_score, meanZ, eqmaskZ, sumZ, zlen, ZtoQ, Qn. cbv zeta.
  rewrite combine_zs, map_map. cbn [fst snd].
  assert (H : map (fun x : nat * nat => if Z.of_nat (fst x) =? Z.of_nat (snd x) then 1 else 0) (combine y p)
            = map (fun tq : nat * nat => if (fst tq =? snd tq)%nat then 1 else 0) (combine y p)).
  { apply map_ext. intros [a b]. cbn [fst snd].
    destruct (Nat.eqb_spec a b) as [->|Hne]; [now rewrite Z.eqb_refl|].
    destruct (Z.eqb_spec (Z.of_nat a) (Z.of_nat b)) as [He|_]; [lia|reflexivity]. }
  rewrite H. reflexivity.
Qed.

(* ---------- np.unique: the number of classes ---------- *)
Lemma In_insertZ x a l : In x (insertZ a l) <-> x = a \/ In x l.
Proof.
  induction l as [|y t IH]; simpl; [intuition congruence|]. destruct (a <=? y); simpl; [intuition congruence|]. rewrite IH. intuition congruence.
Qed.
Lemma In_sortedZ x l : In x (sortedZ l) <-> In x l.
Proof. unfold sortedZ. induction l as [|a l IH]; simpl; [tauto|]. rewrite In_insertZ, IH. intuition congruence. Qed.

Lemma insertZ_sorted a l : StronglySorted Z.le l -> StronglySorted Z.le (insertZ a l).
Proof.
  induction 1 as [|y t Hs IH Hall]; simpl; [repeat constructor|].
  destruct (a <=? y) eqn:E.
  - apply Z.leb_le in E. constructor; [constructor; assumption|].
    constructor; [exact E|]. rewrite Forall_forall in *. intros z Hz. specialize (Hall z Hz). lia.
  - apply Z.leb_gt in E. constructor; [exact IH|].
    rewrite Forall_forall in *. intros z Hz. apply In_insertZ in Hz. destruct Hz as [->|Hz]; [lia|auto].
Qed.
Lemma sortedZ_sorted l : StronglySorted Z.le (sortedZ l).
Proof. unfold sortedZ. induction l as [|a l IH]; simpl; [constructor|]. now apply insertZ_sorted. Qed.

Lemma In_dedup x l : In x (dedup_sorted l) <-> In x l.
Proof.
  induction l as [|a [|b t] IH]; [tauto|simpl; tauto|].
  change (dedup_sorted (a :: b :: t)) with (if a =? b then dedup_sorted (b :: t) else a :: dedup_sorted (b :: t)).
  destruct (Z.eqb_spec a b) as [->|Hne].
  - rewrite IH. simpl. tauto.
  - simpl In at 1. rewrite IH. simpl. tauto.
Qed.
Lemma dedup_NoDup l : StronglySorted Z.le l -> NoDup (dedup_sorted l).
Proof.
  induction l as [|a [|b t] IH]; intro Hs; [constructor|repeat constructor; simpl; tauto|].
  change (dedup_sorted (a :: b :: t)) with (if a =? b then dedup_sorted (b :: t) else a :: dedup_sorted (b :: t)).
  inversion Hs as [|? ? Hs' Hall]; subst.
  destruct (Z.eqb_spec a b) as [->|Hne]; [auto|].
  constructor; [|auto]. rewrite In_dedup. intro Hin.
  (* a <= everything in b :: t, b <= everything in t, a <> b: a is strictly below all of them *)
  inversion Hs' as [|? ? _ Hall']; subst.
  rewrite Forall_forall in *. assert (a <= b) by (apply Hall; simpl; auto).
  destruct Hin as [->|Hin]; [congruence|]. specialize (Hall' _ Hin). specialize (Hall a (or_intror Hin)). lia.
Qed.

Lemma NoDup_same_length {A} (l1 l2 : list A) : NoDup l1 -> NoDup l2 -> (forall x, In x l1 <-> In x l2) -> length l1 = length l2.
Proof.
  intros N1 N2 H. apply Nat.le_antisymm; apply NoDup_incl_length; auto; intros x Hx; apply H; auto.
Qed.

Theorem code_n_classes y : zlen (uniqueZ (zs y)) = Z.of_nat (n_classes y).
Proof.
  unfold zlen, n_classes. f_equal.
  rewrite <- (map_length Z.of_nat (nodup Nat.eq_dec y)).
  apply NoDup_same_length.
  - apply dedup_NoDup, sortedZ_sorted.
  - apply FinFun.Injective_map_NoDup; [intros a b; apply Nat2Z.inj|apply NoDup_nodup].
  - intro x. unfold uniqueZ. rewrite In_dedup, In_sortedZ. unfold zs. rewrite !in_map_iff.
    split; intros (n & <- & Hn); exists n; (split; [reflexivity|]); [now apply nodup_In|now apply nodup_In in Hn].
Qed.

(* ---------- the counting loops ---------- *)
Lemma map_repeat' {A B} (f : A -> B) a n : map f (repeat a n) = repeat (f a) n.
Proof. induction n; simpl; auto. now rewrite IHn. Qed.
Lemma fold_left_rel {A B C} (R : A -> B -> Prop) (f : A -> C -> A) (g : B -> C -> B) l :
  (forall a b c, R a b -> R (f a c) (g b c)) -> forall a b, R a b -> R (fold_left f l a) (fold_left g l b).
Proof. intro H. induction l as [|c l IH]; intros a b Hab; simpl; auto. Qed.

Lemma incr_zs h (t : nat) : setA (zs h) (Z.of_nat t) (getZ (zs h) (Z.of_nat t) + 1) = zs (incr h t).
Proof.
  rewrite setA_nat, getZ_zs'. unfold incr, zs.
  replace (Z.of_nat (nth t h O) + 1) with (Z.of_nat (Datatypes.S (nth t h O))) by lia. apply upd_map.
Qed.

Lemma eqb_zs y p (j : nat) : (getZ (zs y) (Z.of_nat j) =? getZ (zs p) (Z.of_nat j)) = (nth j y O =? nth j p O)%nat.
Proof.
  rewrite !getZ_zs'. destruct (Nat.eqb_spec (nth j y O) (nth j p O)) as [->|Hne]; [apply Z.eqb_refl|].
  apply Z.eqb_neq. lia.
Qed.

(* per-class loop: positions 0..k-1 of a zero vector *)
Lemma class_loop (k : nat) (c : nat -> bool) (f : nat -> Q) :
  fold_left (fun st j => if c j then upd st j (f j) else st) (seq 0 k) (repeat 0%Q k)
  = map (fun i => if c i then f i else 0%Q) (seq 0 k).
Proof.
  pose proof (cond_overwrite_gen 0%Q c f (repeat 0%Q k)) as H. rewrite repeat_length in H. rewrite H.
  apply map_ext_in. intros i Hi. apply in_seq in Hi. destruct (c i); [reflexivity|].
  apply nth_repeat.
Qed.

Lemma Qn_add_eq a b : inject_Z (Z.of_nat a + Z.of_nat b) = Qn (a + b).
Proof. unfold Qn. now rewrite Nat2Z.inj_add. Qed.

Theorem code_recall_score y p : py_recall_score (zs y) (zs p) = recall_score y p.
Proof.
  unfold py_recall_score, recall_score, recall_counts, over_samples. cbv zeta.
  rewrite code_n_classes. unfold zlen at 1. rewrite zs_length, !zerosZ_nat. unfold zerosQ. rewrite Nat2Z.id.
  rewrite for_range_p_0.
  set (k := n_classes y).
  (* the counting loop, related state by state *)
  assert (Hcnt : (fun (s : list Z * list Z) (t : list nat * list nat) => s = (zs (fst t), zs (snd t)))
     (fold_left (fun (s : list Z * list Z) (j : nat) =>
         (fun i '(true_positives, false_negatives) =>
           let '(true_positives0, false_negatives0) :=
             if getZ (zs y) i =? getZ (zs p) i
             then (setA true_positives (getZ (zs y) i) (getZ true_positives (getZ (zs y) i) + 1), false_negatives)
             else (true_positives, setA false_negatives (getZ (zs y) i) (getZ false_negatives (getZ (zs y) i) + 1)) in
           (true_positives0, false_negatives0)) (Z.of_nat j) s) (seq 0 (length y)) (repeat 0 k, repeat 0 k))
     (fold_left (fun s i => recall_step s (nth i y O) (nth i p O)) (seq 0 (length y)) (zeros k, zeros k))).
  { apply (fold_left_rel (fun (s : list Z * list Z) (t : list nat * list nat) => s = (zs (fst t), zs (snd t)))).
    - intros s t j ->. destruct t as [tp fn]. cbn [fst snd]. unfold recall_step. cbn [fst snd].
      rewrite eqb_zs, getZ_zs'. destruct (nth j y O =? nth j p O)%nat; rewrite incr_zs; reflexivity.
    - unfold zeros, zs. cbn [fst snd]. now rewrite !map_repeat'. }
  cbv beta in Hcnt. rewrite Hcnt. clear Hcnt.
  destruct (fold_left (fun s i => recall_step s (nth i y O) (nth i p O)) (seq 0 (length y)) (zeros k, zeros k)) as [tp fn].
  cbn [fst snd]. rewrite for_range_p_0.
  transitivity (meanQ (fold_left (fun st j => if negb (nth j tp O =? 0)%nat then upd st j (Qn (nth j tp O) / Qn (nth j fn O + nth j tp O))%Q else st)
                         (seq 0 k) (repeat 0%Q k))).
  { f_equal. apply fold_left_ext. intros st j. rewrite !getZ_zs', setA_nat. unfold ZtoQ. rewrite Qn_add_eq.
    destruct (Nat.eqb_spec (nth j tp O) 0) as [->|Hne]; [reflexivity|].
    replace (Z.of_nat (nth j tp O) =? 0) with false by (symmetry; apply Z.eqb_neq; lia). reflexivity. }
  rewrite class_loop. unfold meanQ, qmean, sumQ, qsum, zlen, ZtoQ, Qn.
  rewrite !map_length. f_equal.
  f_equal. apply map_ext. intro i. unfold class_ratio, ratio, Qn. destruct (nth i tp O =? 0)%nat; reflexivity.
Qed.

Theorem code_precision_score y p : py_precision_score (zs y) (zs p) = precision_score y p.
Proof.
  unfold py_precision_score, precision_score, precision_counts, over_samples. cbv zeta.
  rewrite code_n_classes. unfold zlen at 1. rewrite zs_length, !zerosZ_nat. unfold zerosQ. rewrite Nat2Z.id.
  rewrite for_range_p_0.
  set (k := n_classes y).
  assert (Hcnt : (fun (s : list Z * list Z) (t : list nat * list nat) => s = (zs (fst t), zs (snd t)))
     (fold_left (fun (s : list Z * list Z) (j : nat) =>
         (fun i '(true_positives, false_negatives) =>
           let '(true_positives0, false_negatives0) :=
             if getZ (zs y) i =? getZ (zs p) i
             then (setA true_positives (getZ (zs y) i) (getZ true_positives (getZ (zs y) i) + 1), false_negatives)
             else (true_positives, setA false_negatives (getZ (zs p) i) (getZ false_negatives (getZ (zs p) i) + 1)) in
           (true_positives0, false_negatives0)) (Z.of_nat j) s) (seq 0 (length y)) (repeat 0 k, repeat 0 k))
     (fold_left (fun s i => precision_step s (nth i y O) (nth i p O)) (seq 0 (length y)) (zeros k, zeros k))).
  { apply (fold_left_rel (fun (s : list Z * list Z) (t : list nat * list nat) => s = (zs (fst t), zs (snd t)))).
    - intros s t j ->. destruct t as [tp fn]. cbn [fst snd]. unfold precision_step. cbn [fst snd].
      rewrite eqb_zs, (getZ_zs' y j), (getZ_zs' p j). destruct (nth j y O =? nth j p O)%nat; rewrite incr_zs; reflexivity.
    - unfold zeros, zs. cbn [fst snd]. now rewrite !map_repeat'. }
  cbv beta in Hcnt. rewrite Hcnt. clear Hcnt.
  destruct (fold_left (fun s i => precision_step s (nth i y O) (nth i p O)) (seq 0 (length y)) (zeros k, zeros k)) as [tp fn].
  cbn [fst snd]. rewrite for_range_p_0.
  transitivity (meanQ (fold_left (fun st j => if negb (nth j tp O =? 0)%nat then upd st j (Qn (nth j tp O) / Qn (nth j fn O + nth j tp O))%Q else st)
                         (seq 0 k) (repeat 0%Q k))).
  { f_equal. apply fold_left_ext. intros st j. rewrite !getZ_zs', setA_nat. unfold ZtoQ. rewrite Qn_add_eq.
    destruct (Nat.eqb_spec (nth j tp O) 0) as [->|Hne]; [reflexivity|].
    replace (Z.of_nat (nth j tp O) =? 0) with false by (symmetry; apply Z.eqb_neq; lia). reflexivity. }
  rewrite class_loop. unfold meanQ, qmean, sumQ, qsum, zlen, ZtoQ, Qn.
  rewrite !map_length. f_equal.
  f_equal. apply map_ext. intro i. unfold class_ratio, ratio, Qn. destruct (nth i tp O =? 0)%nat; reflexivity.
Qed.

(* ---------- f1_score ---------- *)
Theorem code_f1_score y p : py_f1_score (zs y) (zs p) = f1_score y p.
Proof.
  unfold py_f1_score, f1_score, f1_counts, over_samples. cbv zeta.
  rewrite code_n_classes. unfold zlen at 1. rewrite zs_length, !zerosZ_nat. unfold zerosQ. rewrite Nat2Z.id.
  rewrite for_range_p_0.
  set (k := n_classes y).
  assert (Hcnt : (fun (s : list Z * list Z * list Z) (t : list nat * list nat * list nat) =>
                    s = (zs (fst (fst t)), zs (snd (fst t)), zs (snd t)))
     (fold_left (fun (s : list Z * list Z * list Z) (j : nat) =>
         (fun i '(true_positives, false_negatives, down_precision) =>
           let '(true_positives0, false_negatives0, down_precision0) :=
             if getZ (zs y) i =? getZ (zs p) i
             then (setA true_positives (getZ (zs y) i) (getZ true_positives (getZ (zs y) i) + 1), false_negatives, down_precision)
             else (true_positives, setA false_negatives (getZ (zs y) i) (getZ false_negatives (getZ (zs y) i) + 1),
                   setA down_precision (getZ (zs p) i) (getZ down_precision (getZ (zs p) i) + 1)) in
           (true_positives0, false_negatives0, down_precision0)) (Z.of_nat j) s) (seq 0 (length y)) (repeat 0 k, repeat 0 k, repeat 0 k))
     (fold_left (fun s i => f1_step s (nth i y O) (nth i p O)) (seq 0 (length y)) (zeros k, zeros k, zeros k))).
  { apply (fold_left_rel (fun (s : list Z * list Z * list Z) (t : list nat * list nat * list nat) =>
                    s = (zs (fst (fst t)), zs (snd (fst t)), zs (snd t)))).
    - intros s t j ->. destruct t as [[tp fn] dp]. cbn [fst snd]. unfold f1_step.
      rewrite eqb_zs, (getZ_zs' y j), (getZ_zs' p j). destruct (nth j y O =? nth j p O)%nat; rewrite ?incr_zs; reflexivity.
    - unfold zeros, zs. cbn [fst snd]. now rewrite !map_repeat'. }
  cbv beta in Hcnt. rewrite Hcnt. clear Hcnt.
  destruct (fold_left (fun s i => f1_step s (nth i y O) (nth i p O)) (seq 0 (length y)) (zeros k, zeros k, zeros k)) as [[tp fn] dp].
  cbn [fst snd]. rewrite for_range_p_0.
  transitivity (meanQ (fold_left (fun st j => if negb (nth j tp O =? 0)%nat
        then upd st j (2 * ((Qn (nth j tp O) / Qn (nth j dp O + nth j tp O)) * (Qn (nth j tp O) / Qn (nth j fn O + nth j tp O)))
                       / ((Qn (nth j tp O) / Qn (nth j dp O + nth j tp O)) + (Qn (nth j tp O) / Qn (nth j fn O + nth j tp O))))%Q else st)
                         (seq 0 k) (repeat 0%Q k))).
  { f_equal. apply fold_left_ext. intros st j. rewrite !getZ_zs', setA_nat. unfold ZtoQ. rewrite !Qn_add_eq.
    destruct (Nat.eqb_spec (nth j tp O) 0) as [->|Hne]; [reflexivity|].
    replace (Z.of_nat (nth j tp O) =? 0) with false by (symmetry; apply Z.eqb_neq; lia). reflexivity. }
  rewrite class_loop. unfold meanQ, qmean, sumQ, qsum, zlen, ZtoQ, Qn.
  rewrite !map_length. f_equal.
  f_equal. apply map_ext. intro i. unfold class_f1, ratio, Qn. destruct (nth i tp O =? 0)%nat; reflexivity.
Qed.

(* ---------- confusion_matrix ---------- *)
Lemma fold_combine_seq {S} (f : S -> nat * nat -> S) : forall (y p : list nat) s,
  fold_left f (combine y p) s
  = fold_left (fun s i => f s (nth i y O, nth i p O)) (seq 0 (Nat.min (length y) (length p))) s.
Proof.
  induction y as [|a y IH]; intros [|b p] s; simpl; auto.
  rewrite IH, <- seq_shift, fold_left_map'. reflexivity.
Qed.

Theorem code_confusion_matrix y p : py_confusion_matrix (zs y) (zs p) = map zs (confusion_matrix y p).
Proof.
  unfold py_confusion_matrix, confusion_matrix. cbv zeta.
  rewrite code_n_classes. unfold zlen. rewrite !zs_length, <- Nat2Z.inj_min, for_range_p_0, fold_combine_seq.
  set (k := n_classes y).
  apply (fold_left_rel (fun (m : list (list Z)) (cm : list (list nat)) => m = map zs cm)).
  - intros m cm j ->. unfold cm_step, set2, get2. cbn [fst snd].
    rewrite !getZ_zs'.
    assert (Hrow : getR (map zs cm) (Z.of_nat (nth j y O)) = zs (nth (nth j y O) cm [])).
    { rewrite getR_nat. change (@nil Z) with (zs []). apply map_nth. }
    rewrite Hrow, incr_zs, setA_nat. apply upd_map.
  - unfold zeros2, zerosZ, zeros. rewrite !Nat2Z.id. unfold zs. now rewrite !map_repeat'.
Qed.
