(* SplitProofs.v — proofs about the models in Split.v / SplitFloat.v (C16). *)
From Coq Require Import List ZArith Bool Lia.
From TF Require Import Split SplitFloat.
Import ListNotations.
Open Scope Z_scope.

(* ================================================================== _get_n_jobs *)
Lemma get_n_jobs_range cpu pop n : 1 <= pop -> n <> 0 ->
  exists j, get_n_jobs cpu pop n = Some j /\ 1 <= j <= pop.
Proof.
  intros Hp Hn. unfold get_n_jobs.
  destruct (Z.ltb_spec n 0).
  - eexists; split; [reflexivity | lia].
  - destruct (Z.eqb_spec n 0); [contradiction|].
    destruct (Z.ltb_spec pop n); eexists; (split; [reflexivity | lia]).
Qed.

Lemma get_n_jobs_zero cpu pop : get_n_jobs cpu pop 0 = None.
Proof. reflexivity. Qed.

(* positive requests: the smaller of the request and the population size; negative requests:
   joblib's convention cpu + 1 + n (at least 1), capped in the same way *)
Lemma get_n_jobs_value cpu pop n : n <> 0 ->
  get_n_jobs cpu pop n =
  Some (Z.min pop (if n <? 0 then Z.max (cpu + 1 + n) 1 else n)).
Proof.
  intros Hn. unfold get_n_jobs.
  destruct (Z.ltb_spec n 0); [f_equal; lia|].
  destruct (Z.eqb_spec n 0); [contradiction|].
  destruct (Z.ltb_spec pop n); f_equal; lia.
Qed.

(* the code before the repair agrees with the repaired code except where it broke the range *)
Lemma get_n_jobs_orig_agrees cpu pop n j :
  get_n_jobs_orig cpu pop n = Some j -> j <= pop -> get_n_jobs cpu pop n = Some j.
Proof.
  unfold get_n_jobs_orig, get_n_jobs.
  destruct (Z.ltb_spec n 0); [|auto].
  intros E; inversion E; subst; intros; f_equal; lia.
Qed.

(* ================================================================== lists: slices *)
Section Lists.
  Context {A : Type}.
  Local Open Scope nat_scope.

  Lemma firstn_add (p q : nat) (l : list A) :
    firstn (p + q) l = firstn p l ++ firstn q (skipn p l).
  Proof.
    revert l; induction p as [|p IH]; intros l; simpl; auto.
    destruct l as [|x l]; simpl.
    - now rewrite firstn_nil.
    - f_equal; apply IH.
  Qed.

  Lemma skipn_add (p q : nat) (l : list A) : skipn q (skipn p l) = skipn (p + q) l.
  Proof.
    revert l; induction p as [|p IH]; intros l; simpl; auto.
    destruct l as [|x l]; [now rewrite skipn_nil | apply IH].
  Qed.

  Lemma slice_app a b c (xs : list A) :
    a <= b -> b <= c -> slice a b xs ++ slice b c xs = slice a c xs.
  Proof.
    intros H1 H2. unfold slice.
    replace (c - a) with ((b - a) + (c - b)) by lia.
    rewrite firstn_add. f_equal. f_equal.
    rewrite skipn_add. f_equal; lia.
  Qed.

  Lemma slice_full (xs : list A) : slice 0 (length xs) xs = xs.
  Proof. unfold slice. simpl. rewrite Nat.sub_0_r. apply firstn_all. Qed.

  Lemma slice_empty a (xs : list A) : slice a a xs = [].
  Proof. unfold slice. now rewrite Nat.sub_diag. Qed.

  Lemma slice_length a b (xs : list A) :
    b <= length xs -> length (slice a b xs) = b - a.
  Proof. intros H. unfold slice. rewrite firstn_length, skipn_length. lia. Qed.

  Lemma slices_map_seq (d : nat -> nat) m : forall a (xs : list A),
    slices (map d (seq a (S m))) xs = map (fun k => slice (d k) (d (S k)) xs) (seq a m).
  Proof.
    induction m as [|m IH]; intros a xs; [reflexivity|].
    change (seq a (S (S m))) with (a :: seq (S a) (S m)).
    change (seq a (S m)) with (a :: seq (S a) m).
    rewrite !map_cons, <- IH.
    change (seq (S a) (S m)) with (S a :: seq (S (S a)) m).
    rewrite map_cons. reflexivity.
  Qed.

  Lemma concat_slices (d : nat -> nat) (xs : list A) a m :
    (forall k, a <= k < a + m -> d k <= d (S k)) ->
    d a <= d (a + m) /\
    concat (map (fun k => slice (d k) (d (S k)) xs) (seq a m)) = slice (d a) (d (a + m)) xs.
  Proof.
    induction m as [|m IH]; intros Hm.
    - rewrite Nat.add_0_r. simpl. now rewrite slice_empty.
    - destruct IH as [IH1 IH2]; [intros; apply Hm; lia|].
      assert (Hs : d (a + m) <= d (S (a + m))) by (apply Hm; lia).
      rewrite Nat.add_succ_r. split; [lia|].
      rewrite seq_S, map_app, concat_app, IH2. simpl. rewrite app_nil_r.
      now apply slice_app.
  Qed.
End Lists.

(* ================================================================== cut points -> chunks *)
Definition dnat (c : Z -> Z) (k : nat) : nat := Z.to_nat (c (Z.of_nat k)).

Lemma Zseq_0 len : Zseq 0 len = map Z.of_nat (seq 0 len).
Proof. unfold Zseq. apply map_ext. intros; lia. Qed.

Lemma map_cut_points c n :
  map Z.to_nat (cut_points c n) = map (dnat c) (seq 0 (Z.to_nat n + 1)).
Proof. unfold cut_points. rewrite Zseq_0, !map_map. reflexivity. Qed.

(* _split_population on the points of a cut function with c 0 = 0 and c n = len(population):
   chunk k is population[c k : c (k+1)] *)
Lemma split_cut_points {A} (c : Z -> Z) (n : Z) (xs : list A) :
  1 <= n -> c 0 = 0 -> Z.to_nat (c n) = length xs ->
  split_population (cut_points c n) xs =
  map (fun k => slice (dnat c k) (dnat c (S k)) xs) (seq 0 (Z.to_nat n)).
Proof.
  intros Hn H0 Hlast.
  rewrite <- slices_map_seq.
  unfold split_population, np_split, cut_points. rewrite Zseq_0.
  destruct (Z.to_nat n) as [|N] eqn:EN; [lia|].
  rewrite Nat.add_1_r.
  rewrite (seq_S (S N) 0). rewrite <- cons_seq.
  rewrite !map_app, !map_cons. simpl map.
  unfold inner. simpl tl. rewrite removelast_last.
  rewrite <- app_comm_cons. f_equal.
  assert (E0 : dnat c 0 = 0%nat) by (unfold dnat; simpl; now rewrite H0).
  assert (El : dnat c (0 + S N) = length xs).
  { unfold dnat. rewrite <- Hlast. f_equal. f_equal. lia. }
  rewrite E0, El, !map_map. reflexivity.
Qed.

(* ================================================================== the envelope *)
Lemma envelope_facts pop n c : 1 <= n <= pop -> Envelope pop n c ->
  forall k, 0 <= k <= n ->
    let q := k * pop / n in
    n * q <= k * pop < n * q + n /\
    (c k = q \/ (c k = q - 1 /\ k * pop = n * q /\ n < pop /\ 0 < k < n)).
Proof.
  intros Hn (H0 & Hl & He) k Hk q.
  assert (Hdm : k * pop = n * q + (k * pop) mod n) by (apply Z.div_mod; lia).
  assert (Hmb : 0 <= (k * pop) mod n < n) by (apply Z.mod_pos_bound; lia).
  split; [lia|].
  destruct (Z.eq_dec k 0) as [->|Hk0].
  { left. subst q. rewrite H0. reflexivity. }
  destruct (Z.eq_dec k n) as [->|Hkn].
  { left. subst q. rewrite Hl. rewrite Z.mul_comm. symmetry. apply Z.div_mul. lia. }
  destruct (He k ltac:(lia)) as [E | (E1 & E2 & E3)]; [left; exact E|].
  right. repeat split; try lia.
  destruct (Z.eq_dec n pop) as [->|]; [|lia].
  exfalso. apply E2. apply Z.mod_same. lia.
Qed.

Lemma envelope_increasing pop n c : 1 <= n <= pop -> Envelope pop n c ->
  forall k, 0 <= k < n -> c k < c (k + 1).
Proof.
  intros Hn He k Hk.
  destruct (envelope_facts pop n c Hn He k ltac:(lia)) as [B1 C1].
  destruct (envelope_facts pop n c Hn He (k + 1) ltac:(lia)) as [B2 C2].
  cbv zeta in *.
  set (q1 := k * pop / n) in *. set (q2 := (k + 1) * pop / n) in *.
  assert (E : (k + 1) * pop = k * pop + pop) by ring.
  rewrite E in *. clear E.
  set (kp := k * pop) in *.
  assert (Q12 : q1 < q2).
  { apply (Z.mul_lt_mono_pos_l n); lia. }
  destruct C1 as [-> | (-> & _)]; destruct C2 as [-> | (-> & E & Hlt & _)]; try lia.
  assert (n * (q1 + 1) < n * q2) by lia.
  assert (q1 + 1 < q2) by (apply (Z.mul_lt_mono_pos_l n); lia).
  lia.
Qed.

Lemma envelope_range pop n c : 1 <= n <= pop -> Envelope pop n c ->
  forall k, 0 <= k <= n -> 0 <= c k <= pop.
Proof.
  intros Hn He k Hk.
  destruct (envelope_facts pop n c Hn He k Hk) as [B C]. cbv zeta in *.
  set (q := k * pop / n) in *.
  assert (Hq0 : 0 <= q).
  { assert (0 <= k * pop) by (apply Z.mul_nonneg_nonneg; lia).
    assert (0 < n * (q + 1)) by lia.
    assert (0 < q + 1) by (apply (Z.mul_pos_cancel_l n); lia). lia. }
  assert (Hqp : q <= pop).
  { assert (k * pop <= n * pop) by (apply Z.mul_le_mono_nonneg_r; lia).
    assert (n * q <= n * pop) by lia.
    apply (Z.mul_le_mono_pos_l _ _ n); lia. }
  destruct C as [-> | (-> & E & Hlt & Hk')]; [lia|].
  split; [|lia].
  assert (0 < k * pop) by (apply Z.mul_pos_pos; lia).
  assert (0 < n * q) by lia.
  assert (0 < q) by (apply (Z.mul_pos_cancel_l n); lia). lia.
Qed.

(* the exact cut function lies in the envelope (so the theorems are about a non-empty class) *)
Lemma cut_floor_envelope pop n : 1 <= n -> Envelope pop n (cut_floor pop n).
Proof.
  intros Hn. unfold Envelope, cut_floor. repeat split.
  - rewrite Z.mul_comm. apply Z.div_mul. lia.
  - intros; now left.
Qed.

(* ================================================================== C16_chunks *)
Theorem chunks_spec : forall (A : Type) (pop n : Z) (c : Z -> Z) (xs : list A),
  1 <= n <= pop -> Envelope pop n c -> Z.of_nat (length xs) = pop ->
  let chunks := split_population (cut_points c n) xs in
  (forall k, 0 <= k < n -> 0 <= c k < c (k + 1) /\ c (k + 1) <= pop) /\
  length chunks = Z.to_nat n /\
  (forall k, (k < Z.to_nat n)%nat ->
     nth k chunks [] = slice (Z.to_nat (c (Z.of_nat k))) (Z.to_nat (c (Z.of_nat k + 1))) xs /\
     Z.of_nat (length (nth k chunks [])) = c (Z.of_nat k + 1) - c (Z.of_nat k)) /\
  Forall (fun ch => ch <> []) chunks /\
  concat chunks = xs.
Proof.
  intros A pop n c xs Hn He Hlen chunks.
  pose proof (envelope_increasing pop n c Hn He) as Hinc.
  pose proof (envelope_range pop n c Hn He) as Hrng.
  assert (H0 : c 0 = 0) by apply He.
  assert (Hl : c n = pop) by apply He.
  assert (Hd : forall k, (k < Z.to_nat n)%nat ->
             (dnat c k < dnat c (S k))%nat /\ (dnat c (S k) <= length xs)%nat).
  { intros k Hk. unfold dnat. rewrite Nat2Z.inj_succ, <- Z.add_1_r.
    pose proof (Hinc (Z.of_nat k) ltac:(lia)).
    pose proof (Hrng (Z.of_nat k) ltac:(lia)).
    pose proof (Hrng (Z.of_nat k + 1) ltac:(lia)). lia. }
  assert (Hch : chunks = map (fun k => slice (dnat c k) (dnat c (S k)) xs) (seq 0 (Z.to_nat n))).
  { subst chunks. apply split_cut_points; lia. }
  assert (Hnth : forall k, (k < Z.to_nat n)%nat ->
             nth k chunks [] = slice (dnat c k) (dnat c (S k)) xs).
  { intros k Hk. rewrite Hch.
    rewrite (nth_indep _ [] (slice (dnat c 0) (dnat c 1) xs)) by (rewrite map_length, seq_length; lia).
    rewrite (map_nth (fun k => slice (dnat c k) (dnat c (S k)) xs)), seq_nth by lia. reflexivity. }
  split; [|split; [|split; [|split]]].
  - intros k Hk. pose proof (Hinc k Hk). pose proof (Hrng k ltac:(lia)).
    pose proof (Hrng (k + 1) ltac:(lia)). lia.
  - rewrite Hch, map_length, seq_length. reflexivity.
  - intros k Hk. rewrite (Hnth k Hk). destruct (Hd k Hk) as [D1 D2].
    unfold dnat in *. rewrite Nat2Z.inj_succ, <- Z.add_1_r in *. split; [reflexivity|].
    rewrite slice_length by exact D2.
    pose proof (Hrng (Z.of_nat k) ltac:(lia)).
    pose proof (Hrng (Z.of_nat k + 1) ltac:(lia)). lia.
  - rewrite Hch. apply Forall_forall. intros ch Hin.
    apply in_map_iff in Hin. destruct Hin as (k & <- & Hk). apply in_seq in Hk.
    destruct (Hd k ltac:(lia)) as [D1 D2].
    intro E. apply (f_equal (@length A)) in E. rewrite slice_length in E by exact D2.
    simpl in E. lia.
  - rewrite Hch.
    destruct (concat_slices (dnat c) xs 0 (Z.to_nat n)) as [_ Hc].
    { intros k Hk. destruct (Hd k ltac:(lia)). lia. }
    rewrite Hc. simpl. unfold dnat at 1 2. rewrite Z2Nat.id by lia. simpl Z.of_nat.
    rewrite H0, Hl, <- Hlen, Nat2Z.id. simpl. apply slice_full.
Qed.

(* ================================================================== parallel = serial *)
Definition rowwise {X Y} (f : list X -> list Y) : Prop := forall a b, f (a ++ b) = f a ++ f b.
Definition rowcount {X Y} (f : list X -> list Y) : Prop := forall a, length (f a) = length a.

Lemma rowwise_nil {X Y} (f : list X -> list Y) : rowwise f -> f [] = [].
Proof.
  intros H. specialize (H [] []). simpl in H.
  apply (f_equal (@length Y)) in H. rewrite app_length in H.
  destruct (f []); [reflexivity | simpl in H; lia].
Qed.

Lemma rowwise_concat {X Y} (f : list X -> list Y) : rowwise f ->
  forall ls, concat (map f ls) = f (concat ls).
Proof.
  intros H ls. induction ls as [|l ls IH]; simpl.
  - symmetry. now apply rowwise_nil.
  - now rewrite H, IH.
Qed.

Section ParSer.
  Variables G P F : Type.
  Variable parallel : forall X Y : Type, (X -> Y) -> list X -> list Y.
  (* joblib's contract: the list of results is in submission order *)
  Hypothesis parallel_in_order : forall X Y (f : X -> Y) l, parallel X Y f l = map f l.

  Variables pop n : Z.
  Variable c : Z -> Z.
  Hypothesis Hn : 1 <= n <= pop.
  Hypothesis Henv : Envelope pop n c.

  Lemma par_chunks_is_serial {X Y} (f : list X -> list Y) (xs : list X) :
    rowwise f -> Z.of_nat (length xs) = pop ->
    concat (parallel _ _ f (split_population (cut_points c n) xs)) = f xs.
  Proof.
    intros Hf Hlen. rewrite parallel_in_order, rowwise_concat by exact Hf.
    f_equal. apply (chunks_spec X pop n c xs Hn Henv Hlen).
  Qed.

  Variable g2p : option (list G -> list P).
  Variable coerce : list G -> list P.
  Variable fit : list P -> list F.
  Hypothesis g2p_rowwise : forall f, g2p = Some f -> rowwise f /\ rowcount f.
  Hypothesis coerce_rowcount : g2p = None -> rowcount coerce.
  Hypothesis fit_rowwise : rowwise fit.

  Lemma get_phenotype_par_ser lin1 pop_g : Z.of_nat (length pop_g) = pop ->
    get_phenotype G P parallel g2p coerce n (cut_points c n) pop_g =
    get_phenotype G P parallel g2p coerce 1 lin1 pop_g.
  Proof.
    intros Hlen. unfold get_phenotype. destruct g2p as [f|] eqn:E; [|reflexivity].
    destruct (g2p_rowwise f eq_refl) as [Hf _].
    destruct (1 <? n); [|reflexivity]. simpl. now apply par_chunks_is_serial.
  Qed.

  Lemma get_phenotype_ser_length lin1 pop_g : Z.of_nat (length pop_g) = pop ->
    Z.of_nat (length (get_phenotype G P parallel g2p coerce 1 lin1 pop_g)) = pop.
  Proof.
    intros Hlen. unfold get_phenotype. destruct g2p as [f|] eqn:E; simpl.
    - destruct (g2p_rowwise f eq_refl) as [_ Hc]. now rewrite Hc.
    - now rewrite (coerce_rowcount eq_refl).
  Qed.

  Lemma get_fitness_par_ser lin1 calls pop_ph : Z.of_nat (length pop_ph) = pop ->
    get_fitness P F parallel fit n (cut_points c n) calls pop_ph =
    get_fitness P F parallel fit 1 lin1 calls pop_ph.
  Proof.
    intros Hlen. unfold get_fitness.
    destruct (1 <? n); [|reflexivity]. simpl.
    now rewrite par_chunks_is_serial.
  Qed.

  Theorem evaluate_par_ser lin1 calls pop_g : Z.of_nat (length pop_g) = pop ->
    evaluate G P F parallel g2p coerce fit n (cut_points c n) calls pop_g =
    evaluate G P F parallel g2p coerce fit 1 lin1 calls pop_g.
  Proof.
    intros Hlen. unfold evaluate.
    rewrite (get_phenotype_par_ser lin1) by exact Hlen.
    rewrite (get_fitness_par_ser lin1) by (now apply get_phenotype_ser_length).
    reflexivity.
  Qed.

  (* the serial evaluation is one call of each user function on the whole population *)
  Lemma evaluate_serial lin1 calls pop_g :
    evaluate G P F parallel g2p coerce fit 1 lin1 calls pop_g =
    let ph := match g2p with Some f => f pop_g | None => coerce pop_g end in
    (ph, fit ph, calls + Z.of_nat (length (fit ph))).
  Proof. unfold evaluate, get_fitness, get_phenotype. simpl. destruct g2p; reflexivity. Qed.

  Variable S : Type.
  Variable next : S -> list G.
  Variable update : S -> list G -> list P -> list F -> S.
  Hypothesis next_size : forall st, Z.of_nat (length (next st)) = pop.

  Theorem run_par_ser lin1 iters : forall st calls trace,
    run G P F parallel S next update g2p coerce fit n (cut_points c n) iters st calls trace =
    run G P F parallel S next update g2p coerce fit 1 lin1 iters st calls trace.
  Proof.
    induction iters as [|it IH]; intros st calls trace; [reflexivity|]. cbn [run].
    rewrite (evaluate_par_ser lin1) by apply next_size.
    destruct (evaluate G P F parallel g2p coerce fit 1 lin1 calls (next st)) as [[ph v] calls'].
    apply IH.
  Qed.
End ParSer.

(* ================================================================== the float model: bounded sweep *)
Lemma env_fast_spec pop n a b : 0 < n -> pop = n * a + b -> 0 <= b < n ->
  forall l k q r, k * pop = n * q + r -> 0 <= r < n -> env_fast a b n q r l = true ->
  forall i, (i < length l)%nat ->
    let x := nth i l 0 in let kk := k + Z.of_nat i in
    x = kk * pop / n \/ ((kk * pop) mod n = 0 /\ pop mod n <> 0 /\ x = kk * pop / n - 1).
Proof.
  intros Hn Hpop Hb.
  assert (Eb : b = pop mod n) by (apply (Z.mod_unique_pos pop n a b); assumption).
  induction l as [|y l IH]; intros k q r Hk Hr H i Hi; simpl in Hi; [lia|].
  simpl in H. apply andb_true_iff in H. destruct H as [H1 H2].
  assert (Eq : q = k * pop / n) by (apply (Z.div_unique_pos (k * pop) n q r); assumption).
  assert (Er : r = (k * pop) mod n) by (apply (Z.mod_unique_pos (k * pop) n q r); assumption).
  destruct i as [|i].
  - simpl. replace (k + 0) with k by lia.
    apply orb_true_iff in H1. destruct H1 as [H1|H1].
    + left. apply Z.eqb_eq in H1. congruence.
    + right. apply andb_true_iff in H1. destruct H1 as [H1 H3].
      apply andb_true_iff in H1. destruct H1 as [H1 H4].
      apply Z.eqb_eq in H1, H3. apply negb_true_iff, Z.eqb_neq in H4.
      repeat split; congruence.
  - cbv zeta in *.
    replace (k + Z.of_nat (S i)) with (k + 1 + Z.of_nat i) by lia.
    assert (Hk1 : (k + 1) * pop = n * (q + a) + (r + b)).
    { replace ((k + 1) * pop) with (k * pop + pop) by ring. rewrite Hk. rewrite Hpop at 1. ring. }
    destruct (Z.ltb_spec (r + b) n) as [Hlt|Hge].
    + apply (IH (k + 1) (q + a) (r + b)); try assumption; lia.
    + apply (IH (k + 1) (q + a + 1) (r + b - n)); try assumption; lia.
Qed.

Lemma envelope_b_spec pop n l : 0 < n -> envelope_b pop n l = true ->
  Z.of_nat (length l) = n + 1 /\ Envelope pop n (cut_fn l).
Proof.
  intros Hn H. unfold envelope_b in H.
  apply andb_true_iff in H. destruct H as [H H4].
  apply andb_true_iff in H. destruct H as [H H3].
  apply andb_true_iff in H. destruct H as [H1 H2].
  apply Z.eqb_eq in H1, H2, H3.
  split; [exact H1|]. unfold Envelope, cut_fn. split; [exact H2|]. split; [exact H3|].
  intros k Hk.
  pose proof (Z_div_mod pop n ltac:(lia)) as Hdm.
  destruct (Z.div_eucl pop n) as [a b]. destruct Hdm as [Hpop Hb].
  pose proof (env_fast_spec pop n a b Hn Hpop Hb l 0 0 0 ltac:(lia) ltac:(lia) H4
                            (Z.to_nat k) ltac:(lia)) as E.
  cbv zeta in E. rewrite Z2Nat.id in E by lia. exact E.
Qed.

Lemma map_nth_seq {B} (l : list B) d : map (fun i => nth i l d) (seq 0 (length l)) = l.
Proof.
  induction l as [|x l IH]; simpl; [reflexivity|]. f_equal.
  rewrite <- seq_shift, map_map. exact IH.
Qed.

Lemma cut_points_cut_fn l n : 0 <= n -> Z.of_nat (length l) = n + 1 -> cut_points (cut_fn l) n = l.
Proof.
  intros Hn H. unfold cut_points, cut_fn. rewrite Zseq_0, map_map.
  replace (Z.to_nat n + 1)%nat with (length l) by lia.
  erewrite map_ext; [apply map_nth_seq|]. intros a. simpl. now rewrite Nat2Z.id.
Qed.

Lemma In_Zseq a len x : a <= x < a + Z.of_nat len -> In x (Zseq a len).
Proof.
  intros H. unfold Zseq. apply in_map_iff. exists (Z.to_nat (x - a)). split; [lia|].
  apply in_seq. lia.
Qed.

Lemma sweep_b_spec B : sweep_b B = true ->
  forall pop n, 1 <= n <= pop -> pop <= Z.of_nat B ->
    Z.of_nat (length (linspace_int pop n)) = n + 1 /\ Envelope pop n (cut_fn (linspace_int pop n)).
Proof.
  intros H pop n Hn Hp. unfold sweep_b in H.
  rewrite forallb_forall in H. specialize (H pop (In_Zseq 1 B pop ltac:(lia))).
  rewrite forallb_forall in H. specialize (H n (In_Zseq 1 (Z.to_nat pop) n ltac:(lia))).
  apply envelope_b_spec; [lia | exact H].
Qed.

(* evaluated once, by the kernel's VM, when the proof term is checked at Qed *)
Lemma sweep_256 : sweep_b 256 = true.
Proof. vm_cast_no_check (eq_refl true). Qed.

(* BOUNDED (pop <= 256): the bit-exact binary64 model of numpy.linspace lies in the envelope *)
Theorem linspace_envelope_upto256 : forall pop n, 1 <= n <= pop -> pop <= 256 ->
  Envelope pop n (cut_fn (linspace_int pop n)) /\
  cut_points (cut_fn (linspace_int pop n)) n = linspace_int pop n.
Proof.
  intros pop n Hn Hp.
  destruct (sweep_b_spec 256 sweep_256 pop n Hn ltac:(simpl; lia)) as [Hl He].
  split; [exact He | apply cut_points_cut_fn; [lia | exact Hl]].
Qed.

(* ================================================================== record of the defect *)
(* the code before the repair: n_jobs = -1 on a 16-core machine with pop_size = 8 gives 16 jobs,
   outside [1, pop], and _split_population then hands out empty chunks *)
Lemma get_n_jobs_orig_refuted :
  exists cpu pop n j, 1 <= cpu /\ 1 <= pop /\ n <> 0 /\
    get_n_jobs_orig cpu pop n = Some j /\ pop < j /\
    existsb (fun ch => match ch with [] => true | _ => false end)
            (split_population (linspace_int pop j) (Zseq 0 (Z.to_nat pop))) = true.
Proof. exists 16, 8, (-1), 16. vm_compute. repeat split; discriminate || reflexivity. Qed.

(* ================================================================== end to end, float model *)
(* BOUNDED (pop <= 256): whatever is requested, the normalised n_jobs and the bit-exact
   linspace model give chunks that are non-empty, contiguous, in order and cover the population *)
Theorem split_population_float_upto256 : forall (A : Type) cpu pop req (xs : list A),
  1 <= pop <= 256 -> req <> 0 -> Z.of_nat (length xs) = pop ->
  exists j, get_n_jobs cpu pop req = Some j /\ 1 <= j <= pop /\
    let pts := linspace_int pop j in
    let chunks := split_population pts xs in
    length chunks = Z.to_nat j /\
    (forall k, (k < Z.to_nat j)%nat ->
       nth k chunks [] = slice (Z.to_nat (nth k pts 0)) (Z.to_nat (nth (S k) pts 0)) xs) /\
    Forall (fun ch => ch <> []) chunks /\
    concat chunks = xs.
Proof.
  intros A cpu pop req xs Hp Hr Hlen.
  destruct (get_n_jobs_range cpu pop req ltac:(lia) Hr) as (j & Ej & Hj).
  exists j. split; [exact Ej|]. split; [exact Hj|].
  destruct (linspace_envelope_upto256 pop j Hj ltac:(lia)) as [He Hc].
  pose proof (chunks_spec A pop j (cut_fn (linspace_int pop j)) xs Hj He Hlen) as H.
  rewrite Hc in H. cbv zeta in *. destruct H as (_ & H1 & H2 & H3 & H4).
  repeat split; auto.
  intros k Hk. destruct (H2 k Hk) as [E _]. rewrite E. unfold cut_fn.
  rewrite Nat2Z.id. replace (Z.to_nat (Z.of_nat k + 1)) with (S k) by lia. reflexivity.
Qed.
