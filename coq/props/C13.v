(* C13 — every network genotype decodes to a valid feed-forward network.
   Statements only; proofs are in theories/NetProofs.v, NetProofs2.v, NetMLPProofs.v,
   NetOrderProofs.v.  Models: theories/Net.v, NetAlgebra.v, NetOrder.v.

   Valid (NetAlgebra.v): id sets disjoint and duplicate free; connections unique; a rank (0 on
   inputs, layer index + 1 on hidden nodes, last on outputs) strictly increases along every
   connection, sources are inputs/hidden, targets hidden/outputs (hence acyclic, forward only);
   every hidden and output node has an incoming connection, every hidden node an outgoing one;
   one weight per connection; an activation code exactly for the hidden and output nodes.       *)
From TF Require Import Base Net NetAlgebra NetOrder NetProofs NetProofs2 NetMLPProofs NetOrderProofs
     NetMLPProofs2.
Local Open Scope nat_scope.

(* the mutual recursion Net.__add__ <-> Net.__gt__ terminates: fuel 3 always yields one of the
   three general branches and more fuel does not change the result (both before and after the
   repair of the special case) *)
Theorem C13_ops_terminate : forall fixed isgt a b,
  (exists r, net_op fixed OPFUEL isgt a b = Some r /\
             (r = gt_plain a b \/ r = gt_plain b a \/ r = add_plain a b)) /\
  (forall k, net_op fixed (OPFUEL + k) isgt a b = net_op fixed OPFUEL isgt a b).
Proof. intros. split. apply net_op_cases. intro k. apply net_op_fuel. Qed.
Print Assumptions C13_ops_terminate.

(* the reversed stack pass over tree._nodes is the recursive decoder *)
Theorem C13_stack_is_recursive : forall fixed nv t st n,
  run_stack fixed nv (rev (prefix t)) st n =
  match decode_rec fixed nv t n with Some (r, n') => Some (r :: st, n') | None => None end.
Proof. intros. apply run_stack_prefix. Qed.
Print Assumptions C13_stack_is_recursive.

(* for EVERY tree over {+, >} with input-block terminals (any sets of column ids), the bias
   terminal and hidden blocks of any size and activation, any n_variables >= 1, n_outputs >= 1:
   decoding terminates and the result is Valid; moreover inputs are columns of X, hidden ids are
   contiguous from n_variables, the outputs are the last n_outputs ids and share one source set *)
Theorem C13_decode_valid : forall fixed nv nout oact t,
  1 <= nv -> 1 <= nout -> wf_tree nv t ->
  exists r, decode fixed nv nout oact t = Some r /\ Decoded nv nout r.
Proof. exact decode_valid. Qed.
Print Assumptions C13_decode_valid.

Theorem C13_decoded_is_valid : forall nv nout r, Decoded nv nout r -> Valid r.
Proof. intros nv nout r H. exact (d_valid _ _ _ H). Qed.
Print Assumptions C13_decoded_is_valid.

(* consequences the property text names explicitly: no cycles; every hidden node reaches an output *)
Theorem C13_valid_acyclic : forall n, Valid n -> forall v, ~ reach (n_con n) v v.
Proof. exact valid_acyclic. Qed.
Print Assumptions C13_valid_acyclic.

Theorem C13_valid_path_to_output : forall n, Valid n ->
  forall v, In v (hidden n) -> exists o, In o (n_out n) /\ reach (n_con n) v o.
Proof. exact valid_path_to_output. Qed.
Print Assumptions C13_valid_path_to_output.

(* the boolean predicate the correspondence evaluates on the implementation's nets implies Valid *)
Theorem C13_valid_b_sound : forall n, valid_b n = true -> Valid n.
Proof. exact valid_b_sound. Qed.
Print Assumptions C13_valid_b_sound.

(* Net._get_order on a Valid net: the  while calculated != purpose  loop ends within
   #groups passes (order_fuel n); the schedule lists every hidden and output node exactly once
   (Permutation), every group's sources are inputs or targets of earlier groups (well_sched),
   and every group is one entry of the pairs table built from the connection rows *)
Theorem C13_order_terminates : forall n, Valid n ->
  exists s, get_order (order_fuel n) n = Some s /\
            well_sched (n_in n) s /\
            Permutation.Permutation (targets s) (hidden n ++ n_out n) /\
            Forall (group_of (n_act n) (build_pairs (n_con n))) s.
Proof. exact order_terminates_valid. Qed.
Print Assumptions C13_order_terminates.

(* consequently for every decoded tree *)
Theorem C13_decoded_order_terminates : forall fixed nv nout oact t,
  1 <= nv -> 1 <= nout -> wf_tree nv t ->
  exists r s, decode fixed nv nout oact t = Some r /\ get_order (order_fuel r) r = Some s /\
              Permutation.Permutation (targets s) (hidden r ++ n_out r).
Proof.
  intros fixed nv nout oact t H1 H2 H3.
  destruct (decode_valid fixed nv nout oact t H1 H2 H3) as [r [E D]].
  destruct (order_terminates_valid r (d_valid _ _ _ D)) as [s [Es [_ [P _]]]].
  exists r, s. auto.
Qed.
Print Assumptions C13_decoded_order_terminates.

(* the MLP builder after the repair of Net.__gt__ (fixed = true): for EVERY hidden tuple with
   sizes >= 1, n_inputs >= 1, n_outputs >= 1, offset on/off: layers are the requested id ranges,
   the connection SET is full bipartite between consecutive layers plus bias -> every layer when
   offset, one weight per connection row, requested activations on hidden and output nodes *)
Theorem C13_mlp_architecture : forall ni no hs act offset oact,
  1 <= ni -> 1 <= no -> Forall (fun h => 1 <= h) hs ->
  exists r, define_net true ni no hs act offset oact = Some r /\
    n_in r = seq 0 ni /\ n_hid r = mlp_ranges ni hs /\ n_out r = seq (ni + list_sum hs) no /\
    (forall c, In c (n_con r) <-> In c (mlp_spec_connects ni no hs offset)) /\
    n_nw r = length (n_con r) /\
    (forall v, In v (hidden r) -> alookup v (n_act r) = Some act) /\
    (forall v, In v (n_out r) -> alookup v (n_act r) = Some oact).
Proof. exact mlp_architecture. Qed.
Print Assumptions C13_mlp_architecture.

(* the connection rows as a MULTISET, for EVERY hidden tuple (sizes >= 1), n_inputs, n_outputs >= 1,
   offset on/off: the rows are a permutation of the specification list (full bipartite between
   consecutive layers ++ bias -> every layer when offset), and the exact multiplicity of every row
   is: 2 for bias -> first layer when offset (the bias column is also an input column), 1 for every
   other requested row, 0 for anything else *)
Theorem C13_mlp_duplicates : forall ni no hs act offset oact,
  1 <= ni -> 1 <= no -> Forall (fun h => 1 <= h) hs ->
  exists r, define_net true ni no hs act offset oact = Some r /\
    Permutation.Permutation (n_con r) (mlp_spec_connects ni no hs offset) /\
    forall c, count_pair c (n_con r) =
      if offset && (fst c =? ni - 1) && mem (snd c) (hd [] (mlp_ranges ni (hs ++ [no]))) then 2
      else if existsb (pair_eqb c) (mlp_spec_connects ni no hs offset) then 1 else 0.
Proof. exact mlp_duplicates. Qed.
Print Assumptions C13_mlp_duplicates.

(* SUPERSEDED by C13_mlp_duplicates (kept as a regression): bounded sweep over hidden tuples of
   <= 3 layers with sizes 1..3, n_inputs 1..4, n_outputs 1..3 *)
Theorem C13_mlp_duplicates_sweep_3layers_size3_in4_out3 : mlp_dups_sweep = true.
Proof. exact mlp_duplicates_sweep_3layers_size3_in4_out3. Qed.
Print Assumptions C13_mlp_duplicates_sweep_3layers_size3_in4_out3.

(* record of the defect repaired in Net.__gt__ (DESIGN §7 item 17): before the repair
   (fixed = false) the builder with no hidden layer and offset connects no feature at all *)
Theorem C13_mlp_no_hidden_offset_refuted :
  exists ni no act oact r,
    define_net false ni no [] act true oact = Some r /\
    ~ (forall c, In c (mlp_spec_connects ni no [] true) -> In c (n_con r)).
Proof. exact mlp_no_hidden_offset_refuted. Qed.
Print Assumptions C13_mlp_no_hidden_offset_refuted.

(* NOT proved here (rests on other properties / on the correspondence):
     C13_forward_shape   : see C12_forward_shape (props/C12.v) for the model; shape and finiteness
                           of the real forward are observed on every case of the correspondence.
     C13_weights_in_box  : trained weights lie in [-10,10] because candidates do (C07 for the DE
                           family, C10_in_box for the 16-bit Gray grid); checked live on tiny
                           trainings by the correspondence (SHADE fails: known finding, C07). *)

(* non-vacuity: a concrete tree ((in{0,1} + bias) > (hid2 + hid1)) decodes to the expected net,
   the hypotheses of C13_decode_valid are met, and the boolean Valid holds on it *)
Example C13_nonvacuous :
  wf_tree 4 (TNode true (TNode false (TIn [0; 1]) TBias) (TNode false (THid 2 1) (THid 1 4))) /\
  (exists r, decode true 4 3 5 (TNode true (TNode false (TIn [0; 1]) TBias)
                                      (TNode false (THid 2 1) (THid 1 4))) = Some r /\
             valid_b r = true /\ n_hid r = [[5; 6; 4]] /\ n_out r = [7; 8; 9] /\
             length (n_con r) = 18) /\
  (exists r, define_net true 4 3 [] 0 true 5 = Some r /\ length (n_con r) = 15).
Proof.
  split; [|split].
  - simpl. repeat split; auto; try (repeat constructor; simpl; intuition discriminate).
    intros v [<-|[<-|[]]]; lia.
  - eexists. split; [vm_compute; reflexivity|]. vm_compute. auto.
  - eexists. split; [vm_compute; reflexivity|]. vm_compute. auto.
Qed.
Print Assumptions C13_nonvacuous.
