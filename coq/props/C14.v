(* C14 — self-configuration keeps operator probabilities a distribution and uses them.
   Statements only; proofs in theories/SelfConfProofs.v. *)
From TF Require Import Base RandomPrims RandomPrimsProofs SelfConf SelfConfProofs.
Open Scope Q_scope.

(* SelfC*: the updated map has the same names, sums to 1, is strictly positive ... *)
Theorem C14_distribution_selfc : forall K iters thr p w,
  0 < thr -> thr <= 1 -> p <> [] ->
  let q := selfc_new_proba K iters thr p w in
  length q = length p /\ qsum q == 1 /\ Forall (fun x => 0 < x) q.
Proof. exact selfc_distribution. Qed.
Print Assumptions C14_distribution_selfc.

(* ... and never falls below the floor after renormalisation: thr / (1 + z thr + K/iters) *)
Theorem C14_floor_selfc : forall K iters thr p w,
  0 < thr -> thr <= 1 -> 0 <= K -> 0 < iters -> p <> [] ->
  qsum p == 1 -> Forall (fun x => 0 <= x) p ->
  let z := inject_Z (Z.of_nat (length p)) in
  Forall (fun x => thr / (1 + z * thr + K / iters) <= x) (selfc_new_proba K iters thr p w).
Proof. exact selfc_floor. Qed.
Print Assumptions C14_floor_selfc.

(* PDP*: floor plus share proportional to (successes^2+1)/(uses+1): a distribution, never below thr *)
Theorem C14_distribution_pdp : forall thr z labels succ,
  0 < thr -> inject_Z (Z.of_nat z) * thr <= 1 ->
  (exists j, (j < z)%nat /\ In j labels) ->
  distribution thr z (pdp_new_proba thr z labels succ).
Proof. exact pdp_distribution. Qed.
Print Assumptions C14_distribution_pdp.

(* SelfC* rule: the operator that gains K/iters is one that created offspring and has the best mean
   offspring fitness (first in sorted-name order on ties) *)
Theorem C14_selfc_rule_winner : forall z labels fit, (exists j, (j < z)%nat /\ present j labels fit) ->
  let w := find_fittest_operator z labels fit in
  (w < z)%nat /\ present w labels fit /\
  forall i, (i < z)%nat -> present i labels fit -> mean (members i labels fit) <= mean (members w labels fit).
Proof. exact find_fittest_spec. Qed.
Print Assumptions C14_selfc_rule_winner.

(* the winner gains K/iters, everyone loses K/(z*iters); then clip to [thr,1] and normalise *)
Theorem C14_selfc_rule_update : forall K iters thr p w i, (i < length p)%nat -> (w < length p)%nat ->
  nth i (selfc_raw K iters p w) 0 ==
    nth i p 0 + (if (i =? w)%nat then K / iters else 0) - K / (inject_Z (Z.of_nat (length p)) * iters) /\
  selfc_new_proba K iters thr p w =
    map (fun x => x / qsum (map (clip thr 1) (selfc_raw K iters p w))) (map (clip thr 1) (selfc_raw K iters p w)).
Proof.
  intros K iters thr p w i Hi Hw. split; [|reflexivity]. unfold selfc_raw.
  rewrite (nth_map_default (fun x => x - K / (inject_Z (Z.of_nat (length p)) * iters)) _ i 0 0) by (rewrite upd_length; auto).
  rewrite upd_nth_cases. destruct (i =? w)%nat eqn:E.
  - apply Nat.eqb_eq in E. subst. assert ((w <? length p)%nat = true) as -> by (apply Nat.ltb_lt; auto). ring.
  - ring.
Qed.
Print Assumptions C14_selfc_rule_update.

(* the operators that create the next generation are drawn from the UPDATED maps, one triple per individual *)
Theorem C14_redraw_uses_updated_selfc : forall K iters ts tc tm pop_size m o fit ds m' o' ds',
  selfc_adapt K iters ts tc tm pop_size m o fit ds = Some ((m', o'), ds') ->
  m_sel m' = selfc_new_proba K iters ts (m_sel m) (find_fittest_operator (length (m_sel m)) (o_sel o) fit) /\
  m_cx m' = selfc_new_proba K iters tc (m_cx m) (find_fittest_operator (length (m_cx m)) (o_cx o) fit) /\
  m_mu m' = selfc_new_proba K iters tm (m_mu m) (find_fittest_operator (length (m_mu m)) (o_mu o) fit) /\
  exists s c u ds1 ds2,
    choice_operators (m_sel m') pop_size ds = Some (s, ds1) /\
    choice_operators (m_cx m') pop_size ds1 = Some (c, ds2) /\
    choice_operators (m_mu m') pop_size ds2 = Some (u, ds') /\
    o_sel o' = nats s /\ o_cx o' = nats c /\ o_mu o' = nats u.
Proof. exact selfc_redraw. Qed.
Print Assumptions C14_redraw_uses_updated_selfc.

Theorem C14_redraw_uses_updated_pdp : forall ts tc tm pop_size m o previous fit ds m' o' ds', previous <> [] ->
  pdp_adapt ts tc tm pop_size m o previous fit ds = Some ((m', o'), ds') ->
  let sc := success_mask previous fit in
  m_sel m' = pdp_new_proba ts (length (m_sel m)) (o_sel o) sc /\
  m_cx m' = pdp_new_proba tc (length (m_cx m)) (o_cx o) sc /\
  m_mu m' = pdp_new_proba tm (length (m_mu m)) (o_mu o) sc /\
  exists s c u ds1 ds2,
    choice_operators (m_sel m') pop_size ds = Some (s, ds1) /\
    choice_operators (m_cx m') pop_size ds1 = Some (c, ds2) /\
    choice_operators (m_mu m') pop_size ds2 = Some (u, ds') /\
    o_sel o' = nats s /\ o_cx o' = nats c /\ o_mu o' = nats u.
Proof. exact pdp_redraw. Qed.
Print Assumptions C14_redraw_uses_updated_pdp.

Theorem C14_one_operator_per_individual : forall p pop_size ds s ds', p <> [] ->
  choice_operators p pop_size ds = Some (s, ds') ->
  length s = pop_size /\ Forall (fun v => (0 <= v < Z.of_nat (length p))%Z) s.
Proof. exact choice_count_range. Qed.
Print Assumptions C14_one_operator_per_individual.

(* record of the repaired defect: PDPGA/PDPGP updated the maps but never re-drew the operators *)
Theorem C14_pdp_no_redraw_refuted : forall ts tc tm m o previous fit,
  snd (pdp_adapt_old ts tc tm m o previous fit) = o.
Proof. exact pdp_old_never_redraws. Qed.
Print Assumptions C14_pdp_no_redraw_refuted.

Example C14_nonvacuous :
  Qeq_bool (qsum (selfc_new_proba 2 10 (1 # 20) [1 # 3; 1 # 3; 1 # 3] 1)) 1 = true /\
  find_fittest_operator 3 [0; 2; 2; 0]%nat [1; 5; 3; 2] = 2%nat /\
  Qeq_bool (qsum (pdp_new_proba (1 # 20) 3 [0; 2; 2; 0]%nat [true; false; true; false])) 1 = true.
Proof. vm_compute. auto. Qed.
Print Assumptions C14_nonvacuous.

(* ------------------------------------------------------------------------------------------------
   THE TIE TO THE SOURCE for the SelfC* update rule.  SelfCGA._get_new_proba (inherited by SelfCGP) is translated on every run
   (harness/translate_code.py; the str-keyed probability dict is modelled by its value list in key order, the winner's key by its
   position; the in-place update of the caller's dict is part of the result).  For every K, iters, threshold <= 1, map and winner:
   the returned map is selfc_new_proba (entries ==), so C14_distribution_selfc / C14_floor_selfc / C14_selfc_rule_update above are
   statements about what the source computes. *)
From TF Require Import Py CodeEqC14.
From TFG Require Import GenCode.
Open Scope Q_scope.

Theorem C14_code_selfc_new_proba : forall (K : Q) (iters : Z) (thr : Q) (p : list Q) (w : Z), (0 <= w)%Z -> thr <= 1 ->
  fst (py_SelfCGA_get_new_proba K iters p w thr) = upd p (Z.to_nat w) (nth (Z.to_nat w) p 0 + K / ZtoQ iters) /\
  Forall2 Qeq (snd (py_SelfCGA_get_new_proba K iters p w thr)) (selfc_new_proba K (ZtoQ iters) thr p (Z.to_nat w)).
Proof. exact code_selfc_new_proba. Qed.
Print Assumptions C14_code_selfc_new_proba.

(* ... hence, about the source's own _get_new_proba: for any previous map, winner, K, iters and threshold in (0, 1] the returned map has one
   entry per name, sums to 1 and is strictly positive *)
Theorem C14_src_selfc_distribution : forall (K : Q) (iters : Z) (thr : Q) (p : list Q) (w : Z),
  (0 <= w)%Z -> 0 < thr -> thr <= 1 -> p <> [] ->
  let q := snd (py_SelfCGA_get_new_proba K iters p w thr) in
  length q = length p /\ qsum q == 1 /\ Forall (fun x => 0 < x) q.
Proof. exact src_selfc_distribution. Qed.
Print Assumptions C14_src_selfc_distribution.
