(* C17 — recorded history is complete, immutable and isolated from the caller (model side; the
   aliasing half is a run-time observation of the harness, see DESIGN). *)
From TF Require Import Base EALoop EALoopProofs EALoopProofs2.
From TF Require EAStore EAStoreProofs.
Open Scope Q_scope.

(* exactly one entry per executed generation with keep_history; nothing recorded without it *)
Theorem C17_one_entry_per_generation :
  forall (G P : Type) (g2p : G -> P) (nf : P -> Q) (k : kind) (elitism keep_history : bool)
         (aim : option Q) (no_increase_num : option nat) (var : state G P -> list G) (n : nat),
  (0 < n)%nat -> (forall st, length (var st) = n) ->
  forall iters gs0, (1 <= iters)%nat -> length gs0 = n ->
  let st := fit G P g2p nf k elitism keep_history aim no_increase_num var iters gs0 in
  (keep_history = true -> length (hist st) = gens st) /\ (keep_history = false -> hist st = []).
Proof. exact history_complete. Qed.
Print Assumptions C17_one_entry_per_generation.

(* max_fitness[i] is the maximum of fitness[i]; max_g[i], max_ph[i] the member at the first arg-max *)
Theorem C17_entries_consistent :
  forall (G P : Type) (g2p : G -> P) (nf : P -> Q) (k : kind) (elitism keep_history : bool)
         (aim : option Q) (no_increase_num : option nat) (var : state G P -> list G) iters gs0,
  Forall (fun s : snapshot G P =>
            s_max s = best_of G P (s_pop s) /\
            forall m, s_max s = Some m -> In m (s_pop s) /\ Forall (fun x => ifit x <= ifit m) (s_pop s))
         (hist (fit G P g2p nf k elitism keep_history aim no_increase_num var iters gs0)).
Proof. exact history_consistent. Qed.
Print Assumptions C17_entries_consistent.

(* later generations never alter an entry: the history only grows at its end *)
Theorem C17_history_prefix :
  forall (G P : Type) (g2p : G -> P) (nf : P -> Q) (k : kind) (elitism keep_history : bool)
         (st : state G P) (gs : list G) (first : bool),
  exists ext, hist (step G P g2p nf k elitism keep_history first st gs) = hist st ++ ext.
Proof. exact history_prefix. Qed.
Print Assumptions C17_history_prefix.

(* aliasing model (theories/EAStore.v): every object stored in the history and every caller-owned
   object (init_population rows, *_args values) keeps its identity and its contents under ANY sequence
   of optimizer operations (greedy in-place overwrite, elitism write, re-binding of the population,
   record replacement, further snapshots, get_fittest(), caller writes into returned objects) *)
Theorem C17_snapshot_immutable_and_caller_untouched : forall (V : Type) (dflt : V) ops (s : EAStore.st V) l,
  EAStore.wf V s -> In l (EAStore.hist V s ++ EAStore.caller V s) ->
  In l (EAStore.hist V (EAStore.run V dflt s ops) ++ EAStore.caller V (EAStore.run V dflt s ops)) /\
  EAStore.rd V dflt (EAStore.heap V (EAStore.run V dflt s ops)) l = EAStore.rd V dflt (EAStore.heap V s) l.
Proof. exact EAStoreProofs.history_immutable. Qed.
Print Assumptions C17_snapshot_immutable_and_caller_untouched.

(* objects returned by get_fittest() can be overwritten by the caller without affecting the record *)
Theorem C17_get_fittest_isolated : forall (V : Type) (dflt : V) (s : EAStore.st V) k v, EAStore.wf V s ->
  let s1 := EAStore.step V dflt s (EAStore.Get V) in
  forall l, In l (EAStore.rcd V s) -> EAStore.rd V dflt (EAStore.heap V (EAStore.step V dflt s1 (EAStore.CallerWrite V k v))) l = EAStore.rd V dflt (EAStore.heap V s) l.
Proof. exact EAStoreProofs.get_isolated. Qed.
Print Assumptions C17_get_fittest_isolated.

Example C17_store_nonvacuous :
  let s0 := {| EAStore.heap := [10; 20; 30; 40]%Z; EAStore.pop := [0; 1]%nat; EAStore.rcd := []; EAStore.hist := []; EAStore.caller := [2; 3]%nat; EAStore.ret := [] |} in
  let s := EAStore.run Z 0%Z s0 [EAStore.ReplaceRecord Z 1; EAStore.Snapshot Z; EAStore.PopWrite Z 1 99%Z; EAStore.ElitismWrite Z; EAStore.Get Z; EAStore.CallerWrite Z 0 (-1)%Z] in
  map (EAStore.rd Z 0%Z (EAStore.heap Z s)) (EAStore.rcd Z s) = [20%Z] /\ map (EAStore.rd Z 0%Z (EAStore.heap Z s)) (EAStore.hist Z s) = [10; 20]%Z /\
  map (EAStore.rd Z 0%Z (EAStore.heap Z s)) (EAStore.pop Z s) = [10; 20]%Z /\ map (EAStore.rd Z 0%Z (EAStore.heap Z s)) (EAStore.ret Z s) = [(-1)%Z].
Proof. vm_compute. auto. Qed.
Print Assumptions C17_store_nonvacuous.

Example C17_nonvacuous :
  let var := fun st : state Z Z => [Z.of_nat (gens st); 1]%Z in
  let st := fit Z Z (fun g => g) (fun p => inject_Z p) Generational true true None None var 3 [4; 5]%Z in
  length (hist st) = 3%nat /\ map (fun s => option_map ifit (s_max s)) (hist st) = [Some (5 # 1); Some (1 # 1); Some (2 # 1)].
Proof. vm_compute. auto. Qed.
Print Assumptions C17_nonvacuous.

(* ------------------------------------------------------------------------------------------------
   THE TIE TO THE SOURCE.  For the generational family the loop model simulates the run GENERATED from base/_ea.py
   (props/C01.v: C01_code_fit); the history the code keeps is, entry by entry, the model's history.  Hence on the
   generated run itself: one entry per executed generation with keep_history, none without. *)
From TF Require Import Py CodeEqLoop CodeEqStep.
From TFG Require Import GenLoop.

Theorem C17_src_fit_history : forall (G P : Type) (dG : G) (dP : P) (g2p : G -> P) (f : P -> Q) par_value
    (newpop : EvolutionaryAlgorithm G P -> list G) (var : state G P -> list G) (self0 : EvolutionaryAlgorithm G P) (gs0 : list G) (n : nat),
  sim G P dG dP self0 (init_state G P) -> (0 < n)%nat -> length gs0 = n -> (forall st, length (var st) = n) -> (1 <= ea_iters G P self0)%Z ->
  (ea_n_jobs G P self0 <= 1)%Z -> ea_aim G P self0 <> NegInf -> fst (ea_on_generation G P self0) = true ->
  (forall m, ea_no_increase_num G P self0 = Some m -> (0 <= m)%Z) ->
  (forall s st, sim G P dG dP s st -> newpop s = var st) ->
  let self := py_EvolutionaryAlgorithm_fit G P (fun s => set_pop_g G P s gs0) (fun s => set_pop_g G P s (newpop s))
                                           (from_pop G P dG dP g2p f par_value) self0 in
  let st := fit G P g2p (nf_of G P f self0) Generational (ea_elitism G P self0) (ea_keep_history G P self0)
                (abs_aim (ea_aim G P self0)) (abs_nin (ea_no_increase_num G P self0)) var (Z.to_nat (ea_iters G P self0)) gs0 in
  ea_stats G P self = map (entry_of G P dG dP) (hist st) /\
  (ea_keep_history G P self0 = true -> length (ea_stats G P self) = gens st) /\
  (ea_keep_history G P self0 = false -> ea_stats G P self = []).
Proof. exact src_fit_history. Qed.
Print Assumptions C17_src_fit_history.
