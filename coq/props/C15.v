(* C15 — adaptive control parameters stay in range and follow their update rules.
   Statements only; proofs in theories/AdaptProofs.v. *)
From TF Require Import Base RandomPrims RandomPrimsProofs Adapt AdaptProofs.
Open Scope Q_scope.

(* SHADE draws every F in (0,1] and CR in [0,1] (memory index in range), one pair per individual *)
Theorem C15_shade_ranges : forall pop H ds r ds', (0 < H)%Z -> valid_draws ds ->
  shade_generate pop H ds = Some (r, ds') -> length r = pop /\ Forall (pair_ok H 1) r.
Proof. exact shade_ranges. Qed.
Print Assumptions C15_shade_ranges.

(* SHAGA draws every mutation rate in (0, hi], hi = 5/str_len, and CR in [0,1] *)
Theorem C15_shaga_ranges : forall hi pop H ds r ds', (0 < H)%Z -> valid_draws ds ->
  shaga_generate hi pop H ds = Some (r, ds') -> length r = pop /\ Forall (pair_ok H hi) r.
Proof. exact shaga_ranges. Qed.
Print Assumptions C15_shaga_ranges.

Theorem C15_pair_ok_meaning : forall H hi t, pair_ok H hi t <->
  (0 <= fst (fst t) < H)%Z /\ (0 < snd (fst t) /\ snd (fst t) <= hi) /\ (0 <= snd t /\ snd t <= 1).
Proof. intros. reflexivity. Qed.
Print Assumptions C15_pair_ok_meaning.

(* jDE: regenerated F in [F_min, F_min+F_max] for a uniform value in [0,1]; regenerated CR is that value *)
Theorem C15_jde_ranges : forall F_min F_max r, 0 <= F_max -> 0 <= r -> r <= 1 ->
  F_min <= F_min + r * F_max /\ F_min + r * F_max <= F_min + F_max.
Proof. exact jde_F_value. Qed.
Print Assumptions C15_jde_ranges.

Theorem C15_jde_regeneration : forall f mask old vals i, length mask = length old ->
  (length (filter (fun b => b) mask) <= length vals)%nat -> (i < length old)%nat ->
  (nth i mask false = false -> nth i (scatter f mask old vals) 0 = nth i old 0) /\
  (nth i mask false = true -> exists v, In v vals /\ nth i (scatter f mask old vals) 0 = f v).
Proof. exact scatter_spec. Qed.
Print Assumptions C15_jde_regeneration.

(* an individual's jDE parameters change only when its trial is accepted *)
Theorem C15_jde_accept_only : forall par trial old new i, length par = length old -> length trial = length old ->
  length new = length old -> (i < length old)%nat ->
  nth i (accept_only par trial old new) 0 =
    if Qle_bool (nth i par 0) (nth i trial 0) then nth i new 0 else nth i old 0.
Proof. exact accept_only_spec. Qed.
Print Assumptions C15_jde_accept_only.

(* the written cell is the stated mean of the successful parameters; means stay in range *)
Theorem C15_lehmer_range : forall w x lo hi, 0 <= lo -> lo <= hi ->
  Forall (fun a => 0 <= a) w -> Forall (fun a => lo <= a /\ a <= hi) x -> length w = length x ->
  (0 < wsum w x -> lo <= lehmer w x /\ lehmer w x <= hi) /\ (wsum w x == 0 -> lehmer w x == 0).
Proof. exact lehmer_range. Qed.
Print Assumptions C15_lehmer_range.

Theorem C15_shade_F_cell_range : forall u S, 0 < u /\ u <= 1 -> Forall (fun a => 0 < a /\ a <= 1) S ->
  0 < shade_update_F u S /\ shade_update_F u S <= 1.
Proof. exact shade_update_F_range. Qed.
Print Assumptions C15_shade_F_cell_range.

Theorem C15_shade_CR_cell_range : forall u S df, 0 <= u /\ u <= 1 -> Forall (fun a => 0 <= a /\ a <= 1) S ->
  Forall (fun d => 0 <= d) df -> length df = length S ->
  0 <= shade_update_CR u S df /\ shade_update_CR u S df <= 1.
Proof. exact shade_update_CR_range. Qed.
Print Assumptions C15_shade_CR_cell_range.

Theorem C15_shaga_MR_cell_range : forall hi u S df, 0 < u /\ u <= hi ->
  (exists lo, 0 < lo /\ Forall (fun a => lo <= a /\ a <= hi) S) ->
  Forall (fun d => 0 <= d) df -> length df = length S ->
  0 < shaga_update u S df /\ shaga_update u S df <= hi.
Proof. exact shaga_update_range_MR. Qed.
Print Assumptions C15_shaga_MR_cell_range.

Theorem C15_shaga_CR_cell_range : forall u S df, 0 <= u /\ u <= 1 -> Forall (fun a => 0 <= a /\ a <= 1) S ->
  Forall (fun d => 0 <= d) df -> length df = length S ->
  0 <= shaga_update u S df /\ shaga_update u S df <= 1.
Proof. exact shaga_update_range_CR. Qed.
Print Assumptions C15_shaga_CR_cell_range.

(* no successes: the written cell is a copy of the preceding one *)
Theorem C15_no_success_copy : forall u df, shade_update_F u [] = u /\ shade_update_CR u [] df = u /\ shaga_update u [] df = u.
Proof. intros. repeat split; reflexivity. Qed.
Print Assumptions C15_no_success_copy.

(* memory invariant: one cell per generation, cyclically; only that cell changes; ranges preserved *)
Theorem C15_memory_invariant : forall (Pa Pb : Q -> Prop) ua ub m,
  (forall u, Pa u -> Pa (ua u)) -> (forall u, Pb u -> Pb (ub u)) ->
  mem_ok Pa Pb m ->
  let m' := mem_write ua ub m in
  mem_ok Pa Pb m' /\ mem_k m' = ((mem_k m + 1) mod length (mem_a m))%nat /\
  length (mem_a m') = length (mem_a m) /\
  (forall i, i <> mem_k m' -> nth i (mem_a m') 0 = nth i (mem_a m) 0 /\ nth i (mem_b m') 0 = nth i (mem_b m) 0) /\
  nth (mem_k m') (mem_a m') 0 = ua (nth (mem_k m) (mem_a m) 0) /\
  nth (mem_k m') (mem_b m') 0 = ub (nth (mem_k m) (mem_b m) 0).
Proof. exact mem_write_inv. Qed.
Print Assumptions C15_memory_invariant.

(* SHADE archive: never more than pop_size members, each a former member or a replaced parent;
   appended parents were replaced by STRICTLY better trials *)
Theorem C15_archive : forall (pop_size : nat) (archive worse : list Z) ds a ds',
  valid_draws ds -> append_archive 0%Z pop_size archive worse ds = Some (a, ds') ->
  (length archive <= pop_size)%nat ->
  (length a <= pop_size)%nat /\ forall x, In x a -> In x archive \/ In x worse.
Proof. exact (archive_spec 0%Z). Qed.
Print Assumptions C15_archive.

Theorem C15_archive_strictly_better : forall (par trial : list Q) (xs : list Z) x,
  In x (successful par trial xs) -> exists i, (i < length xs)%nat /\ nth_error xs i = Some x /\
    nth i par 0 < nth i trial 0.
Proof. exact (@successful_spec Z). Qed.
Print Assumptions C15_archive_strictly_better.

(* record of the repaired defect: all improving CR = 0 made SHAGA's weighted Lehmer mean 0/0 = NaN *)
Theorem C15_shaga_lehmer_zero_denominator : wsum (weights [1]) [0] == 0 /\ lehmer (weights [1]) [0] == 0.
Proof. exact lehmer_zero_denominator_witness. Qed.
Print Assumptions C15_shaga_lehmer_zero_denominator.

Example C15_nonvacuous :
  shade_generate 1 4 [DU (1 # 2); DX (-1 # 3); DX (7 # 5); DX (-1 # 10)] = Some ([(2%Z, 1, 0)], []) /\
  mem_k (shade_memory_step {| mem_a := [1 # 2; 1 # 2]; mem_b := [1 # 2; 1 # 2]; mem_k := 1 |} [1; 1] [2; 1] [3 # 4; 1 # 4] [1; 0]) = 0%nat.
Proof. vm_compute. auto. Qed.
Print Assumptions C15_nonvacuous.

(* ------------------------------------------------------------------------------------------------
   THE TIE TO THE SOURCE for SHADE's samplers.  gen/GenCode.v is regenerated on every run from the bodies of
   randc01 and randn01 in optimizers/_shade.py (harness/translate_code.py; semantics of the subset:
   theories/Py.v); the models above are EQUAL to the generated definitions for every list of draws. *)
From TF Require Import Py CodeEqC15.
From TFG Require Import GenCode.

Theorem C15_code_randc01 : forall u ds, py_randc01 u ds = randc01 ds.
Proof. exact code_randc01. Qed.
Print Assumptions C15_code_randc01.

Theorem C15_code_randn01 : forall u ds, py_randn01 u ds = randn01 ds.
Proof. exact code_randn01. Qed.
Print Assumptions C15_code_randn01.

Theorem C15_src_randn01_range : forall u ds v ds', py_randn01 u ds = Some (v, ds') -> (0 <= v /\ v <= 1)%Q.
Proof. exact src_randn01_range. Qed.
Print Assumptions C15_src_randn01_range.

(* ------------------------------------------------------------------------------------------------
   THE TIE TO THE SOURCE for the update rules and the per-individual generators.  lehmer_mean (both call shapes),
   SHADE._update_u_F / _update_u_CR / _generate_F_CR, SHAGA._update_u / _randc / _randn / _generate_MR_CR and
   jDE._get_mutate_F / _get_mutate_CR are plain Python; their bodies are translated on every run (self._x reads
   become parameters, stores into self are rejected) and proved equal to the models the theorems above are about
   (== where the source and the model order the rational arithmetic differently). *)
From TF Require Import CodeEqAdapt.
Open Scope Q_scope.

Theorem C15_code_lehmer_weighted : forall x w, py_lehmer_mean_weighted x w == lehmer w x.
Proof. exact code_lehmer_weighted. Qed.
Print Assumptions C15_code_lehmer_weighted.

Theorem C15_code_lehmer_unweighted : forall x, py_lehmer_mean_unweighted x == lehmer (ones (length x)) x.
Proof. exact code_lehmer_unweighted. Qed.
Print Assumptions C15_code_lehmer_unweighted.

Theorem C15_code_SHADE_update_u_F : forall u S, py_SHADE_update_u_F u S == shade_update_F u S.
Proof. exact code_SHADE_update_u_F. Qed.
Print Assumptions C15_code_SHADE_update_u_F.

Theorem C15_code_SHADE_update_u_CR : forall u S df, py_SHADE_update_u_CR u S df == shade_update_CR u S df.
Proof. exact code_SHADE_update_u_CR. Qed.
Print Assumptions C15_code_SHADE_update_u_CR.

Theorem C15_code_SHAGA_update_u : forall u S df, py_SHAGA_update_u u S df == shaga_update u S df.
Proof. exact code_SHAGA_update_u. Qed.
Print Assumptions C15_code_SHAGA_update_u.

Theorem C15_code_SHAGA_randc : forall str_len u scale ds,
  py_SHAGA_randc str_len u scale ds = randc_hi (ZtoQ 5 / ZtoQ str_len) ds.
Proof. exact code_SHAGA_randc. Qed.
Print Assumptions C15_code_SHAGA_randc.

Theorem C15_code_SHAGA_randn : forall u scale ds, py_SHAGA_randn u scale ds = randn01 ds.
Proof. exact code_SHAGA_randn. Qed.
Print Assumptions C15_code_SHAGA_randn.

Theorem C15_code_SHADE_generate_F_CR : forall (pop : nat) H HF HCR ds,
  py_SHADE_generate_F_CR (Z.of_nat pop) H HF HCR ds = bind (shade_generate pop H) (fun l => ret (pairs_out l)) ds.
Proof. exact code_SHADE_generate_F_CR. Qed.
Print Assumptions C15_code_SHADE_generate_F_CR.

Theorem C15_code_SHAGA_generate_MR_CR : forall (pop : nat) H HMR HCR str_len ds,
  py_SHAGA_generate_MR_CR (Z.of_nat pop) H HMR HCR str_len ds
  = bind (shaga_generate (ZtoQ 5 / ZtoQ str_len) pop H) (fun l => ret (pairs_out l)) ds.
Proof. exact code_SHAGA_generate_MR_CR. Qed.
Print Assumptions C15_code_SHAGA_generate_MR_CR.

Theorem C15_code_jDE_get_mutate_F : forall F tF Fmin Fmax ds,
  py_jDE_get_mutate_F F (zlen F) tF Fmin Fmax ds = jde_mutate (fun r => Fmin + Fmax * r) tF F ds.
Proof. exact code_jDE_get_mutate_F. Qed.
Print Assumptions C15_code_jDE_get_mutate_F.

Theorem C15_code_jDE_get_mutate_CR : forall CR tCR ds, py_jDE_get_mutate_CR CR (zlen CR) tCR ds = jde_mutate_CR tCR CR ds.
Proof. exact code_jDE_get_mutate_CR. Qed.
Print Assumptions C15_code_jDE_get_mutate_CR.

(* the ranges, stated about the source's own (generated) definitions *)
Theorem C15_src_SHADE_update_u_F_range : forall u S, 0 < u /\ u <= 1 -> Forall (fun a => 0 < a /\ a <= 1) S ->
  0 < py_SHADE_update_u_F u S /\ py_SHADE_update_u_F u S <= 1.
Proof. exact src_SHADE_update_u_F_range. Qed.
Print Assumptions C15_src_SHADE_update_u_F_range.

Theorem C15_src_SHADE_update_u_CR_range : forall u S df, 0 <= u /\ u <= 1 -> Forall (fun a => 0 <= a /\ a <= 1) S ->
  Forall (fun d => 0 <= d) df -> length df = length S ->
  0 <= py_SHADE_update_u_CR u S df /\ py_SHADE_update_u_CR u S df <= 1.
Proof. exact src_SHADE_update_u_CR_range. Qed.
Print Assumptions C15_src_SHADE_update_u_CR_range.

Theorem C15_src_SHAGA_update_u_range_MR : forall hi u S df, 0 < u /\ u <= hi ->
  (exists lo, 0 < lo /\ Forall (fun a => lo <= a /\ a <= hi) S) ->
  Forall (fun d => 0 <= d) df -> length df = length S ->
  0 < py_SHAGA_update_u u S df /\ py_SHAGA_update_u u S df <= hi.
Proof. exact src_SHAGA_update_u_range_MR. Qed.
Print Assumptions C15_src_SHAGA_update_u_range_MR.

Theorem C15_src_SHAGA_update_u_range_CR : forall u S df, 0 <= u /\ u <= 1 -> Forall (fun a => 0 <= a /\ a <= 1) S ->
  Forall (fun d => 0 <= d) df -> length df = length S ->
  0 <= py_SHAGA_update_u u S df /\ py_SHAGA_update_u u S df <= 1.
Proof. exact src_SHAGA_update_u_range_CR. Qed.
Print Assumptions C15_src_SHAGA_update_u_range_CR.

Theorem C15_src_no_success_copy : forall u df,
  py_SHADE_update_u_F u [] = u /\ py_SHADE_update_u_CR u [] df = u /\ py_SHAGA_update_u u [] df = u.
Proof. exact src_no_success_copy. Qed.
Print Assumptions C15_src_no_success_copy.

Theorem C15_src_lehmer_zero_denominator : forall x w, sumQ (vmulv w (vpow x 1)) == 0 -> py_lehmer_mean_weighted x w = 0.
Proof. exact src_lehmer_zero_denominator. Qed.
Print Assumptions C15_src_lehmer_zero_denominator.

Theorem C15_src_SHADE_generate_ranges : forall (pop : nat) H HF HCR ds Fs CRs ds', (0 < H)%Z -> valid_draws ds ->
  py_SHADE_generate_F_CR (Z.of_nat pop) H HF HCR ds = Some ((Fs, CRs), ds') ->
  length Fs = pop /\ length CRs = pop /\ Forall (fun a => 0 < a /\ a <= 1) Fs /\ Forall (fun a => 0 <= a /\ a <= 1) CRs.
Proof. exact src_SHADE_generate_ranges. Qed.
Print Assumptions C15_src_SHADE_generate_ranges.

Theorem C15_src_SHAGA_generate_ranges : forall (pop : nat) H HMR HCR str_len ds MRs CRs ds', (0 < H)%Z -> valid_draws ds ->
  py_SHAGA_generate_MR_CR (Z.of_nat pop) H HMR HCR str_len ds = Some ((MRs, CRs), ds') ->
  length MRs = pop /\ length CRs = pop /\ Forall (fun a => 0 < a /\ a <= ZtoQ 5 / ZtoQ str_len) MRs /\ Forall (fun a => 0 <= a /\ a <= 1) CRs.
Proof. exact src_SHAGA_generate_ranges. Qed.
Print Assumptions C15_src_SHAGA_generate_ranges.

(* ------------------------------------------------------------------------------------------------
   THE MEMORY WRITE, THE ARCHIVE AND ACCEPT-ONLY IN THE GENERATION STEP ITSELF.  SHADE / SHAGA / jDE `_get_new_population`, translated on
   every run (gen/GenLoop.v; random parts as oracles), write the memories exactly as shade_memory_step / shaga_memory_step say, put exactly
   the strictly improved parents into the archive, and change jDE's per-individual parameters only where the trial was accepted. *)
From TF Require Import EALoop CodeEqStep CodeEqAdaptStep.
From TFG Require Import GenLoop.
Open Scope Z_scope.

Theorem C15_code_shade_memory : forall (G P : Type) (g2p : G -> P) (f : P -> Q) par_value sh_trials sh_generate sh_append (self : SHADE G P),
  0 <= sh_k G P self -> sh_H_size G P self = zlen (sh_H_F G P self) ->
  let par := ea_fitness_i G P (sh_ea G P self) in
  let trial := trial_fit G P g2p f par_value (sh_ea G P self) (sh_trials (sh_pre G P sh_generate self)) in
  let m' := shade_memory_step (sh_mem G P self) par trial (fst (sh_generate self)) (snd (sh_generate self)) in
  let self' := sh_new G P g2p f par_value sh_trials sh_generate sh_append self in
  Forall2 Qeq (sh_H_F G P self') (mem_a m') /\ Forall2 Qeq (sh_H_CR G P self') (mem_b m') /\ sh_k G P self' = Z.of_nat (mem_k m').
Proof. exact code_shade_memory. Qed.
Print Assumptions C15_code_shade_memory.

Theorem C15_code_shaga_memory : forall (G P : Type) (g2p : G -> P) (f : P -> Q) par_value sg_trials sg_generate (self : SHAGA G P),
  0 <= sg_k G P self -> sg_H_size G P self = zlen (sg_H_MR G P self) ->
  let par := ea_fitness_i G P (sg_ea G P self) in
  let trial := trial_fit G P g2p f par_value (sg_ea G P self) (sg_trials (sg_pre G P sg_generate self)) in
  let m' := shaga_memory_step (sg_mem G P self) par trial (fst (sg_generate self)) (snd (sg_generate self)) in
  let self' := sg_new G P g2p f par_value sg_trials sg_generate self in
  Forall2 Qeq (sg_H_MR G P self') (mem_a m') /\ Forall2 Qeq (sg_H_CR G P self') (mem_b m') /\ sg_k G P self' = Z.of_nat (mem_k m').
Proof. exact code_shaga_memory. Qed.
Print Assumptions C15_code_shaga_memory.

Theorem C15_code_shade_archive : forall (G P : Type) (g2p : G -> P) (f : P -> Q) par_value sh_trials sh_generate sh_append (self : SHADE G P),
  exists s, sh_population_g_archive_i G P (sh_new G P g2p f par_value sh_trials sh_generate sh_append self)
  = sh_append s (sh_population_g_archive_i G P self)
      (successful (ea_fitness_i G P (sh_ea G P self)) (trial_fit G P g2p f par_value (sh_ea G P self) (sh_trials (sh_pre G P sh_generate self)))
                  (ea_population_g_i G P (sh_ea G P self))).
Proof. exact code_shade_archive. Qed.
Print Assumptions C15_code_shade_archive.

Theorem C15_code_jde_accept_only : forall (G P : Type) (g2p : G -> P) (f : P -> Q) par_value jd_trials jd_mutate_F jd_mutate_CR (self : jDE G P),
  let par := ea_fitness_i G P (jd_ea G P self) in
  let trial := trial_fit G P g2p f par_value (jd_ea G P self) (jd_trials self (jd_mutate_F self) (jd_mutate_CR self)) in
  let self' := jd_new G P g2p f par_value jd_trials jd_mutate_F jd_mutate_CR self in
  jd_F G P self' = accept_only par trial (jd_F G P self) (jd_mutate_F self) /\
  jd_CR G P self' = accept_only par trial (jd_CR G P self) (jd_mutate_CR self).
Proof. exact code_jde_accept_only. Qed.
Print Assumptions C15_code_jde_accept_only.

(* SHADE._append_archive and the row shuffle it uses (utils.random.sattolo_shuffle_2d), translated on every run, ARE the model's
   append_archive: the archive never exceeds pop_size and holds only former archive members and replaced parents *)
Theorem C15_code_SHADE_append_archive : forall (pop_size : nat) (archive worse : list (list Q)) ds, valid_draws ds ->
  py_SHADE_append_archive (Z.of_nat pop_size) archive worse ds = append_archive [] pop_size archive worse ds.
Proof. exact code_SHADE_append_archive. Qed.
Print Assumptions C15_code_SHADE_append_archive.

Theorem C15_src_SHADE_append_archive : forall (pop_size : nat) (archive worse : list (list Q)) ds a ds', valid_draws ds ->
  py_SHADE_append_archive (Z.of_nat pop_size) archive worse ds = Some (a, ds') -> (length archive <= pop_size)%nat ->
  (length a <= pop_size)%nat /\ (forall x, In x a -> In x archive \/ In x worse).
Proof. exact src_SHADE_append_archive. Qed.
Print Assumptions C15_src_SHADE_append_archive.
