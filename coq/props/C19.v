(* C19 — built-in metrics equal their textbook definitions.
   Statements only; models in theories/Metrics.v, proofs in theories/MetricsProofs.v.
   Admissible classification input ([admissible k y p]): y non-empty and label-encoded (takes
   exactly the values 0..k-1), p of the same length with values among 0..k-1.
   TP/FN/FP are defined by counting ([pairs_count] = length of a filtered zip), macro averages
   and regression sums by the index sum [sum_upto]. *)
From TF Require Import Base Metrics MetricsProofs.
Open Scope Q_scope.

(* confusion_matrix is k x k and  cm[i][j] = #{ s | y_s = i /\ p_s = j } *)
Theorem C19_confusion : forall k y p, admissible k y p ->
  length (confusion_matrix y p) = k /\
  (forall i, (i < k)%nat -> length (nth i (confusion_matrix y p) []) = k) /\
  (forall i j, (i < k)%nat -> (j < k)%nat ->
     nth j (nth i (confusion_matrix y p) []) 0%nat
     = pairs_count (fun t q => (t =? i)%nat && (q =? j)%nat) y p).
Proof. exact confusion_matrix_spec. Qed.
Print Assumptions C19_confusion.

(* accuracy = #{ y_s = p_s } / n *)
Theorem C19_accuracy : forall y p, length p = length y ->
  accuracy_score y p = Qn (pairs_count Nat.eqb y p) / Qn (length y).
Proof. exact accuracy_spec. Qed.
Print Assumptions C19_accuracy.

(* macro recall: mean over the classes of TP/(TP+FN), 0 for a class without true positives *)
Theorem C19_recall : forall k y p, admissible k y p ->
  recall_score y p
  = sum_upto k (fun c => if (TP c y p =? 0)%nat then 0 else Qn (TP c y p) / Qn (TP c y p + FN c y p)) / Qn k.
Proof. exact recall_spec. Qed.
Print Assumptions C19_recall.

(* macro precision: mean over the classes of TP/(TP+FP), 0 for a class without true positives *)
Theorem C19_precision : forall k y p, admissible k y p ->
  precision_score y p
  = sum_upto k (fun c => if (TP c y p =? 0)%nat then 0 else Qn (TP c y p) / Qn (TP c y p + FP c y p)) / Qn k.
Proof. exact precision_spec. Qed.
Print Assumptions C19_precision.

(* macro F1: mean over the classes of the harmonic mean of the counting precision and recall,
   0 for a class without true positives *)
Theorem C19_f1 : forall k y p, admissible k y p ->
  f1_score y p
  = sum_upto k (fun c =>
      if (TP c y p =? 0)%nat then 0 else
        let P := Qn (TP c y p) / Qn (TP c y p + FP c y p) in
        let R := Qn (TP c y p) / Qn (TP c y p + FN c y p) in
        2 * (P * R) / (P + R)) / Qn k.
Proof. exact f1_spec. Qed.
Print Assumptions C19_f1.

(* ... which is 2TP / (2TP + FP + FN) per class *)
Theorem C19_f1_counts : forall tp fp fn,
  (if (tp =? 0)%nat then 0 else
     let P := Qn tp / Qn (tp + fp) in let R := Qn tp / Qn (tp + fn) in 2 * (P * R) / (P + R))
  == Qn (2 * tp) / Qn (2 * tp + fp + fn).
Proof. exact f1_textbook_counts. Qed.
Print Assumptions C19_f1_counts.

(* RMSE = sqrt of a radicand m that equals the mean of the squared errors, m >= 0; wherever the
   square-root function is correct at m, rmse^2 = mean squared error.  sqrt is arbitrary. *)
Theorem C19_rmse : forall (sqrt : Q -> Q) y p, length p = length y ->
  exists m, root_mean_square_error sqrt y p = sqrt m /\
            m == sum_upto (length y) (fun i => (nth i y 0 - nth i p 0) ^ 2) / Qn (length y) /\
            0 <= m /\
            (sqrt m * sqrt m == m ->
             root_mean_square_error sqrt y p * root_mean_square_error sqrt y p
             == sum_upto (length y) (fun i => (nth i y 0 - nth i p 0) ^ 2) / Qn (length y)).
Proof. exact rmse_spec. Qed.
Print Assumptions C19_rmse.

(* R^2 = 1 - SSres/SStot; when SStot = 0 the denominator is replaced by 1e-10 *)
Theorem C19_r2 : forall y p, length p = length y ->
  (~ SStot y == 0 -> coefficient_determination y p == 1 - SSres y p / SStot y) /\
  (SStot y == 0 -> coefficient_determination y p == 1 - SSres y p / (1 # 10000000000)).
Proof. exact r2_spec. Qed.
Print Assumptions C19_r2.

(* SStot = 0 exactly for constant targets *)
Theorem C19_r2_constant_target : forall y, y <> [] ->
  (SStot y == 0 <-> exists c, forall i, (i < length y)%nat -> nth i y 0 == c).
Proof. exact SStot_zero_iff_constant. Qed.
Print Assumptions C19_r2_constant_target.

(* a perfect prediction scores exactly 1, constant target or not *)
Theorem C19_r2_perfect : forall y, coefficient_determination y y == 1.
Proof. exact r2_perfect. Qed.
Print Assumptions C19_r2_perfect.

(* cross-entropy of an n x c pair = mean over samples of  - sum_j clip(t_ij) * ln(clip(o_ij)),
   clip to [lo, hi] (the code: lo = 1e-7, hi = 1 - 1e-7); ln is arbitrary *)
Theorem C19_crossentropy : forall (ln : Q -> Q) lo hi n c T O, rect n c T -> rect n c O ->
  categorical_crossentropy ln lo hi T O
  = sum_upto n (fun i => sum_upto c (fun j =>
      - clip lo hi (nth j (nth i T []) 0) * ln (clip lo hi (nth j (nth i O []) 0)))) / Qn n.
Proof. exact crossentropy_spec. Qed.
Print Assumptions C19_crossentropy.

(* the code clips the target as well as the prediction; for targets in [0,1] this moves the value
   by at most c * eps * L from the definition that clips only the prediction
   (eps >= lo, 1 - hi;  L bounds -ln on [lo, hi]: for the code eps = 1e-7, L = ln 1e7 ~ 16.2) *)
Theorem C19_crossentropy_target_clip_deviation : forall (ln : Q -> Q) lo hi eps L n c T O,
  0 <= lo -> lo <= hi -> lo <= eps -> 1 - hi <= eps -> (0 < n)%nat ->
  (forall x, lo <= x -> x <= hi -> 0 <= - ln x /\ - ln x <= L) ->
  (forall i j, (i < n)%nat -> (j < c)%nat -> 0 <= nth2 T i j /\ nth2 T i j <= 1) ->
  Qabs (ce_textbook ln (clip lo hi) (clip lo hi) n c T O
        - ce_textbook ln (fun t => t) (clip lo hi) n c T O) <= Qn c * (eps * L).
Proof. exact crossentropy_target_clip_deviation. Qed.
Print Assumptions C19_crossentropy_target_clip_deviation.

(* the batch loop  out = np.empty(size); for i: out[i] = f(rows[i])  returns map f rows,
   whatever the uninitialised buffer held *)
Theorem C19_batch_loop : forall (A B : Type) (f : A -> B) (d : A) (rows : list A) (garbage : list B),
  length garbage = length rows -> batch_loop f d rows garbage = map f rows.
Proof. exact @batch_loop_rowwise. Qed.
Print Assumptions C19_batch_loop.

(* each 2-D / 3-D variant is the row-wise application of its scalar version *)
Theorem C19_batch_rowwise : forall (sqrt ln : Q -> Q) (lo hi : Q)
  (yq : list Q) (Pq : list (list Q)) (T : list (list Q)) (O3 : list (list (list Q)))
  (yl : list nat) (Pl : list (list nat)) (g1 g2 g3 : list Q),
  length g1 = length Pq -> length g2 = length O3 -> length g3 = length Pl ->
  root_mean_square_error2d sqrt yq Pq g1 = map (root_mean_square_error sqrt yq) Pq /\
  coefficient_determination2d yq Pq g1 = map (coefficient_determination yq) Pq /\
  categorical_crossentropy3d ln lo hi T O3 g2 = map (categorical_crossentropy ln lo hi T) O3 /\
  accuracy_score2d yl Pl g3 = map (accuracy_score yl) Pl /\
  recall_score2d yl Pl g3 = map (recall_score yl) Pl /\
  precision_score2d yl Pl g3 = map (precision_score yl) Pl /\
  f1_score2d yl Pl g3 = map (f1_score yl) Pl.
Proof. exact batch_variants_rowwise. Qed.
Print Assumptions C19_batch_rowwise.

(* non-vacuity: a concrete admissible input, concrete counts, a square-root function that is
   correct at the radicand, a constant target, a rectangular matrix, a bounded ln *)
Example C19_nonvacuous :
  admissible 3 [0; 1; 2; 2; 1]%nat [0; 2; 2; 1; 1]%nat /\
  confusion_matrix [0; 1; 2; 2; 1]%nat [0; 2; 2; 1; 1]%nat = [[1; 0; 0]; [0; 1; 1]; [0; 1; 1]]%nat /\
  TP 2 [0; 1; 2; 2; 1]%nat [0; 2; 2; 1; 1]%nat = 1%nat /\
  FN 2 [0; 1; 2; 2; 1]%nat [0; 2; 2; 1; 1]%nat = 1%nat /\
  FP 2 [0; 1; 2; 2; 1]%nat [0; 2; 2; 1; 1]%nat = 1%nat /\
  recall_score [0; 1; 2; 2; 1]%nat [0; 2; 2; 1; 1]%nat == 2 # 3 /\
  f1_score [0; 1; 1]%nat [1; 1; 1]%nat == 2 # 5 /\
  (let sqrt := fun x : Q => if Qeq_bool x 4 then 2 else 0 in
   sqrt 4 * sqrt 4 == 4 /\ root_mean_square_error sqrt [3; 1] [1; 3] == 2) /\
  coefficient_determination [1 # 2; 1 # 2] [1 # 2; 1 # 4] == 1 - (1 # 16) / tiny /\
  rect 2 2 [[1; 0]; [0; 1]] /\
  (let ln := fun _ : Q => - (1) in forall x, lo7 <= x -> x <= hi7 -> 0 <= - ln x /\ - ln x <= 1).
Proof. exact metrics_nonvacuous. Qed.
Print Assumptions C19_nonvacuous.

(* ------------------------------------------------------------------------------------------------
   THE TIE TO THE SOURCE for the counting metrics.  gen/GenCode.v is regenerated on every run from the bodies of
   accuracy_score, recall_score and precision_score in utils/_metrics.py (harness/translate_code.py; semantics of
   the subset: theories/Py.v: int64 labels as Z, np.unique as sort + dedup).  The models above are EQUAL to the
   generated definitions on every pair of label arrays; the textbook characterisations then read directly on the
   generated definitions. *)
From TF Require Import Py CodeEqC19.
From TFG Require Import GenCode.

Theorem C19_code_accuracy_score : forall y p, py_accuracy_score (zs y) (zs p) = accuracy_score y p.
Proof. exact code_accuracy_score. Qed.
Print Assumptions C19_code_accuracy_score.

Theorem C19_code_n_classes : forall y, zlen (uniqueZ (zs y)) = Z.of_nat (n_classes y).
Proof. exact code_n_classes. Qed.
Print Assumptions C19_code_n_classes.

Theorem C19_code_recall_score : forall y p, py_recall_score (zs y) (zs p) = recall_score y p.
Proof. exact code_recall_score. Qed.
Print Assumptions C19_code_recall_score.

Theorem C19_code_precision_score : forall y p, py_precision_score (zs y) (zs p) = precision_score y p.
Proof. exact code_precision_score. Qed.
Print Assumptions C19_code_precision_score.

Theorem C19_code_f1_score : forall y p, py_f1_score (zs y) (zs p) = f1_score y p.
Proof. exact code_f1_score. Qed.
Print Assumptions C19_code_f1_score.

Theorem C19_code_confusion_matrix : forall y p, py_confusion_matrix (zs y) (zs p) = map zs (confusion_matrix y p).
Proof. exact code_confusion_matrix. Qed.
Print Assumptions C19_code_confusion_matrix.
