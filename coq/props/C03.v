(* C03 — evaluation budget and stopping rules are honoured exactly. *)
From TF Require Import Base EALoop EALoopProofs EALoopProofs2.
Open Scope Q_scope.

(* at most iters generations of exactly pop_size evaluations each; remaining calls; one callback per
   generation after the first *)
Theorem C03_budget :
  forall (G P : Type) (g2p : G -> P) (nf : P -> Q) (k : kind) (elitism keep_history : bool)
         (aim : option Q) (no_increase_num : option nat) (var : state G P -> list G) (n : nat),
  (0 < n)%nat -> (forall st, length (var st) = n) ->
  forall iters gs0, (1 <= iters)%nat -> length gs0 = n ->
  let st := fit G P g2p nf k elitism keep_history aim no_increase_num var iters gs0 in
  (1 <= gens st <= iters)%nat /\ calls st = (n * gens st)%nat /\
  callbacks st = (gens st - 1)%nat /\
  (n * iters - calls st = n * (iters - gens st))%nat.
Proof. exact budget. Qed.
Print Assumptions C03_budget.

(* the run is the last state of its trajectory; every earlier state failed the termination test
   ("never earlier"); the last one passes it or the budget is exhausted ("immediately after") *)
Theorem C03_stop_exact :
  forall (G P : Type) (g2p : G -> P) (nf : P -> Q) (k : kind) (elitism keep_history : bool)
         (aim : option Q) (no_increase_num : option nat) (var : state G P -> list G),
  forall iters gs0, (1 <= iters)%nat ->
  let st0 := step G P g2p nf k elitism keep_history true (init_state G P) gs0 in
  let tr := trajectory G P g2p nf k elitism keep_history aim no_increase_num var (iters - 1) st0 in
  fit G P g2p nf k elitism keep_history aim no_increase_num var iters gs0 = last tr st0 /\
  (forall i, (S i < length tr)%nat -> terminate G P aim no_increase_num (nth i tr st0) = false) /\
  (terminate G P aim no_increase_num (last tr st0) = true \/ length tr = iters).
Proof.
  intros G P g2p nf k e kh aim nin var iters gs0 H.
  exact (stop_exact G P g2p nf k e kh aim nin var 1%nat Nat.lt_0_1 iters gs0 H).
Qed.
Print Assumptions C03_stop_exact.

(* the target is on the correct side for minimisation and for maximisation *)
Theorem C03_aim_side : forall minimization v err x,
  match aim_of minimization (Some v) err with
  | Some a => (a <= sign_of minimization * x <-> if minimization then x <= v + err else v - err <= x)
  | None => False
  end.
Proof. exact aim_side. Qed.
Print Assumptions C03_aim_side.

(* stagnation counter: reset exactly on strict improvement, otherwise incremented *)
Theorem C03_stagnation :
  forall (G P : Type) (b : option (indiv G P)) c p b' c', update_best G P b c p = (b', c') -> p <> [] ->
  exists m, b' = Some m /\ (In m p \/ b = Some m) /\ Forall (fun x => ifit x <= ifit m) p /\
    (forall b0, b = Some b0 -> ifit b0 <= ifit m) /\
    ((c' = 0%nat /\ (b = None \/ exists b0, b = Some b0 /\ ifit b0 < ifit m)) \/
     (c' = S c /\ b = Some m)).
Proof. exact update_best_spec. Qed.
Print Assumptions C03_stagnation.

Example C03_nonvacuous :
  let var := fun st : state Z Z => [Z.of_nat (gens st); 0]%Z in
  let st := fit Z Z (fun g => g) (fun p => inject_Z p) Generational true false (Some (2 # 1)) None var 10 [0; 0]%Z in
  gens st = 3%nat /\ calls st = 6%nat /\ callbacks st = 2%nat.
Proof. vm_compute. auto. Qed.
Print Assumptions C03_nonvacuous.

(* ------------------------------------------------------------------------------------------------
   THE TIE TO THE SOURCE for the stopping rules.  gen/GenLoop.v is regenerated on every run from
   EvolutionaryAlgorithm._get_aim / _termitation_check / get_remains_calls and the constructor lines that set
   _sign, _aim, _calls (harness/translate_loop.py).  The loop model's aim_of / terminate and the remaining-calls
   formula are EQUAL to the generated definitions. *)
From TF Require Import Py CodeEqLoop.
From TFG Require Import GenLoop.

Theorem C03_code_get_aim : forall (G P : Type) (self : EvolutionaryAlgorithm G P) (minimization : bool) optimal err,
  ea_sign G P self = (if minimization then -1 else 1)%Z ->
  abs_aim (py_EvolutionaryAlgorithm__get_aim G P self optimal err) = aim_of minimization optimal err.
Proof. exact code_get_aim. Qed.
Print Assumptions C03_code_get_aim.

Theorem C03_code_terminate : forall (G P : Type) (self : EvolutionaryAlgorithm G P) (st : state G P),
  ea_aim G P self <> NegInf -> tf_fitness G P (ea_thefittest G P self) <> PosInf ->
  best st = abs_best G P (ea_thefittest G P self) ->
  Z.of_nat (counter st) = tf_no_update_counter G P (ea_thefittest G P self) ->
  (forall n, ea_no_increase_num G P self = Some n -> (0 <= n)%Z) ->
  py_EvolutionaryAlgorithm__termitation_check G P self
  = terminate G P (abs_aim (ea_aim G P self)) (abs_nin (ea_no_increase_num G P self)) st.
Proof. exact code_terminate. Qed.
Print Assumptions C03_code_terminate.

Theorem C03_code_remains : forall (G P : Type) (self : EvolutionaryAlgorithm G P),
  py_EvolutionaryAlgorithm_get_remains_calls G P self
  = (ea_iters G P self * ea_pop_size G P self - ea_calls G P self)%Z.
Proof. exact code_remains. Qed.
Print Assumptions C03_code_remains.

Theorem C03_code_init : forall (G P : Type) (dG : G) (dP : P) iters pop_size minimization optimal err nin elitism keep_history n_jobs has_cb,
  let self := py_EvolutionaryAlgorithm_init G P dG dP iters pop_size minimization optimal err nin elitism keep_history n_jobs has_cb in
  abs_best G P (ea_thefittest G P self) = None /\ tf_no_update_counter G P (ea_thefittest G P self) = 0%Z /\
  ea_calls G P self = 0%Z /\ abs_aim (ea_aim G P self) = aim_of minimization optimal err /\ ea_aim G P self <> NegInf /\
  ea_stats G P self = [] /\ snd (ea_on_generation G P self) = 0%Z.
Proof. exact code_init. Qed.
Print Assumptions C03_code_init.
