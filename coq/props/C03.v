(* C03 — evaluation budget and stopping rules are honoured exactly. *)
From TF Require Import Base EALoop EALoopProofs EALoopProofs2.
Open Scope Q_scope.

(* at most iters generations of exactly pop_size evaluations each; remaining calls; one callback per
   generation after the first *)
Theorem C03_budget :
  forall (G P : Type) (g2p : G -> P) (nf : P -> Q) (k : kind) (elitism keep_history : bool)
         (aim : option Q) (no_increase_num : option nat) (var : state G P -> list G) (n : nat),
  (0 < n)%nat -> (forall st, length (var st) = n) ->
  forall iters gs0, (1 <= iters)%nat -> length gs0 = n ->
  let st := fit G P g2p nf k elitism keep_history aim no_increase_num var iters gs0 in
  (1 <= gens st <= iters)%nat /\ calls st = (n * gens st)%nat /\
  callbacks st = (gens st - 1)%nat /\
  (n * iters - calls st = n * (iters - gens st))%nat.
Proof. exact budget. Qed.
Print Assumptions C03_budget.

(* the run is the last state of its trajectory; every earlier state failed the termination test
   ("never earlier"); the last one passes it or the budget is exhausted ("immediately after") *)
Theorem C03_stop_exact :
  forall (G P : Type) (g2p : G -> P) (nf : P -> Q) (k : kind) (elitism keep_history : bool)
         (aim : option Q) (no_increase_num : option nat) (var : state G P -> list G),
  forall iters gs0, (1 <= iters)%nat ->
  let st0 := step G P g2p nf k elitism keep_history true (init_state G P) gs0 in
  let tr := trajectory G P g2p nf k elitism keep_history aim no_increase_num var (iters - 1) st0 in
  fit G P g2p nf k elitism keep_history aim no_increase_num var iters gs0 = last tr st0 /\
  (forall i, (S i < length tr)%nat -> terminate G P aim no_increase_num (nth i tr st0) = false) /\
  (terminate G P aim no_increase_num (last tr st0) = true \/ length tr = iters).
Proof.
  intros G P g2p nf k e kh aim nin var iters gs0 H.
  exact (stop_exact G P g2p nf k e kh aim nin var 1%nat Nat.lt_0_1 iters gs0 H).
Qed.
Print Assumptions C03_stop_exact.

(* the target is on the correct side for minimisation and for maximisation *)
Theorem C03_aim_side : forall minimization v err x,
  match aim_of minimization (Some v) err with
  | Some a => (a <= sign_of minimization * x <-> if minimization then x <= v + err else v - err <= x)
  | None => False
  end.
Proof. exact aim_side. Qed.
Print Assumptions C03_aim_side.

(* stagnation counter: reset exactly on strict improvement, otherwise incremented *)
Theorem C03_stagnation :
  forall (G P : Type) (b : option (indiv G P)) c p b' c', update_best G P b c p = (b', c') -> p <> [] ->
  exists m, b' = Some m /\ (In m p \/ b = Some m) /\ Forall (fun x => ifit x <= ifit m) p /\
    (forall b0, b = Some b0 -> ifit b0 <= ifit m) /\
    ((c' = 0%nat /\ (b = None \/ exists b0, b = Some b0 /\ ifit b0 < ifit m)) \/
     (c' = S c /\ b = Some m)).
Proof. exact update_best_spec. Qed.
Print Assumptions C03_stagnation.

Example C03_nonvacuous :
  let var := fun st : state Z Z => [Z.of_nat (gens st); 0]%Z in
  let st := fit Z Z (fun g => g) (fun p => inject_Z p) Generational true false (Some (2 # 1)) None var 10 [0; 0]%Z in
  gens st = 3%nat /\ calls st = 6%nat /\ callbacks st = 2%nat.
Proof. vm_compute. auto. Qed.
Print Assumptions C03_nonvacuous.
