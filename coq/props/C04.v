(* C04 — a run is a deterministic function of its arguments and random_state.
   What a theorem can carry here (DESIGN §6 C04): (1) a decidable audit, over tables re-extracted from
   the source on every run, that every entropy source of algorithm code is one of the two compiled
   streams and that check_random_state seeds both; (2) the seeding model: a seeded run's draws do not
   depend on the generator state before it.  That the code has no OTHER influence is observed by the
   correspondence (perturbed re-runs), not proved. *)
From Coq Require Import String.
From TF Require Import Base Entropy EntropyProofs.
From TFG Require Import GenRngSites.

(* every primitive RNG call site lies in an njit-compiled function (so it reads one of the two streams
   numba_seed seeds); no clock / urandom / uuid entropy; numba_seed seeds both streams;
   check_random_state reseeds on the integer and on the RandomState branch, not on None, and rejects
   anything else *)
Definition all_njit (l : list (string * string * string * bool)) : bool := forallb (fun s => snd s) l.
Definition seeds_both (l : list (string * string * string)) : bool :=
  existsb (fun s => String.eqb (snd s) "random.seed" && String.eqb (snd (fst s)) "numba_seed") l &&
  existsb (fun s => String.eqb (snd s) "np.random.seed" && String.eqb (snd (fst s)) "numba_seed") l &&
  forallb (fun s => String.eqb (snd (fst s)) "numba_seed") l.
Definition crs_ok (l : list (string * bool * bool)) : bool :=
  match l with
  | [(t0, c0, r0); (t1, c1, r1); (t2, c2, r2); (t3, c3, r3)] =>
      String.eqb t0 "seed is None" && negb c0 && negb r0 &&
      String.eqb t1 "isinstance(seed, (numbers.Integral, np.integer))" && c1 && negb r1 &&
      String.eqb t2 "isinstance(seed, np.random.RandomState)" && c2 && negb r2 &&
      String.eqb t3 "else" && negb c3 && r3
  | _ => false
  end.

Theorem C04_all_sites_seeded :
  all_njit rng_sites = true /\ other_entropy = [] /\ seeds_both seed_sites = true /\ crs_ok crs_branches = true /\
  (0 < List.length rng_sites)%nat.
Proof. split; [vm_compute; reflexivity|]. split; [vm_compute; reflexivity|]. split; [vm_compute; reflexivity|]. split; [vm_compute; reflexivity|]. vm_compute. lia. Qed.
Print Assumptions C04_all_sites_seeded.

Theorem C04_prefix_independence : forall (stream_py stream_np : Z -> nat -> draw) a which g1 g2, a <> SNone ->
  take stream_py stream_np which (check_random_state a g1) = take stream_py stream_np which (check_random_state a g2).
Proof. exact seeded_draws_functional. Qed.
Print Assumptions C04_prefix_independence.

Theorem C04_seed_determines_streams : forall z g, (0 <= z < 4294967296)%Z ->
  check_random_state (SInt z) g = check_random_state (SState z) g.
Proof. exact int_and_state_agree. Qed.
Print Assumptions C04_seed_determines_streams.

Theorem C04_both_streams_seeded : forall a g, a <> SNone ->
  snd (g_py (check_random_state a g)) = O /\ snd (g_np (check_random_state a g)) = O /\
  fst (g_py (check_random_state a g)) = fst (g_np (check_random_state a g)).
Proof. exact both_streams_seeded. Qed.
Print Assumptions C04_both_streams_seeded.

Example C04_nonvacuous :
  check_random_state (SInt 42) {| g_py := (7%Z, 13%nat); g_np := (9%Z, 2%nat) |} =
  {| g_py := (42%Z, O); g_np := (42%Z, O) |}.
Proof. reflexivity. Qed.
Print Assumptions C04_nonvacuous.
