(* C11 — selection and sampling primitives honour their contracts.
   Statements only; proofs are in theories/RandomPrimsProofs{,2}.v. *)
From TF Require Import Base RandomPrims RandomPrimsProofs RandomPrimsProofs2 SattoloCycle.
From Coq Require Import Permutation.
Open Scope Q_scope.

(* proportional / rank selection: exactly [quantity] indices, all valid *)
Theorem C11_selection_count_range_weighted : forall w q ds r ds', w <> [] ->
  random_weighted_sample w q true ds = Some (r, ds') ->
  length r = q /\ Forall (fun v => (0 <= v < Z.of_nat (length w))%Z) r.
Proof. exact weighted_selection_count_range. Qed.
Print Assumptions C11_selection_count_range_weighted.

(* tournament selection: exactly [quantity] valid indices, none among the tour-1 strictly worst *)
Theorem C11_selection_count_range_tournament : forall fitness tour quantity ds ws ds',
  valid_draws ds -> (0 < tour)%nat -> tournament_selection fitness tour quantity ds = Some (ws, ds') ->
  length ws = quantity /\
  Forall (fun w => (0 <= w < Z.of_nat (length fitness))%Z /\ (tour <= count_le fitness w)%nat) ws.
Proof. exact tournament_selection_spec. Qed.
Print Assumptions C11_selection_count_range_tournament.

(* the winner is a fittest member of tour_size distinct contestants *)
Theorem C11_tournament : forall fitness tour ds w ds',
  valid_draws ds -> (0 < tour)%nat -> tournament_one fitness tour ds = Some (w, ds') ->
  exists t, length t = tour /\ NoDup t /\
    Forall (fun v => (0 <= v < Z.of_nat (length fitness))%Z) t /\
    In w t /\
    Forall (fun j => nth (Z.to_nat j) fitness 0 <= nth (Z.to_nat w) fitness 0) t /\
    valid_draws ds'.
Proof. exact tournament_one_spec. Qed.
Print Assumptions C11_tournament.

Theorem C11_tournament_full_is_global : forall fitness ds w ds',
  valid_draws ds -> (0 < length fitness)%nat ->
  tournament_one fitness (length fitness) ds = Some (w, ds') ->
  Forall (fun x => x <= nth (Z.to_nat w) fitness 0) fitness.
Proof. exact tournament_full_is_global. Qed.
Print Assumptions C11_tournament_full_is_global.

(* interval search: everything before the returned index is < v, and v <= c_i (or i is the last) *)
Theorem C11_interval : forall v c, c <> [] -> sorted c ->
  let i := bsi v c in
  (forall j, (j < i)%nat -> nth j c 0 < v) /\ (v <= nth i c 0 \/ i = (length c - 1)%nat).
Proof. exact bsi_first. Qed.
Print Assumptions C11_interval.

(* a uniform draw u is mapped to the index whose cumulative-weight interval contains u*S *)
Theorem C11_weighted_pick : forall w u, w <> [] -> nonneg w -> 0 < total w -> 0 <= u -> u < 1 ->
  let i := weighted_pick w u in
  let c := cumsum w in
  (i < length w)%nat /\ (forall j, (j < i)%nat -> nth j c 0 < total w * u) /\ total w * u <= nth i c 0.
Proof. exact weighted_pick_interval. Qed.
Print Assumptions C11_weighted_pick.

Theorem C11_zero_weight_excluded : forall w u, w <> [] -> nonneg w -> 0 < total w -> 0 < u -> u < 1 ->
  nth (weighted_pick w u) w 0 > 0.
Proof. exact zero_weight_excluded. Qed.
Print Assumptions C11_zero_weight_excluded.

(* sampling: requested length, in range, distinct without replacement *)
Theorem C11_sample_distinct : forall n q replace ds r ds',
  valid_draws ds -> random_sample n q replace ds = Some (r, ds') ->
  length r = q /\ Forall (fun v => (0 <= v < n)%Z) r /\ (replace = false -> NoDup r).
Proof. exact random_sample_spec. Qed.
Print Assumptions C11_sample_distinct.

Theorem C11_randint_range : forall low high, (low < high)%Z -> forall size ds r ds',
  valid_draws ds -> randint low high size ds = Some (r, ds') ->
  length r = size /\ Forall (fun v => (low <= v < high)%Z) r.
Proof. exact randint_range. Qed.
Print Assumptions C11_randint_range.

(* Sattolo: the output is a permutation of the input *)
Theorem C11_sattolo_permutation : forall (arr : list Z) ds r ds',
  valid_draws ds -> sattolo 0%Z arr ds = Some (r, ds') -> Permutation arr r.
Proof. exact (sattolo_perm 0%Z). Qed.
Print Assumptions C11_sattolo_permutation.

(* ... and that permutation is CYCLIC: the output is the input read through a map on positions that
   is one cycle through all n positions — for every length and every outcome of the draws *)
Theorem C11_sattolo_cyclic : forall (arr : list Z) ds r ds',
  valid_draws ds -> arr <> [] -> sattolo 0%Z arr ds = Some (r, ds') ->
  exists pi, cyclic_on (length arr - 1) pi /\ length r = length arr /\
    forall p, (p < length arr)%nat -> nth p r 0%Z = nth (pi p) arr 0%Z.
Proof. exact (sattolo_cyclic 0%Z). Qed.
Print Assumptions C11_sattolo_cyclic.

Theorem C11_cyclic_on_meaning : forall m pi, cyclic_on m pi <->
  (forall p, (p <= m)%nat -> (pi p <= m)%nat) /\ (forall p, (m < p)%nat -> pi p = p) /\
  (forall a b, (a <= m)%nat -> (b <= m)%nat -> exists k, iter pi k a = b).
Proof. intros. reflexivity. Qed.
Print Assumptions C11_cyclic_on_meaning.

Theorem C11_sattolo_no_fixed_point : forall (arr : list Z) ds r ds' p,
  valid_draws ds -> NoDup arr -> (2 <= length arr)%nat -> (p < length arr)%nat ->
  sattolo 0%Z arr ds = Some (r, ds') -> nth p r 0%Z <> nth p arr 0%Z.
Proof. exact (sattolo_no_fixed_point 0%Z). Qed.
Print Assumptions C11_sattolo_no_fixed_point.

(* p-best: argsort_k puts, in its first k slots, indices whose values dominate all later ones;
   find_pbest_id returns exactly max(1, floor(p n)) distinct indices, each at least as fit as
   every index outside the set *)
Theorem C11_argsort_k : forall a k, (k <= length a)%nat ->
  let r := argsort_k a k in
  length r = length a /\ Permutation (seq 0 (length a)) r /\
  (forall p q, (p < k)%nat -> (p <= q < length a)%nat -> nth (nth q r O) a 0 <= nth (nth p r O) a 0).
Proof. exact argsort_k_spec. Qed.
Print Assumptions C11_argsort_k.

Theorem C11_pbest : forall a p, (pbest_count p (length a) <= length a)%nat ->
  let s := find_pbest_id a p in
  length s = pbest_count p (length a) /\ NoDup s /\
  (forall x, In x s -> (x < length a)%nat) /\
  (forall x y, In x s -> (y < length a)%nat -> ~ In y s -> nth y a 0 <= nth x a 0).
Proof. exact find_pbest_spec. Qed.
Print Assumptions C11_pbest.

(* record of the defect repaired by the fix: commit (max_id not reset per iteration) *)
Theorem C11_argsort_k_stale_refuted :
  forall garbage, exists a k, (k <= length a)%nat /\
    ~ (forall p q, (p < k)%nat -> (p <= q < length a)%nat ->
        nth (nth q (argsort_k_stale garbage a k) O) a 0 <= nth (nth p (argsort_k_stale garbage a k) O) a 0).
Proof. exact argsort_k_stale_refuted. Qed.
Print Assumptions C11_argsort_k_stale_refuted.

Theorem C11_minmax : forall l, l <> [] ->
  let s := minmax_scale l in
  length s = length l /\ Forall (fun y => 0 <= y /\ y <= 1) s /\
  (Qmax_list l == Qmin_list l -> Forall (fun y => y = 1) s) /\
  (~ Qmax_list l == Qmin_list l ->
     (forall i, (i < length l)%nat -> nth i l 0 == Qmin_list l -> nth i s 0 == 0) /\
     (forall i, (i < length l)%nat -> nth i l 0 == Qmax_list l -> nth i s 0 == 1)).
Proof. exact minmax_scale_spec. Qed.
Print Assumptions C11_minmax.

(* non-vacuity: concrete inputs meet the hypotheses *)
Example C11_nonvacuous :
  tournament_one [1; 4; 9; 3] 2 [DI 4 0; DI 4 0; DI 4 3] = Some (3%Z, []) /\
  weighted_pick [1; 0; 2; 1] (1 # 2) = 2%nat /\
  find_pbest_id [1; 4; 9; 3] (1 # 2) = [2; 1]%nat.
Proof. vm_compute. auto. Qed.
Print Assumptions C11_nonvacuous.

(* ------------------------------------------------------------------------------------------------
   THE TIE TO THE SOURCE.  gen/GenCode.v is regenerated on every run from the bodies of the functions in
   utils/__init__.py, utils/random.py and utils/selections.py (harness/translate_code.py; semantics of the
   subset: theories/Py.v).  The models the theorems above are about are EQUAL to those generated
   definitions, for every input and every list of draws; the headline theorems are restated about the
   generated definitions themselves (the src_ theorems). *)
From Coq Require Import String.
From TF Require Import Py CodeEqC11.
From TFG Require Import GenCode.
Open Scope Z_scope.

Theorem C11_code_check_for_value : forall v arr (k : nat), (k <= length arr)%nat ->
  py_check_for_value v arr (Z.of_nat k) = memZ v (firstn k arr).
Proof. exact code_check_for_value. Qed.
Print Assumptions C11_code_check_for_value.

Theorem C11_code_random_sample : forall n (q : nat) replace ds, replace = true \/ Z.of_nat q <= n ->
  py_random_sample n (Z.of_nat q) replace ds = random_sample n q replace ds.
Proof. exact code_random_sample. Qed.
Print Assumptions C11_code_random_sample.

Theorem C11_code_binary_search_interval : forall v c ds, c <> [] ->
  py_binary_search_interval v c ds = Some (Z.of_nat (bsi v c), ds).
Proof. exact code_binary_search_interval. Qed.
Print Assumptions C11_code_binary_search_interval.

Theorem C11_code_random_weighted_sample : forall w (q : nat) replace ds,
  w <> [] -> replace = true \/ (q <= length w)%nat ->
  py_random_weighted_sample w (Z.of_nat q) replace ds = random_weighted_sample w q replace ds.
Proof. exact code_random_weighted_sample. Qed.
Print Assumptions C11_code_random_weighted_sample.

Theorem C11_code_flip_coin : forall p ds, py_flip_coin p ds = flip_coin p ds.
Proof. exact code_flip_coin. Qed.
Print Assumptions C11_code_flip_coin.

Theorem C11_code_randint : forall low high (k : nat) ds, py_randint low high (Z.of_nat k) ds = randint low high k ds.
Proof. exact code_randint. Qed.
Print Assumptions C11_code_randint.

Theorem C11_code_proportional_selection : forall fitness rank tour (q : nat) ds, fitness <> [] ->
  py_proportional_selection fitness rank tour (Z.of_nat q) ds = proportional_selection fitness rank (Z.to_nat tour) q ds.
Proof. exact code_proportional_selection. Qed.
Print Assumptions C11_code_proportional_selection.

Theorem C11_code_rank_selection : forall fitness rank tour (q : nat) ds, rank <> [] ->
  py_rank_selection fitness rank tour (Z.of_nat q) ds = rank_selection fitness rank (Z.to_nat tour) q ds.
Proof. exact code_rank_selection. Qed.
Print Assumptions C11_code_rank_selection.

Theorem C11_code_tournament_selection : forall fitness rank (tour q : nat) ds,
  valid_draws ds -> (tour <= length fitness)%nat ->
  py_tournament_selection fitness rank (Z.of_nat tour) (Z.of_nat q) ds = tournament_selection fitness tour q ds.
Proof. exact code_tournament_selection. Qed.
Print Assumptions C11_code_tournament_selection.

Theorem C11_code_sattolo_shuffle : forall arr ds, valid_draws ds -> py_sattolo_shuffle arr ds = sattolo 0 arr ds.
Proof. exact code_sattolo_shuffle. Qed.
Print Assumptions C11_code_sattolo_shuffle.

Theorem C11_code_argsort_k : forall a (k : nat), py_argsort_k a (Z.of_nat k) = map Z.of_nat (argsort_k a k).
Proof. exact code_argsort_k. Qed.
Print Assumptions C11_code_argsort_k.

Theorem C11_code_find_pbest_id : forall a p, py_find_pbest_id a p = map Z.of_nat (find_pbest_id a p).
Proof. exact code_find_pbest_id. Qed.
Print Assumptions C11_code_find_pbest_id.

(* headline statements about the generated definitions themselves *)
Theorem C11_src_tournament_selection : forall fitness rank (tour q : nat) ds ws ds',
  valid_draws ds -> (0 < tour <= length fitness)%nat ->
  py_tournament_selection fitness rank (Z.of_nat tour) (Z.of_nat q) ds = Some (ws, ds') ->
  length ws = q /\
  Forall (fun w => 0 <= w < Z.of_nat (length fitness) /\ (tour <= count_le fitness w)%nat) ws.
Proof. exact src_tournament_selection. Qed.
Print Assumptions C11_src_tournament_selection.

Theorem C11_src_random_sample : forall n (q : nat) replace ds r ds',
  valid_draws ds -> replace = true \/ Z.of_nat q <= n ->
  py_random_sample n (Z.of_nat q) replace ds = Some (r, ds') ->
  length r = q /\ Forall (fun v => 0 <= v < n) r /\ (replace = false -> NoDup r).
Proof. exact src_random_sample. Qed.
Print Assumptions C11_src_random_sample.

Theorem C11_src_weighted_selection : forall w (q : nat) ds r ds', w <> [] ->
  py_random_weighted_sample w (Z.of_nat q) true ds = Some (r, ds') ->
  length r = q /\ Forall (fun v => 0 <= v < Z.of_nat (length w)) r.
Proof. exact src_weighted_selection. Qed.
Print Assumptions C11_src_weighted_selection.

Theorem C11_src_sattolo_permutation : forall arr ds r ds',
  valid_draws ds -> py_sattolo_shuffle arr ds = Some (r, ds') -> Permutation arr r.
Proof. exact src_sattolo_permutation. Qed.
Print Assumptions C11_src_sattolo_permutation.

Theorem C11_src_interval : forall v c ds, c <> [] -> sorted c ->
  exists i, py_binary_search_interval v c ds = Some (Z.of_nat i, ds) /\
    (forall j, (j < i)%nat -> (nth j c 0 < v)%Q) /\ ((v <= nth i c 0)%Q \/ i = (length c - 1)%nat).
Proof. exact src_interval. Qed.
Print Assumptions C11_src_interval.

(* every translated function is free of writes into its parameters (the translator rejects such a store) *)
Theorem C11_no_param_writes : forall f, In f ["check_for_value"; "argsort_k"; "find_pbest_id"; "binary_search_interval";
    "sattolo_shuffle"; "random_weighted_sample"; "random_sample"; "randint";
    "proportional_selection"; "rank_selection"; "tournament_selection"]%string -> In f no_param_writes.
Proof. intros f H. repeat (destruct H as [<-|H]; [vm_compute; tauto|]). destruct H. Qed.
Print Assumptions C11_no_param_writes.

Theorem C11_code_minmax_scale : forall l, py_minmax_scale l = minmax_scale l.
Proof. exact code_minmax_scale. Qed.
Print Assumptions C11_code_minmax_scale.
