(* C09 — a tree means what it prints: evaluation, printing and tree algebra agree.
   Statements only; proofs are in theories/TreeProofs.v, TreeProofs2.v, TreeEvalProofs.v, TreeCR.v.
   All theorems quantify over ALL well-formed trees (nested induction), any symbol type with an
   arity function, any value domain and interpretation. *)
From Coq Require Import String Ascii.
From Coq Require Import List Arith Bool Lia ZArith QArith.
Import ListNotations.
From TF Require Import Tree TreeIdx TreeEval TreeProofs TreeProofs2 TreeEvalProofs TreeCR TreeCRk C09Check.
From TFG Require Import GenSymTable.
Open Scope nat_scope.

(* ------------------------------------------------------------------ index algebra *)

(* find_end_subtree_from_i started at the root of an encoded sub-term stops exactly behind it
   (the fuel find_end uses, the length of the array, suffices) *)
Theorem C09_find_end : forall (sym : Type) (arity : sym -> nat) (t : tree sym) (pre rest : list sym),
  wft arity t = true ->
  find_end (nargs arity (pre ++ flatten t ++ rest)) (length pre) = Some (length pre + size t).
Proof. intros sym arity. exact (find_end_flat arity). Qed.
Print Assumptions C09_find_end.

(* subtree(i) of the encoding of t is the encoding of the sub-term of t rooted at position i *)
Theorem C09_subtree_flatten : forall (sym : Type) (arity : sym -> nat) (t : tree sym) (i : nat),
  wft arity t = true -> i < size t ->
  exists u, sub_at t i = Some u /\ wft arity u = true /\
            subtree arity (flatten t) i = Some (flatten u).
Proof.
  intros sym arity t i W H. destruct (sub_at_some t i H) as [u E]. exists u.
  split; [exact E|]. split; [exact (sub_at_wf arity t W i u E)|]. exact (subtree_flatten arity t i u W E).
Qed.
Print Assumptions C09_subtree_flatten.

(* concat(i, q) is the encoding of t with the sub-term at i replaced, and it is well formed *)
Theorem C09_concat_flatten : forall (sym : Type) (arity : sym -> nat) (t v : tree sym) (i : nat),
  wft arity t = true -> wft arity v = true -> i < size t ->
  concat arity (flatten t) i (flatten v) = Some (flatten (replace_at t i v)) /\
  wft arity (replace_at t i v) = true.
Proof.
  intros sym arity t v i W Wv H. destruct (sub_at_some t i H) as [u E]. split.
  - exact (concat_flatten arity t i u v W E).
  - exact (replace_at_wf arity t W i v Wv).
Qed.
Print Assumptions C09_concat_flatten.

(* concat(i, subtree(i)) is the identity — on any node list for which subtree(i) is defined *)
Theorem C09_concat_subtree_id : forall (sym : Type) (arity : sym -> nat) (p : list sym) (i : nat) (q : list sym),
  subtree arity p i = Some q -> concat arity p i q = Some p.
Proof. intros sym arity. exact (concat_subtree_id arity). Qed.
Print Assumptions C09_concat_subtree_id.

(* ... in particular for every index of a well-formed tree *)
Theorem C09_concat_subtree_id_wf : forall (sym : Type) (arity : sym -> nat) (t : tree sym) (i : nat),
  wft arity t = true -> i < size t ->
  exists q, subtree arity (flatten t) i = Some q /\ concat arity (flatten t) i q = Some (flatten t).
Proof.
  intros sym arity t i W H. destruct (sub_at_some t i H) as [u E]. exists (flatten u).
  pose proof (subtree_flatten arity t i u W E) as S. split; [exact S|].
  exact (concat_subtree_id arity (flatten t) i (flatten u) S).
Qed.
Print Assumptions C09_concat_subtree_id_wf.

(* the implementation's pair (node list, arity array) stays consistent under subtree / concat *)
Theorem C09_pair_consistent : forall (sym : Type) (arity : sym -> nat) (p q : list sym) (i : nat),
  subtree_p (mk arity p) i = option_map (mk arity) (subtree arity p i) /\
  concat_p (mk arity p) i (mk arity q) = option_map (mk arity) (concat arity p i q).
Proof. intros sym arity p q i. split; [apply subtree_p_mk | apply concat_p_mk]. Qed.
Print Assumptions C09_pair_consistent.

(* get_args_id = the prefix positions at which the argument subtrees start *)
Theorem C09_args_id : forall (sym : Type) (arity : sym -> nat) (s : sym) (kids : list (tree sym)) (pre rest : list sym),
  wft arity (Node s kids) = true ->
  find_args (nargs arity (pre ++ flatten (Node s kids) ++ rest)) (length pre)
  = Some (child_starts (S (length pre)) kids).
Proof. intros sym arity. exact (find_args_flat arity). Qed.
Print Assumptions C09_args_id.

(* before the repair get_args_id failed on every terminal (out-of-bounds write on an empty array) *)
Theorem C09_args_id_old_refuted : exists (a : list nat) (i : nat),
  i < length a /\ find_args_old a i = None /\ find_args a i = Some [].
Proof. exists [0], 0. vm_compute. auto. Qed.
Print Assumptions C09_args_id_old_refuted.

(* get_levels(i) = levels of the sub-term at i (its root at level 0), in prefix order *)
Theorem C09_levels : forall (sym : Type) (arity : sym -> nat) (t u : tree sym) (i : nat),
  wft arity t = true -> sub_at t i = Some u ->
  levels (nargs arity (flatten t)) i = levels_rec 0 u.
Proof. intros sym arity. exact (levels_sub_at arity). Qed.
Print Assumptions C09_levels.

(* get_max_level = depth (a single node has depth 0) *)
Theorem C09_max_level : forall (sym : Type) (arity : sym -> nat) (t : tree sym),
  wft arity t = true -> max_level (nargs arity (flatten t)) = depth t.
Proof. intros sym arity. exact (max_level_flat arity). Qed.
Print Assumptions C09_max_level.

(* a node list is well formed iff the parser accepts it; the encoding determines the tree *)
Theorem C09_flatten_inj : forall (sym : Type) (arity : sym -> nat) (t1 t2 : tree sym),
  wft arity t1 = true -> wft arity t2 = true -> flatten t1 = flatten t2 -> t1 = t2.
Proof. intros sym arity. exact (flatten_inj arity). Qed.
Print Assumptions C09_flatten_inj.

(* ------------------------------------------------------------------ common region *)

(* common_region_two_trees returns exactly the recursive common region: the root is common; the
   arguments are paired off and visited iff the two nodes have the same arity, otherwise the node
   is a border *)
Theorem C09_common_region_spec : forall (sym : Type) (arity : sym -> nat) (t1 t2 : tree sym),
  wft arity t1 = true -> wft arity t2 = true ->
  common_region_two (nargs arity (flatten t1)) (nargs arity (flatten t2))
  = Some (cr_rec arity t1 t2 0 0).
Proof. intros sym arity. exact (common_region_two_spec arity). Qed.
Print Assumptions C09_common_region_spec.

(* The k-tree walk  common_region(trees)  (model: TreeIdx.common_region_k, the column scan with
   find_end jumps): for EVERY k >= 1 and every tuple of well-formed trees it returns exactly the
   recursive common region of the k trees — every scanned column (one position per tree) and the
   border columns.  TreeCRk.crk_rec is the recursive definition: the tuple of roots is a common
   column; iff ALL k root arities agree the region continues into the i-th arguments of all trees
   (for every i), otherwise the column is a border.  Any fuel d > depth of the first tree gives
   the same crk_rec. *)
Theorem C09_common_region_k_spec : forall (sym : Type) (arity : sym -> nat) (T0 : tree sym) (Ts' : list (tree sym)) (d : nat),
  Forall (fun t => wft arity t = true) (T0 :: Ts') -> depth T0 < d ->
  common_region_k (map (fun t => nargs arity (flatten t)) (T0 :: Ts'))
  = Some (region_of (crk_rec arity d (T0 :: Ts') (map (fun _ => 0) (T0 :: Ts')))).
Proof. intros sym arity. exact (common_region_k_spec arity). Qed.
Print Assumptions C09_common_region_k_spec.

(* the recursive definition does not depend on the fuel beyond the depth of the first tree *)
Theorem C09_crk_rec_fuel : forall (sym : Type) (arity : sym -> nat) (d d' : nat) (t0 : tree sym) ts' os,
  wft arity t0 = true -> depth t0 < d -> depth t0 < d' ->
  crk_rec arity d (t0 :: ts') os = crk_rec arity d' (t0 :: ts') os.
Proof. intros sym arity. exact (crk_rec_fuel arity). Qed.
Print Assumptions C09_crk_rec_fuel.

(* it computes: f(g(x),y), f(x,h(y,z)), f(g(x),y) — columns (0,0,0) (1,1,1) (3,2,3), borders at
   (1,1,1) [arities 1,0,1] and (3,2,3) [arities 0,2,0] *)
Example C09_common_region_k_nonvacuous :
  let t1 := Node 2 [Node 1 [Node 0 []]; Node 0 []] in
  let t2 := Node 2 [Node 0 []; Node 2 [Node 0 []; Node 0 []]] in
  Forall (fun t => wft (fun n : nat => n) t = true) [t1; t2; t1] /\
  common_region_k (map (fun t => nargs (fun n : nat => n) (flatten t)) [t1; t2; t1])
  = Some ([[0; 0; 0]; [1; 1; 1]; [3; 2; 3]], [[1; 1; 1]; [3; 2; 3]]).
Proof. cbv zeta. split; [repeat constructor|vm_compute; reflexivity]. Qed.
Print Assumptions C09_common_region_k_nonvacuous.

(* SUPERSEDED by C09_common_region_k_spec (kept as a regression sweep): on every pair of
   well-formed arity arrays with at most 5 nodes (arities 0..3) the k-tree walk returns the same
   region as the two-tree walk. *)
Theorem C09_common_region_k_partial_le5 :
  forallb (fun a1 => forallb (fun a2 => crk_agrees_cr2 a1 a2) (shapes_upto 5)) (shapes_upto 5) = true.
Proof. vm_compute. reflexivity. Qed.
Print Assumptions C09_common_region_k_partial_le5.

(* ------------------------------------------------------------------ evaluation and printing *)

(* Tree.__call__ (one reversed pass with a stack) returns the value of the expression: each
   function symbol applied to the values of its argument subtrees IN ORDER *)
Theorem C09_call_is_eval : forall (sym V : Type) (arity : sym -> nat) (interp : sym -> list V -> V)
  (p : list sym) (t : tree sym),
  wft arity t = true -> flatten t = p -> call arity interp p = Some (eval interp t).
Proof. intros sym V arity interp. exact (call_is_eval arity interp). Qed.
Print Assumptions C09_call_is_eval.

(* Tree.__str__ prints exactly that expression *)
Theorem C09_str_is_render : forall (V : Type) (ffmt tname : nat -> string) (p : list (node V)) (t : tree (node V)),
  wft node_arity t = true -> flatten t = p -> show ffmt tname p = Some (render ffmt tname t).
Proof. intros V ffmt tname. exact (show_is_render ffmt tname). Qed.
Print Assumptions C09_str_is_render.

(* batch = per sample, generic: if every interpretation is pointwise (commutes with taking one
   sample h, on values that have that sample) then so is the evaluation of every tree *)
Theorem C09_batch_pointwise : forall (sym V W : Type) (IV : sym -> list V -> V) (IW : sym -> list W -> W)
  (h : V -> W) (good : V -> Prop),
  (forall s args, Forall good args -> good (IV s args) /\ h (IV s args) = IW s (map h args)) ->
  forall t : tree sym, good (eval IV t) /\ h (eval IV t) = eval IW t.
Proof. intros sym V W IV IW h good. exact (batch_pointwise IV IW h good). Qed.
Print Assumptions C09_batch_pointwise.

(* every named operator (cos sin add sub mul div abs logabs exp sqrtabs, and neg) is pointwise on
   scalars/arrays with broadcasting — for ANY transcendental functions tr *)
Theorem C09_named_ops_pointwise : forall (tr : nat -> Q -> Q) (f : nat) (args : list val) (k : nat),
  forallb (inb k) args = true ->
  inb k (sym_op tr false f args) = true /\
  sample k (sym_op tr false f args) = sym_op tr false f (map (sample k) args).
Proof. exact sym_op_pointwise. Qed.
Print Assumptions C09_named_ops_pointwise.

(* hence: evaluating a tree on a batch and taking sample k = evaluating it on sample k alone *)
Theorem C09_batch_is_per_sample : forall (tr : nat -> Q -> Q) (t : tree (node val)) (k : nat),
  forallb (term_inb k) (flatten t) = true ->
  sample k (eval (ninterp (sym_op tr false)) t)
  = eval (ninterp (sym_op tr false)) (tmap (sample_node k) t).
Proof. exact batch_is_per_sample. Qed.
Print Assumptions C09_batch_is_per_sample.

(* record of the repaired defect: with the old scalar branch of save_div (x/0 = 0.0 for a scalar
   zero divisor, 1.0 element-wise for an array) division was not pointwise: witness x/0 *)
Theorem C09_batch_pointwise_old_div_refuted : forall tr : nat -> Q -> Q,
  exists args k, forallb (inb k) args = true /\
    ~ (proj 0 (sample k (sym_op tr true 5 args)) == proj 0 (sym_op tr true 5 (map (sample k) args)))%Q.
Proof. exact old_div_not_pointwise. Qed.
Print Assumptions C09_batch_pointwise_old_div_refuted.

(* ------------------------------------------------------------------ set_terminals, ==, copy *)

(* calling the copy returned by set_terminals = evaluating the tree under the environment *)
Theorem C09_set_terminals : forall (V : Type) (fI : nat -> list V -> V) (t : tree (node V)) (env : list (nat * V)),
  wft node_arity t = true ->
  call node_arity (ninterp fI) (set_terminals env (flatten t)) = Some (eval (ninterp_env fI env) t).
Proof. intros V fI. exact (set_terminals_call fI). Qed.
Print Assumptions C09_set_terminals.

(* exactly the named terminals are re-bound; function nodes and other terminals are untouched *)
Theorem C09_set_terminals_exact : forall (V : Type) (env : list (nat * V)) (p : list (node V)),
  length (set_terminals env p) = length p /\
  (forall i, nth_error (set_terminals env p) i = option_map (rebind env) (nth_error p i)) /\
  (forall f ar, rebind env (FN f ar) = FN f ar) /\
  (forall nm v, lookup nm env = None -> rebind env (TN nm v) = TN nm v) /\
  (forall nm v v', lookup nm env = Some v' -> rebind env (TN nm v) = TN nm v').
Proof. intros V. exact set_terminals_exact. Qed.
Print Assumptions C09_set_terminals_exact.

(* Tree.__eq__ is equality of the symbol-name sequences; with names determining arities, equal
   trees have the same shape; a copy and a re-bound copy are equal to the original *)
Theorem C09_eq_structural : forall (V : Type) (p q : list (node V)),
  (tree_eqb p q = true <-> map node_name p = map node_name q) /\
  ((forall n m, In n p -> In m q -> node_name n = node_name m -> node_arity n = node_arity m) ->
   tree_eqb p q = true -> nargs node_arity p = nargs node_arity q).
Proof. intros V p q. split; [apply tree_eqb_structural | apply tree_eqb_same_shape]. Qed.
Print Assumptions C09_eq_structural.

Theorem C09_copy_eq : forall (V : Type) (p : ptree (node V)) (env : list (nat * V)),
  copy p = p /\ tree_eqb (fst (copy p)) (fst p) = true /\ tree_eqb (set_terminals env (fst p)) (fst p) = true.
Proof.
  intros V p env. destruct (copy_eq p) as [A B]. split; [exact A|]. split; [exact B|].
  apply set_terminals_eq.
Qed.
Print Assumptions C09_copy_eq.

(* the hypotheses are satisfiable and the statements compute: (x0 + cos(x1)) *)
Example C09_nonvacuous :
  let t := Node (FN 2 2) [Node (TN 0 (Sc (1 # 2))) []; Node (FN 6 1) [Node (TN 1 (Ar [(-3) # 1; 2 # 1]%Q)) []]] in
  wft node_arity t = true /\
  find_end (nargs node_arity (flatten t)) 2 = Some 4 /\
  levels (nargs node_arity (flatten t)) 0 = [0; 1; 1; 2] /\
  call node_arity (ninterp (sym_op (fun _ x => x) false)) (flatten t) = Some (Ar [(7 # 2)%Q; (5 # 2)%Q]) /\
  show (fun f => nth f ["";"";"({} + {})";"";"";"";"abs({})"]%string EmptyString)
       (fun n => nth n ["x0";"x1"]%string EmptyString) (flatten t) = Some "(x0 + abs(x1))"%string.
Proof. vm_compute. repeat split; reflexivity. Qed.
Print Assumptions C09_nonvacuous.

(* record of the repaired defect: in the table as it was, the key "logabs" occurred twice; a
   lookup of "logabs" returned the sqrt(abs) operation and "sqrtabs" was not a key at all *)
Theorem C09_symtable_old_refuted :
  symtable_ok sym_table_old = false /\
  option_map sr_op (dict_get "logabs" sym_table_old) = Some "..utils.sqrtabs"%string /\
  dict_get "sqrtabs" sym_table_old = None /\
  option_map sr_op (dict_get "logabs" sym_table) = Some "..utils.logabs"%string /\
  option_map sr_op (dict_get "sqrtabs" sym_table) = Some "..utils.sqrtabs"%string.
Proof. vm_compute. repeat split; reflexivity. Qed.
Print Assumptions C09_symtable_old_refuted.

(* ------------------------------------------------------------------ (T) the name table
   Over the table regenerated from _tree.py on every run: keys pairwise distinct; every key is
   bound to the operation its name promises, prints as that operation, and the number of "{}" in
   its format is the arity of the operation.  (Fails to check when a key is duplicated.) *)
Theorem C09_symtable_named : symtable_ok sym_table = true.
Proof. vm_compute. reflexivity. Qed.
Print Assumptions C09_symtable_named.

(* ------------------------------------------------------------------------------------------------
   THE TIE TO THE SOURCE for the index helpers.  gen/GenCode.v is regenerated on every run from the bodies of
   find_end_subtree_from_i and find_id_args_from_i in utils/__init__.py (harness/translate_code.py; semantics
   of the subset: theories/Py.v).  Whenever the model above yields a result (it yields None exactly for an
   out-of-range read), the generated definition yields the same result. *)
From TF Require Import Py CodeEqC09.
From TFG Require Import GenCode.

Theorem C09_code_find_end_subtree_from_i : forall a (index e : nat) ds,
  find_end a index = Some e ->
  py_find_end_subtree_from_i (Z.of_nat index) (zs a) ds = Some (Z.of_nat e, ds).
Proof. exact code_find_end_subtree_from_i. Qed.
Print Assumptions C09_code_find_end_subtree_from_i.

Theorem C09_code_find_id_args_from_i : forall a (index : nat) r ds,
  find_args a index = Some r ->
  py_find_id_args_from_i (Z.of_nat index) (zs a) ds = Some (zs r, ds).
Proof. exact code_find_id_args_from_i. Qed.
Print Assumptions C09_code_find_id_args_from_i.

Theorem C09_code_get_levels_tree_from_i : forall a (origin : nat),
  py_get_levels_tree_from_i (Z.of_nat origin) (zs a) = zs (levels a origin).
Proof. exact code_get_levels_tree_from_i. Qed.
Print Assumptions C09_code_get_levels_tree_from_i.
