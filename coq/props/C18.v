(* C18 — estimators predict with the model they fitted, scikit-learn style.
   The assistant carries the logic of the library's own glue (labels, arg-max label, probability rows,
   reserved arguments, "prediction = the evaluation used in training"); scikit-learn's validation
   machinery and the equality of the two evaluations in the CODE are tied by the correspondence. *)
From Coq Require Import String.
From TF Require Import Base RandomPrims RandomPrimsProofs Estimator EstimatorProofs.
From TFG Require Import GenMisc.
Open Scope Q_scope.

Theorem C18_label_roundtrip : forall ys y, In y ys ->
  exists i, encode (classes ys) y = Some i /\ (i < length (classes ys))%nat /\ decode (classes ys) i = y.
Proof. exact label_roundtrip. Qed.
Print Assumptions C18_label_roundtrip.

Theorem C18_classes_are_the_labels : forall ys x, In x (classes ys) <-> In x ys.
Proof. exact classes_in. Qed.
Print Assumptions C18_classes_are_the_labels.

(* predict returns the original class label of the arg-max column *)
Theorem C18_predict_label : forall cs proba, proba <> [] -> length proba = length cs ->
  In (predict_label cs proba) cs /\
  predict_label cs proba = nth (argmax proba) cs 0%Z /\
  Forall (fun p => p <= nth (argmax proba) proba 0) proba.
Proof. exact predict_label_spec. Qed.
Print Assumptions C18_predict_label.

(* predict_proba rows are non-negative and sum to 1: sigmoid pair, and softmax over positive exponentials *)
Theorem C18_proba_rows_pair : forall s, 0 <= s -> s <= 1 ->
  Forall (fun p => 0 <= p) (proba_pair s) /\ qsum (proba_pair s) == 1.
Proof. exact proba_pair_row. Qed.
Print Assumptions C18_proba_rows_pair.

Theorem C18_proba_rows_softmax : forall es, es <> [] -> Forall (fun e => 0 < e) es ->
  Forall (fun p => 0 < p) (normalise es) /\ qsum (normalise es) == 1 /\ length (normalise es) = length es.
Proof. exact softmax_row. Qed.
Print Assumptions C18_proba_rows_softmax.

(* the error of the training-set predictions is the training objective of the stored model *)
Theorem C18_train_error : forall (Model Data Out : Type) (evalm : Model -> Data -> Out) (metric : Out -> Out -> Q) y X m,
  metric y (predict_out Model Data Out evalm m X) = training_objective Model Data Out evalm metric y X m.
Proof. intros. apply train_error. Qed.
Print Assumptions C18_train_error.

(* optimizer arguments the estimator defines itself are rejected: exactly the reserved names *)
Theorem C18_reserved_args_rejected : forall reserved keys,
  accepts reserved keys = true <-> forall k, In k keys -> ~ In k reserved.
Proof. exact accepts_spec. Qed.
Print Assumptions C18_reserved_args_rejected.

(* the reserved names, re-extracted from the source on every run: every estimator reserves the arguments
   it sets itself; the primary optimizer dicts also reserve iters / pop_size (class arguments) *)
Definition core : list string :=
  ["fitness_function"; "fitness_function_args"; "genotype_to_phenotype"; "genotype_to_phenotype_args"; "init_population"; "minimization"]%string.
Definition weights_extra : list string := ["left_border"; "right_border"; "num_variables"; "str_len"]%string.
Definition incl_b (a b : list string) : bool := forallb (fun x => existsb (String.eqb x) b) a.
Definition entry_ok (e : string * string * list string * list string) : bool :=
  let '(m, v, auto, incls) := e in
  incl_b core auto &&
  (if String.eqb v "weights_optimizer_args" then incl_b weights_extra auto else true) &&
  (if String.eqb m "thefittest.base._gpnn" && String.eqb v "weights_optimizer_args" then true
   else incl_b ["iters"; "pop_size"]%string incls).
Theorem C18_reserved_args_table :
  forallb entry_ok reserved_args = true /\ List.length reserved_args = 4%nat.
Proof. vm_compute. auto. Qed.
Print Assumptions C18_reserved_args_table.

Example C18_nonvacuous :
  classes [7; 3; 7; 11; 3]%Z = [3; 7; 11]%Z /\ predict_label [3; 7; 11]%Z [1 # 4; 1 # 2; 1 # 4] = 7%Z /\
  accepts ["iters"; "pop_size"]%string ["keep_history"]%string = true /\
  accepts ["iters"; "pop_size"]%string ["keep_history"; "iters"]%string = false.
Proof. vm_compute. auto. Qed.
Print Assumptions C18_nonvacuous.
