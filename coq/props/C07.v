(* C07 — real-coded DE family: every candidate stays inside the search box.
   Statements only; proofs in theories/DEOpsProofs.v; strategy pool regenerated in gen/GenDEPool.v. *)
From Coq Require Import String.
From TF Require Import Base RandomPrims RandomPrimsProofs DEOps DEOpsProofs.
From TFG Require Import GenDEPool.
Open Scope Q_scope.

Theorem C07_clamp_in_box : forall a l r, box_ok l r -> length a = length l -> in_box l r (bounds_control a l r).
Proof. exact clamp_in_box. Qed.
Print Assumptions C07_clamp_in_box.

(* boundary repair changes only coordinates that were outside the box *)
Theorem C07_clamp_minimal : forall a l r i, (i < length a)%nat ->
  vnth l i <= vnth a i -> vnth a i <= vnth r i -> vnth (bounds_control a l r) i = vnth a i.
Proof. exact clamp_minimal. Qed.
Print Assumptions C07_clamp_minimal.

Theorem C07_mean_in_box : forall a parent l r, length a = length l -> in_box l r parent ->
  in_box l r (bounds_control_mean a parent l r).
Proof. exact mean_in_box. Qed.
Print Assumptions C07_mean_in_box.

Theorem C07_mean_minimal : forall a parent l r i, (i < length a)%nat ->
  vnth l i <= vnth a i -> vnth a i <= vnth r i -> vnth (bounds_control_mean a parent l r) i = vnth a i.
Proof. exact mean_minimal. Qed.
Print Assumptions C07_mean_minimal.

(* record of the repaired defect: SHADE's (border + value)/2 *)
Theorem C07_bounds_mean_old_refuted :
  exists a l r, box_ok l r /\ length a = length l /\ ~ in_box l r (bounds_control_mean_old a l r).
Proof. exact bounds_mean_old_refuted. Qed.
Print Assumptions C07_bounds_mean_old_refuted.

(* trial = at least one coordinate from the donor, every other from donor or parent *)
Theorem C07_binomial_structure : forall individ mutant CR ds child ds',
  valid_draws ds -> (0 < length individ)%nat ->
  binomial individ mutant CR ds = Some (child, ds') ->
  length child = length individ /\
  exists j, (j < length individ)%nat /\ vnth child j = vnth mutant j /\
    forall i, (i < length individ)%nat -> vnth child i = vnth mutant i \/ vnth child i = vnth individ i.
Proof. exact binomial_structure. Qed.
Print Assumptions C07_binomial_structure.

(* donors: pairwise distinct in-range population members combined by the strategy's formula *)
Theorem C07_donor_formula : forall code cur best pop F ds d ds',
  valid_draws ds -> de_mutation code cur best pop F ds = Some (d, ds') ->
  exists rs, length rs = n_indices code /\ NoDup rs /\
    Forall (fun v => (0 <= v < Z.of_nat (length pop))%Z) rs /\ d = donor_of code cur best pop F rs.
Proof. exact donor_formula. Qed.
Print Assumptions C07_donor_formula.

Theorem C07_donor_coordinates : forall cur best pop F rs i,
  let p k := row_of pop (idx rs k) in
  (i < length best)%nat -> (i < length cur)%nat ->
  (forall k, (i < length (p k))%nat) ->
  vnth (donor_of 0 cur best pop F rs) i = vnth best i + F * (vnth (p 0%nat) i - vnth (p 1%nat) i) /\
  vnth (donor_of 1 cur best pop F rs) i = vnth (p 2%nat) i + F * (vnth (p 0%nat) i - vnth (p 1%nat) i) /\
  vnth (donor_of 2 cur best pop F rs) i =
    vnth (p 0%nat) i + F * (vnth best i - vnth (p 0%nat) i) + F * (vnth (p 1%nat) i - vnth (p 2%nat) i) /\
  vnth (donor_of 3 cur best pop F rs) i =
    vnth cur i + F * (vnth best i - vnth cur i) + F * (vnth (p 0%nat) i - vnth (p 1%nat) i) /\
  vnth (donor_of 4 cur best pop F rs) i =
    vnth best i + F * (vnth (p 0%nat) i - vnth (p 1%nat) i) + F * (vnth (p 2%nat) i - vnth (p 3%nat) i) /\
  vnth (donor_of 5 cur best pop F rs) i =
    vnth (p 4%nat) i + F * (vnth (p 0%nat) i - vnth (p 1%nat) i) + F * (vnth (p 2%nat) i - vnth (p 3%nat) i).
Proof. exact donor_coordinates. Qed.
Print Assumptions C07_donor_coordinates.

(* every candidate handed to the objective is inside the box, whatever the donor, F, CR, objective *)
Theorem C07_trial_in_box : forall code cur best pop F CR l r ds t ds',
  box_ok l r -> length cur = length l ->
  de_new_individ code cur best pop F CR l r ds = Some (t, ds') -> in_box l r t.
Proof. exact de_trial_in_box. Qed.
Print Assumptions C07_trial_in_box.

Theorem C07_trial_in_box_shade : forall cur pop pbest F CR archive l r ds t ds',
  in_box l r cur ->
  shade_new_individ cur pop pbest F CR archive l r ds = Some (t, ds') -> in_box l r t.
Proof. exact shade_trial_in_box. Qed.
Print Assumptions C07_trial_in_box_shade.

(* every population member of every generation: generations = trials in the box, greedy replacement,
   optional elitism overwrite of the last slot by an in-box best *)
Theorem C07_run_in_box : forall l r pop pop',
  de_run l r pop pop' -> Forall (in_box l r) pop -> Forall (in_box l r) pop'.
Proof. exact run_in_box. Qed.
Print Assumptions C07_run_in_box.

(* wiring: the strategy pool extracted from the current source binds each name to the same-named function *)
Theorem C07_pool_named :
  forallb (fun e => String.eqb (fst e) (snd e)) de_mutation_pool = true /\
  map fst de_mutation_pool =
    ["best_1"; "rand_1"; "current_to_best_1"; "rand_to_best1"; "best_2"; "rand_2"]%string.
Proof. vm_compute. auto. Qed.
Print Assumptions C07_pool_named.

Example C07_nonvacuous :
  bounds_control [-3; 1 # 2; 7] [0; 0; 0] [1; 1; 1] = [0; 1 # 2; 1] /\
  in_box [0; 0; 0] [1; 1; 1] (bounds_control_mean [-3; 1 # 2; 7] [1 # 2; 1 # 2; 1 # 2] [0; 0; 0] [1; 1; 1]).
Proof.
  split; [vm_compute; reflexivity|]. apply mean_in_box; [reflexivity|].
  split; [reflexivity|]. intros i Hi. simpl in Hi.
  destruct i as [|[|[|i]]]; try lia; cbn; split; unfold Qle; cbn; lia.
Qed.
Print Assumptions C07_nonvacuous.

(* ------------------------------------------------------------------------------------------------
   THE TIE TO THE SOURCE.  gen/GenCode.v is regenerated on every run from the bodies of bounds_control
   (optimizers/_differentialevolution.py), bounds_control_mean (optimizers/_shade.py), binomial
   (utils/crossovers.py) and the DE strategies (utils/mutations.py) by harness/translate_code.py (semantics of
   the subset: theories/Py.v).  The models above are EQUAL to the generated definitions. *)
From TF Require Import Py CodeEqC11 CodeEqC07.
From TFG Require Import GenCode.

Theorem C07_code_bounds_control : forall a l r, py_bounds_control a l r = bounds_control a l r.
Proof. exact code_bounds_control. Qed.
Print Assumptions C07_code_bounds_control.

Theorem C07_code_bounds_control_mean : forall a parent l r,
  py_bounds_control_mean a parent l r = bounds_control_mean a parent l r.
Proof. exact code_bounds_control_mean. Qed.
Print Assumptions C07_code_bounds_control_mean.

Theorem C07_code_binomial : forall individ mutant CR ds, py_binomial individ mutant CR ds = binomial individ mutant CR ds.
Proof. exact code_binomial. Qed.
Print Assumptions C07_code_binomial.

Theorem C07_code_best_1 : forall cur best pop F ds,
  valid_draws ds -> (2 <= length pop)%nat -> uniform_rows (length best) pop -> length cur = length best ->
  py_best_1 cur best pop F ds = de_mutation 0 cur best pop F ds.
Proof. exact code_best_1. Qed.
Print Assumptions C07_code_best_1.

Theorem C07_code_rand_1 : forall cur best pop F ds,
  valid_draws ds -> (3 <= length pop)%nat -> uniform_rows (length best) pop -> length cur = length best ->
  py_rand_1 cur best pop F ds = de_mutation 1 cur best pop F ds.
Proof. exact code_rand_1. Qed.
Print Assumptions C07_code_rand_1.

Theorem C07_code_rand_to_best1 : forall cur best pop F ds,
  valid_draws ds -> (3 <= length pop)%nat -> uniform_rows (length best) pop -> length cur = length best ->
  py_rand_to_best1 cur best pop F ds = de_mutation 2 cur best pop F ds.
Proof. exact code_rand_to_best1. Qed.
Print Assumptions C07_code_rand_to_best1.

Theorem C07_code_current_to_best_1 : forall cur best pop F ds,
  valid_draws ds -> (2 <= length pop)%nat -> uniform_rows (length best) pop -> length cur = length best ->
  py_current_to_best_1 cur best pop F ds = de_mutation 3 cur best pop F ds.
Proof. exact code_current_to_best_1. Qed.
Print Assumptions C07_code_current_to_best_1.

Theorem C07_code_best_2 : forall cur best pop F ds,
  valid_draws ds -> (4 <= length pop)%nat -> uniform_rows (length best) pop -> length cur = length best ->
  py_best_2 cur best pop F ds = de_mutation 4 cur best pop F ds.
Proof. exact code_best_2. Qed.
Print Assumptions C07_code_best_2.

Theorem C07_code_rand_2 : forall cur best pop F ds,
  valid_draws ds -> (5 <= length pop)%nat -> uniform_rows (length best) pop -> length cur = length best ->
  py_rand_2 cur best pop F ds = de_mutation 5 cur best pop F ds.
Proof. exact code_rand_2. Qed.
Print Assumptions C07_code_rand_2.

Theorem C07_src_clamp_in_box : forall a l r, box_ok l r -> length a = length l -> in_box l r (py_bounds_control a l r).
Proof. exact src_clamp_in_box. Qed.
Print Assumptions C07_src_clamp_in_box.

Theorem C07_src_mean_in_box : forall a parent l r, length a = length l -> in_box l r parent ->
  in_box l r (py_bounds_control_mean a parent l r).
Proof. exact src_mean_in_box. Qed.
Print Assumptions C07_src_mean_in_box.

Theorem C07_src_binomial : forall individ mutant CR ds child ds',
  valid_draws ds -> (0 < length individ)%nat ->
  py_binomial individ mutant CR ds = Some (child, ds') ->
  length child = length individ /\
  exists j, (j < length individ)%nat /\ vnth child j = vnth mutant j /\
    forall i, (i < length individ)%nat -> vnth child i = vnth mutant i \/ vnth child i = vnth individ i.
Proof. exact src_binomial. Qed.
Print Assumptions C07_src_binomial.

Theorem C07_src_best_1_donor : forall cur best pop F ds d ds',
  valid_draws ds -> (2 <= length pop)%nat -> uniform_rows (length best) pop -> length cur = length best ->
  py_best_1 cur best pop F ds = Some (d, ds') ->
  exists rs, length rs = 2%nat /\ NoDup rs /\
    Forall (fun v => (0 <= v < Z.of_nat (length pop))%Z) rs /\ d = donor_of 0 cur best pop F rs.
Proof. exact src_best_1_donor. Qed.
Print Assumptions C07_src_best_1_donor.

Theorem C07_code_current_to_pbest : forall cur pop pbest F archive ds,
  valid_draws ds -> (0 < length pop)%nat ->
  uniform_rows (length cur) pop -> uniform_rows (length cur) archive ->
  Forall (fun v => (0 <= v < Z.of_nat (length pop))%Z) pbest ->
  py_current_to_pbest_1_archive_p_min cur pop pbest F archive ds = current_to_pbest cur pop pbest F archive ds.
Proof. exact code_current_to_pbest. Qed.
Print Assumptions C07_code_current_to_pbest.

Theorem C07_src_current_to_pbest_shape : forall cur pop pbest F archive ds d ds',
  valid_draws ds -> (0 < length pop)%nat ->
  uniform_rows (length cur) pop -> uniform_rows (length cur) archive ->
  Forall (fun v => (0 <= v < Z.of_nat (length pop))%Z) pbest ->
  py_current_to_pbest_1_archive_p_min cur pop pbest F archive ds = Some (d, ds') -> length d = length cur.
Proof. exact src_current_to_pbest_shape. Qed.
Print Assumptions C07_src_current_to_pbest_shape.

(* ------------------------------------------------------------------------------------------------
   THE TRIAL VECTOR OF ONE INDIVIDUAL, as the optimizers' own methods compose it.  SHADE._get_new_individ_g and
   DifferentialEvolution._get_new_individ_g (inherited by jDE) are translated on every run (methods: reads of self become
   parameters; the strategy function looked up in the pool becomes a function parameter) and proved to be: strategy, then
   binomial crossover with the parent, then the repair — with exactly these arguments. *)
From TF Require Import CodeEqNewIndivid.

Theorem C07_code_SHADE_get_new_individ_g : forall pop pbest archive l r cur F CR ds,
  valid_draws ds -> (0 < length pop)%nat ->
  uniform_rows (length cur) pop -> uniform_rows (length cur) archive ->
  Forall (fun v => (0 <= v < Z.of_nat (length pop))%Z) pbest ->
  py_SHADE_get_new_individ_g pop pbest archive l r cur F CR ds = shade_new_individ cur pop pbest F CR archive l r ds.
Proof. exact code_SHADE_get_new_individ_g. Qed.
Print Assumptions C07_code_SHADE_get_new_individ_g.

Theorem C07_code_DE_get_new_individ_g : forall (mf : list Q -> list Q -> list (list Q) -> Q -> M (list Q)) (code : nat) best pop l r cur F CR ds,
  mf cur best pop F ds = de_mutation code cur best pop F ds ->
  py_DE_get_new_individ_g mf best pop l r cur F CR ds = de_new_individ code cur best pop F CR l r ds.
Proof. exact code_DE_get_new_individ_g_strategy. Qed.
Print Assumptions C07_code_DE_get_new_individ_g.

Theorem C07_code_DE_new_individ_best_1 : forall best pop l r cur F CR ds,
  valid_draws ds -> (2 <= length pop)%nat -> uniform_rows (length best) pop -> length cur = length best ->
  py_DE_get_new_individ_g py_best_1 best pop l r cur F CR ds = de_new_individ 0 cur best pop F CR l r ds.
Proof. exact code_DE_new_individ_best_1. Qed.
Print Assumptions C07_code_DE_new_individ_best_1.

(* ... hence, about the optimizers' own methods: the trial vector DifferentialEvolution / jDE hand to the objective is inside the box for
   ANY strategy function, F and CR; SHADE's is inside the box whenever the parent is *)
Theorem C07_src_DE_trial_in_box : forall (mf : list Q -> list Q -> list (list Q) -> Q -> M (list Q)) best pop l r cur F CR ds t ds',
  box_ok l r -> length cur = length l ->
  py_DE_get_new_individ_g mf best pop l r cur F CR ds = Some (t, ds') -> in_box l r t.
Proof. exact src_DE_trial_in_box. Qed.
Print Assumptions C07_src_DE_trial_in_box.

Theorem C07_src_SHADE_trial_in_box : forall pop pbest archive l r cur F CR ds t ds',
  valid_draws ds -> (0 < length pop)%nat ->
  uniform_rows (length cur) pop -> uniform_rows (length cur) archive ->
  Forall (fun v => (0 <= v < Z.of_nat (length pop))%Z) pbest ->
  in_box l r cur ->
  py_SHADE_get_new_individ_g pop pbest archive l r cur F CR ds = Some (t, ds') -> in_box l r t.
Proof. exact src_SHADE_trial_in_box. Qed.
Print Assumptions C07_src_SHADE_trial_in_box.
