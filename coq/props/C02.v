(* C02 — best-so-far never regresses; elitism and greedy replacement retain it. *)
From TF Require Import Base EALoop EALoopProofs EALoopProofs2.
Open Scope Q_scope.

Theorem C02_best_monotone :
  forall (G P : Type) (g2p : G -> P) (nf : P -> Q) (k : kind) (elitism keep_history : bool)
         (var : state G P -> list G) (n : nat),
  (0 < n)%nat -> (forall st, length (var st) = n) ->
  forall (st : state G P) (gs : list G) (b : indiv G P),
  Inv G P g2p nf elitism keep_history n st -> length gs = n -> best st = Some b ->
  exists b', best (step G P g2p nf k elitism keep_history false st gs) = Some b' /\ ifit b <= ifit b'.
Proof. exact best_monotone. Qed.
Print Assumptions C02_best_monotone.

(* with elitism the population at the end of each generation contains the best-so-far (last slot) *)
Theorem C02_elite_present :
  forall (G P : Type) (g2p : G -> P) (nf : P -> Q) (k : kind) (elitism keep_history : bool)
         (var : state G P -> list G) (n : nat),
  (0 < n)%nat -> (forall st, length (var st) = n) ->
  forall (st : state G P) (gs : list G) (first : bool), elitism = true -> length gs = n ->
  (first = true /\ st = init_state G P \/ first = false /\ Inv G P g2p nf elitism keep_history n st) ->
  exists b, best (step G P g2p nf k elitism keep_history first st gs) = Some b /\
    last (pop (step G P g2p nf k elitism keep_history first st gs)) b = b /\
    In b (pop (step G P g2p nf k elitism keep_history first st gs)).
Proof. exact elite_present. Qed.
Print Assumptions C02_elite_present.

(* greedy family: every slot's fitness is non-decreasing across a generation (elitism included) *)
Theorem C02_slot_monotone :
  forall (G P : Type) (g2p : G -> P) (nf : P -> Q) (k : kind) (elitism keep_history : bool)
         (var : state G P -> list G) (n : nat),
  (0 < n)%nat -> (forall st, length (var st) = n) ->
  forall (st : state G P) (gs : list G) (i : nat) (d : indiv G P),
  k = Greedy -> Inv G P g2p nf elitism keep_history n st -> length gs = n -> (i < n)%nat ->
  ifit (nth i (pop st) d) <= ifit (nth i (pop (step G P g2p nf k elitism keep_history false st gs)) d).
Proof. exact slot_monotone. Qed.
Print Assumptions C02_slot_monotone.

(* a slot is overwritten only by a trial that is at least as good *)
Theorem C02_slot_replaced_only_by_better :
  forall (G P : Type) (ts ps : list (indiv G P)) (i : nat) (d : indiv G P), (i < length ps)%nat ->
  let r := greedy G P ts ps in
  nth i r d = nth i ps d \/ (nth i r d = nth i ts d /\ ifit (nth i ps d) <= ifit (nth i ts d)).
Proof. exact slot_replaced_only_by_better. Qed.
Print Assumptions C02_slot_replaced_only_by_better.

(* the fitness stored for a slot is the value the objective returned for the individual stored there *)
Theorem C02_slot_consistent :
  forall (G P : Type) (g2p : G -> P) (nf : P -> Q) (elitism keep_history : bool) (n : nat) (st : state G P),
  Inv G P g2p nf elitism keep_history n st ->
  forall p, In p (pop st) -> iph p = g2p (ig p) /\ ifit p = nf (iph p).
Proof. exact slot_consistent. Qed.
Print Assumptions C02_slot_consistent.

Example C02_nonvacuous :
  let var := fun st : state Z Z => [2; 9]%Z in
  let st := fit Z Z (fun g => g) (fun p => inject_Z p) Greedy true false None None var 2 [3; 4]%Z in
  map ifit (pop st) = [3 # 1; 9 # 1] /\ option_map ifit (best st) = Some (9 # 1).
Proof. vm_compute. auto. Qed.
Print Assumptions C02_nonvacuous.
