(* C02 — best-so-far never regresses; elitism and greedy replacement retain it. *)
From TF Require Import Base EALoop EALoopProofs EALoopProofs2.
Open Scope Q_scope.

Theorem C02_best_monotone :
  forall (G P : Type) (g2p : G -> P) (nf : P -> Q) (k : kind) (elitism keep_history : bool)
         (var : state G P -> list G) (n : nat),
  (0 < n)%nat -> (forall st, length (var st) = n) ->
  forall (st : state G P) (gs : list G) (b : indiv G P),
  Inv G P g2p nf elitism keep_history n st -> length gs = n -> best st = Some b ->
  exists b', best (step G P g2p nf k elitism keep_history false st gs) = Some b' /\ ifit b <= ifit b'.
Proof. exact best_monotone. Qed.
Print Assumptions C02_best_monotone.

(* with elitism the population at the end of each generation contains the best-so-far (last slot) *)
Theorem C02_elite_present :
  forall (G P : Type) (g2p : G -> P) (nf : P -> Q) (k : kind) (elitism keep_history : bool)
         (var : state G P -> list G) (n : nat),
  (0 < n)%nat -> (forall st, length (var st) = n) ->
  forall (st : state G P) (gs : list G) (first : bool), elitism = true -> length gs = n ->
  (first = true /\ st = init_state G P \/ first = false /\ Inv G P g2p nf elitism keep_history n st) ->
  exists b, best (step G P g2p nf k elitism keep_history first st gs) = Some b /\
    last (pop (step G P g2p nf k elitism keep_history first st gs)) b = b /\
    In b (pop (step G P g2p nf k elitism keep_history first st gs)).
Proof. exact elite_present. Qed.
Print Assumptions C02_elite_present.

(* greedy family: every slot's fitness is non-decreasing across a generation (elitism included) *)
Theorem C02_slot_monotone :
  forall (G P : Type) (g2p : G -> P) (nf : P -> Q) (k : kind) (elitism keep_history : bool)
         (var : state G P -> list G) (n : nat),
  (0 < n)%nat -> (forall st, length (var st) = n) ->
  forall (st : state G P) (gs : list G) (i : nat) (d : indiv G P),
  k = Greedy -> Inv G P g2p nf elitism keep_history n st -> length gs = n -> (i < n)%nat ->
  ifit (nth i (pop st) d) <= ifit (nth i (pop (step G P g2p nf k elitism keep_history false st gs)) d).
Proof. exact slot_monotone. Qed.
Print Assumptions C02_slot_monotone.

(* a slot is overwritten only by a trial that is at least as good *)
Theorem C02_slot_replaced_only_by_better :
  forall (G P : Type) (ts ps : list (indiv G P)) (i : nat) (d : indiv G P), (i < length ps)%nat ->
  let r := greedy G P ts ps in
  nth i r d = nth i ps d \/ (nth i r d = nth i ts d /\ ifit (nth i ps d) <= ifit (nth i ts d)).
Proof. exact slot_replaced_only_by_better. Qed.
Print Assumptions C02_slot_replaced_only_by_better.

(* the fitness stored for a slot is the value the objective returned for the individual stored there *)
Theorem C02_slot_consistent :
  forall (G P : Type) (g2p : G -> P) (nf : P -> Q) (elitism keep_history : bool) (n : nat) (st : state G P),
  Inv G P g2p nf elitism keep_history n st ->
  forall p, In p (pop st) -> iph p = g2p (ig p) /\ ifit p = nf (iph p).
Proof. exact slot_consistent. Qed.
Print Assumptions C02_slot_consistent.

Example C02_nonvacuous :
  let var := fun st : state Z Z => [2; 9]%Z in
  let st := fit Z Z (fun g => g) (fun p => inject_Z p) Greedy true false None None var 2 [3; 4]%Z in
  map ifit (pop st) = [3 # 1; 9 # 1] /\ option_map ifit (best st) = Some (9 # 1).
Proof. vm_compute. auto. Qed.
Print Assumptions C02_nonvacuous.

(* ------------------------------------------------------------------------------------------------
   THE TIE TO THE SOURCE for the greedy family.  gen/GenLoop.v holds the translations of DifferentialEvolution's overrides
   _get_init_population / _get_new_population (trial evaluation and the `>=` replacement mask) / _from_population_g_to_fitness
   (harness/translate_loop.py; the trial vectors are an oracle: the variation operators are C07's subject).
   theories/CodeEqGreedy.v proves that `EALoop.step Greedy` / `EALoop.fit Greedy` simulate the generated run on every field
   the code keeps; the slot-wise statements of C02 then read on the generated code. *)
From TF Require Import Py CodeEqLoop CodeEqStep CodeEqGreedy.
From TFG Require Import GenLoop.

Theorem C02_code_step_greedy : forall (G P : Type) (dG : G) (dP : P) (g2p : G -> P) (f : P -> Q) par_value
    (trials : EvolutionaryAlgorithm G P -> list G) (self : EvolutionaryAlgorithm G P) (st : state G P),
  sim G P dG dP self st -> pop st <> [] -> (ea_n_jobs G P self <= 1)%Z ->
  sim G P dG dP (de_from G P dG dP (de_new G P g2p f par_value trials self))
      (step G P g2p (nf_of G P f self) Greedy (ea_elitism G P self) (ea_keep_history G P self) false st (trials self)).
Proof. exact code_step_greedy. Qed.
Print Assumptions C02_code_step_greedy.

Theorem C02_code_fit_greedy : forall (G P : Type) (dG : G) (dP : P) (g2p : G -> P) (f : P -> Q) par_value
    (trials : EvolutionaryAlgorithm G P -> list G) (var : state G P -> list G) (self0 : EvolutionaryAlgorithm G P) (gs0 : list G),
  sim G P dG dP self0 (init_state G P) -> gs0 <> [] ->
  (ea_n_jobs G P self0 <= 1)%Z -> ea_aim G P self0 <> NegInf -> fst (ea_on_generation G P self0) = true ->
  (forall n, ea_no_increase_num G P self0 = Some n -> (0 <= n)%Z) ->
  (forall s st, sim G P dG dP s st -> trials s = var st) ->
  sim G P dG dP
      (py_EvolutionaryAlgorithm_fit G P (de_init G P g2p f par_value gs0) (de_new G P g2p f par_value trials) (de_from G P dG dP) self0)
      (fit G P g2p (nf_of G P f self0) Greedy (ea_elitism G P self0) (ea_keep_history G P self0)
           (abs_aim (ea_aim G P self0)) (abs_nin (ea_no_increase_num G P self0)) var (Z.to_nat (ea_iters G P self0)) gs0).
Proof. exact code_fit_greedy. Qed.
Print Assumptions C02_code_fit_greedy.

(* after the generated _get_new_population every slot holds its own trial iff trial >= parent, else its parent *)
Theorem C02_src_greedy_slots : forall (G P : Type) (dG : G) (dP : P) (g2p : G -> P) (f : P -> Q) par_value
    (trials : EvolutionaryAlgorithm G P -> list G) (self : EvolutionaryAlgorithm G P) (st : state G P),
  sim G P dG dP self st -> (ea_n_jobs G P self <= 1)%Z ->
  let batch := map (eval G P g2p (nf_of G P f self)) (trials self) in
  let self' := de_new G P g2p f par_value trials self in
  ea_fitness_i G P self' = map ifit (greedy G P batch (pop st)) /\
  ea_population_g_i G P self' = map ig (greedy G P batch (pop st)) /\
  ea_calls G P self' = (ea_calls G P self + Z.of_nat (length batch))%Z.
Proof. exact src_greedy_slots. Qed.
Print Assumptions C02_src_greedy_slots.

(* ------------------------------------------------------------------------------------------------
   THE ADAPTIVE MEMBERS OF THE GREEDY FAMILY.  SHADE, jDE and SHAGA override _get_new_population; their overrides are translated on
   every run as functions on (base record, own state) with the random parts as oracles (gen/GenLoop.v).  On the base record each of
   them IS DifferentialEvolution's greedy step with its own trial vectors (theories/CodeEqAdaptStep.v), hence: after the step every
   slot holds its own trial iff trial >= parent, else its parent, and exactly the trials were counted as fitness calls. *)
From TF Require Import CodeEqAdaptStep.

Theorem C02_code_shade_greedy : forall (G P : Type) (dG : G) (dP : P) (g2p : G -> P) (f : P -> Q) par_value
    sh_trials sh_generate sh_append (self : SHADE G P) (st : state G P),
  sim G P dG dP (sh_ea G P self) st -> (ea_n_jobs G P (sh_ea G P self) <= 1)%Z ->
  let batch := map (eval G P g2p (nf_of G P f (sh_ea G P self))) (sh_trials (sh_pre G P sh_generate self)) in
  sh_ea G P (sh_new G P g2p f par_value sh_trials sh_generate sh_append self)
  = with_pop G P (sh_ea G P self) (greedy G P batch (pop st)) (Z.of_nat (length batch)).
Proof. exact code_shade_greedy. Qed.
Print Assumptions C02_code_shade_greedy.

Theorem C02_code_jde_greedy : forall (G P : Type) (dG : G) (dP : P) (g2p : G -> P) (f : P -> Q) par_value
    jd_trials jd_mutate_F jd_mutate_CR (self : jDE G P) (st : state G P),
  sim G P dG dP (jd_ea G P self) st -> (ea_n_jobs G P (jd_ea G P self) <= 1)%Z ->
  let batch := map (eval G P g2p (nf_of G P f (jd_ea G P self))) (jd_trials self (jd_mutate_F self) (jd_mutate_CR self)) in
  jd_ea G P (jd_new G P g2p f par_value jd_trials jd_mutate_F jd_mutate_CR self)
  = with_pop G P (jd_ea G P self) (greedy G P batch (pop st)) (Z.of_nat (length batch)).
Proof. exact code_jde_greedy. Qed.
Print Assumptions C02_code_jde_greedy.

Theorem C02_code_shaga_greedy : forall (G P : Type) (dG : G) (dP : P) (g2p : G -> P) (f : P -> Q) par_value
    sg_trials sg_generate (self : SHAGA G P) (st : state G P),
  sim G P dG dP (sg_ea G P self) st -> (ea_n_jobs G P (sg_ea G P self) <= 1)%Z ->
  let batch := map (eval G P g2p (nf_of G P f (sg_ea G P self))) (sg_trials (sg_pre G P sg_generate self)) in
  sg_ea G P (sg_new G P g2p f par_value sg_trials sg_generate self)
  = with_pop G P (sg_ea G P self) (greedy G P batch (pop st)) (Z.of_nat (length batch)).
Proof. exact code_shaga_greedy. Qed.
Print Assumptions C02_code_shaga_greedy.
