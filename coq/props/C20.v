(* C20 — benchmark problems are pure functions (history independence, argument untouched, noise
   only where documented).  Statements only; proofs are in theories/BenchProofs{,2}.v.
   The theorems are about the table REGENERATED from /repo's working tree on every run
   (coq/gen/GenBenchFootprint.v, written by harness/translate_bench.py): a change of the source
   that makes a call write a shared table inconsistently changes `table` and breaks
   C20_footprint_conditions. *)
From TF Require Import Base Bench BenchProofs BenchPre BenchProofs2 BenchReal.
From TFG Require Import GenBenchFootprint.
From Coq Require Import String.
Open Scope string_scope.
Open Scope Z_scope.

(* the decidable per-entry conditions hold for every problem x supported dimension {2,10,30,50}
   (finite sweep; bound = the generated table and supported_dims, both in the statement) *)
Theorem C20_footprint_conditions : table_ok table supported_dims = true.
Proof. vm_compute. reflexivity. Qed.
Print Assumptions C20_footprint_conditions.

(* History independence.  For every behaviour of opaque writes, every initial contents of the data
   tables, every sequence h of earlier events (constructions and calls of any problems, any number
   of instances, any supported dimensions) in which an instance of problem p has been constructed:
   every table cell that a call of p at dimension D reads holds, at that call, exactly what it
   holds when p is constructed and called on a fresh store. *)
Theorem C20_history_independent : forall (orc : oracle) (s0 : store) (h : list event) (p : nat) (D : Z) (c : cell),
  Forall (valid_event table supported_dims) h -> (p < List.length table)%nat -> In D supported_dims ->
  In (Ctor p) h -> in_reads table p D c = true ->
  run orc table (h ++ [Call p D]) s0 c = run orc table [Ctor p; Call p D] s0 c.
Proof. exact (fun orc s0 h p D c => table_history_independent table supported_dims orc s0 h p D c C20_footprint_conditions). Qed.
Print Assumptions C20_history_independent.

(* ... hence the value of the call, being a function of (p, D, x) and of the read footprint only *)
Theorem C20_value_history_independent : forall (X R : Type) (value : nat -> Z -> X -> store -> R),
  (forall p D x s s', (forall c, in_reads table p D c = true -> s c = s' c) -> value p D x s = value p D x s') ->
  forall (orc : oracle) (s0 : store) (h : list event) (p : nat) (D : Z) (x : X),
  Forall (valid_event table supported_dims) h -> (p < List.length table)%nat -> In D supported_dims ->
  In (Ctor p) h ->
  value p D x (run orc table (h ++ [Call p D]) s0) = value p D x (run orc table [Ctor p; Call p D] s0).
Proof.
  intros X R value Hv orc s0 h p D x H1 H2 H3 H4.
  exact (call_value_history_independent table supported_dims X R value Hv orc s0 h p D x
           C20_footprint_conditions H1 H2 H3 H4).
Qed.
Print Assumptions C20_value_history_independent.

(* no problem class writes its argument *)
Theorem C20_argument_untouched : forall (orc : oracle) (p : nat) (D : Z) (x : store) (c : cell),
  (p < List.length table)%nat ->
  e_arg (nth p table dummy_entry) = [] /\ arg_after orc table p D x c = x c.
Proof.
  assert (H : args_untouched table = true) by (vm_compute; reflexivity).
  intros orc p D x c Hp. split.
  - unfold args_untouched in H. rewrite forallb_forall in H.
    specialize (H (nth p table dummy_entry) (nth_In _ _ Hp)).
    destruct (e_arg (nth p table dummy_entry)); [reflexivity|discriminate].
  - apply table_argument_untouched; assumption.
Qed.
Print Assumptions C20_argument_untouched.

(* np.random is reached only by the problems documented as noisy: F4, F17, F24, F25 (classes
   named by problems_dict) and the basic SphereWithNoise *)
Definition documented_noisy : list string :=
  ["ShiftedSchwefe1_2WithNoise"; "RotatedVersionHybridCompositionFunction1Noise";
   "HybridCompositionFunction4"; "HybridCompositionFunction4withoutbounds"; "SphereWithNoise"].

Theorem C20_noise_documented : forall e, In e table ->
  (e_noisy e = true <-> In (e_name e) documented_noisy).
Proof. intros e He. apply (table_noise_documented table); [vm_compute; reflexivity|assumption]. Qed.
Print Assumptions C20_noise_documented.

Theorem C20_noisy_are_F4_F17_F24_F25 :
  map (fun k => match find (fun t => String.eqb (fst (fst t)) k) cec_problems with
                | Some t => snd (fst t) | None => "" end) ["F4"; "F17"; "F24"; "F25"]
  = firstn 4 documented_noisy.
Proof. vm_compute. reflexivity. Qed.
Print Assumptions C20_noisy_are_F4_F17_F24_F25.

(* all 25 CEC2005 problems are in the table and declare the dimensions 2, 10, 30, 50 *)
Theorem C20_cec_covered :
  List.length cec_problems = 25%nat /\
  forallb (fun t => existsb (fun e => String.eqb (e_name e) (snd (fst t))) table
                    && forallb (fun D => existsb (Z.eqb D) (snd t)) supported_dims) cec_problems = true.
Proof. split; vm_compute; reflexivity. Qed.
Print Assumptions C20_cec_covered.

(* hypotheses of C20_history_independent are satisfiable, and the theorem is about a table with
   real writes: F8's call writes the shared ackley table, F18-F20's constructors write row 9 *)
Example C20_history_nonvacuous :
  let p8 := index_of table "ShiftedRotatedAckley" in
  let p18 := index_of table "RotatedHybridCompositionFunction" in
  let h := [Ctor p18; Ctor p8; Call p8 50; Call p18 30; Ctor p8] in
  Forall (valid_event table supported_dims) h /\ (p8 < List.length table)%nat /\ In 10 supported_dims /\
  In (Ctor p8) h /\
  in_reads table p8 10 (tab_of table_names "ackley_func_data", [4]) = true /\
  e_call (nth p8 table dummy_entry) <> [] /\ e_ctor (nth p18 table dummy_entry) <> [] /\
  run orc_id table (h ++ [Call p8 10]) s_zero (tab_of table_names "ackley_func_data", [4]) = (-32 # 1)%Q.
Proof.
  cbv zeta. split; [valid_hist|]. split; [vm_compute; lia|]. split; [simpl; tauto|].
  split; [right; left; reflexivity|]. split; [vm_compute; reflexivity|].
  split; [vm_compute; discriminate|]. split; [vm_compute; discriminate|]. vm_compute. reflexivity.
Qed.
Print Assumptions C20_history_nonvacuous.

(* ------------------------------------------------------------------ record of the defects *)
(* The same statements are FALSE for the table generated from the code before the repair
   (BenchPre.pre_table): three history witnesses (F5; F18 after F20; F20 on itself) and the three
   classes that rounded their argument in place. *)
Theorem C20_history_refuted :
  table_ok pre_table supported_dims = false /\
  (exists orc s0 h p D c,
     Forall (valid_event pre_table supported_dims) h /\ (p < List.length pre_table)%nat /\ In D supported_dims /\
     In (Ctor p) h /\ in_reads pre_table p D c = true /\ e_name (nth p pre_table dummy_entry) = "Schwefel2_6" /\
     run orc pre_table (h ++ [Call p D]) s0 c <> run orc pre_table [Ctor p; Call p D] s0 c) /\
  (exists orc s0 h p D c,
     Forall (valid_event pre_table supported_dims) h /\ (p < List.length pre_table)%nat /\ In D supported_dims /\
     In (Ctor p) h /\ in_reads pre_table p D c = true /\ e_name (nth p pre_table dummy_entry) = "RotatedHybridCompositionFunction" /\
     run orc pre_table (h ++ [Call p D]) s0 c <> run orc pre_table [Ctor p; Call p D] s0 c) /\
  (exists orc s0 h p D c,
     Forall (valid_event pre_table supported_dims) h /\ (p < List.length pre_table)%nat /\ In D supported_dims /\
     In (Ctor p) h /\ in_reads pre_table p D c = true /\
     e_name (nth p pre_table dummy_entry) = "RotatedHybridCompositionFunctionOptimalBounds" /\
     run orc pre_table (h ++ [Call p D]) s0 c <> run orc pre_table [Ctor p; Call p D] s0 c).
Proof. exact history_refuted_pre. Qed.
Print Assumptions C20_history_refuted.

Theorem C20_argument_refuted :
  argument_written pre_table "NonContinuosRastrigin" /\
  argument_written pre_table "NonContinuosExpandedScaffers_F6" /\
  argument_written pre_table "NonContinuousHybridCompositionFunction3".
Proof. exact pre_argument_written. Qed.
Print Assumptions C20_argument_refuted.

(* ------------------------------------------------------------------ (b) values, IDEALISED *)
(* Exact rational arithmetic and a hand transcription of the formulas (BenchReal.v): NOT tied to
   the code by a translator; the implementation is compared with these facts only by the sampled
   optimum / lower-bound checks of the correspondence.  Covers the polynomial bases (Sphere,
   Schwefel 1.2, elliptic with arbitrary positive weights) and the shift wrapper. *)
Theorem C20_ideal_shift_wrapper : forall (f : list Q -> Q),
  (forall z, 0 <= f z)%Q -> (forall z, all_zero z -> f z == 0)%Q ->
  forall o bias x, (bias <= shifted f o bias x)%Q /\ (shifted f o bias o == bias)%Q.
Proof. intros f H1 H2 o bias x. split; [exact (shifted_lower_bound f H1 o bias x)|exact (shifted_optimum f H2 o bias)]. Qed.
Print Assumptions C20_ideal_shift_wrapper.

Theorem C20_ideal_F1_shifted_sphere : forall o bias x,
  (bias <= shifted sphere o bias x)%Q /\ (shifted sphere o bias o == bias)%Q.
Proof. exact F1_ideal. Qed.
Print Assumptions C20_ideal_F1_shifted_sphere.

Theorem C20_ideal_F1_optimum_unique : forall o bias x, List.length x = List.length o ->
  (shifted sphere o bias x == bias)%Q -> Forall2 (fun a b => a == b)%Q x o.
Proof. exact F1_ideal_unique. Qed.
Print Assumptions C20_ideal_F1_optimum_unique.

Theorem C20_ideal_F2_shifted_schwefel_1_2 : forall o bias x,
  (bias <= shifted schwefel_1_2 o bias x)%Q /\ (shifted schwefel_1_2 o bias o == bias)%Q.
Proof. exact F2_ideal. Qed.
Print Assumptions C20_ideal_F2_shifted_schwefel_1_2.

Theorem C20_ideal_elliptic : forall w x, Forall (fun a => 0 < a)%Q w -> List.length w = List.length x ->
  (0 <= wsq w x)%Q /\ ((wsq w x == 0)%Q <-> all_zero x).
Proof. exact elliptic_ideal. Qed.
Print Assumptions C20_ideal_elliptic.
