(* C05 — minimising f is exactly maximising -f. *)
From Coq Require Import String.
From TF Require Import Base EALoop EALoopProofs EALoopProofs2.
From TFG Require Import GenMisc.
Open Scope Q_scope.

(* the whole final state — every population, the record, counters, evaluated individuals, history,
   the stop generation — is identical; optimal_value v / -v stop both runs at the same generation *)
Theorem C05_dual :
  forall G P (g2p : G -> P) (f : P -> Q) k elitism keep_history v err nin
         (var : state G P -> list G) iters gs0,
  fit G P g2p (norm_fit true f) k elitism keep_history (aim_of true (Some v) err) nin var iters gs0 =
  fit G P g2p (norm_fit false (fun x => - f x)) k elitism keep_history (aim_of false (Some (- v)) err) nin var iters gs0.
Proof. exact dual. Qed.
Print Assumptions C05_dual.

Theorem C05_dual_no_target :
  forall G P (g2p : G -> P) (f : P -> Q) k elitism keep_history nin (var : state G P -> list G) iters gs0,
  fit G P g2p (norm_fit true f) k elitism keep_history None nin var iters gs0 =
  fit G P g2p (norm_fit false (fun x => - f x)) k elitism keep_history None nin var iters gs0.
Proof. exact dual_no_target. Qed.
Print Assumptions C05_dual_no_target.

(* the only two places where the flag enters: the normalised fitness and the aim *)
Theorem C05_norm_fit_dual : forall P (f : P -> Q) p, norm_fit true f p = norm_fit false (fun x => - f x) p.
Proof. intros P f p. exact (norm_fit_dual f p). Qed.
Print Assumptions C05_norm_fit_dual.

Theorem C05_aim_dual : forall v err, aim_of true (Some v) err = aim_of false (Some (- v)) err.
Proof. exact aim_dual. Qed.
Print Assumptions C05_aim_dual.

(* the attribute `_sign` is read only where the model says the flag enters: the aim, the normalised
   fitness, the progress printer (the three readers in base/_tree.py are the unrelated string field
   Node._sign).  The reader list is re-extracted from the source on every run. *)
Definition allowed_sign_readers : list (string * string) := [
  ("thefittest.base._ea", "EvolutionaryAlgorithm._get_aim");
  ("thefittest.base._ea", "EvolutionaryAlgorithm._get_fitness");
  ("thefittest.base._ea", "EvolutionaryAlgorithm._show_progress");
  ("thefittest.base._tree", "FunctionalNode.__init__");
  ("thefittest.base._tree", "Node.__str__");
  ("thefittest.base._tree", "Tree.get_graph") ]%string.
Theorem C05_single_point_of_sign :
  forallb (fun r => existsb (fun a => String.eqb (fst a) (fst r) && String.eqb (snd a) (snd r)) allowed_sign_readers)
          sign_readers = true.
Proof. vm_compute. reflexivity. Qed.
Print Assumptions C05_single_point_of_sign.

Example C05_nonvacuous :
  let var := fun st : state Z Z => [Z.of_nat (gens st); 7]%Z in
  let run := fun mn f => fit Z Z (fun g => g) (norm_fit mn f) Greedy true true None (Some 2%nat) var 6 [4; 5]%Z in
  gens (run true (fun p => inject_Z p)) = gens (run false (fun p => - inject_Z p)) /\
  gens (run true (fun p => inject_Z p)) = 4%nat.
Proof. vm_compute. auto. Qed.
Print Assumptions C05_nonvacuous.
