(* C08 — GP variation is closed: offspring are well-formed trees within max_level.
   Statements only; models in theories/GPOps.v (operators) and Tree.v / TreeIdx.v (prefix trees and
   the compiled index helpers, shared with C09); proofs in theories/GPOpsProofs{,2,3,4,5}.v.

   Conventions.  A tree as the implementation holds it is a pair  t = (node list, arity array)
   ([ptree]).   wfp arity t  :  the recorded arity of every node is the arity of its symbol and the
   node list is the prefix encoding of exactly one complete tree (C08_wfp_meaning).
   depthp t = Tree.get_max_level() computed by the two-stack walk on the arity array.
   Every operator theorem has the form
        op inputs ds = Some (child, ds')  ->  ...
   for ALL draw lists ds: an out-of-range index makes the model fail (None), so no assumption on the
   draws is needed — except where a permutation is produced from draws (swap: valid_draws). *)
From Coq Require Import List Arith Bool Lia ZArith QArith Permutation.
Import ListNotations.
From TF Require Import Base RandomPrims Tree TreeIdx TreeProofs TreeProofs2 TreeCR GPOps
  GPOpsProofs GPOpsProofs2 GPOpsProofs3 GPOpsProofs4 GPOpsProofs5 TreeCRk GPOpsProofs6.
Open Scope nat_scope.

(* ------------------------------------------------------------------ what "well formed" means *)
Theorem C08_wfp_meaning : forall (sym : Type) (arity : sym -> nat) (t : ptree sym),
  wfp arity t <-> exists T : tree sym, wft arity T = true /\ t = mk arity (flatten T).
Proof. intros sym arity t. exact (wfp_good arity t). Qed.
Print Assumptions C08_wfp_meaning.

Theorem C08_depthp_is_depth : forall (sym : Type) (arity : sym -> nat) (T : tree sym),
  wft arity T = true -> depthp (mk arity (flatten T)) = depth T.
Proof. intros sym arity T W. exact (good_depth arity _ T (conj W eq_refl)). Qed.
Print Assumptions C08_depthp_is_depth.

(* ------------------------------------------------------------------ 1. the splice *)
(* Tree.concat on well-formed trees yields a well-formed tree; its depth is bounded by the depth of
   the host and  level of the cut + depth of the graft  (level read off get_levels(0)) *)
Theorem C08_concat_wf : forall (sym : Type) (arity : sym -> nat) (p q : list sym) (i : nat),
  wf arity p -> wf arity q -> i < length p ->
  exists r, concat arity p i q = Some r /\ wf arity r /\
    max_level (nargs arity r)
    <= Nat.max (max_level (nargs arity p)) (nth i (levels (nargs arity p) 0) 0 + max_level (nargs arity q)).
Proof. intros sym arity. exact (concat_wf_depth arity). Qed.
Print Assumptions C08_concat_wf.

(* ------------------------------------------------------------------ 2. crossovers *)
Theorem C08_empty_clone : forall (sym : Type) (ps : list (ptree sym)) ds c ds',
  empty_crossoverGP ps ds = Some (c, ds') -> nth_error ps 0 = Some c /\ ds' = ds.
Proof. intros sym. exact (@empty_crossover_spec sym). Qed.
Print Assumptions C08_empty_clone.

Theorem C08_standard_crossover_wf : forall (sym : Type) (arity : sym -> nat) (p1 p2 : ptree sym) rest ml ds c ds',
  wfp arity p1 -> wfp arity p2 ->
  standard_crossover (p1 :: p2 :: rest) ml ds = Some (c, ds') ->
  wfp arity c /\ syms_from [p1; p2] c.
Proof. intros sym arity. exact (standard_wf arity). Qed.
Print Assumptions C08_standard_crossover_wf.

Theorem C08_standard_crossover_depth : forall (sym : Type) (arity : sym -> nat) (p1 p2 : ptree sym) rest ml ds c ds',
  wfp arity p1 -> wfp arity p2 ->
  standard_crossover (p1 :: p2 :: rest) ml ds = Some (c, ds') ->
  depthp p1 <= ml -> depthp p2 <= ml -> depthp c <= ml.
Proof. intros sym arity. exact (standard_depth arity). Qed.
Print Assumptions C08_standard_crossover_depth.

(* standard = ONE sub-term of one parent replaces ONE sub-term of the other (result within
   max_level), or the child is a copy of a parent (the depth guard) *)
Theorem C08_standard_crossover_named : forall (sym : Type) (arity : sym -> nat) p1 (T1 : tree sym) p2 T2 rest ml ds c ds',
  good arity p1 T1 -> good arity p2 T2 ->
  standard_crossover (p1 :: p2 :: rest) ml ds = Some (c, ds') ->
  exists C, good arity c C /\
    ((is_transplant T1 T2 C /\ depth C <= ml) \/ (is_transplant T2 T1 C /\ depth C <= ml) \/ C = T1 \/ C = T2).
Proof. intros sym arity. exact (standard_crossover_spec arity). Qed.
Print Assumptions C08_standard_crossover_named.

Theorem C08_one_point_crossoverGP_wf : forall (sym : Type) (arity : sym -> nat) (p1 p2 : ptree sym) rest ds c ds',
  wfp arity p1 -> wfp arity p2 ->
  one_point_crossoverGP (p1 :: p2 :: rest) ds = Some (c, ds') ->
  wfp arity c /\ syms_from [p1; p2] c.
Proof. intros sym arity. exact (one_point_wf arity). Qed.
Print Assumptions C08_one_point_crossoverGP_wf.

(* no depth guard in the code: the bound holds because common positions are at the same level *)
Theorem C08_one_point_crossoverGP_depth : forall (sym : Type) (arity : sym -> nat) (p1 p2 : ptree sym) rest ds c ds' ml,
  wfp arity p1 -> wfp arity p2 ->
  one_point_crossoverGP (p1 :: p2 :: rest) ds = Some (c, ds') ->
  depthp p1 <= ml -> depthp p2 <= ml -> depthp c <= ml.
Proof. intros sym arity. exact (one_point_depth arity). Qed.
Print Assumptions C08_one_point_crossoverGP_depth.

(* one-point = the sub-terms at ONE position of the (recursive) common region are exchanged *)
Theorem C08_one_point_crossoverGP_named : forall (sym : Type) (arity : sym -> nat) p1 (T1 : tree sym) p2 T2 rest ds c ds',
  good arity p1 T1 -> good arity p2 T2 ->
  one_point_crossoverGP (p1 :: p2 :: rest) ds = Some (c, ds') ->
  exists C, good arity c C /\ is_common_exchange arity T1 T2 C.
Proof. intros sym arity. exact (one_point_spec arity). Qed.
Print Assumptions C08_one_point_crossoverGP_named.

(* the relation "C is a uniform mix of the trees ts" (GPOps.mix: at a border of the common region
   a whole sub-term of one parent; inside it the root symbol of one parent over argument-wise
   mixes) is closed: well formed, no deeper than the deepest parent, symbols from the parents *)
Theorem C08_mix_closed : forall (sym : Type) (arity : sym -> nat) (ts : list (tree sym)) c,
  mix arity ts c -> Forall (fun t => wft arity t = true) ts ->
  wft arity c = true /\
  (forall d, (forall t, In t ts -> depth t <= d) -> depth c <= d) /\
  (forall x, In x (flatten c) -> exists t, In t ts /\ In x (flatten t)).
Proof.
  intros sym arity ts c M W. split; [exact (mix_wf arity ts c M W)|].
  split; [exact (mix_depth arity ts c M W)|exact (mix_syms arity ts c M W)].
Qed.
Print Assumptions C08_mix_closed.

(* for two trees the index-pair walk of common_region_two_trees returns the recursive common
   region GPOps.crk_tag (columns and borders) *)
Theorem C08_common_region_two_is_rec : forall (sym : Type) (arity : sym -> nat) (T1 T2 : tree sym),
  wft arity T1 = true -> wft arity T2 = true ->
  region arity (parents_of arity [T1; T2]) = Some (region_rec arity [T1; T2] (S (depth T1))).
Proof. intros sym arity. exact (region_two arity). Qed.
Print Assumptions C08_common_region_two_is_rec.

(* uniform family with two parents, however the donor vector is drawn *)
Theorem C08_uniform_two_wf : forall (sym : Type) (arity : sym -> nat) (p1 p2 : ptree sym) draw_pool ds c ds',
  wfp arity p1 -> wfp arity p2 ->
  uniform_with arity [p1; p2] draw_pool ds = Some (c, ds') ->
  wfp arity c /\ syms_from [p1; p2] c.
Proof. intros sym arity. exact (uniform_two_wf arity). Qed.
Print Assumptions C08_uniform_two_wf.

Theorem C08_uniform_two_depth : forall (sym : Type) (arity : sym -> nat) (p1 p2 : ptree sym) draw_pool ds c ds' ml,
  wfp arity p1 -> wfp arity p2 ->
  uniform_with arity [p1; p2] draw_pool ds = Some (c, ds') ->
  depthp p1 <= ml -> depthp p2 <= ml -> depthp c <= ml.
Proof. intros sym arity. exact (uniform_two_depth arity). Qed.
Print Assumptions C08_uniform_two_depth.

Theorem C08_uniform_two_named : forall (sym : Type) (arity : sym -> nat) p1 (T1 : tree sym) p2 T2 draw_pool ds c ds',
  good arity p1 T1 -> good arity p2 T2 ->
  uniform_with arity [p1; p2] draw_pool ds = Some (c, ds') ->
  exists C, good arity c C /\ mix arity [T1; T2] C.
Proof. intros sym arity. exact (uniform_two_spec arity). Qed.
Print Assumptions C08_uniform_two_named.

(* ... which covers the four named operators *)
Theorem C08_uniform_family_two : forall (sym : Type) (arity : sym -> nat) (p1 p2 : ptree sym) fitness rank ds c ds' ml,
  wfp arity p1 -> wfp arity p2 ->
  (uniform_crossoverGP arity [p1; p2] fitness rank ds = Some (c, ds') \/
   uniform_proportional_crossover_GP arity [p1; p2] fitness rank ds = Some (c, ds') \/
   uniform_rank_crossover_GP arity [p1; p2] fitness rank ds = Some (c, ds') \/
   uniform_tournament_crossover_GP arity [p1; p2] fitness rank ds = Some (c, ds')) ->
  wfp arity c /\ syms_from [p1; p2] c /\ (depthp p1 <= ml -> depthp p2 <= ml -> depthp c <= ml) /\
  exists T1 T2 C, good arity p1 T1 /\ good arity p2 T2 /\ good arity c C /\ mix arity [T1; T2] C.
Proof. intros sym arity. exact (uniform_family_two arity). Qed.
Print Assumptions C08_uniform_family_two.

(* Any number k of parents.  The full statement is now PROVED: see C08_uniform_k_closed below (the
   hypothesis of the _partial theorem is discharged by TreeCRk.common_region_k_spec, the unbounded
   theorem about the k-tree walk).  The _partial theorem is kept as a record.
   FULL STATEMENT (was not proved for k <> 2 when the _partial theorem was written):
     forall T0 Ts' draw_pool ds c ds' ml, Forall wft (T0 :: Ts') ->
       uniform_with arity (parents_of arity (T0 :: Ts')) draw_pool ds = Some (c, ds') ->
       wfp c /\ syms_from parents c /\ (all parents <= ml -> depthp c <= ml)
   PROVED PART: the same under the hypothesis that get_common_region returned the recursive common
   region.  For k = 2 the hypothesis is C08_common_region_two_is_rec; for k <> 2 (the k-tree walk
   TreeIdx.common_region_k) it is evaluated on every k-parent case of the correspondence
   (C08Check.chk_region) and is the missing induction named in notes/C09.md. *)
Theorem C08_uniform_k_closed_partial : forall (sym : Type) (arity : sym -> nat) (T0 : tree sym) Ts' fuel draw_pool ds c ds' ml,
  Forall (fun t => wft arity t = true) (T0 :: Ts') -> depth T0 < fuel ->
  region arity (parents_of arity (T0 :: Ts')) = Some (region_rec arity (T0 :: Ts') fuel) ->
  uniform_with arity (parents_of arity (T0 :: Ts')) draw_pool ds = Some (c, ds') ->
  (wfp arity c /\ syms_from (parents_of arity (T0 :: Ts')) c /\
   (all_le ml (parents_of arity (T0 :: Ts')) -> depthp c <= ml)) /\
  exists C, good arity c C /\ mix arity (T0 :: Ts') C.
Proof.
  intros sym arity T0 Ts' fuel dp ds c ds' ml W Hf Hr H. split.
  - exact (uniform_with_closed arity T0 Ts' fuel dp ds c ds' ml W Hf Hr H).
  - exact (uniform_with_spec arity T0 Ts' fuel dp ds c ds' W Hf Hr H).
Qed.
Print Assumptions C08_uniform_k_closed_partial.

(* get_common_region (two-tree walk for 2 parents, k-tree walk otherwise) returns the recursive
   common region of the parents, for ANY number of well-formed parents *)
Theorem C08_region_is_rec : forall (sym : Type) (arity : sym -> nat) (T0 : tree sym) Ts',
  Forall (fun t => wft arity t = true) (T0 :: Ts') ->
  region arity (parents_of arity (T0 :: Ts')) = Some (region_rec arity (T0 :: Ts') (S (depth T0))).
Proof. intros sym arity. exact (region_is_rec arity). Qed.
Print Assumptions C08_region_is_rec.

(* the uniform family with any number k >= 1 of parents, UNCONDITIONALLY: the child is well
   formed, built from the parents' symbols, no deeper than the deepest parent, and it is a mix of
   the parents over their recursive common region *)
Theorem C08_uniform_k_closed : forall (sym : Type) (arity : sym -> nat) (T0 : tree sym) Ts' draw_pool ds c ds' ml,
  Forall (fun t => wft arity t = true) (T0 :: Ts') ->
  uniform_with arity (parents_of arity (T0 :: Ts')) draw_pool ds = Some (c, ds') ->
  (wfp arity c /\ syms_from (parents_of arity (T0 :: Ts')) c /\
   (all_le ml (parents_of arity (T0 :: Ts')) -> depthp c <= ml)) /\
  exists C, good arity c C /\ mix arity (T0 :: Ts') C.
Proof. intros sym arity. exact (uniform_k_closed arity). Qed.
Print Assumptions C08_uniform_k_closed.

(* ------------------------------------------------------------------ 2. mutations *)
Theorem C08_point_mutation_wf : forall (sym : Type) (arity : sym -> nat) (t : ptree sym) U proba ds c ds',
  wfp arity t -> uniset_ok arity U ->
  point_mutation arity t U proba ds = Some (c, ds') ->
  wfp arity c /\ forall x, In x (fst c) -> In x (fst t) \/ in_uniset U x.
Proof. intros sym arity. exact (point_wf arity). Qed.
Print Assumptions C08_point_mutation_wf.

Theorem C08_point_mutation_depth : forall (sym : Type) (arity : sym -> nat) (t : ptree sym) U proba ds c ds' ml,
  wfp arity t -> uniset_ok arity U ->
  point_mutation arity t U proba ds = Some (c, ds') -> depthp t <= ml -> depthp c <= ml.
Proof. intros sym arity. exact (point_depth arity). Qed.
Print Assumptions C08_point_mutation_depth.

(* point = at most ONE symbol replaced, by a symbol of the universal set with the same arity *)
Theorem C08_point_mutation_named : forall (sym : Type) (arity : sym -> nat) t (T : tree sym) U proba ds c ds',
  good arity t T -> uniset_ok arity U ->
  point_mutation arity t U proba ds = Some (c, ds') ->
  exists C, good arity c C /\ (C = T \/ is_relabel arity U T C).
Proof. intros sym arity. exact (point_mutation_spec arity). Qed.
Print Assumptions C08_point_mutation_named.

Theorem C08_growing_mutation_wf : forall (sym : Type) (arity : sym -> nat) (t : ptree sym) U proba ds c ds',
  wfp arity t -> uniset_ok arity U ->
  growing_mutation arity t U proba ds = Some (c, ds') ->
  wfp arity c /\ forall x, In x (fst c) -> In x (fst t) \/ in_uniset U x.
Proof. intros sym arity. exact (grow_wf arity). Qed.
Print Assumptions C08_growing_mutation_wf.

Theorem C08_growing_mutation_depth : forall (sym : Type) (arity : sym -> nat) (t : ptree sym) U proba ds c ds' ml,
  wfp arity t -> uniset_ok arity U ->
  growing_mutation arity t U proba ds = Some (c, ds') -> depthp t <= ml -> depthp c <= ml.
Proof. intros sym arity. exact (grow_depth arity). Qed.
Print Assumptions C08_growing_mutation_depth.

(* grow = the sub-term at one position replaced by a generated tree over the universal set that is
   no deeper than the sub-term it replaces *)
Theorem C08_growing_mutation_named : forall (sym : Type) (arity : sym -> nat) t (T : tree sym) U proba ds c ds',
  good arity t T -> uniset_ok arity U ->
  growing_mutation arity t U proba ds = Some (c, ds') ->
  exists C, good arity c C /\ (C = T \/ is_regrow arity U T C).
Proof. intros sym arity. exact (growing_mutation_spec arity). Qed.
Print Assumptions C08_growing_mutation_named.

Theorem C08_shrink_mutation_wf : forall (sym : Type) (arity : sym -> nat) (t : ptree sym) (U : uniset) proba ds c ds',
  wfp arity t ->
  shrink_mutation t U proba ds = Some (c, ds') -> wfp arity c /\ forall x, In x (fst c) -> In x (fst t).
Proof. intros sym arity. exact (shrink_wf arity). Qed.
Print Assumptions C08_shrink_mutation_wf.

Theorem C08_shrink_mutation_depth : forall (sym : Type) (arity : sym -> nat) (t : ptree sym) (U : uniset) proba ds c ds' ml,
  wfp arity t ->
  shrink_mutation t U proba ds = Some (c, ds') -> depthp t <= ml -> depthp c <= ml.
Proof. intros sym arity. exact (shrink_depth arity). Qed.
Print Assumptions C08_shrink_mutation_depth.

(* shrink = a function node replaced by one of its own arguments; trees of size <= 2 are returned
   unchanged and no draw is consumed *)
Theorem C08_shrink_mutation_named : forall (sym : Type) (arity : sym -> nat) t (T : tree sym) (U : uniset) proba ds c ds',
  good arity t T ->
  shrink_mutation t U proba ds = Some (c, ds') ->
  (size T <= 2 -> c = t /\ ds' = ds) /\
  exists C, good arity c C /\ (C = T \/ is_shrink T C).
Proof. intros sym arity. exact (shrink_mutation_spec arity). Qed.
Print Assumptions C08_shrink_mutation_named.

Theorem C08_swap_mutation_wf : forall (sym : Type) (arity : sym -> nat) (t : ptree sym) (U : uniset) proba ds c ds',
  wfp arity t -> valid_draws ds ->
  swap_mutation t U proba ds = Some (c, ds') -> wfp arity c /\ forall x, In x (fst c) -> In x (fst t).
Proof. intros sym arity. exact (swap_wf arity). Qed.
Print Assumptions C08_swap_mutation_wf.

Theorem C08_swap_mutation_depth : forall (sym : Type) (arity : sym -> nat) (t : ptree sym) (U : uniset) proba ds c ds' ml,
  wfp arity t -> valid_draws ds ->
  swap_mutation t U proba ds = Some (c, ds') -> depthp t <= ml -> depthp c <= ml.
Proof. intros sym arity. exact (swap_depth arity). Qed.
Print Assumptions C08_swap_mutation_depth.

(* swap (repaired code) = the arguments of ONE node of arity > 1 are permuted, nothing else changes
   — for EVERY arity *)
Theorem C08_swap_mutation_named : forall (sym : Type) (arity : sym -> nat) t (T : tree sym) (U : uniset) proba ds c ds',
  good arity t T -> valid_draws ds ->
  swap_mutation t U proba ds = Some (c, ds') ->
  exists C, good arity c C /\ (C = T \/ is_arg_perm arity T C).
Proof. intros sym arity. exact (swap_mutation_spec arity). Qed.
Print Assumptions C08_swap_mutation_named.

(* the code before the repair (splices in argument order): arity-3 witness  f(g(x2), x3, x4),
   draws coin 1/4, node 0, Sattolo 3/4, 1/2  ->  f(x3, x3, x4): not an argument permutation *)
Theorem C08_swap_old_refuted :
  exists (T : tree sy2) ds c ds',
    wft snd T = true /\ valid_draws ds /\
    swap_mutation_old (mk snd (flatten T)) U0 (1 # 2) ds = Some (c, ds') /\
    ~ (exists C, good snd c C /\ (C = T \/ is_arg_perm snd T C)).
Proof. exact swap_old_refuted. Qed.
Print Assumptions C08_swap_old_refuted.

(* ... and on  f(x1, g(x3), x4)  the stale position is out of range (IndexError as plain python, an
   unchecked read in the compiled helper); the repaired code returns a tree on the same draws *)
Theorem C08_swap_old_out_of_range :
  exists (T : tree sy2) ds,
    wft snd T = true /\ valid_draws ds /\ swap_mutation_old (mk snd (flatten T)) U0 (1 # 2) ds = None /\
    exists c, swap_mutation (mk snd (flatten T)) U0 (1 # 2) ds = Some (c, []).
Proof. exact swap_old_out_of_range. Qed.
Print Assumptions C08_swap_old_out_of_range.

(* ------------------------------------------------------------------ 3. initialisers *)
(* for ANY universal set whose function symbols take arguments and whose terminals (ephemeral
   constants included) do not: full / grow / random_tree / half_and_half return well-formed trees
   over the universal set of depth <= max_level; full: every leaf exactly at max_level *)
Theorem C08_init_wf_depth : forall (sym : Type) (arity : sym -> nat) (U : uniset (sym := sym)) (ml : nat),
  uniset_ok arity U ->
  (forall ds t ds', full_growing_method arity U ml ds = Some (t, ds') ->
     exists T, good arity t T /\ depth T <= ml /\ fullt ml T = true /\ in_U U T) /\
  (forall ds t ds', growing_method arity U ml ds = Some (t, ds') ->
     exists T, good arity t T /\ depth T <= ml /\ in_U U T) /\
  (forall ds t ds', random_tree arity U ml ds = Some (t, ds') ->
     exists T, good arity t T /\ depth T <= ml /\ in_U U T) /\
  (forall pop ds l ds', valid_draws ds -> 2 <= ml -> half_and_half arity pop U ml ds = Some (l, ds') ->
     length l = pop /\ Forall (fun t => exists T, good arity t T /\ depth T <= ml /\ in_U U T) l).
Proof. intros sym arity. exact (init_wf_depth arity). Qed.
Print Assumptions C08_init_wf_depth.

Theorem C08_full_leaves_at_max_level : forall (sym : Type) (T : tree sym) d,
  fullt d T = true -> forall i s, sub_at T i = Some (Node s []) -> level_at T i = d.
Proof. intros sym. exact (@fullt_leaves sym). Qed.
Print Assumptions C08_full_leaves_at_max_level.

(* ------------------------------------------------------------------ non-vacuity *)
(* f(g(x), y) and h(z, w) over arities {0,1,2}: the hypotheses are satisfiable and the operators
   return (standard crossover: subtree g(x) of the first parent spliced at z of the second) *)
Example C08_nonvacuous :
  let p1 : ptree sy2 := mk snd [(64, 2); (32, 1); (0, 0); (1, 0)] in
  let p2 : ptree sy2 := mk snd [(65, 2); (2, 0); (3, 0)] in
  wfp snd p1 /\ wfp snd p2 /\
  standard_crossover [p1; p2] 16 [DU (3 # 8); DU (1 # 2); DU (1 # 4)]
  = Some (mk snd [(65, 2); (32, 1); (0, 0); (3, 0)], []) /\
  (exists c, uniform_crossoverGP snd [p1; p2] [] [] [DI 2 1; DI 2 0; DI 2 1] = Some (c, [])) /\
  uniset_ok snd {| u_funcs := [(64, 2)]; u_terms := [inl (0, 0)] |} /\
  (exists t, full_growing_method snd {| u_funcs := [(64, 2)]; u_terms := [inl (0, 0)] |} 1 [DI 1 0; DI 1 0; DI 1 0] = Some (t, [])).
Proof.
  cbv zeta. split.
  { apply wfp_good. exists (Node (64, 2) [Node (32, 1) [Node (0, 0) []]; Node (1, 0) []]). split; reflexivity. }
  split.
  { apply wfp_good. exists (Node (65, 2) [Node (2, 0) []; Node (3, 0) []]). split; reflexivity. }
  split; [vm_compute; reflexivity|]. split; [eexists; vm_compute; reflexivity|]. split.
  - split.
    + intros s [<-|[]]. simpl. lia.
    + intros s [[E|[]]|(g & ds & ds' & [E|[]] & _)]; [inversion E; reflexivity|discriminate].
  - eexists. vm_compute. reflexivity.
Qed.
Print Assumptions C08_nonvacuous.
