(* C08 — placeholder while the development is being built *)
From TF Require Import Base GPOps.
Example C08_placeholder : True. Proof. exact I. Qed.
Print Assumptions C08_placeholder.
