(* C10 — binary/Gray decoding is the stated grid bijection and inverts correctly.
   Statements only; models in theories/Gray.v, theories/Grid.v, proofs in theories/GridProofs.v.
   Vocabulary (Grid.v): a fitted grid is a list of variables (vl, vr, vw) with step
   vh v = (vr - vl)/(2^vw - 1); good v := vl < vr /\ 1 <= vw; in_range v i := 0 <= i <= 2^vw - 1;
   grid_point v i := vl + vh * i; in_box v x := vl <= x <= vr; kind := Binary | Gray
   (SamplingGrid | GrayCode); encode/decode = the per-variable code of an integer. *)
From TF Require Import Base Gray Grid GridProofs.
Open Scope Q_scope.

(* ---- plain binary codec: both round trips, every width *)
Theorem C10_binary_roundtrip_int : forall w k, (0 <= k < 2 ^ Z.of_nat w)%Z ->
  bits_to_int (int_to_bits w k) = k.
Proof. exact bits_to_int_to_bits. Qed.
Print Assumptions C10_binary_roundtrip_int.

Theorem C10_binary_roundtrip_bits : forall b : list bool,
  int_to_bits (length b) (bits_to_int b) = b.
Proof. exact int_to_bits_to_int. Qed.
Print Assumptions C10_binary_roundtrip_bits.

(* ---- reflected Gray code: both round trips, every width *)
Theorem C10_gray_roundtrip_bits : forall b : list bool, gray_to_bits (bits_to_gray b) = b.
Proof. exact gray_to_bits_to_gray. Qed.
Print Assumptions C10_gray_roundtrip_bits.

Theorem C10_gray_roundtrip_gray : forall g : list bool, bits_to_gray (gray_to_bits g) = g.
Proof. exact bits_to_gray_to_bits. Qed.
Print Assumptions C10_gray_roundtrip_gray.

(* ---- successive Gray codes (of k and k+1) differ in exactly one bit — unbounded width *)
Theorem C10_gray_adjacent : forall w k, (0 <= k)%Z -> (k + 1 < 2 ^ Z.of_nat w)%Z ->
  length (bits_to_gray (int_to_bits w k)) = w /\
  length (bits_to_gray (int_to_bits w (k + 1))) = w /\
  hamming (bits_to_gray (int_to_bits w k)) (bits_to_gray (int_to_bits w (k + 1))) = 1%nat.
Proof. exact gray_adjacent. Qed.
Print Assumptions C10_gray_adjacent.

(* ---- transform: the concatenated codes of integers k_j map to left_j + h_j * k_j ... *)
Theorem C10_transform_point : forall k vs ks, Forall2 in_range vs ks ->
  transform_row k vs (concat (map2 (fun v i => encode k (vw v) i) vs ks)) = map2 grid_point vs ks.
Proof. exact transform_point. Qed.
Print Assumptions C10_transform_point.

(* ... and every bit string of the stated total length is such a concatenation *)
Theorem C10_every_string_is_code : forall k vs (bs : list bool), length bs = total_bits vs ->
  exists ks, Forall2 in_range vs ks /\ bs = concat (map2 (fun v i => encode k (vw v) i) vs ks).
Proof. exact every_string_is_code. Qed.
Print Assumptions C10_every_string_is_code.

Theorem C10_zero_left : forall k vs,
  Forall2 Qeq (transform_row k vs (repeat false (total_bits vs))) (map vl vs).
Proof. exact zero_left. Qed.
Print Assumptions C10_zero_left.

Theorem C10_ones_right : forall vs, Forall (fun v => (1 <= vw v)%nat) vs ->
  Forall2 Qeq (transform_row Binary vs (repeat true (total_bits vs))) (map vr vs).
Proof. exact ones_right. Qed.
Print Assumptions C10_ones_right.

Theorem C10_in_box : forall k vs (bs : list bool),
  Forall (fun v => vl v <= vr v /\ (1 <= vw v)%nat) vs -> length bs = total_bits vs ->
  Forall2 in_box vs (transform_row k vs bs).
Proof. exact transform_in_box. Qed.
Print Assumptions C10_in_box.

Theorem C10_injective : forall k vs (bs1 bs2 : list bool), good vs ->
  length bs1 = total_bits vs -> length bs2 = total_bits vs ->
  Forall2 Qeq (transform_row k vs bs1) (transform_row k vs bs2) -> bs1 = bs2.
Proof. exact transform_injective. Qed.
Print Assumptions C10_injective.

(* ---- inverse_transform (the repaired code: the variable's width is passed down) *)
(* the column-wise code computes, row by row, the concatenation of encode(rint((x-l)/h)) *)
Theorem C10_inverse_rowwise : forall k vs pop, Forall (fun r => length r = length vs) pop ->
  inverse_transform k vs pop = map (inverse_row k vs) pop.
Proof. exact inverse_transform_rows. Qed.
Print Assumptions C10_inverse_rowwise.

Theorem C10_inverse_fixed_length : forall k vs pop, Forall (fun r => length r = length vs) pop ->
  length (inverse_transform k vs pop) = length pop /\
  Forall (fun s => length s = total_bits vs) (inverse_transform k vs pop).
Proof. exact inverse_fixed_length. Qed.
Print Assumptions C10_inverse_fixed_length.

(* for x in the box, transform(inverse x) is a nearest grid point, at distance <= h/2 *)
Theorem C10_inverse_nearest : forall k vs xs, good vs -> Forall2 in_box vs xs ->
  Forall2 (fun v p => Qabs (snd p - fst p) <= vh v / 2 /\
                      forall j : Z, Qabs (snd p - fst p) <= Qabs (grid_point v j - fst p))
          vs (combine xs (transform_row k vs (inverse_row k vs xs))).
Proof. exact inverse_nearest. Qed.
Print Assumptions C10_inverse_nearest.

Theorem C10_roundtrip_grid : forall k vs kss, good vs -> Forall (Forall2 in_range vs) kss ->
  transform k vs (inverse_transform k vs (map (map2 grid_point vs) kss)) = map (map2 grid_point vs) kss.
Proof. exact roundtrip_grid_batch. Qed.
Print Assumptions C10_roundtrip_grid.

(* every batch of strings, whether or not it contains the largest code *)
Theorem C10_roundtrip_bits : forall k vs pop, good vs ->
  Forall (fun b : list bool => length b = total_bits vs) pop ->
  inverse_transform k vs (transform k vs pop) = pop.
Proof. exact roundtrip_bits_batch. Qed.
Print Assumptions C10_roundtrip_bits.

(* ---- bits derived from a requested step h: grid at least that fine, and the least such width *)
Theorem C10_bits_from_step : forall l r h, l < r -> 0 < h ->
  let w := bits_from_h l r h in
  (1 <= w)%nat /\ h_from_bits l r w <= h /\
  (forall w', (1 <= w' < w)%nat -> h < h_from_bits l r w').
Proof. exact bits_from_step. Qed.
Print Assumptions C10_bits_from_step.

(* ---- record of the defect in the ORIGINAL code (width of int_to_bit taken from the batch maximum):
   the faithful model of that code returns strings of the wrong length and breaks the round trip *)
Theorem C10_inverse_width_refuted :
  exists k vs pop, good vs /\ Forall (Forall2 in_box vs) pop /\
    ~ Forall (fun s => length s = total_bits vs) (inverse_transform_old k vs pop).
Proof. exact inverse_width_refuted. Qed.
Print Assumptions C10_inverse_width_refuted.

Theorem C10_roundtrip_bits_old_refuted :
  exists k vs pop, good vs /\ Forall (fun b : list bool => length b = total_bits vs) pop /\
    inverse_transform_old k vs (transform k vs pop) <> pop.
Proof. exact roundtrip_bits_batch_old_refuted. Qed.
Print Assumptions C10_roundtrip_bits_old_refuted.

(* ---- the hypotheses are satisfiable: the MLP trainer's grid (GrayCode, [-10,10], 16 bits) is good,
   has in-range indices and in-box points, and step 20/65535 *)
Example C10_nonvacuous :
  let vs := [mkvar (-10) 10 16; mkvar (-10) 10 16] in
  good vs /\ Forall2 in_range vs [0%Z; 65535%Z] /\ Forall2 in_box vs [-10; 3 # 7] /\
  total_bits vs = 32%nat /\ vh (mkvar (-10) 10 16) == 20 # 65535 /\
  bits_from_h 0 1 (1 # 10) = 4%nat.
Proof.
  assert (G : good_var (mkvar (-10) 10 16)) by (split; [reflexivity | simpl; lia]).
  assert (B : forall x, -10 <= x -> x <= 10 -> in_box (mkvar (-10) 10 16) x) by (intros; split; assumption).
  split; [repeat constructor; exact G|].
  split; [repeat constructor; vm_compute; discriminate|].
  split; [repeat constructor; apply B; vm_compute; discriminate|].
  split; [reflexivity|]. split; reflexivity.
Qed.
Print Assumptions C10_nonvacuous.

(* ------------------------------------------------------------------------------------------------
   THE TIE TO THE SOURCE for the decoders.  SamplingGrid.bit_to_int (both call shapes) / _decode and GrayCode.gray_to_bit / bit_to_gray /
   _decode are whole-array numpy; they are translated on every run (harness/translate_code.py: static methods; 2 ** a, np.dot, np.flip,
   logical_xor(.accumulate), column slices and hstack have their meaning in theories/Py.v) and proved to be, row by row, the models
   the theorems above are about (a row read as booleans: non-zero = true). *)
From TF Require Import Py CodeEqC10.
From TFG Require Import GenCode.
Open Scope Z_scope.

Theorem C10_code_gray_to_bit : forall m, map bz (py_gray_to_bit m) = map (fun r => gray_to_bits (bz r)) m.
Proof. exact code_gray_to_bit. Qed.
Print Assumptions C10_code_gray_to_bit.

Theorem C10_code_bit_to_gray : forall m, Forall (fun r => r <> []) m ->
  map bz (py_bit_to_gray m) = map (fun r => bits_to_gray (bz r)) m.
Proof. exact code_bit_to_gray. Qed.
Print Assumptions C10_code_bit_to_gray.

Theorem C10_code_bit_to_int_default : forall (w : nat) m, m <> [] -> grid_rows w m ->
  py_bit_to_int_default m = map (fun r => bits_to_int (bz r)) m.
Proof. exact code_bit_to_int_default. Qed.
Print Assumptions C10_code_bit_to_int_default.

Theorem C10_code_SamplingGrid_decode : forall (w n : nat) m, m <> [] -> grid_rows w m -> (w <= n)%nat ->
  py_SamplingGrid_decode (pow2s (arange (Z.of_nat n))) m = map (fun r => decode Binary (bz r)) m.
Proof. exact code_SamplingGrid_decode. Qed.
Print Assumptions C10_code_SamplingGrid_decode.

Theorem C10_code_GrayCode_decode : forall (w n : nat) m, m <> [] -> Forall (fun r => length r = w) m -> (w <= n)%nat ->
  py_GrayCode_decode (pow2s (arange (Z.of_nat n))) m = map (fun r => decode Gray (bz r)) m.
Proof. exact code_GrayCode_decode. Qed.
Print Assumptions C10_code_GrayCode_decode.

(* the Gray round trip about the source's own two functions: encoding then decoding a batch of 0/1 rows gives the rows back *)
Theorem C10_src_gray_roundtrip : forall m, Forall (fun r => r <> []) m ->
  map bz (py_gray_to_bit (py_bit_to_gray m)) = map bz m.
Proof. exact src_gray_roundtrip. Qed.
Print Assumptions C10_src_gray_roundtrip.
