(* C16 — parallel evaluation is equivalent to serial evaluation.
   Statements only; models in theories/Split.v, SplitFloat.v; proofs in theories/SplitProofs.v.
   get_n_jobs is the model of the REPAIRED _get_n_jobs (negative requests capped by pop_size);
   get_n_jobs_orig is the code before the repair, kept with its refutation. *)
From Coq Require Import List ZArith Bool.
From TF Require Import Split SplitFloat SplitProofs.
Import ListNotations.
Open Scope Z_scope.

(* every non-zero request is normalised into [1, pop_size] ... *)
Theorem C16_n_jobs_range : forall cpu pop n, 1 <= pop -> n <> 0 ->
  exists j, get_n_jobs cpu pop n = Some j /\ 1 <= j <= pop.
Proof. exact get_n_jobs_range. Qed.
Print Assumptions C16_n_jobs_range.

(* ... n_jobs = 0 is rejected (ValueError) ... *)
Theorem C16_n_jobs_zero_rejected : forall cpu pop, get_n_jobs cpu pop 0 = None.
Proof. exact get_n_jobs_zero. Qed.
Print Assumptions C16_n_jobs_zero_rejected.

(* ... and the value is the request (joblib's convention cpu+1+n for negative n, at least 1)
   capped by the population size *)
Theorem C16_n_jobs_value : forall cpu pop n, n <> 0 ->
  get_n_jobs cpu pop n = Some (Z.min pop (if n <? 0 then Z.max (cpu + 1 + n) 1 else n)).
Proof. exact get_n_jobs_value. Qed.
Print Assumptions C16_n_jobs_value.

(* record of the defect: the code before the repair did not cap negative requests; witness
   cpu_count = 16, pop_size = 8, n_jobs = -1 -> 16 jobs, and the (bit-exact) split then contains
   empty chunks *)
Theorem C16_n_jobs_negative_refuted :
  exists cpu pop n j, 1 <= cpu /\ 1 <= pop /\ n <> 0 /\
    get_n_jobs_orig cpu pop n = Some j /\ pop < j /\
    existsb (fun ch => match ch with [] => true | _ => false end)
            (split_population (linspace_int pop j) (Zseq 0 (Z.to_nat pop))) = true.
Proof. exact get_n_jobs_orig_refuted. Qed.
Print Assumptions C16_n_jobs_negative_refuted.

(* for 1 <= n <= pop and ANY cut vector in the envelope: the cuts are strictly increasing inside
   [0, pop]; _split_population returns exactly n chunks; chunk k is population[c k : c (k+1)]
   (contiguous, in order) of length c (k+1) - c k; no chunk is empty; the concatenation of the
   chunks is the population (every individual exactly once, in population order) *)
Theorem C16_chunks : forall (A : Type) (pop n : Z) (c : Z -> Z) (xs : list A),
  1 <= n <= pop -> Envelope pop n c -> Z.of_nat (length xs) = pop ->
  let chunks := split_population (cut_points c n) xs in
  (forall k, 0 <= k < n -> 0 <= c k < c (k + 1) /\ c (k + 1) <= pop) /\
  length chunks = Z.to_nat n /\
  (forall k, (k < Z.to_nat n)%nat ->
     nth k chunks [] = slice (Z.to_nat (c (Z.of_nat k))) (Z.to_nat (c (Z.of_nat k + 1))) xs /\
     Z.of_nat (length (nth k chunks [])) = c (Z.of_nat k + 1) - c (Z.of_nat k)) /\
  Forall (fun ch => ch <> []) chunks /\
  concat chunks = xs.
Proof. exact chunks_spec. Qed.
Print Assumptions C16_chunks.

(* the exact cut function floor(k*pop/n) is in the envelope *)
Theorem C16_envelope_contains_floor : forall pop n, 1 <= n -> Envelope pop n (cut_floor pop n).
Proof. exact cut_floor_envelope. Qed.
Print Assumptions C16_envelope_contains_floor.

(* parallel = serial for one evaluation of a population: if joblib returns the results in
   submission order and genotype->phenotype and the objective are row-wise, then phenotypes,
   fitness values and the evaluation counter after _get_phenotype/_get_fitness with n jobs equal
   those of the serial path (n_jobs = 1), which is one call on the whole population *)
Theorem C16_parallel_is_serial :
  forall (G P F : Type) (parallel : forall X Y : Type, (X -> Y) -> list X -> list Y),
  (forall X Y (f : X -> Y) l, parallel X Y f l = map f l) ->
  forall (pop n : Z) (c : Z -> Z), 1 <= n <= pop -> Envelope pop n c ->
  forall (g2p : option (list G -> list P)) (coerce : list G -> list P) (fit : list P -> list F),
  (forall f, g2p = Some f -> rowwise f /\ rowcount f) ->
  (g2p = None -> rowcount coerce) ->
  rowwise fit ->
  forall lin1 calls pop_g, Z.of_nat (length pop_g) = pop ->
    evaluate G P F parallel g2p coerce fit n (cut_points c n) calls pop_g =
    evaluate G P F parallel g2p coerce fit 1 lin1 calls pop_g
    /\
    evaluate G P F parallel g2p coerce fit 1 lin1 calls pop_g =
    (let ph := match g2p with Some f => f pop_g | None => coerce pop_g end in
     (ph, fit ph, calls + Z.of_nat (length (fit ph)))).
Proof.
  intros G P F parallel Hord pop n c Hn He g2p coerce fit Hg Hc Hf lin1 calls pop_g Hlen.
  split; [now apply (evaluate_par_ser G P F parallel Hord pop n c Hn He) | apply evaluate_serial; assumption].
Qed.
Print Assumptions C16_parallel_is_serial.

(* hence the whole run: for any optimizer state, any rule producing the next population from the
   state and any state update from what the evaluation returned, the final state, the evaluation
   counter and the recorded history (genotypes, phenotypes, fitness per generation) are the same
   with n jobs as with one *)
Theorem C16_run_parallel_is_serial :
  forall (G P F : Type) (parallel : forall X Y : Type, (X -> Y) -> list X -> list Y),
  (forall X Y (f : X -> Y) l, parallel X Y f l = map f l) ->
  forall (pop n : Z) (c : Z -> Z), 1 <= n <= pop -> Envelope pop n c ->
  forall (g2p : option (list G -> list P)) (coerce : list G -> list P) (fit : list P -> list F),
  (forall f, g2p = Some f -> rowwise f /\ rowcount f) ->
  (g2p = None -> rowcount coerce) ->
  rowwise fit ->
  forall (S : Type) (next : S -> list G) (update : S -> list G -> list P -> list F -> S),
  (forall st, Z.of_nat (length (next st)) = pop) ->
  forall lin1 iters st calls trace,
    run G P F parallel S next update g2p coerce fit n (cut_points c n) iters st calls trace =
    run G P F parallel S next update g2p coerce fit 1 lin1 iters st calls trace.
Proof. exact run_par_ser. Qed.
Print Assumptions C16_run_parallel_is_serial.

(* BOUNDED SWEEP (pop <= 256), by vm_compute: the bit-exact binary64 model of
   numpy.linspace(0, pop, n+1, dtype=int64) lies in the envelope for all 1 <= n <= pop <= 256 *)
Theorem C16_linspace_float_in_envelope_upto256 : forall pop n, 1 <= n <= pop -> pop <= 256 ->
  Envelope pop n (cut_fn (linspace_int pop n)) /\
  cut_points (cut_fn (linspace_int pop n)) n = linspace_int pop n.
Proof. exact linspace_envelope_upto256. Qed.
Print Assumptions C16_linspace_float_in_envelope_upto256.

(* BOUNDED (pop <= 256), end to end for the bit-exact model: any non-zero request, normalised by
   get_n_jobs and cut by the float linspace, gives non-empty contiguous ordered covering chunks *)
Theorem C16_split_population_float_upto256 : forall (A : Type) cpu pop req (xs : list A),
  1 <= pop <= 256 -> req <> 0 -> Z.of_nat (length xs) = pop ->
  exists j, get_n_jobs cpu pop req = Some j /\ 1 <= j <= pop /\
    let pts := linspace_int pop j in
    let chunks := split_population pts xs in
    length chunks = Z.to_nat j /\
    (forall k, (k < Z.to_nat j)%nat ->
       nth k chunks [] = slice (Z.to_nat (nth k pts 0)) (Z.to_nat (nth (S k) pts 0)) xs) /\
    Forall (fun ch => ch <> []) chunks /\
    concat chunks = xs.
Proof. exact split_population_float_upto256. Qed.
Print Assumptions C16_split_population_float_upto256.

(* the hypotheses are satisfiable: pop = 30, n = 22 is a pair where numpy deviates from the exact
   floor (cut 11 is 14, not 15); the float cut vector is in the envelope, and a row-wise
   objective exists *)
Example C16_nonvacuous :
  (1 <= 22 <= 30) /\ Envelope 30 22 (cut_fn (linspace_int 30 22)) /\
  cut_fn (linspace_int 30 22) 11 = 14 /\ cut_floor 30 22 11 = 15 /\
  rowwise (map (fun x : Z => x + 1)) /\ rowcount (map (fun x : Z => x + 1)) /\
  (exists j, get_n_jobs 16 8 (-1) = Some j /\ j = 8).
Proof.
  split; [split; discriminate|].
  split; [apply linspace_envelope_upto256; [split; discriminate | discriminate]|].
  split; [vm_compute; reflexivity|].
  split; [vm_compute; reflexivity|].
  split; [intros a b; apply map_app|].
  split; [intros a; apply map_length|].
  exists 8. split; reflexivity.
Qed.
Print Assumptions C16_nonvacuous.

(* ------------------------------------------------------------------------------------------------
   THE TIE TO THE SOURCE for the worker-count normalisation.  EvolutionaryAlgorithm._get_n_jobs is translated on every run
   (method: self._pop_size and os.cpu_count() are parameters, `raise` = no result) and IS get_n_jobs. *)
From TF Require Import Py CodeEqC16.
From TFG Require Import GenCode.
Open Scope Z_scope.

Theorem C16_code_get_n_jobs : forall cpu pop n ds,
  py_EA_get_n_jobs cpu pop n ds = match get_n_jobs cpu pop n with Some v => Some (v, ds) | None => None end.
Proof. exact code_get_n_jobs. Qed.
Print Assumptions C16_code_get_n_jobs.

Theorem C16_src_get_n_jobs_range : forall cpu pop n v ds ds', 1 <= pop ->
  py_EA_get_n_jobs cpu pop n ds = Some (v, ds') -> 1 <= v <= pop /\ n <> 0 /\ ds' = ds.
Proof. exact src_get_n_jobs_range. Qed.
Print Assumptions C16_src_get_n_jobs_range.
