(* C06 — binary GA family: genotypes stay binary, operators do what they are named.
   Statements only; proofs in theories/BinaryOpsProofs.v; pools regenerated in gen/GenPools.v. *)
From Coq Require Import String.
From TF Require Import Base RandomPrims RandomPrimsProofs BinaryOps BinaryOpsProofs Pools C06Check PoolsClosed.
From TFG Require Import GenPools.
Close Scope string_scope.
Open Scope Q_scope.

(* every child of a crossover takes, at every locus, that locus of one of the supplied parents *)
Theorem C06_gene_from_parent_one_point : forall ps c coin, (2 <= length ps)%nat ->
  from_parents ps (one_point_child ps c coin).
Proof. exact one_point_child_from_parents. Qed.
Print Assumptions C06_gene_from_parent_one_point.

Theorem C06_gene_from_parent_two_point : forall ps c0 c1 coin, (2 <= length ps)%nat ->
  from_parents ps (two_point_child ps c0 c1 coin).
Proof. exact two_point_child_from_parents. Qed.
Print Assumptions C06_gene_from_parent_two_point.

Theorem C06_gene_from_parent_uniform : forall ps fitness rank ds child ds',
  valid_draws ds -> length fitness = length ps ->
  uniform_crossover ps fitness rank ds = Some (child, ds') ->
  from_parents ps child /\ exists ch, length ch = width ps /\ child = from_choice ps ch.
Proof. exact uniform_from_parents. Qed.
Print Assumptions C06_gene_from_parent_uniform.

Theorem C06_gene_from_parent_weighted : forall ps w ds ch ds',
  w <> [] -> length w = length ps ->
  random_weighted_sample w (width ps) true ds = Some (ch, ds') ->
  from_parents ps (from_choice ps ch).
Proof. exact uniform_weighted_from_parents. Qed.
Print Assumptions C06_gene_from_parent_weighted.

Theorem C06_binary_closed : forall ps child,
  (forall p, (p < length ps)%nat -> binary (nth p ps []) /\ length (nth p ps []) = width ps) ->
  from_parents ps child -> binary child.
Proof. exact from_parents_binary. Qed.
Print Assumptions C06_binary_closed.

Theorem C06_empty_clone : forall ps ds c ds',
  empty_crossover ps ds = Some (c, ds') -> c = nth 0 ps [] /\ ds' = ds.
Proof. exact empty_clone. Qed.
Print Assumptions C06_empty_clone.

(* one cut: loci 0..c from one parent, c+1.. from the other; every such child is reachable *)
Theorem C06_one_point_sound : forall ps ds child ds',
  valid_draws ds -> one_point_crossover ps ds = Some (child, ds') ->
  exists c coin, (0 <= c < Z.of_nat (width ps))%Z /\ child = one_point_child ps c coin.
Proof. exact one_point_sound. Qed.
Print Assumptions C06_one_point_sound.

Theorem C06_one_point_structure : forall ps c coin i, (i < width ps)%nat ->
  nth i (one_point_child ps c coin) 0%Z =
  if (Z.of_nat i <=? c)%Z then gene ps (if coin then 0 else 1)%nat i else gene ps (if coin then 1 else 0)%nat i.
Proof. exact one_point_child_structure. Qed.
Print Assumptions C06_one_point_structure.

Theorem C06_one_point_complete : forall ps c coin, (0 <= c < Z.of_nat (width ps))%Z ->
  exists ds, valid_draws ds /\ one_point_crossover ps ds = Some (one_point_child ps c coin, []).
Proof. exact one_point_complete. Qed.
Print Assumptions C06_one_point_complete.

(* two cuts c0 < c1: the segment [c0, c1] from the other parent *)
Theorem C06_two_point_sound : forall ps ds child ds',
  valid_draws ds -> two_point_crossover ps ds = Some (child, ds') ->
  exists c0 c1 coin, (0 <= c0 < c1)%Z /\ (c1 < Z.of_nat (width ps))%Z /\ child = two_point_child ps c0 c1 coin.
Proof. exact two_point_sound. Qed.
Print Assumptions C06_two_point_sound.

Theorem C06_two_point_complete : forall ps c0 c1 coin, (0 <= c0 < c1)%Z -> (c1 < Z.of_nat (width ps))%Z ->
  exists ds, valid_draws ds /\ two_point_crossover ps ds = Some (two_point_child ps c0 c1 coin, []).
Proof. exact two_point_complete. Qed.
Print Assumptions C06_two_point_complete.

(* per-locus choice: every choice vector over the k parents is reachable *)
Theorem C06_uniform_complete : forall ps fitness rank ch,
  length ch = width ps -> Forall (fun v => (0 <= v < Z.of_nat (length fitness))%Z) ch ->
  exists ds, valid_draws ds /\ uniform_crossover ps fitness rank ds = Some (from_choice ps ch, []).
Proof. exact uniform_complete. Qed.
Print Assumptions C06_uniform_complete.

(* tournament variant: per locus two contestants drawn from the parents, the donor is a fitter one *)
Theorem C06_uniform_tour : forall ps fitness rank ds child ds',
  valid_draws ds -> uniform_tournament_crossover ps fitness rank ds = Some (child, ds') ->
  from_parents ps child /\
  exists t, length t = (2 * width ps)%nat /\ Forall (fun v => (0 <= v < Z.of_nat (length ps))%Z) t /\
    forall i, (i < width ps)%nat ->
      let a := nth (2 * i) t 0%Z in let b := nth (2 * i + 1) t 0%Z in
      exists w, (w = a \/ w = b) /\ nth i child 0%Z = gene ps (Z.to_nat w) i /\
        nth (Z.to_nat a) fitness 0 <= nth (Z.to_nat w) fitness 0 /\
        nth (Z.to_nat b) fitness 0 <= nth (Z.to_nat w) fitness 0.
Proof. exact uniform_tour_sound. Qed.
Print Assumptions C06_uniform_tour.

Theorem C06_uniform_tour_every_parent_can_donate : forall ps fitness rank p, (p < length ps)%nat ->
  exists ds, valid_draws ds /\
    uniform_tournament_crossover ps fitness rank ds = Some (build (width ps) (fun i => gene ps p i), []).
Proof. exact uniform_tour_every_parent_can_donate. Qed.
Print Assumptions C06_uniform_tour_every_parent_can_donate.

(* record of the repaired defect: the old code used the arg-max position as the parent index *)
Theorem C06_uniform_tour_old_refuted :
  exists ps fitness rank, (3 <= length ps)%nat /\
    forall ds child ds', uniform_tournament_crossover_old ps fitness rank ds = Some (child, ds') ->
      nth 0 child 0%Z <> gene ps 2 0.
Proof. exact uniform_tour_old_refuted. Qed.
Print Assumptions C06_uniform_tour_old_refuted.

(* binomial: at least one donor locus, every other locus donor-or-parent *)
Theorem C06_binomial_at_least_one : forall individ mutant CR ds child ds',
  valid_draws ds -> (0 < length individ)%nat ->
  binomialGA individ mutant CR ds = Some (child, ds') ->
  length child = length individ /\
  exists j, (j < length individ)%nat /\ nth j child 0%Z = nth j mutant 0%Z /\
    forall i, (i < length individ)%nat -> nth i child 0%Z = nth i mutant 0%Z \/ nth i child 0%Z = nth i individ 0%Z.
Proof. exact binomial_at_least_one. Qed.
Print Assumptions C06_binomial_at_least_one.

(* flip mutation: each bit flipped exactly when its own coin says so; never at 0, always at 1 *)
Theorem C06_flip : forall x p ds child ds', flip_mutation x p ds = Some (child, ds') ->
  exists cs, length cs = length x /\ child = flip_child x cs.
Proof. exact flip_sound. Qed.
Print Assumptions C06_flip.

Theorem C06_flip_per_locus : forall x cs i, (i < length x)%nat ->
  nth i (flip_child x cs) 0%Z = if nth i cs false then (1 - nth i x 0)%Z else nth i x 0%Z.
Proof. exact flip_per_locus. Qed.
Print Assumptions C06_flip_per_locus.

Theorem C06_flip_never_at_0 : forall x p ds child ds', valid_draws ds -> p <= 0 ->
  flip_mutation x p ds = Some (child, ds') -> child = build (length x) (fun i => nth i x 0%Z).
Proof. exact flip_never_at_0. Qed.
Print Assumptions C06_flip_never_at_0.

Theorem C06_flip_always_at_1 : forall x p ds child ds', valid_draws ds -> 1 <= p ->
  flip_mutation x p ds = Some (child, ds') -> child = build (length x) (fun i => (1 - nth i x 0)%Z).
Proof. exact flip_always_at_1. Qed.
Print Assumptions C06_flip_always_at_1.

Theorem C06_flip_binary : forall x cs, binary x -> binary (flip_child x cs) /\ length (flip_child x cs) = length x.
Proof. exact flip_binary. Qed.
Print Assumptions C06_flip_binary.

(* presets = k / str_len; custom rate is used as given *)
Theorem C06_rate_preset : forall proba len,
  mutation_rate proba false len = proba / inject_Z (Z.of_nat len) /\ mutation_rate proba true len = proba.
Proof. exact rate_preset. Qed.
Print Assumptions C06_rate_preset.

(* one generation step: selection -> crossover -> mutation yields a binary row of the same length *)
Theorem C06_population_shape :
  forall selection tour quantity crossover proba is_const pop fscale frank n ds child ds',
  pop_ok n pop -> (0 < quantity)%nat ->
  (forall ds r ds', selection fscale frank tour quantity ds = Some (r, ds') ->
      length r = quantity /\ Forall (fun v => (0 <= v < Z.of_nat (length pop))%Z) r) ->
  (forall ps f r ds c ds', crossover ps f r ds = Some (c, ds') -> from_parents ps c) ->
  new_individ selection tour quantity crossover proba is_const pop fscale frank ds = Some (child, ds') ->
  binary child /\ length child = n.
Proof. exact new_individ_shape. Qed.
Print Assumptions C06_population_shape.

(* a whole run: by induction over generations (children of new_individ + optional elitism overwrite by
   an earlier member), every generation has pop_size rows of length str_len over {0,1} *)
Theorem C06_run_shape : forall n pop_size pop pop', (0 < pop_size)%nat ->
  ga_run n pop_size pop pop' -> Forall (row_ok n) pop -> length pop = pop_size ->
  Forall (row_ok n) pop' /\ length pop' = pop_size.
Proof. exact ga_run_shape. Qed.
Print Assumptions C06_run_shape.

Theorem C06_ga_step_meaning : forall n pop_size pop pop', ga_step n pop_size pop pop' <->
  (exists children, length children = pop_size /\ Forall (row_ok n) children /\
     (pop' = children \/ exists best, row_ok n best /\ pop' = removelast children ++ [best])).
Proof.
  intros n ps pop pop'. split.
  - intros [p c Hl Hc|p c b Hl Hc Hb]; exists c; repeat split; auto. right. eauto.
  - intros (c & Hl & Hc & [->|(b & Hb & ->)]); [apply ga_step_plain|apply ga_step_elite]; auto.
Qed.
Print Assumptions C06_ga_step_meaning.

(* wiring: the pools extracted from the current source bind every name to the function and the
   parameter the name promises *)
Theorem C06_pools_named :
  table_ok selection_pool expected_selection = true /\
  table_ok crossover_pool expected_crossover = true /\
  table_ok mutation_pool expected_mutation = true.
Proof. vm_compute. auto. Qed.
Print Assumptions C06_pools_named.

(* closure over the pools AS EXTRACTED FROM THE SOURCE: whatever names are looked up in the generated tables, one step
   selection -> crossover -> flip mutation (GeneticAlgorithm / SelfCGA; PDPGA with its extra draw when pdp = true) on a
   binary population yields a binary row of the same length, for every outcome of the draws.  The two table premises of
   the general theorem (every crossover entry promises at least the parents its function needs, every tournament entry
   a positive size) are discharged by computation on the generated tables. *)
Theorem C06_pools_step_closed : forall pdp a sn cn mn pop fscale frank n ds child ds',
  attrs_ok a -> pop_ok n pop -> pop <> [] -> valid_draws ds ->
  length fscale = length pop -> length frank = length pop ->
  ga_new_individ pdp selection_pool crossover_pool mutation_pool a sn cn mn pop fscale frank ds = Some (child, ds') ->
  binary child /\ length child = n.
Proof.
  intros pdp a sn cn mn pop fscale frank n ds child ds' Ha.
  apply ga_new_individ_closed; [vm_compute; reflexivity | vm_compute; reflexivity | exact Ha].
Qed.
Print Assumptions C06_pools_step_closed.

Theorem C06_pools_step_closed_any_table : forall pdp sp cp mp a sn cn mn pop fscale frank n ds child ds',
  sel_table_ok sp = true -> cx_table_ok cp = true -> attrs_ok a ->
  pop_ok n pop -> pop <> [] -> valid_draws ds ->
  length fscale = length pop -> length frank = length pop ->
  ga_new_individ pdp sp cp mp a sn cn mn pop fscale frank ds = Some (child, ds') ->
  binary child /\ length child = n.
Proof. exact ga_new_individ_closed. Qed.
Print Assumptions C06_pools_step_closed_any_table.

Example C06_pools_step_nonvacuous :
  attrs_ok {| a_tour := 2; a_parents := 2; a_rate := 0 |} /\
  ga_new_individ false selection_pool crossover_pool mutation_pool {| a_tour := 2; a_parents := 2; a_rate := 0 |}
    "tournament_3"%string "one_point"%string "weak"%string [[0; 0]; [1; 1]; [0; 1]]%Z [0; 1; 1 # 2] [1; 3; 2]
    [DI 3 0; DI 3 1; DI 3 2; DI 3 2; DI 3 0; DI 3 1; DI 2 0; DU (1 # 4); DU (1 # 2); DU (1 # 2)] = Some ([1; 1]%Z, []) /\
  ga_new_individ true selection_pool crossover_pool mutation_pool {| a_tour := 2; a_parents := 3; a_rate := 1 |}
    "rank"%string "uniform_k"%string "custom_rate"%string [[0; 0]; [1; 1]; [0; 1]]%Z [0; 1; 1 # 2] [1; 3; 2]
    [DU (1 # 10); DU (1 # 2); DU (9 # 10); DI 3 1; DI 3 0; DI 3 2; DU (1 # 2); DU (1 # 2)] = Some ([1; 0]%Z, []).
Proof. unfold attrs_ok. cbn [a_tour a_parents]. split; [lia|]. vm_compute. auto. Qed.
Print Assumptions C06_pools_step_nonvacuous.

Example C06_nonvacuous :
  one_point_crossover [[0; 0; 0; 0]; [1; 1; 1; 1]]%Z [DI 4 1; DU (1 # 4)] = Some ([0; 0; 1; 1]%Z, []) /\
  two_point_crossover [[0; 0; 0; 0]; [1; 1; 1; 1]]%Z [DI 4 2; DI 4 2; DI 4 1; DU (3 # 4)] = Some ([1; 0; 0; 1]%Z, []).
Proof. vm_compute. auto. Qed.
Print Assumptions C06_nonvacuous.

(* ------------------------------------------------------------------------------------------------
   THE TIE TO THE SOURCE.  gen/GenCode.v is regenerated on every run from the bodies of the operators in
   utils/crossovers.py and utils/mutations.py (harness/translate_code.py; semantics of the subset:
   theories/Py.v).  The models the theorems above are about are EQUAL to those generated definitions, for
   every input and every list of draws; headline theorems are restated about the generated definitions. *)
From Coq Require Import String.
From TF Require Import Py CodeEqC11 CodeEqC06.
From TFG Require Import GenCode.
Open Scope Z_scope.

Theorem C06_code_empty_crossover : forall ps fitness rank ds,
  ret (py_empty_crossover ps fitness rank) ds = empty_crossover ps ds.
Proof. exact code_empty_crossover. Qed.
Print Assumptions C06_code_empty_crossover.

Theorem C06_code_one_point_crossover : forall ps fitness rank ds, length (nth 1 ps []) = width ps ->
  py_one_point_crossover ps fitness rank ds = one_point_crossover ps ds.
Proof. exact code_one_point_crossover. Qed.
Print Assumptions C06_code_one_point_crossover.

Theorem C06_code_two_point_crossover : forall ps fitness rank ds,
  valid_draws ds -> length (nth 1 ps []) = width ps -> (2 <= width ps)%nat ->
  py_two_point_crossover ps fitness rank ds = two_point_crossover ps ds.
Proof. exact code_two_point_crossover. Qed.
Print Assumptions C06_code_two_point_crossover.

Theorem C06_code_uniform_crossover : forall ps fitness rank ds, valid_draws ds ->
  py_uniform_crossover ps fitness rank ds = uniform_crossover ps fitness rank ds.
Proof. exact code_uniform_crossover. Qed.
Print Assumptions C06_code_uniform_crossover.

Theorem C06_code_uniform_proportional_crossover : forall ps fitness rank ds, fitness <> [] ->
  py_uniform_proportional_crossover ps fitness rank ds = uniform_proportional_crossover ps fitness rank ds.
Proof. exact code_uniform_proportional_crossover. Qed.
Print Assumptions C06_code_uniform_proportional_crossover.

Theorem C06_code_uniform_rank_crossover : forall ps fitness rank ds, rank <> [] ->
  py_uniform_rank_crossover ps fitness rank ds = uniform_rank_crossover ps fitness rank ds.
Proof. exact code_uniform_rank_crossover. Qed.
Print Assumptions C06_code_uniform_rank_crossover.

Theorem C06_code_flip_mutation : forall x p ds, py_flip_mutation x p ds = flip_mutation x p ds.
Proof. exact code_flip_mutation. Qed.
Print Assumptions C06_code_flip_mutation.

Theorem C06_code_binomialGA : forall individ mutant CR ds,
  py_binomialGA individ mutant CR ds = binomialGA individ mutant CR ds.
Proof. exact code_binomialGA. Qed.
Print Assumptions C06_code_binomialGA.

Theorem C06_src_one_point : forall ps fitness rank ds child ds',
  valid_draws ds -> length (nth 1 ps []) = width ps ->
  py_one_point_crossover ps fitness rank ds = Some (child, ds') ->
  exists c coin, 0 <= c < Z.of_nat (width ps) /\ child = one_point_child ps c coin.
Proof. exact src_one_point. Qed.
Print Assumptions C06_src_one_point.

Theorem C06_src_two_point : forall ps fitness rank ds child ds',
  valid_draws ds -> length (nth 1 ps []) = width ps -> (2 <= width ps)%nat ->
  py_two_point_crossover ps fitness rank ds = Some (child, ds') ->
  exists c0 c1 coin, 0 <= c0 < c1 /\ c1 < Z.of_nat (width ps) /\ child = two_point_child ps c0 c1 coin.
Proof. exact src_two_point. Qed.
Print Assumptions C06_src_two_point.

Theorem C06_src_uniform : forall ps fitness rank ds child ds',
  valid_draws ds -> length fitness = length ps ->
  py_uniform_crossover ps fitness rank ds = Some (child, ds') ->
  from_parents ps child /\ exists ch, length ch = width ps /\ child = from_choice ps ch.
Proof. exact src_uniform. Qed.
Print Assumptions C06_src_uniform.

Theorem C06_src_flip_never_at_0 : forall x p ds child ds', valid_draws ds -> (p <= 0)%Q ->
  py_flip_mutation x p ds = Some (child, ds') -> child = build (length x) (fun i => nth i x 0).
Proof. exact src_flip_never_at_0. Qed.
Print Assumptions C06_src_flip_never_at_0.

Theorem C06_src_flip_always_at_1 : forall x p ds child ds', valid_draws ds -> (1 <= p)%Q ->
  py_flip_mutation x p ds = Some (child, ds') -> child = build (length x) (fun i => 1 - nth i x 0).
Proof. exact src_flip_always_at_1. Qed.
Print Assumptions C06_src_flip_always_at_1.

Theorem C06_src_binomialGA : forall individ mutant CR ds child ds',
  valid_draws ds -> (0 < length individ)%nat ->
  py_binomialGA individ mutant CR ds = Some (child, ds') ->
  length child = length individ /\
  exists j, (j < length individ)%nat /\ nth j child 0 = nth j mutant 0 /\
    forall i, (i < length individ)%nat -> nth i child 0 = nth i mutant 0 \/ nth i child 0 = nth i individ 0.
Proof. exact src_binomialGA. Qed.
Print Assumptions C06_src_binomialGA.

(* "no operator modifies its inputs": every translated operator is free of writes into its parameters *)
Theorem C06_no_param_writes : forall f, In f ["empty_crossover"; "binomialGA"; "one_point_crossover"; "two_point_crossover";
    "uniform_crossover"; "uniform_proportional_crossover"; "uniform_rank_crossover"; "flip_mutation";
    "proportional_selection"; "rank_selection"; "tournament_selection"]%string -> In f no_param_writes.
Proof. intros f H. repeat (destruct H as [<-|H]; [vm_compute; tauto|]). destruct H. Qed.
Print Assumptions C06_no_param_writes.

Theorem C06_code_uniform_tournament_crossover : forall ps fitness rank ds, valid_draws ds ->
  py_uniform_tournament_crossover ps fitness rank ds = uniform_tournament_crossover ps fitness rank ds.
Proof. exact code_uniform_tournament_crossover. Qed.
Print Assumptions C06_code_uniform_tournament_crossover.

(* SHAGA._get_new_individ_g, translated on every run as a method: second parent by a tournament of two over the raw fitness,
   binomial crossover with the individual, flip mutation at the individual's own rate *)
From TF Require Import CodeEqNewIndivid.
Theorem C06_code_SHAGA_get_new_individ_g : forall fitness pop x MR CR ds,
  valid_draws ds -> (2 <= length fitness)%nat ->
  py_SHAGA_get_new_individ_g fitness pop x MR CR ds = shaga_new_individ pop fitness x MR CR ds.
Proof. exact code_SHAGA_get_new_individ_g. Qed.
Print Assumptions C06_code_SHAGA_get_new_individ_g.

(* GeneticAlgorithm._get_new_individ_g (inherited by SelfCGA), translated on every run with the three unpacked pool entries as
   parameters: for whatever functions and parameters the pools hold under the configured names (the generated pool tables:
   C06_pools_named), the offspring is selection(scaled fitness, ranks, tour, quantity) -> crossover(population, scaled fitness,
   ranks of the selected) -> mutation at the entry's rate (rate / str_len unless the entry is constant-rate) *)
Theorem C06_code_GA_get_new_individ_g : forall
    (selpy : list Q -> list Q -> Z -> Z -> M (list Z)) (sel : list Q -> list Q -> nat -> nat -> M (list Z)) (tour q : nat)
    (cxpy cx : list (list Z) -> list Q -> list Q -> M (list Z)) (mupy : list Z -> Q -> M (list Z))
    (proba : Q) (const : bool) fs fr pop ds,
  selpy fs fr (Z.of_nat tour) (Z.of_nat q) ds = sel fs fr tour q ds ->
  (forall r ds', sel fs fr tour q ds = Some (r, ds') -> Forall (fun v => (0 <= v)%Z) r) ->
  (forall a b c ds', cxpy a b c ds' = cx a b c ds') ->
  (forall c p ds', mupy c p ds' = flip_mutation c p ds') ->
  py_GA_get_new_individ_g selpy (Z.of_nat tour) cxpy (Z.of_nat q) mupy proba const fs fr pop ds
  = new_individ sel tour q cx proba const pop fs fr ds.
Proof. exact code_GA_get_new_individ_g. Qed.
Print Assumptions C06_code_GA_get_new_individ_g.

(* PDPGA._get_new_individ_g: as GeneticAlgorithm's, with ONE extra draw between selection and crossover — the index of the selected
   parent whose raw fitness is remembered (appended to _previous_fitness_i: the appended value is part of the translated result) *)
Theorem C06_code_PDPGA_get_new_individ_g : forall
    (selpy : list Q -> list Q -> Z -> Z -> M (list Z)) (sel : list Q -> list Q -> nat -> nat -> M (list Z)) (tour q : nat)
    (cxpy cx : list (list Z) -> list Q -> list Q -> M (list Z)) (mupy : list Z -> Q -> M (list Z))
    (proba : Q) (const : bool) fs fr fit pop ds,
  selpy fs fr (Z.of_nat tour) (Z.of_nat q) ds = sel fs fr tour q ds ->
  (forall r ds', sel fs fr tour q ds = Some (r, ds') -> Forall (fun v => (0 <= v)%Z) r) ->
  (forall a b c ds', cxpy a b c ds' = cx a b c ds') ->
  (forall c p ds', mupy c p ds' = flip_mutation c p ds') ->
  py_PDPGA_get_new_individ_g selpy (Z.of_nat tour) cxpy (Z.of_nat q) mupy proba const fs fr fit pop ds
  = bind (sel fs fr tour q) (fun r =>
      bind (popI (Z.of_nat (length r))) (fun i =>
        bind (cx (gather [] pop r) (gather 0%Q fs r) (gather 0%Q fr r)) (fun c =>
          bind (flip_mutation c (mutation_rate proba const (length c))) (fun o =>
            ret (getQ (gather 0%Q fit r) i, o))))) ds.
Proof. exact code_PDPGA_get_new_individ_g. Qed.
Print Assumptions C06_code_PDPGA_get_new_individ_g.

Theorem C06_code_PDPGA_offspring : forall
    (selpy : list Q -> list Q -> Z -> Z -> M (list Z)) (sel : list Q -> list Q -> nat -> nat -> M (list Z)) (tour q : nat)
    (cxpy cx : list (list Z) -> list Q -> list Q -> M (list Z)) (mupy : list Z -> Q -> M (list Z))
    (proba : Q) (const : bool) fs fr fit pop ds,
  selpy fs fr (Z.of_nat tour) (Z.of_nat q) ds = sel fs fr tour q ds ->
  (forall r ds', sel fs fr tour q ds = Some (r, ds') -> Forall (fun v => (0 <= v)%Z) r) ->
  (forall a b c ds', cxpy a b c ds' = cx a b c ds') ->
  (forall c p ds', mupy c p ds' = flip_mutation c p ds') ->
  match py_PDPGA_get_new_individ_g selpy (Z.of_nat tour) cxpy (Z.of_nat q) mupy proba const fs fr fit pop ds with
  | Some ((_, child), ds') => new_individ_pdp sel tour q cx proba const pop fs fr ds = Some (child, ds')
  | None => new_individ_pdp sel tour q cx proba const pop fs fr ds = None
  end.
Proof. exact code_PDPGA_offspring. Qed.
Print Assumptions C06_code_PDPGA_offspring.
