(* C01 — the reported best solution is the best individual ever evaluated.
   Model: theories/EALoop.v (both loop shapes, arbitrary variation oracle, arbitrary objective);
   proofs: theories/EALoopProofs.v. *)
From TF Require Import Base EALoop EALoopProofs.
From TF Require EAStore EAStoreProofs.
Open Scope Q_scope.

(* after fit(): the record holds an individual that was handed to the objective, whose normalised
   fitness is the maximum over EVERY individual ever evaluated, whose phenotype is the
   genotype-to-phenotype image of its genotype and whose fitness is the objective of that phenotype.
   For all optimizers (k), elitism, history, stopping criteria, variation oracles, objectives nf. *)
Theorem C01_best_is_max :
  forall (G P : Type) (g2p : G -> P) (nf : P -> Q) (k : kind) (elitism keep_history : bool)
         (aim : option Q) (no_increase_num : option nat) (var : state G P -> list G) (n : nat),
  (0 < n)%nat -> (forall st, length (var st) = n) ->
  forall iters gs0, length gs0 = n ->
  let st := fit G P g2p nf k elitism keep_history aim no_increase_num var iters gs0 in
  exists b, best st = Some b /\ In b (evaluated st) /\
    Forall (fun e => ifit e <= ifit b) (evaluated st) /\
    iph b = g2p (ig b) /\ ifit b = nf (iph b).
Proof. exact best_is_max. Qed.
Print Assumptions C01_best_is_max.

(* the same holds at every generation boundary: the invariant of every reachable state *)
Theorem C01_invariant_every_generation :
  forall (G P : Type) (g2p : G -> P) (nf : P -> Q) (k : kind) (elitism keep_history : bool)
         (var : state G P -> list G) (n : nat),
  (0 < n)%nat -> (forall st, length (var st) = n) ->
  forall (first : bool) (st : state G P) (gs : list G), length gs = n ->
  (first = true /\ st = init_state G P \/ first = false /\ Inv G P g2p nf elitism keep_history n st) ->
  Inv G P g2p nf elitism keep_history n (step G P g2p nf k elitism keep_history first st gs).
Proof. exact step_inv. Qed.
Print Assumptions C01_invariant_every_generation.

(* what the invariant says (unfolded, so that the statement is visible here) *)
Theorem C01_invariant_meaning :
  forall (G P : Type) (g2p : G -> P) (nf : P -> Q) (elitism keep_history : bool) (n : nat) (st : state G P),
  Inv G P g2p nf elitism keep_history n st ->
  exists b, best st = Some b /\ In b (evaluated st) /\ Forall (fun e => ifit e <= ifit b) (evaluated st).
Proof. intros G P g2p nf e kh n st H. exact (proj1 (proj2 (proj2 H))). Qed.
Print Assumptions C01_invariant_meaning.

(* greedy loop, the non-obvious step: a rejected trial is dominated by a population member *)
Theorem C01_rejected_trials_dominated :
  forall (G P : Type) (ts ps : list (indiv G P)), (length ts <= length ps)%nat ->
  forall t, In t ts -> exists x, In x (greedy G P ts ps) /\ ifit t <= ifit x.
Proof. exact greedy_dominates. Qed.
Print Assumptions C01_rejected_trials_dominated.

(* the reported triple is a private copy (aliasing model theories/EAStore.v: arrays = row locations,
   a[i] = view, .copy() = fresh location, pop[mask] = ..., pop[-1] = ... write contents): as long as the
   record is not replaced, no sequence of population writes (greedy acceptance, elitism, a new
   population), history snapshots, get_fittest() calls or caller-side writes into returned objects
   changes the record's objects or their contents; and a replaced record is a FRESH copy *)
Theorem C01_fittest_private : forall (V : Type) (dflt : V) ops (s : EAStore.st V),
  EAStore.wf V s -> forallb (EAStoreProofs.no_replace V) ops = true ->
  EAStore.rcd V (EAStore.run V dflt s ops) = EAStore.rcd V s /\
  forall l, In l (EAStore.rcd V s) -> EAStore.rd V dflt (EAStore.heap V (EAStore.run V dflt s ops)) l = EAStore.rd V dflt (EAStore.heap V s) l.
Proof. exact EAStoreProofs.record_private. Qed.
Print Assumptions C01_fittest_private.

Theorem C01_replaced_record_is_fresh : forall (V : Type) (dflt : V) (s : EAStore.st V) i l,
  EAStore.wf V s -> nth_error (EAStore.pop V s) i = Some l ->
  EAStore.rcd V (EAStore.step V dflt s (EAStore.ReplaceRecord V i)) = [length (EAStore.heap V s)] /\ ~ In (length (EAStore.heap V s)) (EAStore.pop V s) /\
  EAStore.rd V dflt (EAStore.heap V (EAStore.step V dflt s (EAStore.ReplaceRecord V i))) (length (EAStore.heap V s)) = EAStore.rd V dflt (EAStore.heap V s) l.
Proof. exact EAStoreProofs.replace_is_fresh. Qed.
Print Assumptions C01_replaced_record_is_fresh.

Theorem C01_store_wf_preserved : forall (V : Type) (dflt : V) (s : EAStore.st V) o, EAStore.wf V s -> EAStore.wf V (EAStore.step V dflt s o).
Proof. exact EAStoreProofs.step_wf. Qed.
Print Assumptions C01_store_wf_preserved.

(* non-vacuity: a 3-generation greedy run with a tie and a rejected trial; genotype = phenotype = Z,
   objective x |-> x, batches [3;1] then [1;5] then [5;0] *)
Example C01_nonvacuous :
  let var := fun st : state Z Z => if (gens st =? 1)%nat then [1; 5]%Z else [5; 0]%Z in
  let st := fit Z Z (fun g => g) (fun p => inject_Z p) Greedy true true None None var 3 [3; 1]%Z in
  option_map ifit (best st) = Some (5 # 1) /\ gens st = 3%nat /\ calls st = 6%nat /\
  map ifit (pop st) = [5 # 1; 5 # 1].
Proof. vm_compute. auto. Qed.
Print Assumptions C01_nonvacuous.

(* ------------------------------------------------------------------------------------------------
   THE TIE TO THE SOURCE for the record keeper.  gen/GenLoop.v is regenerated on every run from class TheFittest in
   base/_ea.py (harness/translate_loop.py: a class is a record of its fields, a method a function on that record;
   -inf is the extended rational NegInf of theories/Py.v).  The loop model's update_best IS TheFittest._update:
   for every record state, every non-empty population and fitness vector. *)
From TF Require Import Py CodeEqLoop.
From TFG Require Import GenLoop.

Theorem C01_code_update_best : forall (G P : Type) (dG : G) (dP : P) (tf : TheFittest G P) (p : list (indiv G P)),
  p <> [] -> tf_fitness G P tf <> PosInf -> (0 <= tf_no_update_counter G P tf)%Z ->
  let tf' := py_TheFittest__update G P dG dP tf (map ig p) (map iph p) (map ifit p) in
  update_best G P (abs_best G P tf) (Z.to_nat (tf_no_update_counter G P tf)) p
  = (abs_best G P tf', Z.to_nat (tf_no_update_counter G P tf')).
Proof. exact code_update_best. Qed.
Print Assumptions C01_code_update_best.

Theorem C01_code_get : forall (G P : Type) (tf : TheFittest G P) f, tf_fitness G P tf = Fin f ->
  py_TheFittest_get G P tf = (tf_genotype G P tf, tf_phenotype G P tf, Fin f) /\
  abs_best G P tf = Some {| ig := tf_genotype G P tf; iph := tf_phenotype G P tf; ifit := f |}.
Proof. exact code_get. Qed.
Print Assumptions C01_code_get.
