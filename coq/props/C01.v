(* C01 — the reported best solution is the best individual ever evaluated.
   Model: theories/EALoop.v (both loop shapes, arbitrary variation oracle, arbitrary objective);
   proofs: theories/EALoopProofs.v. *)
From TF Require Import Base EALoop EALoopProofs.
From TF Require EAStore EAStoreProofs.
Open Scope Q_scope.

(* after fit(): the record holds an individual that was handed to the objective, whose normalised
   fitness is the maximum over EVERY individual ever evaluated, whose phenotype is the
   genotype-to-phenotype image of its genotype and whose fitness is the objective of that phenotype.
   For all optimizers (k), elitism, history, stopping criteria, variation oracles, objectives nf. *)
Theorem C01_best_is_max :
  forall (G P : Type) (g2p : G -> P) (nf : P -> Q) (k : kind) (elitism keep_history : bool)
         (aim : option Q) (no_increase_num : option nat) (var : state G P -> list G) (n : nat),
  (0 < n)%nat -> (forall st, length (var st) = n) ->
  forall iters gs0, length gs0 = n ->
  let st := fit G P g2p nf k elitism keep_history aim no_increase_num var iters gs0 in
  exists b, best st = Some b /\ In b (evaluated st) /\
    Forall (fun e => ifit e <= ifit b) (evaluated st) /\
    iph b = g2p (ig b) /\ ifit b = nf (iph b).
Proof. exact best_is_max. Qed.
Print Assumptions C01_best_is_max.

(* the same holds at every generation boundary: the invariant of every reachable state *)
Theorem C01_invariant_every_generation :
  forall (G P : Type) (g2p : G -> P) (nf : P -> Q) (k : kind) (elitism keep_history : bool)
         (var : state G P -> list G) (n : nat),
  (0 < n)%nat -> (forall st, length (var st) = n) ->
  forall (first : bool) (st : state G P) (gs : list G), length gs = n ->
  (first = true /\ st = init_state G P \/ first = false /\ Inv G P g2p nf elitism keep_history n st) ->
  Inv G P g2p nf elitism keep_history n (step G P g2p nf k elitism keep_history first st gs).
Proof. exact step_inv. Qed.
Print Assumptions C01_invariant_every_generation.

(* what the invariant says (unfolded, so that the statement is visible here) *)
Theorem C01_invariant_meaning :
  forall (G P : Type) (g2p : G -> P) (nf : P -> Q) (elitism keep_history : bool) (n : nat) (st : state G P),
  Inv G P g2p nf elitism keep_history n st ->
  exists b, best st = Some b /\ In b (evaluated st) /\ Forall (fun e => ifit e <= ifit b) (evaluated st).
Proof. intros G P g2p nf e kh n st H. exact (proj1 (proj2 (proj2 H))). Qed.
Print Assumptions C01_invariant_meaning.

(* greedy loop, the non-obvious step: a rejected trial is dominated by a population member *)
Theorem C01_rejected_trials_dominated :
  forall (G P : Type) (ts ps : list (indiv G P)), (length ts <= length ps)%nat ->
  forall t, In t ts -> exists x, In x (greedy G P ts ps) /\ ifit t <= ifit x.
Proof. exact greedy_dominates. Qed.
Print Assumptions C01_rejected_trials_dominated.

(* the reported triple is a private copy (aliasing model theories/EAStore.v: arrays = row locations,
   a[i] = view, .copy() = fresh location, pop[mask] = ..., pop[-1] = ... write contents): as long as the
   record is not replaced, no sequence of population writes (greedy acceptance, elitism, a new
   population), history snapshots, get_fittest() calls or caller-side writes into returned objects
   changes the record's objects or their contents; and a replaced record is a FRESH copy *)
Theorem C01_fittest_private : forall (V : Type) (dflt : V) ops (s : EAStore.st V),
  EAStore.wf V s -> forallb (EAStoreProofs.no_replace V) ops = true ->
  EAStore.rcd V (EAStore.run V dflt s ops) = EAStore.rcd V s /\
  forall l, In l (EAStore.rcd V s) -> EAStore.rd V dflt (EAStore.heap V (EAStore.run V dflt s ops)) l = EAStore.rd V dflt (EAStore.heap V s) l.
Proof. exact EAStoreProofs.record_private. Qed.
Print Assumptions C01_fittest_private.

Theorem C01_replaced_record_is_fresh : forall (V : Type) (dflt : V) (s : EAStore.st V) i l,
  EAStore.wf V s -> nth_error (EAStore.pop V s) i = Some l ->
  EAStore.rcd V (EAStore.step V dflt s (EAStore.ReplaceRecord V i)) = [length (EAStore.heap V s)] /\ ~ In (length (EAStore.heap V s)) (EAStore.pop V s) /\
  EAStore.rd V dflt (EAStore.heap V (EAStore.step V dflt s (EAStore.ReplaceRecord V i))) (length (EAStore.heap V s)) = EAStore.rd V dflt (EAStore.heap V s) l.
Proof. exact EAStoreProofs.replace_is_fresh. Qed.
Print Assumptions C01_replaced_record_is_fresh.

Theorem C01_store_wf_preserved : forall (V : Type) (dflt : V) (s : EAStore.st V) o, EAStore.wf V s -> EAStore.wf V (EAStore.step V dflt s o).
Proof. exact EAStoreProofs.step_wf. Qed.
Print Assumptions C01_store_wf_preserved.

(* non-vacuity: a 3-generation greedy run with a tie and a rejected trial; genotype = phenotype = Z,
   objective x |-> x, batches [3;1] then [1;5] then [5;0] *)
Example C01_nonvacuous :
  let var := fun st : state Z Z => if (gens st =? 1)%nat then [1; 5]%Z else [5; 0]%Z in
  let st := fit Z Z (fun g => g) (fun p => inject_Z p) Greedy true true None None var 3 [3; 1]%Z in
  option_map ifit (best st) = Some (5 # 1) /\ gens st = 3%nat /\ calls st = 6%nat /\
  map ifit (pop st) = [5 # 1; 5 # 1].
Proof. vm_compute. auto. Qed.
Print Assumptions C01_nonvacuous.

(* ------------------------------------------------------------------------------------------------
   THE TIE TO THE SOURCE for the record keeper.  gen/GenLoop.v is regenerated on every run from class TheFittest in
   base/_ea.py (harness/translate_loop.py: a class is a record of its fields, a method a function on that record;
   -inf is the extended rational NegInf of theories/Py.v).  The loop model's update_best IS TheFittest._update:
   for every record state, every non-empty population and fitness vector. *)
From TF Require Import Py CodeEqLoop.
From TFG Require Import GenLoop.

Theorem C01_code_update_best : forall (G P : Type) (dG : G) (dP : P) (tf : TheFittest G P) (p : list (indiv G P)),
  p <> [] -> tf_fitness G P tf <> PosInf -> (0 <= tf_no_update_counter G P tf)%Z ->
  let tf' := py_TheFittest__update G P dG dP tf (map ig p) (map iph p) (map ifit p) in
  update_best G P (abs_best G P tf) (Z.to_nat (tf_no_update_counter G P tf)) p
  = (abs_best G P tf', Z.to_nat (tf_no_update_counter G P tf')).
Proof. exact code_update_best. Qed.
Print Assumptions C01_code_update_best.

Theorem C01_code_get : forall (G P : Type) (tf : TheFittest G P) f, tf_fitness G P tf = Fin f ->
  py_TheFittest_get G P tf = (tf_genotype G P tf, tf_phenotype G P tf, Fin f) /\
  abs_best G P tf = Some {| ig := tf_genotype G P tf; iph := tf_phenotype G P tf; ifit := f |}.
Proof. exact code_get. Qed.
Print Assumptions C01_code_get.

(* ------------------------------------------------------------------------------------------------
   THE WHOLE RUN, tied to the source.  gen/GenLoop.v also holds the translations of _get_fitness, _update_fittest,
   _update_stats, _update_data, _from_population_g_to_fitness and fit (dynamic dispatch = a parameter; the joblib branch
   = an opaque parameter that n_jobs <= 1 never reaches).  theories/CodeEqStep.v proves that the loop model SIMULATES the
   generated run of the generational family (GA, SelfCGA, PDPGA, GP, SelfCGP, PDPGP: the base class's generation step)
   on every field the code keeps (sim: population triples, record, stagnation counter, call counter, history, callback
   count), for every objective, genotype_to_phenotype, variation oracle, budget and stopping rule.  The C01 statement then
   reads on the generated run itself. *)
From TF Require Import CodeEqStep.

Theorem C01_code_step : forall (G P : Type) (dG : G) (dP : P) (g2p : G -> P) (f : P -> Q) par_value
    (self : EvolutionaryAlgorithm G P) (st : state G P) (gs : list G) (first : bool),
  sim G P dG dP self st -> gs <> [] -> (ea_n_jobs G P self <= 1)%Z ->
  sim G P dG dP (from_pop G P dG dP g2p f par_value (set_pop_g G P self gs))
      (step G P g2p (nf_of G P f self) Generational (ea_elitism G P self) (ea_keep_history G P self) first st gs).
Proof. exact code_step. Qed.
Print Assumptions C01_code_step.

Theorem C01_code_fit : forall (G P : Type) (dG : G) (dP : P) (g2p : G -> P) (f : P -> Q) par_value
    (newpop : EvolutionaryAlgorithm G P -> list G) (var : state G P -> list G) (self0 : EvolutionaryAlgorithm G P) (gs0 : list G),
  sim G P dG dP self0 (init_state G P) -> gs0 <> [] ->
  (ea_n_jobs G P self0 <= 1)%Z -> ea_aim G P self0 <> NegInf -> fst (ea_on_generation G P self0) = true ->
  (forall n, ea_no_increase_num G P self0 = Some n -> (0 <= n)%Z) ->
  (forall s st, sim G P dG dP s st -> newpop s = var st) -> (forall st, var st <> []) ->
  sim G P dG dP
      (py_EvolutionaryAlgorithm_fit G P (fun s => set_pop_g G P s gs0) (fun s => set_pop_g G P s (newpop s))
                                    (from_pop G P dG dP g2p f par_value) self0)
      (fit G P g2p (nf_of G P f self0) Generational (ea_elitism G P self0) (ea_keep_history G P self0)
           (abs_aim (ea_aim G P self0)) (abs_nin (ea_no_increase_num G P self0)) var (Z.to_nat (ea_iters G P self0)) gs0).
Proof. exact code_fit. Qed.
Print Assumptions C01_code_fit.

(* the premise is satisfiable: the constructed object is in the simulation with the model's initial state *)
Theorem C01_code_init_sim : forall (G P : Type) (dG : G) (dP : P) iters pop_size minimization optimal err nin elitism keep_history n_jobs has_cb,
  sim G P dG dP (py_EvolutionaryAlgorithm_init G P dG dP iters pop_size minimization optimal err nin elitism keep_history n_jobs has_cb) (init_state G P).
Proof. exact init_sim. Qed.
Print Assumptions C01_code_init_sim.

(* C01 (and the budget of C03) on the generated run: the record after fit() is the maximum over everything the run
   evaluated, an evaluated triple; _calls is pop_size * generations; on_generation ran generations - 1 times *)
Theorem C01_src_fit : forall (G P : Type) (dG : G) (dP : P) (g2p : G -> P) (f : P -> Q) par_value
    (newpop : EvolutionaryAlgorithm G P -> list G) (var : state G P -> list G) (self0 : EvolutionaryAlgorithm G P) (gs0 : list G) (n : nat),
  sim G P dG dP self0 (init_state G P) -> (0 < n)%nat -> length gs0 = n -> (forall st, length (var st) = n) -> (1 <= ea_iters G P self0)%Z ->
  (ea_n_jobs G P self0 <= 1)%Z -> ea_aim G P self0 <> NegInf -> fst (ea_on_generation G P self0) = true ->
  (forall m, ea_no_increase_num G P self0 = Some m -> (0 <= m)%Z) ->
  (forall s st, sim G P dG dP s st -> newpop s = var st) ->
  let self := py_EvolutionaryAlgorithm_fit G P (fun s => set_pop_g G P s gs0) (fun s => set_pop_g G P s (newpop s))
                                           (from_pop G P dG dP g2p f par_value) self0 in
  let st := fit G P g2p (nf_of G P f self0) Generational (ea_elitism G P self0) (ea_keep_history G P self0)
                (abs_aim (ea_aim G P self0)) (abs_nin (ea_no_increase_num G P self0)) var (Z.to_nat (ea_iters G P self0)) gs0 in
  (exists b, abs_best G P (ea_thefittest G P self) = Some b /\ In b (evaluated st) /\
             Forall (fun e => (ifit e <= ifit b)%Q) (evaluated st) /\ iph b = g2p (ig b) /\ ifit b = nf_of G P f self0 (iph b)) /\
  ea_calls G P self = Z.of_nat (calls st) /\ (calls st = n * gens st)%nat /\
  (1 <= gens st <= Z.to_nat (ea_iters G P self0))%nat /\
  snd (ea_on_generation G P self) = Z.of_nat (gens st - 1).
Proof. exact src_fit_best_and_calls. Qed.
Print Assumptions C01_src_fit.
