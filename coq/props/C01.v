(* C01 — the reported best solution is the best individual ever evaluated.
   Model: theories/EALoop.v (both loop shapes, arbitrary variation oracle, arbitrary objective);
   proofs: theories/EALoopProofs.v. *)
From TF Require Import Base EALoop EALoopProofs.
Open Scope Q_scope.

(* after fit(): the record holds an individual that was handed to the objective, whose normalised
   fitness is the maximum over EVERY individual ever evaluated, whose phenotype is the
   genotype-to-phenotype image of its genotype and whose fitness is the objective of that phenotype.
   For all optimizers (k), elitism, history, stopping criteria, variation oracles, objectives nf. *)
Theorem C01_best_is_max :
  forall (G P : Type) (g2p : G -> P) (nf : P -> Q) (k : kind) (elitism keep_history : bool)
         (aim : option Q) (no_increase_num : option nat) (var : state G P -> list G) (n : nat),
  (0 < n)%nat -> (forall st, length (var st) = n) ->
  forall iters gs0, length gs0 = n ->
  let st := fit G P g2p nf k elitism keep_history aim no_increase_num var iters gs0 in
  exists b, best st = Some b /\ In b (evaluated st) /\
    Forall (fun e => ifit e <= ifit b) (evaluated st) /\
    iph b = g2p (ig b) /\ ifit b = nf (iph b).
Proof. exact best_is_max. Qed.
Print Assumptions C01_best_is_max.

(* the same holds at every generation boundary: the invariant of every reachable state *)
Theorem C01_invariant_every_generation :
  forall (G P : Type) (g2p : G -> P) (nf : P -> Q) (k : kind) (elitism keep_history : bool)
         (var : state G P -> list G) (n : nat),
  (0 < n)%nat -> (forall st, length (var st) = n) ->
  forall (first : bool) (st : state G P) (gs : list G), length gs = n ->
  (first = true /\ st = init_state G P \/ first = false /\ Inv G P g2p nf elitism keep_history n st) ->
  Inv G P g2p nf elitism keep_history n (step G P g2p nf k elitism keep_history first st gs).
Proof. exact step_inv. Qed.
Print Assumptions C01_invariant_every_generation.

(* what the invariant says (unfolded, so that the statement is visible here) *)
Theorem C01_invariant_meaning :
  forall (G P : Type) (g2p : G -> P) (nf : P -> Q) (elitism keep_history : bool) (n : nat) (st : state G P),
  Inv G P g2p nf elitism keep_history n st ->
  exists b, best st = Some b /\ In b (evaluated st) /\ Forall (fun e => ifit e <= ifit b) (evaluated st).
Proof. intros G P g2p nf e kh n st H. exact (proj1 (proj2 (proj2 H))). Qed.
Print Assumptions C01_invariant_meaning.

(* greedy loop, the non-obvious step: a rejected trial is dominated by a population member *)
Theorem C01_rejected_trials_dominated :
  forall (G P : Type) (ts ps : list (indiv G P)), (length ts <= length ps)%nat ->
  forall t, In t ts -> exists x, In x (greedy G P ts ps) /\ ifit t <= ifit x.
Proof. exact greedy_dominates. Qed.
Print Assumptions C01_rejected_trials_dominated.

(* non-vacuity: a 3-generation greedy run with a tie and a rejected trial; genotype = phenotype = Z,
   objective x |-> x, batches [3;1] then [1;5] then [5;0] *)
Example C01_nonvacuous :
  let var := fun st : state Z Z => if (gens st =? 1)%nat then [1; 5]%Z else [5; 0]%Z in
  let st := fit Z Z (fun g => g) (fun p => inject_Z p) Greedy true true None None var 3 [3; 1]%Z in
  option_map ifit (best st) = Some (5 # 1) /\ gens st = 3%nat /\ calls st = 6%nat /\
  map ifit (pop st) = [5 # 1; 5 # 1].
Proof. vm_compute. auto. Qed.
Print Assumptions C01_nonvacuous.
