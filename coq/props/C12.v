(* C12 — Net.forward computes the function its graph defines.
   Statements only; proofs are in theories/NetForwardProofs.v, NetForwardProofs2.v,
   NetForwardQc.v (and NetOrderProofs.v for the schedule).  Models: theories/Net.v, NetOrder.v,
   NetForward.v.

   The theorems are stated over abstract scalars K (weights) and node values V (the row of a node
   over all samples) with abstract activation functions  act code  (codes 0..4) and an abstract
   joint function  smx  (code 5, only its length is assumed), for EVERY  garbage  initial content
   of the np.empty node buffer.  Layered n (NetOrderProofs.v) = the id sets are disjoint, a rank
   (0 on inputs, layer index + 1 on hidden, last on outputs) strictly increases along every
   connection row, every hidden and output node has an incoming row, activation codes exactly on
   the non-input nodes.  Duplicate rows are allowed (they add up).  sm_same n = all softmax
   nodes have the same sorted source tuple (what C13 proves for library-built nets).            *)
From TF Require Import Base Net NetAlgebra NetOrder NetForward NetProofs NetProofs2 NetOrderProofs
     NetForwardProofs NetForwardProofs2 C12Check NetForwardQc NetMLPProofs NetMLPProofs2.
From Coq Require Import Permutation Qcanon.
Local Open Scope nat_scope.

Section C12.
  Variables K V : Type.
  Variable kzero : K.
  Variable vzero : V.
  Variable vadd : V -> V -> V.
  Variable vscale : K -> V -> V.
  Variable act : nat -> V -> V.
  Variable smx : list V -> list V.
  Hypothesis smx_length : forall l, length (smx l) = length l.

  Notation net_forward := (NetForward.net_forward K V kzero vzero vadd vscale act smx).
  Notation ref_eval := (NetForward.ref_eval K V kzero vzero vadd vscale act smx).

  (* forward(X, W) with a batch of weight rows returns, for row r, exactly what a call with only
     that row returns — whatever the (reused) buffer held before: every non-input node is
     overwritten before it is read, inputs are never written *)
  Theorem C12_batch_rows_independent : forall n garbage1 garbage2 x ws r w out,
    Layered n -> length garbage1 = length garbage2 ->
    net_forward (order_fuel n) n garbage1 x ws = Some out -> nth_error ws r = Some w ->
    exists row, nth_error out r = Some row /\
                net_forward (order_fuel n) n garbage2 x [w] = Some [row].
  Proof. intros. eapply net_batch_rows_independent; eauto. Qed.

  (* results do not depend on earlier calls: the schedule is a function of the net, and whatever an
     earlier call (or np.empty) left in the buffer cannot be observed *)
  Theorem C12_history_independent : forall n garbage1 garbage2 x ws,
    Layered n -> length garbage1 = length garbage2 ->
    net_forward (order_fuel n) n garbage1 x ws = net_forward (order_fuel n) n garbage2 x ws.
  Proof. intros. apply net_garbage_independent; auto. Qed.

  (* output shape: one row per weight row, one value per output node (x samples, inside V) *)
  Theorem C12_forward_shape : forall fuel n garbage x ws out,
    net_forward fuel n garbage x ws = Some out ->
    length out = length ws /\ Forall (fun row => length row = length (n_out n)) out.
  Proof. intros. eapply forward_shape; eauto. Qed.

  Hypothesis vadd_comm : forall a b, vadd a b = vadd b a.
  Hypothesis vadd_assoc : forall a b c, vadd a (vadd b c) = vadd (vadd a b) c.

  (* the scheduled evaluation terminates and equals the schedule-independent reference evaluation
     (value of a node = activation of the weighted sum over its rows in connection-list order,
     duplicate rows adding up, softmax jointly over all code-5 nodes), for every weight row of
     the batch *)
  Theorem C12_forward_is_ref : forall n garbage x ws,
    Layered n -> sm_same n ->
    (forall v, In v (n_in n ++ hidden n ++ n_out n) -> v < length garbage) ->
    net_forward (order_fuel n) n garbage x ws = Some (map (fun w => ref_eval n w x) ws).
  Proof. intros. apply forward_is_ref; auto. Qed.

  (* permuting the connection rows together with their weights does not change the result *)
  Theorem C12_connection_order_irrelevant : forall n n' w w' garbage x,
    Layered n -> sm_same n ->
    n_in n' = n_in n -> n_hid n' = n_hid n -> n_out n' = n_out n -> n_act n' = n_act n ->
    length w = length (n_con n) -> length w' = length (n_con n') ->
    Permutation (combine (n_con n) w) (combine (n_con n') w') ->
    (forall v, In v (n_in n ++ hidden n ++ n_out n) -> v < length garbage) ->
    net_forward (order_fuel n') n' garbage x [w'] = net_forward (order_fuel n) n garbage x [w].
  Proof. intros. apply order_irrelevant; auto. Qed.
  (* consequently, for EVERY net the (repaired) MLP builder produces — any number of hidden layers,
     any sizes >= 1, offset on/off, hidden activation other than softmax — Net.forward equals the
     reference evaluation, with a buffer of n_inputs + sum(hidden) + n_outputs nodes *)
  Theorem C12_mlp_forward_is_ref : forall ni no hs act offset oact garbage x ws,
    1 <= ni -> 1 <= no -> Forall (fun h => 1 <= h) hs -> act <> 5 ->
    ni + list_sum hs + no <= length garbage ->
    exists r, define_net true ni no hs act offset oact = Some r /\
      net_forward (order_fuel r) r garbage x ws = Some (map (fun w => ref_eval r w x) ws).
  Proof.
    intros ni no hs a offset oact garbage x ws H1 H2 H3 H4 H5.
    destruct (mlp_premises ni no hs a offset oact H1 H2 H3 H4) as [r [E [L [S B]]]].
    exists r. split; auto. apply forward_is_ref; auto. intros v Hv. specialize (B v Hv). lia.
  Qed.
End C12.
Print Assumptions C12_mlp_forward_is_ref.
Print Assumptions C12_batch_rows_independent.
Print Assumptions C12_history_independent.
Print Assumptions C12_forward_shape.
Print Assumptions C12_forward_is_ref.
Print Assumptions C12_connection_order_irrelevant.

(* the premises hold for every decoded tree: Valid nets are Layered, and the decoder gives all
   outputs one source set, so a softmax output layer satisfies sm_same *)
Theorem C12_valid_is_layered : forall n, Valid n -> Layered n.
Proof. exact Valid_Layered. Qed.
Print Assumptions C12_valid_is_layered.

(* every decoded tree (C13_decode_valid gives Decoded) meets the premises, provided softmax occurs
   only on the output layer (hidden blocks draw their activation code from 0..4) *)
Theorem C12_decoded_premises : forall nv nout r,
  Decoded nv nout r -> (forall v, alookup v (n_act r) = Some 5 -> In v (n_out r)) ->
  Layered r /\ sm_same r.
Proof. exact decoded_premises. Qed.
Print Assumptions C12_decoded_premises.

(* the boolean premises evaluated by the correspondence on every library-built net are sound *)
Theorem C12_premises_b_sound : forall n, chk_premises n = true -> Layered n /\ sm_same n.
Proof.
  intros n H. unfold chk_premises in H. apply andb_true_iff in H. destruct H as [H1 H2].
  pose proof (layered_b_sound n H1) as L. split; auto.
  apply sm_same_b_sound; auto. apply (l_keys n L).
Qed.
Print Assumptions C12_premises_b_sound.

(* EVERY net built by the repaired MLP builder meets the premises of C12_forward_is_ref: any number
   of hidden layers, any sizes >= 1, n_inputs >= 1, n_outputs >= 1, offset on/off, any output
   activation, any hidden activation other than softmax (a softmax hidden layer next to another
   softmax layer would violate sm_same; the estimators' default and documented use is 0..4):
   Layered, all softmax nodes share one sorted source tuple, ids inside a buffer of
   n_inputs + sum(hidden) + n_outputs nodes *)
Theorem C12_mlp_premises : forall ni no hs act offset oact,
  1 <= ni -> 1 <= no -> Forall (fun h => 1 <= h) hs -> act <> 5 ->
  exists r, define_net true ni no hs act offset oact = Some r /\
    Layered r /\ sm_same r /\
    (forall v, In v (n_in r ++ hidden r ++ n_out r) -> v < ni + list_sum hs + no).
Proof. exact mlp_premises. Qed.
Print Assumptions C12_mlp_premises.

(* SUPERSEDED by C12_mlp_premises (kept as a regression of the boolean checker): bounded sweep — hidden
   tuples of <= 3 layers with sizes 1..3, n_inputs 1..4, n_outputs 1..3, offset on/off *)
Theorem C12_mlp_premises_sweep_3layers_size3_in4_out3 : mlp_premises_sweep = true.
Proof. exact mlp_premises_sweep_3layers_size3_in4_out3. Qed.
Print Assumptions C12_mlp_premises_sweep_3layers_size3_in4_out3.

(* the instance evaluated by the correspondence (K = V = Qc, ReLU / identity) *)
Theorem C12_forward_is_ref_Qc : forall n garbage x ws,
  Layered n -> sm_same n ->
  (forall v, In v (n_in n ++ hidden n ++ n_out n) -> v < length garbage) ->
  fwd_qc (order_fuel n) n garbage x ws = Some (map (fun w => ref_qc n w x) ws).
Proof. exact forward_is_ref_qc. Qed.
Print Assumptions C12_forward_is_ref_Qc.

(* softmax_numba with an exponential that is only assumed positive: entries >= 0, sum to 1 *)
Theorem C12_softmax_normalised : forall (exp : Q -> Q), (forall x, (0 < exp x)%Q) ->
  forall l, l <> [] ->
  Forall (fun y => (0 <= y)%Q) (softmax_q exp l) /\ (qsum (softmax_q exp l) == 1)%Q.
Proof. exact softmax_normalised. Qed.
Print Assumptions C12_softmax_normalised.

(* DESIGN §7 item 14 (known finding, hand-built nets only): without sm_same the claim is false —
   on inputs {0,1}, softmax outputs {2,3}, rows 0->2, 1->3 the scheduled pass normalises each
   output separately *)
Theorem C12_softmax_split_refuted :
  Valid net14 /\ ~ sm_same net14 /\
  exists x w garbage,
    NetForward.net_forward Qc Qc (Q2Qc 0) (Q2Qc 0) Qcplus Qcmult act_qc norm_qc
                           (order_fuel net14) net14 garbage x [w]
    <> Some [NetForward.ref_eval Qc Qc (Q2Qc 0) (Q2Qc 0) Qcplus Qcmult act_qc norm_qc net14 w x].
Proof. exact softmax_split_refuted. Qed.
Print Assumptions C12_softmax_split_refuted.

(* non-vacuity: test_net's 6-node ReLU net with a duplicated row and a skip connection is Layered
   and sm_same, and the model evaluates it *)
Example C12_nonvacuous :
  let n := mkNet [0; 1] [[2; 3]; [4]] [5] [(0, 2); (1, 3); (2, 4); (3, 4); (4, 5); (0, 5); (0, 2)] 7
                 [(2, 1); (3, 1); (4, 1); (5, 4)] in
  Layered n /\ sm_same n /\
  (exists out, fwd_qc (order_fuel n) n (repeat (Q2Qc 777) 6) [Q2Qc 1; Q2Qc 2]
                      [[Q2Qc 1; Q2Qc 1; Q2Qc 1; Q2Qc 1; Q2Qc 1; Q2Qc 1; Q2Qc 1]] = Some [out] /\
               map this out = [(5 # 1)%Q]).
Proof.
  cbv zeta. split; [|split].
  - constructor.
    + apply nodupb_NoDup. vm_compute. reflexivity.
    + exists (rank_of (mkNet [0; 1] [[2; 3]; [4]] [5] [(0, 2); (1, 3); (2, 4); (3, 4); (4, 5); (0, 5); (0, 2)] 7
                             [(2, 1); (3, 1); (4, 1); (5, 4)])).
      unfold rank_ok. simpl. repeat split; intros;
        repeat match goal with
               | H : _ \/ _ |- _ => destruct H
               | H : False |- _ => destruct H
               | H : (_, _) = (_, _) |- _ => inversion H; subst; clear H
               | H : nth_error _ ?i = Some _ |- _ => (destruct i as [|[|[|?]]]; simpl in H; inversion H; subst; clear H)
               | H : In _ (_ :: _) |- _ => simpl in H
               | H : In _ [] |- _ => destruct H
               end; subst; try (vm_compute; lia); try (simpl; tauto); try discriminate.
    + simpl. intros v [[H|[H|[H|[]]]]|[H|[]]]; subst; eauto 10.
    + apply nodupb_NoDup. vm_compute. reflexivity.
    + simpl. intro v. tauto.
  - intros u v Hu Hv. exfalso. simpl in Hu.
    repeat (destruct (u =? _) in Hu; try discriminate).
  - eexists. split; [vm_compute; reflexivity|]. vm_compute. reflexivity.
Qed.
Print Assumptions C12_nonvacuous.
