#!/bin/bash
# runall.sh [tier] [seed] [jobs]: run every check, report exit codes (development helper; not registered in MANIFEST)
tier=${1:-quick}; seed=${2:-0}; jobs=${3:-4}
cd "$(dirname "$0")"; mkdir -p .scratch/runall
ids=$(python3 -c "import json;print(' '.join(c['property_id'] for c in json.load(open('MANIFEST.json'))['checks']))")
export VERIF_SEED=$seed
echo $ids | tr ' ' '\n' | xargs -P $jobs -I{} bash -c "/usr/bin/time -f '{} %e s' ./check {} --tier $tier > .scratch/runall/{}_${tier}_$seed.log 2>&1; echo \"{} exit=\$? \$(tail -1 .scratch/runall/{}_${tier}_$seed.log)\""
