"""Normalised-AST fingerprints of the source files each property is anchored in (properties.jsonl anchors.files).
Used only to ESCALATE: when an anchor file differs from the pinned fingerprint (the tree the models were written
against), the quick tier of that property runs with the thorough-tier budgets.  Never raises an alarm by itself.
    python harness/fingerprints.py --pin      re-pin to /repo's current tree (done after every fix: commit)"""
from __future__ import annotations

import ast
import hashlib
import json
import os
import sys

sys.path.insert(0, os.path.dirname(os.path.abspath(__file__)))
import common as C

PIN = os.path.join(C.VERIF, "harness", "fingerprints.json")


def _strip_docstrings(tree):
    for n in ast.walk(tree):
        if isinstance(n, (ast.FunctionDef, ast.ClassDef, ast.AsyncFunctionDef, ast.Module)):
            if n.body and isinstance(n.body[0], ast.Expr) and isinstance(getattr(n.body[0], "value", None), ast.Constant) \
                    and isinstance(n.body[0].value.value, str):
                n.body = n.body[1:] or [ast.Pass()]
    return tree


def file_fp(path):
    try:
        tree = _strip_docstrings(ast.parse(open(path).read()))
    except (OSError, SyntaxError) as e:
        return "unreadable:" + type(e).__name__
    return hashlib.sha256(ast.dump(tree, include_attributes=False).encode()).hexdigest()[:16]


def anchors():
    out = {}
    for l in open(os.path.join(C.VERIF, "properties.jsonl")):
        p = json.loads(l)
        out[p["id"]] = p["anchors"]["files"]
    return out


def current(pid):
    return {f: file_fp(os.path.join(C.REPO, f)) for f in anchors()[pid]}


def changed(pid):
    """anchor files of the property whose fingerprint differs from the pinned one"""
    if not os.path.exists(PIN):
        return []
    pinned = json.load(open(PIN))
    cur = current(pid)
    return sorted(f for f, h in cur.items() if pinned.get(f) != h)


if __name__ == "__main__":
    if "--pin" in sys.argv:
        files = sorted({f for fs in anchors().values() for f in fs})
        json.dump({f: file_fp(os.path.join(C.REPO, f)) for f in files}, open(PIN, "w"), indent=1)
        print("pinned", len(files), "files")
    else:
        for pid in anchors():
            print(pid, changed(pid))
