"""(T) table translator for C20: write/read footprints of the benchmark problem classes.

Reads  /repo/src/thefittest/benchmarks/_optproblems.py  (and the problems_dict literal of CEC2005.py)
with the Python `ast` module only — nothing is imported or executed — and abstractly interprets,
for every concrete problem class, `__init__` and `__call__(x)` (following self.method / super() /
nested instance calls through the C3 MRO), tracking which numpy values are *views* of
  ('G', name)        a module-level data table (np.loadtxt result bound at module level),
  ('A', 'x')         the argument of __call__,
  ('O', 'Cls.attr')  an array freshly created in a constructor and kept on the instance,
and which are fresh copies.  It records every subscript assignment / augmented assignment /
`out=` through such a view (with the slice as a symbolic expression in D = x.shape[1]) and every
place where a view is consumed by arithmetic (reads).  `self.<attr>` aliases of module tables are
resolved because the constructors are interpreted (x_shift=o_206  =>  o_206 = schwefel_206_data[0]).

FAIL-CLOSED: any statement / expression / numpy function / index shape that is not understood
raises TieBroken naming the source line; over-approximation is only ever used for READS (larger
read set = stronger obligation) and turns a WRITE into an "opaque may-write" (which the Coq
condition rejects as soon as somebody reads the cells).  A syntactic sweep afterwards checks that
every store site of the file was reached by the interpretation (or is the local  z[i] = ...  of
build_grid)."""
from __future__ import annotations

import ast
import os
from fractions import Fraction

SRC_DEFAULT = "/repo/src/thefittest/benchmarks/_optproblems.py"
CEC_DEFAULT = "/repo/src/thefittest/benchmarks/CEC2005.py"
ABSTRACT = {"TestFunction", "TestShiftedFunction", "TestShiftedRotatedFunction", "SampleHybridCompositionFunction"}
DIMS = (2, 10, 30, 50)


class TieBroken(Exception):
    pass


class Unresolved(TieBroken):
    pass


def fail(node, msg):
    raise TieBroken(f"_optproblems.py:{getattr(node, 'lineno', '?')}: {msg}")


# ------------------------------------------------------------------ symbolic integers in D
def C(n):
    return ("c", Fraction(n))


D_SYM = ("D",)
FULL = ("s", C(0), None, 1)


def s_bin(op, a, b):
    if a is None or b is None:
        return None
    if a[0] == "c" and b[0] == "c":
        x, y = a[1], b[1]
        if op == "add":
            return C(x + y)
        if op == "sub":
            return C(x - y)
        if op == "mul":
            return C(x * y)
        if op == "div":
            return C(x / y) if y != 0 else None
    if op == "div":
        if b[0] == "c" and b[1] > 0 and b[1].denominator == 1:
            return ("div", a, int(b[1]))
        return None
    return (op, a, b)


def s_round(kind, a):
    """floor/ceil of a symbolic value"""
    if a is None:
        return None
    if a[0] == "c":
        import math
        return C(math.floor(a[1]) if kind == "floor" else math.ceil(a[1]))
    if a[0] == "div":
        return (kind, a[1], a[2])
    if a[0] in ("D", "floor", "ceil"):
        return a
    if a[0] in ("add", "sub", "mul"):   # integer-valued iff operands are; only accept those
        if s_is_int(a):
            return a
    return None


def s_is_int(a):
    if a is None:
        return False
    if a[0] == "c":
        return a[1].denominator == 1
    if a[0] in ("D", "floor", "ceil"):
        return True
    if a[0] in ("add", "sub", "mul"):
        return s_is_int(a[1]) and s_is_int(a[2])
    return False


def s_eval(a, D):
    k = a[0]
    if k == "c":
        return a[1]
    if k == "D":
        return Fraction(D)
    if k in ("add", "sub", "mul"):
        x, y = s_eval(a[1], D), s_eval(a[2], D)
        return x + y if k == "add" else x - y if k == "sub" else x * y
    import math
    if k == "floor":
        return Fraction(math.floor(s_eval(a[1], D) / a[2]))
    if k == "ceil":
        return Fraction(math.ceil(s_eval(a[1], D) / a[2]))
    raise ValueError(a)


def s_uses_D(a):
    if a is None or a[0] == "c":
        return False
    if a[0] == "D":
        return True
    return any(s_uses_D(t) for t in a[1:] if isinstance(t, tuple))


def s_coq(a):
    k = a[0]
    if k == "c":
        assert a[1].denominator == 1
        n = int(a[1])
        return f"DC ({n})" if n < 0 else f"DC {n}"
    if k == "D":
        return "DD"
    if k in ("add", "sub", "mul"):
        return f"D{k.capitalize()} ({s_coq(a[1])}) ({s_coq(a[2])})"
    if k == "floor":
        return f"DFloor ({s_coq(a[1])}) {a[2]}"
    if k == "ceil":
        return f"DCeil ({s_coq(a[1])}) {a[2]}"
    raise ValueError(a)


# ------------------------------------------------------------------ abstract values
class VInt:          # numeric scalar; sym None = unknown
    def __init__(self, sym=None):
        self.sym = sym


class VArr:          # places: frozenset of (root, chain, exact, frozen)
    def __init__(self, places=frozenset(), cols=None):
        self.places, self.cols = frozenset(places), cols


class VShape:
    def __init__(self, cols):
        self.cols = cols


class VSeq:
    def __init__(self, elem):
        self.elem = elem


class VTup:
    def __init__(self, items):
        self.items = list(items)


class VCls:
    def __init__(self, name):
        self.name = name


class Obj:
    def __init__(self, cls):
        self.cls, self.attrs, self.constructing = cls, {}, False


class VInst:
    def __init__(self, obj):
        self.obj = obj


class VBound:
    def __init__(self, obj, cls_def, fn):
        self.obj, self.cls_def, self.fn = obj, cls_def, fn


class VSuper:
    def __init__(self, obj, after):
        self.obj, self.after = obj, after


class VFunc:
    def __init__(self, kind, name):
        self.kind, self.name = kind, name


class VMod:
    def __init__(self, path):
        self.path = path


class VOther:        # str, None, range objects, lists of ints ... (cannot alias an array)
    pass


class VUnion:
    def __init__(self, members):
        self.members = members


def members(v):
    return v.members if isinstance(v, VUnion) else [v]


def join(a, b):
    if a is None:
        return b
    if b is None:
        return a
    if a is b:
        return a
    if isinstance(a, VArr) and isinstance(b, VArr):
        return VArr(a.places | b.places, a.cols if a.cols == b.cols else None)
    if isinstance(a, VInt) and isinstance(b, VInt):
        return VInt(a.sym if a.sym == b.sym else None)
    if isinstance(a, VOther) and isinstance(b, VOther):
        return a
    if isinstance(a, VCls) and isinstance(b, VCls) and a.name == b.name:
        return a
    if isinstance(a, VSeq) and isinstance(b, VSeq):
        return VSeq(join(a.elem, b.elem))
    ms = []
    for m in members(a) + members(b):
        for i, o in enumerate(ms):
            if o is m or (isinstance(o, VCls) and isinstance(m, VCls) and o.name == m.name):
                break
            if type(o) is type(m) and isinstance(m, (VArr, VInt, VOther, VSeq)):
                ms[i] = join(o, m)
                break
        else:
            ms.append(m)
    return ms[0] if len(ms) == 1 else VUnion(ms)


def join_all(vs):
    r = None
    for v in vs:
        r = join(r, v)
    return r if r is not None else VOther()


NP_FRESH = {  # numpy callables that return new arrays / scalars and do not keep views of arguments
    "sum", "abs", "round", "exp", "sqrt", "cos", "sin", "max", "min", "prod", "arange", "kron", "insert",
    "append", "array", "full", "zeros", "ones", "eye", "vstack", "concatenate", "add.accumulate", "loadtxt",
    "floor", "ceil", "int64", "float64", "random.normal", "mean", "power", "log", "tan", "cumsum",
}
NP_CONST = {"pi", "newaxis", "e", "inf"}
ARR_VIEW_METHODS = {"reshape", "ravel", "view", "squeeze", "transpose", "swapaxes"}
ARR_FRESH_METHODS = {"copy", "astype", "sum", "max", "min", "mean", "prod", "flatten", "tolist", "dot", "all", "any",
                     "argmax", "argmin", "round", "cumsum", "std", "var", "clip", "conj", "nonzero", "repeat"}
ARR_INPLACE_METHODS = {"sort", "fill", "put", "partition", "resize", "itemset", "setfield", "byteswap", "setflags",
                       "__setitem__", "__iadd__", "__imul__"}


class Ctx:
    """effects of one entry (class): phase 'ctor' or 'call'"""

    def __init__(self):
        self.phase = "ctor"
        self.writes = []      # (phase, root, chain, exact, value(Fraction|None), line)
        self.reads = []       # (phase, root, chain)
        self.noisy = {"ctor": False, "call": False}
        self.visited_stores = set()

    def write(self, node, place, value):
        root, chain, exact, frozen = place
        if frozen:
            fail(node, "write through a reshaped/transposed view of a tracked array (index not translatable)")
        rec = (self.phase, root, chain, bool(exact), value if exact else None, node.lineno)
        if rec not in self.writes:
            self.writes.append(rec)

    def read(self, place):
        root, chain, exact, frozen = place
        rec = (self.phase, root, chain)
        if rec not in self.reads:
            self.reads.append(rec)


class Translator:
    def __init__(self, src_path=SRC_DEFAULT, cec_path=CEC_DEFAULT):
        self.src_path, self.cec_path = src_path, cec_path
        self.tree = ast.parse(open(src_path).read())
        self.classes = {}     # name -> ClassDef
        self.bases = {}
        self.funcs = {}       # module-level functions
        self.genv = {}        # module-level environment
        self.groots = []      # module-level table roots in order
        self._module()

    # ---------------------------------------------------------------- module level
    def _module(self):
        ctx = Ctx()
        ctx.phase = "module"
        fr = dict(ctx=ctx, obj=None, cls_def=None, depth=0, returns=[], module=True)
        for st in self.tree.body:
            if isinstance(st, (ast.Import, ast.ImportFrom)):
                for al in st.names:
                    nm = al.asname or al.name
                    if isinstance(st, ast.Import) and al.name == "numpy":
                        self.genv[nm] = VMod("np")
                    else:
                        self.genv[nm] = VOther()
            elif isinstance(st, ast.ClassDef):
                bs = []
                for b in st.bases:
                    if not isinstance(b, ast.Name) or b.id not in self.classes:
                        fail(st, f"class {st.name}: base class expression not understood")
                    bs.append(b.id)
                if st.keywords or st.decorator_list:
                    fail(st, "class with keywords/decorators")
                self.classes[st.name] = st
                self.bases[st.name] = bs
                self.genv[st.name] = VCls(st.name)
                for it in st.body:
                    if isinstance(it, ast.FunctionDef):
                        if it.decorator_list:
                            fail(it, "decorated method")
                    elif isinstance(it, ast.Expr) and isinstance(it.value, ast.Constant):
                        pass
                    else:
                        fail(it, "class body statement other than a method definition")
            elif isinstance(st, ast.FunctionDef):
                self.funcs[st.name] = st
                self.genv[st.name] = VFunc("mod", st.name)
            elif isinstance(st, ast.Assign) and len(st.targets) == 1 and isinstance(st.targets[0], ast.Name):
                nm = st.targets[0].id
                v = self.ev(st.value, self.genv, fr)
                if isinstance(v, VArr) and not v.places:
                    self.groots.append(nm)
                    v = VArr({(("G", nm), (), True, False)})
                self.genv[nm] = v
            elif isinstance(st, ast.Expr) and isinstance(st.value, ast.Constant):
                pass
            else:
                fail(st, "module-level statement not understood")
        if ctx.writes:
            fail(self.tree.body[0], f"module-level code writes into tables: {ctx.writes}")

    def mro(self, name):
        def merge(seqs):
            res = []
            seqs = [list(s) for s in seqs if s]
            while seqs:
                for s in seqs:
                    h = s[0]
                    if not any(h in t[1:] for t in seqs):
                        break
                else:
                    raise TieBroken(f"inconsistent MRO for {name}")
                res.append(h)
                seqs = [[x for x in t if x != h] for t in seqs]
                seqs = [t for t in seqs if t]
            return res
        bs = self.bases[name]
        return [name] + merge([self.mro(b) for b in bs] + [list(bs)])

    def find_method(self, cls, name, after=None):
        m = self.mro(cls)
        if after is not None:
            m = m[m.index(after) + 1:]
        for c in m:
            for it in self.classes[c].body:
                if isinstance(it, ast.FunctionDef) and it.name == name:
                    return c, it
        return None, None

    # ---------------------------------------------------------------- index handling
    def index_items(self, sl, env, fr):
        """-> list of ('int', sym) | ('slice', lo, hi, step) | ('adv',) | ('new',)"""
        nodes = sl.elts if isinstance(sl, ast.Tuple) else [sl]
        out = []
        for n in nodes:
            if isinstance(n, ast.Slice):
                def b(x):
                    if x is None:
                        return None, True
                    v = self.ev(x, env, fr)
                    if isinstance(v, VInt):
                        return v.sym, v.sym is not None and s_is_int(v.sym)
                    return None, False      # e.g.  a[np.newaxis :,]  -> treated as an unknown selector
                lo, ok1 = b(n.lower)
                hi, ok2 = b(n.upper)
                st, ok3 = b(n.step)
                if n.step is not None and not (ok3 and st[0] == "c" and st[1] >= 1):
                    out.append(("unk",))
                    continue
                if not (ok1 and ok2):
                    out.append(("unk",))
                    continue
                neg = any(t is not None and t[0] == "c" and t[1] < 0 for t in (lo, hi))
                if neg:
                    out.append(("unk",))
                    continue
                out.append(("slice", lo if lo is not None else C(0), hi, int(st[1]) if st is not None else 1))
            else:
                if isinstance(n, ast.Constant) and n.value is None:
                    out.append(("new",))
                    continue
                if isinstance(n, ast.Constant) and n.value is Ellipsis:
                    out.append(("unk",))
                    continue
                v = self.ev(n, env, fr)
                if isinstance(v, VInt):
                    if v.sym is not None and s_is_int(v.sym) and not (v.sym[0] == "c" and v.sym[1] < 0):
                        out.append(("int", v.sym))
                    else:
                        out.append(("int", None))
                elif isinstance(v, VOther) and isinstance(n, ast.Attribute) and n.attr == "newaxis":
                    out.append(("new",))
                elif isinstance(v, (VArr, VSeq, VTup)):
                    self.consume(v, fr)
                    out.append(("adv",))
                else:
                    fail(n, "index expression not understood")
        return out

    @staticmethod
    def apply_index(place, items):
        """numpy basic indexing on a view: returns (place', advanced?)"""
        root, chain, exact, frozen = place
        if any(it[0] == "adv" for it in items):
            # advanced (mask / integer-array) index: selects an unknown subset of the current view
            return (root, chain, False, frozen), True
        if frozen:
            return (root, chain, False, True), False
        if any(it[0] == "new" for it in items):
            return (root, chain, False, True), False
        ch = list(chain)
        live = [k for k, s in enumerate(ch) if s[0] in ("s", "all")]
        for k, it in enumerate(items):
            pos = live[k] if k < len(live) else None
            cur = ch[pos] if pos is not None else FULL
            if it[0] == "unk":
                new = ("all",)
                exact = False
            elif it[0] == "int":
                if it[1] is None or cur[0] == "all":
                    new = ("allc",)
                    exact = False
                elif cur == FULL:
                    new = ("i", it[1])
                elif cur[0] == "s" and cur[3] == 1:
                    new = ("i", s_bin("add", cur[1], it[1]))
                    if cur[2] is not None:
                        exact = False      # bound not checked
                else:
                    new = ("allc",)
                    exact = False
            else:  # slice
                _, lo, hi, st = it
                if cur == FULL:
                    new = ("s", lo, hi, st)
                elif cur[0] == "s" and cur[3] == 1 and cur[2] is None:
                    new = ("s", s_bin("add", cur[1], lo), s_bin("add", cur[1], hi) if hi is not None else None, st)
                elif lo == C(0) and hi is None and st == 1:
                    new = cur
                else:
                    new = ("all",)
                    exact = False
            if pos is not None:
                ch[pos] = new
            else:
                ch.append(new)
        return (root, tuple(ch), exact, False), False

    # ---------------------------------------------------------------- reads
    def consume(self, v, fr):
        if isinstance(v, VArr):
            for p in v.places:
                fr["ctx"].read(p)
        elif isinstance(v, VSeq):
            if v.elem is not None:
                self.consume(v.elem, fr)
        elif isinstance(v, VTup):
            for i in v.items:
                self.consume(i, fr)
        elif isinstance(v, VUnion):
            for m in v.members:
                self.consume(m, fr)

    # ---------------------------------------------------------------- expressions
    def ev(self, n, env, fr):
        if isinstance(n, ast.Constant):
            if isinstance(n.value, bool) or n.value is None or isinstance(n.value, (str, bytes)) or n.value is Ellipsis:
                return VOther()
            if isinstance(n.value, int):
                return VInt(C(n.value))
            if isinstance(n.value, float):
                return VInt(C(Fraction(*n.value.as_integer_ratio())))
            fail(n, "constant not understood")
        if isinstance(n, ast.Name):
            if n.id in env:
                return env[n.id]
            if n.id in self.genv:
                return self.genv[n.id]
            if n.id in ("range", "len", "int", "float", "zip", "enumerate", "tuple", "list", "super", "abs", "max", "min",
                        "sum", "print", "isinstance"):
                return VFunc("builtin", n.id)
            if n.id == "__file__":
                return VOther()
            fail(n, f"unbound name {n.id}")
        if isinstance(n, ast.Attribute):
            return self.ev_attr(n, env, fr)
        if isinstance(n, ast.Subscript):
            base = self.ev(n.value, env, fr)
            return self.ev_subscript(n, base, env, fr)
        if isinstance(n, ast.BinOp):
            a, b = self.ev(n.left, env, fr), self.ev(n.right, env, fr)
            return self.binop(n, n.op, a, b, fr)
        if isinstance(n, ast.UnaryOp):
            a = self.ev(n.operand, env, fr)
            if isinstance(a, VInt):
                if isinstance(n.op, ast.USub):
                    return VInt(s_bin("sub", C(0), a.sym))
                if isinstance(n.op, ast.UAdd):
                    return a
                return VInt(None)
            self.consume(a, fr)
            if isinstance(a, VArr):
                return VArr(cols=a.cols)
            return VOther()
        if isinstance(n, ast.Compare):
            vs = [self.ev(n.left, env, fr)] + [self.ev(c, env, fr) for c in n.comparators]
            for v in vs:
                self.consume(v, fr)
            if any(isinstance(v, VArr) for v in vs):
                return VArr(cols=next((v.cols for v in vs if isinstance(v, VArr)), None))
            return VInt(None)
        if isinstance(n, ast.BoolOp):
            return join_all([self.ev(v, env, fr) for v in n.values])
        if isinstance(n, ast.IfExp):
            self.ev(n.test, env, fr)
            return join(self.ev(n.body, env, fr), self.ev(n.orelse, env, fr))
        if isinstance(n, ast.Tuple):
            return VTup([self.ev(e, env, fr) for e in n.elts])
        if isinstance(n, ast.List):
            if any(isinstance(e, ast.Starred) for e in n.elts):
                fail(n, "starred list")
            return VSeq(join_all([self.ev(e, env, fr) for e in n.elts]) if n.elts else None)
        if isinstance(n, (ast.ListComp, ast.GeneratorExp)):
            e2 = dict(env)
            for g in n.generators:
                if g.is_async:
                    fail(n, "async comprehension")
                it = self.ev(g.iter, e2, fr)
                self.bind(g.target, self.iter_elem(g.iter, it, fr), e2, fr)
                for c in g.ifs:
                    self.ev(c, e2, fr)
            return VSeq(self.ev(n.elt, e2, fr))
        if isinstance(n, ast.Call):
            return self.ev_call(n, env, fr)
        if isinstance(n, ast.JoinedStr):
            return VOther()
        fail(n, f"expression {type(n).__name__} not understood")

    def binop(self, n, op, a, b, fr):
        if isinstance(a, VInt) and isinstance(b, VInt):
            k = {ast.Add: "add", ast.Sub: "sub", ast.Mult: "mul", ast.Div: "div"}.get(type(op))
            return VInt(s_bin(k, a.sym, b.sym) if k else None)
        self.consume(a, fr)
        self.consume(b, fr)
        arrs = [v for v in (a, b) if isinstance(v, VArr) or (isinstance(v, VUnion) and any(isinstance(m, VArr) for m in v.members))]
        if arrs:
            if isinstance(op, ast.MatMult):
                return VArr()
            cols = None
            for v in (a, b):
                if isinstance(v, VArr) and v.cols is not None:
                    cols = v.cols
            return VArr(cols=cols)
        if isinstance(a, (VSeq, VTup, VOther, VInt, VUnion)) and isinstance(b, (VSeq, VTup, VOther, VInt, VUnion)):
            # list arithmetic ([1] * k + [-1]), string concatenation: cannot alias tracked arrays
            # unless it carries array elements
            for v in (a, b):
                if isinstance(v, VSeq) and isinstance(v.elem, VArr) and v.elem.places:
                    fail(n, "list arithmetic on a list of array views")
            return VOther()
        fail(n, "binary operation on values not understood")

    def ev_attr(self, n, env, fr):
        base = self.ev(n.value, env, fr)
        res = []
        for b in members(base):
            res.append(self.attr_of(n, b, n.attr, fr))
        return join_all(res)

    def attr_of(self, n, b, attr, fr):
        if isinstance(b, VMod):
            path = b.path + "." + attr
            short = path[3:]
            if path in ("np.random", "np.add", "np.linalg"):
                return VMod(path)
            if short in NP_CONST:
                return VInt(None) if short != "newaxis" else VOther()
            return VFunc("np", short)
        if isinstance(b, VInst):
            if attr in b.obj.attrs:
                return b.obj.attrs[attr]
            c, fn = self.find_method(b.obj.cls, attr)
            if fn is None:
                raise Unresolved(f"_optproblems.py:{n.lineno}: attribute {attr} of {b.obj.cls} instance not resolved")
            return VBound(b.obj, c, fn)
        if isinstance(b, VSuper):
            c, fn = self.find_method(b.obj.cls, attr, after=b.after)
            if fn is None:
                raise Unresolved(f"_optproblems.py:{n.lineno}: super().{attr} not resolved for {b.obj.cls}")
            return VBound(b.obj, c, fn)
        if isinstance(b, VCls):
            c, fn = self.find_method(b.name, attr)
            if fn is None:
                fail(n, f"class attribute {b.name}.{attr} not resolved")
            return VFunc("unbound", (c, fn))
        if isinstance(b, VArr):
            if attr == "shape":
                return VShape(b.cols)
            if attr == "T":
                return VArr({(r, c, False, True) for (r, c, e, f) in b.places})
            if attr in ("size", "ndim"):
                return VInt(None)
            if attr == "dtype":
                return VOther()
            return VFunc("arrmeth", (b, attr))
        if isinstance(b, VInt):
            return VFunc("scalmeth", (b, attr))
        if isinstance(b, VOther):
            return VOther()      # os.path.dirname etc.; cannot produce arrays we track
        fail(n, f"attribute {attr} on a value not understood")

    def ev_subscript(self, n, base, env, fr):
        res = []
        for b in members(base):
            if isinstance(b, VShape):
                v = self.ev(n.slice, env, fr)
                if isinstance(v, VInt) and v.sym in (C(1), C(-1)):
                    res.append(VInt(b.cols))
                else:
                    res.append(VInt(None))
            elif isinstance(b, VArr):
                items = self.index_items(n.slice, env, fr)
                if any(it[0] == "adv" for it in items):
                    self.consume(b, fr)
                    res.append(VArr())
                    continue
                places = set()
                for p in b.places:
                    p2, _ = self.apply_index(p, items)
                    places.add(p2)
                res.append(VArr(places, None))
            elif isinstance(b, VTup):
                v = self.ev(n.slice, env, fr)
                if isinstance(v, VInt) and v.sym is not None and v.sym[0] == "c" and 0 <= v.sym[1] < len(b.items):
                    res.append(b.items[int(v.sym[1])])
                else:
                    res.append(join_all(b.items))
            elif isinstance(b, VSeq):
                self.ev(n.slice, env, fr) if not isinstance(n.slice, ast.Slice) else None
                res.append(b if isinstance(n.slice, ast.Slice) else (b.elem if b.elem is not None else VOther()))
            elif isinstance(b, (VOther, VInt)):
                res.append(VOther())
            else:
                fail(n, "subscript of a value not understood")
        return join_all(res)

    def iter_elem(self, node, it, fr):
        res = []
        for v in members(it):
            if isinstance(v, VSeq):
                res.append(v.elem if v.elem is not None else VOther())
            elif isinstance(v, VTup):
                res.append(join_all(v.items))
            elif isinstance(v, VArr):
                places = set()
                for p in v.places:
                    p2, _ = self.apply_index(p, [("int", None)])
                    places.add(p2)
                res.append(VArr(places))
            elif isinstance(v, VOther):
                res.append(VInt(None))       # range(...)
            else:
                fail(node, "iteration over a value not understood")
        return join_all(res)

    # ---------------------------------------------------------------- calls
    def ev_call(self, n, env, fr):
        f = self.ev(n.func, env, fr)
        args = []
        for a in n.args:
            if isinstance(a, ast.Starred):
                v = self.ev(a.value, env, fr)
                args.append(("*", v))
            else:
                args.append(self.ev(a, env, fr))
        kwargs = {}
        for k in n.keywords:
            if k.arg is None:
                fail(n, "**kwargs call")
            kwargs[k.arg] = self.ev(k.value, env, fr)
        return join_all([self.call_value(n, m, args, kwargs, env, fr) for m in members(f)])

    def call_value(self, n, f, args, kwargs, env, fr):
        star = any(isinstance(a, tuple) for a in args)
        if isinstance(f, VFunc) and f.kind == "builtin":
            return self.call_builtin(n, f.name, args, kwargs, fr)
        if star:
            fail(n, "starred arguments to a non-builtin")
        if isinstance(f, VFunc) and f.kind == "np":
            return self.call_np(n, f.name, args, kwargs, fr)
        if isinstance(f, VFunc) and f.kind == "arrmeth":
            arr, m = f.name
            if m in ARR_VIEW_METHODS:
                return VArr({(r, c, False, True) for (r, c, e, fz) in arr.places}, None)
            if m in ARR_FRESH_METHODS:
                if "copy" in kwargs or (m == "astype" and len(args) > 1):
                    fail(n, f".{m}(copy=...) may return the array itself")
                self.consume(arr, fr)
                for a in list(args) + list(kwargs.values()):
                    self.consume(a, fr)
                if "out" in kwargs:
                    fail(n, "array method with out=")
                return VArr(cols=arr.cols if m in ("copy", "astype", "round", "clip") else None)
            if m in ARR_INPLACE_METHODS and not arr.places:
                fr["ctx"].visited_stores.add((n.lineno, n.col_offset))
                return VOther()
            fail(n, f"array method .{m}() not understood (in-place?)")
        if isinstance(f, VFunc) and f.kind == "scalmeth":
            v, m = f.name
            if m == "astype":
                return v
            fail(n, f"scalar method .{m}()")
        if isinstance(f, VFunc) and f.kind == "mod":
            return self.call_function(n, self.funcs[f.name], None, None, args, kwargs, fr)
        if isinstance(f, VFunc) and f.kind == "unbound":
            c, fn = f.name
            if not args or not isinstance(args[0], VInst):
                fail(n, "unbound method call without an instance")
            return self.call_function(n, fn, args[0].obj, c, args[1:], kwargs, fr)
        if isinstance(f, VBound):
            return self.call_function(n, f.fn, f.obj, f.cls_def, args, kwargs, fr)
        if isinstance(f, VCls):
            obj = Obj(f.name)
            c, fn = self.find_method(f.name, "__init__")
            if fn is not None:
                obj.constructing = True
                self.call_function(n, fn, obj, c, args, kwargs, fr)
                obj.constructing = False
            elif args or kwargs:
                fail(n, f"{f.name}() takes no arguments")
            return VInst(obj)
        if isinstance(f, VInst):
            c, fn = self.find_method(f.obj.cls, "__call__")
            if fn is None:
                fail(n, f"{f.obj.cls} instance is not callable")
            return self.call_function(n, fn, f.obj, c, args, kwargs, fr)
        if isinstance(f, VOther):
            # os.path.dirname(...) and friends: allowed only when no tracked array flows in
            for a in list(args) + list(kwargs.values()):
                for m in members(a):
                    if isinstance(m, (VArr, VSeq, VTup, VInst)):
                        fail(n, "array passed to an unknown callable")
            return VOther()
        fail(n, "call of a value not understood")

    def call_builtin(self, n, name, args, kwargs, fr):
        flat = []
        for a in args:
            if isinstance(a, tuple):      # *seq
                flat.append(("*", a[1]))
            else:
                flat.append(a)
        if name == "super":
            if flat:
                fail(n, "super() with arguments")
            if fr["obj"] is None:
                fail(n, "super() outside a method")
            return VSuper(fr["obj"], fr["cls_def"])
        if name in ("range",):
            return VOther()
        if name == "len":
            return VInt(None)
        if name in ("int", "float"):
            v = flat[0] if flat else VInt(C(0))
            if isinstance(v, VInt):
                return VInt(s_round("floor", v.sym)) if name == "int" else v
            self.consume(v, fr)
            return VInt(None)
        if name in ("abs", "max", "min", "sum"):
            for a in flat:
                self.consume(a if not isinstance(a, tuple) else a[1], fr)
            return VInt(None)
        if name == "enumerate":
            return VSeq(VTup([VInt(None), self.iter_elem(n, flat[0], fr)]))
        if name == "zip":
            if len(flat) == 1 and isinstance(flat[0], tuple):
                inner = self.iter_elem(n, flat[0][1], fr)          # each argument of zip
                return VSeq(VSeq(self.iter_elem(n, inner, fr)))
            if any(isinstance(a, tuple) for a in flat):
                fail(n, "zip with mixed starred arguments")
            return VSeq(VTup([self.iter_elem(n, a, fr) for a in flat]))
        if name in ("tuple", "list"):
            if not flat:
                return VSeq(None)
            v = flat[0]
            if isinstance(v, VArr):
                return VSeq(self.iter_elem(n, v, fr))
            return VSeq(self.iter_elem(n, v, fr))
        if name in ("print", "isinstance"):
            return VOther()
        fail(n, f"builtin {name}")

    def call_np(self, n, name, args, kwargs, fr):
        if "out" in kwargs:
            out = kwargs.pop("out")
            fr["ctx"].visited_stores.add((n.lineno, n.col_offset))
            for m in members(out):
                if isinstance(m, VArr):
                    for p in m.places:
                        fr["ctx"].write(n, (p[0], p[1], False, p[3]), None)
                else:
                    fail(n, "out= target not understood")
        if name == "split":
            v = args[0]
            if not isinstance(v, VArr):
                fail(n, "np.split of a non-array")
            return VSeq(VArr({(r, c, False, True) for (r, c, e, fz) in v.places}))
        if name not in NP_FRESH:
            fail(n, f"numpy function np.{name} is not in the translator's whitelist")
        if "copy" in kwargs or "where" in kwargs:
            fail(n, f"np.{name}(copy=/where=...) may alias or partially write its argument")
        maxpos = {"array": 2, "power": 2, "round": 2, "add.accumulate": 2, "sum": 2, "max": 2, "min": 2, "prod": 2, "mean": 2,
                  "cumsum": 2}.get(name, 1 if name in ("abs", "exp", "sqrt", "cos", "sin", "floor", "ceil", "log", "tan") else None)
        if maxpos is not None and len(args) > maxpos:
            fail(n, f"np.{name} called with a positional out/dtype argument")
        if name.startswith("random."):
            fr["ctx"].noisy[fr["ctx"].phase if fr["ctx"].phase in ("ctor", "call") else "ctor"] = True
        for a in list(args) + list(kwargs.values()):
            self.consume(a, fr)
        if name in ("floor", "ceil") and args and isinstance(args[0], VInt):
            return VInt(s_round(name, args[0].sym))
        if name in ("int64", "float64") and args and isinstance(args[0], VInt):
            return args[0]
        if name in ("sqrt", "exp", "cos", "sin", "abs", "round", "log", "tan", "power") and args and isinstance(args[0], VInt):
            return VInt(None)
        cols = None
        if name in ("abs", "round", "exp", "sqrt", "cos", "sin", "add.accumulate", "log", "tan", "cumsum") and args and isinstance(args[0], VArr):
            cols = args[0].cols
        return VArr(cols=cols)

    def call_function(self, n, fn, obj, cls_def, args, kwargs, fr):
        if fr["depth"] > 30:
            fail(n, "call depth exceeded (recursion?)")
        a = fn.args
        if a.vararg or a.kwarg or a.kwonlyargs or a.posonlyargs:
            fail(fn, "function signature with *args/**kwargs/keyword-only")
        params = [p.arg for p in a.args]
        env = {}
        if obj is not None:
            env[params[0]] = VInst(obj)
            params = params[1:]
        if len(args) > len(params):
            fail(n, f"too many arguments for {fn.name}")
        for p, v in zip(params, args):
            env[p] = v
        for k, v in kwargs.items():
            if k not in params or k in env:
                fail(n, f"bad keyword {k} for {fn.name}")
            env[k] = v
        ndef = len(a.defaults)
        for i, p in enumerate(params):
            if p not in env:
                j = i - (len(params) - ndef)
                if j < 0:
                    fail(n, f"missing argument {p} for {fn.name}")
                env[p] = self.ev(a.defaults[j], {}, fr)
        fr2 = dict(ctx=fr["ctx"], obj=obj, cls_def=cls_def, depth=fr["depth"] + 1, returns=[], module=False)
        self.block(fn.body, env, fr2)
        return join_all(fr2["returns"]) if fr2["returns"] else VOther()

    # ---------------------------------------------------------------- statements
    def block(self, body, env, fr):
        for st in body:
            self.stmt(st, env, fr)

    def own(self, v, tag):
        """fresh arrays stored on an instance become roots of their own"""
        if isinstance(v, VArr) and not v.places:
            return VArr({(("O", tag), (), True, False)}, v.cols)
        if isinstance(v, VSeq) and isinstance(v.elem, VArr) and not v.elem.places:
            return VSeq(VArr({(("O", tag), (), False, True)}))
        return v

    def bind(self, t, v, env, fr):
        if isinstance(t, ast.Name):
            env[t.id] = v
        elif isinstance(t, (ast.Tuple, ast.List)):
            for k, e in enumerate(t.elts):
                if isinstance(e, ast.Starred):
                    fail(t, "starred assignment target")
                parts = []
                for m in members(v):
                    if isinstance(m, VTup) and len(m.items) == len(t.elts):
                        parts.append(m.items[k])
                    elif isinstance(m, VTup):
                        parts.append(join_all(m.items))
                    elif isinstance(m, VSeq):
                        parts.append(m.elem if m.elem is not None else VOther())
                    elif isinstance(m, VArr):
                        parts.append(self.iter_elem(t, m, fr))
                    elif isinstance(m, VShape):
                        parts.append(VInt(None))
                    elif isinstance(m, VOther):
                        parts.append(VOther())
                    else:
                        fail(t, "cannot unpack this value")
                self.bind(e, join_all(parts), env, fr)
        elif isinstance(t, ast.Attribute):
            b = self.ev(t.value, env, fr)
            if not (isinstance(b, VInst) and fr["obj"] is not None and b.obj is fr["obj"]):
                fail(t, "attribute assignment on something other than self")
            if not b.obj.constructing:
                # rebinding an attribute during a call makes the instance stateful in a way the
                # footprint table cannot express
                fail(t, f"self.{t.attr} is rebound outside a constructor")
            b.obj.attrs[t.attr] = self.own(v, f"{b.obj.cls}.{t.attr}")
        elif isinstance(t, ast.Subscript):
            self.store_subscript(t, v, env, fr)
        else:
            fail(t, "assignment target not understood")

    def store_subscript(self, t, v, env, fr, aug=False):
        fr["ctx"].visited_stores.add((t.lineno, t.col_offset))
        base = self.ev(t.value, env, fr)
        self.consume(v, fr)
        value = None
        if not aug and isinstance(v, VInt) and v.sym is not None and v.sym[0] == "c":
            value = v.sym[1]
        for b in members(base):
            if isinstance(b, VArr):
                items = self.index_items(t.slice, env, fr)
                for p in b.places:
                    p2, adv = self.apply_index(p, items)
                    if adv:
                        p2 = (p2[0], p2[1], False, p2[3])
                    if len(b.places) > 1:
                        p2 = (p2[0], p2[1], False, p2[3])      # may-alias: not a definite write
                    fr["ctx"].write(t, p2, value)
            elif isinstance(b, VSeq) and (b.elem is None or isinstance(b.elem, (VInt, VOther)) or
                                          (isinstance(b.elem, VArr) and not b.elem.places)):
                pass
            else:
                fail(t, "subscript assignment into a value not understood")

    def stmt(self, st, env, fr):
        if isinstance(st, ast.Assign):
            v = self.ev(st.value, env, fr)
            for t in st.targets:
                self.bind(t, v, env, fr)
        elif isinstance(st, ast.AnnAssign):
            if st.value is not None:
                self.bind(st.target, self.ev(st.value, env, fr), env, fr)
        elif isinstance(st, ast.AugAssign):
            v = self.ev(st.value, env, fr)
            if isinstance(st.target, ast.Name):
                cur = self.ev(ast.copy_location(ast.Name(id=st.target.id, ctx=ast.Load()), st.target), env, fr)
                fr["ctx"].visited_stores.add((st.target.lineno, st.target.col_offset))
                if isinstance(cur, VInt) and isinstance(v, VInt):
                    env[st.target.id] = self.binop(st, st.op, cur, v, fr)
                else:
                    fr["ctx"].visited_stores.add((st.target.lineno, st.target.col_offset))
                    self.consume(v, fr)
                    for m in members(cur):
                        if isinstance(m, VArr):
                            for p in m.places:       # in-place update of the array behind the name
                                fr["ctx"].write(st, (p[0], p[1], False, p[3]), None)
                        elif not isinstance(m, (VInt, VOther, VSeq)):
                            fail(st, "augmented assignment on a value not understood")
            elif isinstance(st.target, ast.Subscript):
                self.store_subscript(st.target, v, env, fr, aug=True)
            else:
                fail(st, "augmented assignment target not understood")
        elif isinstance(st, ast.Return):
            fr["returns"].append(self.ev(st.value, env, fr) if st.value is not None else VOther())
        elif isinstance(st, ast.Expr):
            if isinstance(st.value, ast.Constant):
                return
            self.ev(st.value, env, fr)
        elif isinstance(st, ast.If):
            self.ev(st.test, env, fr)
            e1, e2 = dict(env), dict(env)
            self.block(st.body, e1, fr)
            self.block(st.orelse, e2, fr)
            for k in set(e1) | set(e2):
                env[k] = join(e1.get(k), e2.get(k))
        elif isinstance(st, ast.For):
            if st.orelse:
                fail(st, "for/else")
            for _ in range(2):
                it = self.ev(st.iter, env, fr)
                self.bind(st.target, self.iter_elem(st, it, fr), env, fr)
                e1 = dict(env)
                self.block(st.body, e1, fr)
                for k in e1:
                    env[k] = join(env.get(k), e1[k]) if k in env else e1[k]
        elif isinstance(st, ast.Pass):
            pass
        else:
            fail(st, f"statement {type(st).__name__} not understood")

    # ---------------------------------------------------------------- entries
    def entry(self, cls):
        ctx = Ctx()
        fr = dict(ctx=ctx, obj=None, cls_def=None, depth=0, returns=[], module=False)
        node = self.classes[cls]
        inst = self.call_value(node, VCls(cls), [], {}, {}, fr)
        ctx.phase = "call"
        x = VArr({(("A", "x"), (), True, False)}, D_SYM)
        ret = self.call_value(node, inst, [x], {}, {}, fr)
        for m in members(ret):
            if isinstance(m, VArr) and m.places:
                fail(node, f"{cls}.__call__ may return a view of {sorted(p[0] for p in m.places)}")
        return ctx

    def concrete_classes(self):
        out = []
        for c in self.classes:
            if c in ABSTRACT:
                # must really be abstract: interpreting a call fails with an unresolved attribute
                try:
                    self.entry(c)
                except Unresolved:
                    continue
                except TieBroken:
                    continue
                raise TieBroken(f"class {c} is listed as abstract but its __call__ resolves")
            out.append(c)
        return out

    def store_sites(self):
        """all syntactic store sites in the file: (line, col, enclosing function)"""
        sites = []
        for cls in self.classes.values():
            for fn in cls.body:
                if not isinstance(fn, ast.FunctionDef):
                    continue
                for nd in ast.walk(fn):
                    tg = []
                    if isinstance(nd, ast.Assign):
                        tg = nd.targets
                    elif isinstance(nd, (ast.AugAssign, ast.AnnAssign)):
                        tg = [nd.target]
                    for t in tg:
                        for s in ast.walk(t):
                            if isinstance(s, ast.Subscript) and isinstance(s.ctx, ast.Store):
                                sites.append((s.lineno, s.col_offset, cls.name, fn.name, s))
                    if isinstance(nd, ast.AugAssign) and isinstance(nd.target, ast.Name):
                        sites.append((nd.target.lineno, nd.target.col_offset, cls.name, fn.name, nd.target))
                    if isinstance(nd, ast.Call):
                        if any(k.arg == "out" for k in nd.keywords):
                            sites.append((nd.lineno, nd.col_offset, cls.name, fn.name, nd))
                        if isinstance(nd.func, ast.Attribute) and nd.func.attr in ARR_INPLACE_METHODS | {"copyto", "put", "place", "putmask", "fill_diagonal"}:
                            sites.append((nd.lineno, nd.col_offset, cls.name, fn.name, nd))
                    if isinstance(nd, (ast.Global, ast.Nonlocal, ast.Delete, ast.While, ast.Try, ast.With, ast.Lambda)):
                        fail(nd, f"{type(nd).__name__} in {cls.name}.{fn.name}")
        return sites


def _check_build_grid(fn):
    """build_grid is not part of the objective; accept exactly:  z = np.zeros(...) ... z[i] = self(x_i)"""
    zs = set()
    for nd in ast.walk(fn):
        if isinstance(nd, ast.Assign) and len(nd.targets) == 1 and isinstance(nd.targets[0], ast.Name) \
                and isinstance(nd.value, ast.Call) and ast.unparse(nd.value.func) == "np.zeros":
            zs.add(nd.targets[0].id)
    for nd in ast.walk(fn):
        if isinstance(nd, ast.Subscript) and isinstance(nd.ctx, ast.Store):
            if not (isinstance(nd.value, ast.Name) and nd.value.id in zs):
                fail(nd, "build_grid stores into something other than its local np.zeros array")


def parse_cec(path):
    """problems_dict literal of CEC2005.py -> {Fk: dict(cls, bounds, optimum, fix_accuracy, dims)}"""
    tree = ast.parse(open(path).read())
    out = {}
    for st in tree.body:
        if isinstance(st, ast.Assign) and isinstance(st.targets[0], ast.Name) and st.targets[0].id == "problems_dict":
            if not isinstance(st.value, ast.Dict):
                raise TieBroken("CEC2005.py: problems_dict is not a dict literal")
            for k, v in zip(st.value.keys, st.value.values):
                if not (isinstance(k, ast.Constant) and isinstance(v, ast.Dict)):
                    raise TieBroken("CEC2005.py: problems_dict entry not understood")
                d = {}
                for kk, vv in zip(v.keys, v.values):
                    d[kk.value] = vv
                fn = d["function"]
                if not isinstance(fn, ast.Name):
                    raise TieBroken(f"CEC2005.py: {k.value}: function is not a class name")
                dm = d["dimentions"]
                if isinstance(dm, ast.Tuple):
                    dims = [ast.literal_eval(e) for e in dm.elts]
                elif isinstance(dm, ast.Call) and isinstance(dm.func, ast.Name) and dm.func.id == "range":
                    dims = list(range(*[ast.literal_eval(e) for e in dm.args]))
                else:
                    raise TieBroken(f"CEC2005.py: {k.value}: dimentions not understood")
                ox = ast.unparse(d["optimum_x"])
                out[k.value] = dict(cls=fn.id, dims=dims, optimum_x=ox,
                                    optimum=ast.unparse(d["optimum"]), fix_accuracy=ast.unparse(d["fix_accuracy"]),
                                    bounds=ast.unparse(d["bounds"]))
    if len(out) != 25:
        raise TieBroken(f"CEC2005.py: expected 25 problems, found {len(out)}")
    return out


# ------------------------------------------------------------------ normalisation + emission
def norm_sel(s, for_write, where):
    """chain element -> ('all',) | ('range', lo, hi, step)"""
    if s[0] == "i":
        return ("range", s[1], s_bin("add", s[1], C(1)), 1)
    if s[0] in ("all", "allc"):
        return ("all",)
    _, lo, hi, st = s
    if hi is None:
        if lo == C(0) and st == 1:
            return ("all",)
        if for_write:
            raise TieBroken(f"{where}: write through an open-ended slice")
        return ("all",)
    return ("range", lo, hi, st)


def translate(src_path=SRC_DEFAULT, cec_path=CEC_DEFAULT):
    T = Translator(src_path, cec_path)
    classes = T.concrete_classes()
    tables, tab_id = [], {}

    def tid(root):
        nm = root[1] if root[0] == "G" else "own:" + root[1]
        if nm not in tab_id:
            tab_id[nm] = len(tables)
            tables.append(nm)
        return tab_id[nm]

    for g in T.groots:
        tid(("G", g))
    entries, visited = [], set()
    for c in classes:
        ctx = T.entry(c)
        visited |= ctx.visited_stores
        e = dict(name=c, ctor=[], call=[], arg=[], reads=[], noisy=ctx.noisy["call"], ctor_noisy=ctx.noisy["ctor"])
        for (phase, root, chain, exact, value, line) in ctx.writes:
            where = f"_optproblems.py:{line} ({c})"
            sels = [norm_sel(s, True, where) for s in chain]
            if not exact:
                value = None
            for s in sels:
                if s[0] == "range" and not (s_is_int(s[1]) and s_is_int(s[2])):
                    raise TieBroken(f"{where}: slice bound is not an integer expression in D")
            w = dict(root=root, sels=sels, val=value, line=line, exact=exact)
            if root[0] == "A":
                if phase != "call":
                    raise TieBroken(f"{where}: argument written outside __call__")
                e["arg"].append(w)
            else:
                w["tab"] = tid(root)
                if phase == "ctor":
                    if any(s[0] == "range" and (s_uses_D(s[1]) or s_uses_D(s[2])) for s in sels):
                        raise TieBroken(f"{where}: constructor write depends on D")
                    e["ctor"].append(w)
                else:
                    e["call"].append(w)
        for (phase, root, chain) in ctx.reads:
            if root[0] == "A" or phase != "call":
                continue
            sels = [norm_sel(s, False, c) for s in chain]
            sels = [s if s[0] == "all" or (s_is_int(s[1]) and s_is_int(s[2])) else ("all",) for s in sels]
            r = dict(root=root, tab=tid(root), sels=sels)
            if r not in e["reads"]:
                e["reads"].append(r)
        entries.append(e)
    # every syntactic store site was interpreted (or belongs to build_grid)
    for (ln, col, cname, fname, node) in T.store_sites():
        if fname == "build_grid":
            continue
        if (ln, col) not in visited:
            raise TieBroken(f"_optproblems.py:{ln}: store site in {cname}.{fname} was not reached by the interpretation "
                            f"of any problem class")
    for cls in T.classes.values():
        for fn in cls.body:
            if isinstance(fn, ast.FunctionDef) and fn.name == "build_grid":
                _check_build_grid(fn)
    cec = parse_cec(cec_path)
    for k, v in cec.items():
        if v["cls"] not in classes:
            raise TieBroken(f"CEC2005.py: {k} names unknown class {v['cls']}")
    return dict(tables=tables, entries=entries, cec=cec, dims=list(DIMS))


def eval_sels(sels, D):
    """-> list of None (all) | (lo, hi, step) ints"""
    out = []
    for s in sels:
        if s[0] == "all":
            out.append(None)
        else:
            out.append((int(s_eval(s[1], D)), int(s_eval(s[2], D)), s[3]))
    return out


def _coq_sel(s):
    if s[0] == "all":
        return "EAll"
    return f"ERange ({s_coq(s[1])}) ({s_coq(s[2])}) {s[3]}"


def _coq_q(fr):
    n, d = fr.numerator, fr.denominator
    return f"(({n}) # {d})" if n < 0 else f"({n} # {d})"


def _coq_write(w):
    val = "VOpaque" if w["val"] is None else f"VConst {_coq_q(w['val'])}"
    sels = "[" + "; ".join(_coq_sel(s) for s in w["sels"]) + "]"
    return f"{{| w_tab := {w.get('tab', 0)}; w_sel := {sels}; w_val := {val}; w_line := {w['line']} |}}"


def emit_coq(tr, path):
    L = ["(* GENERATED by harness/translate_bench.py from /repo/src/thefittest/benchmarks/_optproblems.py",
         "   and CEC2005.py — regenerated on every run of ./check C20; do not edit. *)",
         "From TF Require Import Base Bench.", "From Coq Require Import String.", "Open Scope string_scope.",
         "Open Scope Z_scope.", ""]
    L.append("Definition table_names : list string := [" + "; ".join(f'"{t}"' for t in tr["tables"]) + "].")
    L.append("")
    L.append("Definition table : list entry := [")
    ents = []
    for e in tr["entries"]:
        rd = "[" + ";\n       ".join("{| r_tab := %d; r_sel := [%s] |}" % (r["tab"], "; ".join(_coq_sel(s) for s in r["sels"]))
                                     for r in e["reads"]) + "]"
        ents.append("  {| e_name := \"%s\";\n     e_ctor := [%s];\n     e_call := [%s];\n     e_arg := [%s];\n     e_reads := %s;\n     e_noisy := %s |}"
                    % (e["name"], "; ".join(_coq_write(w) for w in e["ctor"]), "; ".join(_coq_write(w) for w in e["call"]),
                       "; ".join(_coq_write(w) for w in e["arg"]), rd, "true" if e["noisy"] else "false"))
    L.append(";\n".join(ents))
    L.append("].")
    L.append("")
    L.append("(* problems_dict of CEC2005.py: (key, class, declared dimensions) *)")
    L.append("Definition cec_problems : list (string * string * list Z) := [")
    L.append(";\n".join('  ("%s", "%s", [%s])' % (k, v["cls"], "; ".join(str(d) for d in v["dims"])) for k, v in tr["cec"].items()))
    L.append("].")
    os.makedirs(os.path.dirname(path), exist_ok=True)
    tmp = path + ".tmp"
    with open(tmp, "w") as fh:
        fh.write("\n".join(L) + "\n")
    os.replace(tmp, path)


if __name__ == "__main__":
    import sys
    tr = translate(*(sys.argv[1:3]))
    for e in tr["entries"]:
        def show(w):
            return (tr["tables"][w["tab"]] if "tab" in w else "ARG x", w["sels"], w["val"], w["line"])
        print(e["name"], "noisy" if e["noisy"] else "")
        for k in ("ctor", "call", "arg"):
            for w in e[k]:
                print("   ", k, "WRITE", show(w))
        print("    reads", [(tr["tables"][r["tab"]], r["sels"]) for r in e["reads"]])
