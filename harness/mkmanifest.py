"""Regenerates MANIFEST.json from the table below (kept valid at all times)."""
import json, os
V = os.path.dirname(os.path.dirname(os.path.abspath(__file__)))
props = [json.loads(l) for l in open(os.path.join(V, "properties.jsonl"))]
CLAIMED = json.load(open(os.path.join(V, "harness", "claims.json")))
checks, na = [], []
for p in props:
    pid = p["id"]
    c = CLAIMED.get(pid)
    if c is None:
        na.append(dict(property_id=pid, reason="check not built yet in this round (planned: DESIGN.md §6 " + pid + "); not a claim that the technique cannot apply"))
        continue
    checks.append(dict(
        property_id=pid,
        quick_cmd=f"./check {pid} --tier quick",
        thorough_cmd=f"./check {pid} --tier thorough",
        evidence_file=f"/verif/evidence/{pid}.json",
        replay_cmd_template=f"./check {pid} --replay {{path}}",
        engine="coq-proof+correspondence",
        level_claimed=dict(category="proof", text=c["text"], design_ref="DESIGN.md §6 " + pid),
        level_note=c["note"],
        technique=c.get("technique", "machine-checked proof in Coq 8.16 of theorems about an executable Gallina model; model tied to /repo by differential correspondence (compiled / mirror / model) on every run"),
    ))
m = dict(
    version=1,
    setup_cmd="cd /verif && ./build.sh",
    hooks=dict(guard="THEFITTEST_VERIF", enable="none needed: the harness works on the unmodified working tree (mirror mode re-globalises py_func code objects); checks export THEFITTEST_VERIF=1 for form",
               baseline_off_cmd="cd /repo && /venv/bin/python -m pytest -ra -q -p no:cacheprovider --timeout=900 --continue-on-collection-errors",
               source_commits=[], add_only=True),
    engines=[dict(name="coq-proof+correspondence", path="/verif/check", serves_properties=sorted(CLAIMED),
                  kind_free_text="Coq 8.16.1 development (coq/theories models+proofs, coq/props statement-only property files with Print Assumptions, coq/gen tables regenerated from /repo) + Python correspondence harness (harness/) that runs model (coqc vm_compute) and implementation on the same inputs and draws")],
    checks=checks,
    notes="See DESIGN.md. known_findings.json lists genuine defects (known / fixed).",
    not_applicable=na,
)
json.dump(m, open(os.path.join(V, "MANIFEST.json"), "w"), indent=1)
print("claimed", len(checks), "not yet", len(na))
