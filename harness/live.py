"""Live runs of the optimizers in log mode with recording of operator calls and per-generation
snapshots (used by C01-C07, C14, C15, C17 correspondences)."""
from __future__ import annotations

import contextlib
import copy
import sys

import numpy as np

import mirror as MR


def snap(x):
    """deep, detached copy of an argument/result for later comparison"""
    if isinstance(x, np.ndarray):
        if x.dtype == object:
            return np.array([snap(v) for v in x], dtype=object)
        return x.copy()
    if isinstance(x, (list, tuple)):
        return type(x)(snap(v) for v in x)
    if isinstance(x, dict):
        return {k: snap(v) for k, v in x.items()}
    if hasattr(x, "copy") and callable(x.copy) and not isinstance(x, (int, float, str)):
        try:
            return x.copy()
        except Exception:
            return copy.deepcopy(x)
    return x


def same(a, b) -> bool:
    if isinstance(a, np.ndarray) or isinstance(b, np.ndarray):
        a, b = np.asarray(a), np.asarray(b)
        if a.shape != b.shape:
            return False
        if a.dtype == object or b.dtype == object:
            return all(same(x, y) for x, y in zip(a.ravel(), b.ravel()))
        try:
            return bool(np.array_equal(a, b, equal_nan=True))
        except TypeError:
            return bool(np.array_equal(a, b))
    if isinstance(a, dict) and isinstance(b, dict):
        return list(a.keys()) == list(b.keys()) and all(same(a[k], b[k]) for k in a)
    if isinstance(a, (list, tuple)):
        return len(a) == len(b) and all(same(x, y) for x, y in zip(a, b))
    try:
        if isinstance(a, (float, np.floating)) and isinstance(b, (float, np.floating)) and a != a and b != b:
            return True                      # NaN is the same value as NaN
        r = a == b
        return bool(r) if not isinstance(r, np.ndarray) else bool(r.all())
    except Exception:
        return a is b


class Recorder:
    def __init__(self):
        self.calls = []

    def clear(self):
        self.calls = []


REC = Recorder()


@contextlib.contextmanager
def recording(qualnames):
    """inside MR.patched_library(): wrap the named library functions (module.func) so that every call
    made through any thefittest module namespace is recorded with inputs, output and draws consumed"""
    saved = []
    for qn in qualnames:
        mn, fn = qn.rsplit(".", 1)
        obj = getattr(sys.modules[mn], fn)

        def mk(obj=obj, qn=qn):
            def w(*a, **k):
                start = len(MR.TAPE.log)
                a_in, k_in = snap(a), snap(k)
                out = obj(*a, **k)
                REC.calls.append(dict(fn=qn, args=a_in, kwargs=k_in, out=snap(out),
                                      draws=list(MR.TAPE.log[start:]),
                                      inputs_unmodified=same(a_in, a) and same(k_in, k)))
                return out
            w.__name__ = getattr(obj, "__name__", fn)
            w.__wrapped__ = obj
            return w
        wrapper = mk()
        for m_name, m in list(sys.modules.items()):
            if m is None or not m_name.startswith("thefittest"):
                continue
            for k, v in list(vars(m).items()):
                if v is obj:
                    saved.append((m, k, v))
                    setattr(m, k, wrapper)
    try:
        yield REC
    finally:
        for m, k, v in saved:
            setattr(m, k, v)


@contextlib.contextmanager
def log_mode(qualnames=()):
    """whole-run log mode: library rebinding + recording; the TAPE log is the run's draw log"""
    MR.build()
    REC.clear()
    with MR.patched_library():
        with recording(qualnames):
            MR.TAPE.start_log()
            yield REC


# --------------------------------------------------------------------------- objectives
class Objective:
    """deterministic integer/dyadic-valued objective that records every batch it receives"""

    def __init__(self, kind="onemax", scale=1.0, offset=0.0, reuse_buffer=False, int_offset=None, unsigned=False):
        self.kind, self.scale, self.offset = kind, scale, offset
        self.int_offset = int_offset        # not None: return int64 values  int_offset + round(4*value)
        self.unsigned = unsigned            # ... as an unsigned array (int_offset > 0)
        self.batches = []
        self.reuse_buffer, self._buf = reuse_buffer, None

    def value(self, X):
        v = self._raw(X)
        if self.int_offset is not None:
            v = np.int64(self.int_offset) + np.floor(4.0 * v).astype(np.int64)
            if self.unsigned:
                v = v.astype(np.uint64)
        return v

    def _raw(self, X):
        X = np.asarray(X)
        if X.dtype == object:  # trees etc: use len / hash based integer value
            v = np.array([float(len(t)) for t in X], dtype=np.float64)
            if self.kind in ("nearties", "nearties45"):
                v = 1.0 + v * 2.0 ** (-26 if self.kind == "nearties" else -45)
            if self.kind in ("penalty", "penalty_min"):
                v = np.where(v % 5 == 4, -1e20 if self.kind == "penalty" else 1e20, v)
            if self.kind == "nanstrip" and self.batches:      # defined everywhere on the initial population
                v = np.where(v % 4 == 3, np.nan, v)
        else:
            Xf = X.astype(np.float64)
            if self.kind == "onemax":
                v = Xf.sum(axis=1)
            elif self.kind == "plateau":
                v = np.floor(Xf.sum(axis=1) / 3.0)
            elif self.kind == "const":
                v = np.zeros(len(Xf))
            elif self.kind == "neg":
                v = -Xf.sum(axis=1)
            elif self.kind in ("first", "view"):
                v = Xf[:, 0].copy()
            elif self.kind == "weighted":
                w = (np.arange(Xf.shape[1]) % 5 - 2).astype(np.float64)
                v = Xf @ w
            elif self.kind == "minx":
                v = -Xf.min(axis=1)
            elif self.kind in ("nearties", "nearties45"):
                # distinct values that are "close": relative gaps of 1.5e-8 (far below np.isclose's default 1e-5) or 2.8e-14 (below any
                # hand-picked 1e-12 tolerance), both far above rounding (2.2e-16)
                v = 1.0 + np.floor(Xf.sum(axis=1) * 4.0) * 2.0 ** (-26 if self.kind == "nearties" else -45)
            elif self.kind in ("penalty", "penalty_min"):
                # ordinary O(10) values with a "death penalty" of -/+1e20 for infeasible individuals (magnitudes 1e21 apart);
                # penalty_min is meant to be minimised
                v = np.where((Xf[:, 0] == 1) & (Xf[:, 1] == 1), -1e20 if self.kind == "penalty" else 1e20, Xf.sum(axis=1))
            elif self.kind == "nanstrip":
                # an objective that is undefined (NaN) on a strip of the search space
                binary = Xf.shape[1] >= 2 and set(np.unique(Xf)) <= {0.0, 1.0}
                v = Xf.sum(axis=1) if binary else -(Xf ** 2).sum(axis=1)
                if self.batches:                                  # defined everywhere on the initial population
                    v = np.where((Xf[:, 0] == 1) & (Xf[:, 1] == 1) if binary else np.abs(Xf[:, 0]) > 1.5, np.nan, v)
            else:
                raise ValueError(self.kind)
        return v * self.scale + self.offset

    def __call__(self, X, **kw):
        if self.kind == "view" and isinstance(X, np.ndarray) and X.dtype == np.float64 and X.ndim == 2 and self.scale == 1.0 and self.offset == 0.0:
            # an admissible objective may return a VIEW of the array it was given (f(X) = X[:, 0])
            v = X[:, 0]
            self.batches.append((snap(X), v.copy()))
            return v
        v = self.value(X)
        self.batches.append((snap(np.asarray(X)), v.copy()))
        if self.reuse_buffer:
            # an admissible objective may write into a preallocated output buffer and return the SAME array object every call
            if self._buf is None or self._buf.shape != v.shape:
                self._buf = np.empty_like(v)
            self._buf[...] = v
            return self._buf
        return v
