"""Harness-side stand-in for BaseEstimator._validate_data (this scikit-learn no longer has it, so the
six estimators cannot be fitted as shipped).  Installed on sklearn.base.BaseEstimator only if missing;
nothing in /repo is edited.  It does what the removed method did for these callers: check_X_y /
check_array and n_features_in_ bookkeeping."""
from __future__ import annotations

import numpy as np


def install():
    from sklearn.base import BaseEstimator
    from sklearn.utils.validation import check_X_y, check_array
    if hasattr(BaseEstimator, "_validate_data"):
        return False

    def _validate_data(self, X="no_validation", y="no_validation", reset=True, y_numeric=False, **kw):
        if isinstance(y, str) and y == "no_validation":
            X = check_array(X)
            out = X
        else:
            X, y = check_X_y(X, y, y_numeric=y_numeric)
            out = (X, y)
        if reset:
            self.n_features_in_ = X.shape[1]
        elif X.shape[1] != self.n_features_in_:
            raise ValueError(f"X has {X.shape[1]} features, but {type(self).__name__} is expecting {self.n_features_in_}")
        return out
    BaseEstimator._validate_data = _validate_data
    return True


def tiny_problem(rng, n=24, d=3, labels=None):
    X = np.array([[rng.randint(-8, 8) / 4 for _ in range(d)] for _ in range(n)], dtype=np.float64)
    score = X[:, 0] - 0.5 * X[:, 1 % d]
    if labels is None:
        y = score + 0.25 * X[:, (2 % d)]
    else:
        k = len(labels)
        order = np.argsort(np.argsort(score))
        y = np.array([labels[int(o * k // n)] for o in order], dtype=object if isinstance(labels[0], str) else None)
    return X, y


def make(name, optimizer=None, weights_optimizer=None, n_iter=3, pop_size=8, random_state=0, **kw):
    import thefittest.classifiers as TC
    import thefittest.regressors as TR
    import thefittest.optimizers as O
    cls = getattr(TC, name, None) or getattr(TR, name)
    args = dict(n_iter=n_iter, pop_size=pop_size, random_state=random_state)
    if optimizer is not None:
        args["optimizer"] = getattr(O, optimizer)
    if weights_optimizer is not None:
        args["weights_optimizer"] = getattr(O, weights_optimizer)
    args.update(kw)
    return cls(**args)
