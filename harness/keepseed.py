"""keepseed.py <mutant_dir> : copy a CONFIRMED seeded change into /verif/seeded/<name>/ with meta.json
(confirmation data are read from /tmp/seedres/<name>.json and /tmp/seedres/tests_<name>.txt)."""
import json, os, shutil, sys
m = sys.argv[1].rstrip("/")
base = os.path.basename(m)
if base.startswith("m2_"):          # second wave: C01_a/C01_b of the wave become C01_c/C01_d
    pid_, letter = base[3:].split("_")
    name = pid_ + "_" + {"a": "c", "b": "d"}[letter]
elif base.startswith("m3_"):        # third wave: one change per property, suffix e
    name = base[3:] + "_e"
elif base.startswith("m4_"):        # fourth wave: suffix f
    name = base[3:] + "_f"
elif base.startswith("m5_"):        # fifth wave: suffix g
    name = base[3:] + "_g"
elif base.startswith("m6_"):        # sixth wave: suffix h
    name = base[3:] + "_h"
elif base.startswith("m7_"):        # seventh wave: suffix i
    name = base[3:] + "_i"
else:
    name = base.replace("mut_", "")
pid = name.split("_")[0]
res = json.load(open(f"/tmp/seedres/{os.path.basename(m)}.json"))
tf = f"/tmp/seedres/tests_{os.path.basename(m)}.txt"; tests = open(tf).read().strip() if os.path.exists(tf) else "not run"
ok = res.get("patch_applies") and res.get("demo_without") == 0 and res.get("demo_with") == 1 and "36 passed" in tests
dst = f"/verif/seeded/{name}"
if not ok:
    print("NOT CONFIRMED", name, res.get("demo_without"), res.get("demo_with"), tests)
    sys.exit(1)
os.makedirs(dst, exist_ok=True)
shutil.copy(os.path.join(m, "patch.diff"), dst)
shutil.copy(os.path.join(m, "demo.py"), dst)
notes = open(os.path.join(m, "notes.txt")).read() if os.path.exists(os.path.join(m, "notes.txt")) else ""
meta = dict(
    id=name, property=pid,
    needs_to_manifest=notes[:3000],
    confirmed=dict(
        scratch_worktree="fresh `git worktree add --detach` of /repo HEAD, removed afterwards",
        demo_without_patch_exit=res["demo_without"], demo_with_patch_exit=res["demo_with"],
        demo_cmd=f"cd <worktree> && PYTHONPATH=<worktree>/src PYTHONHASHSEED=0 /venv/bin/python demo.py",
        test_suite_with_patch=tests + "  (the 6 failures are the estimator tests that fail on the unchanged tree: scikit-learn)"),
    detection={c: dict(exit=v["exit"], first_lines=v["lines"][:3]) for c, v in res.get("checks", {}).items()},
    detected=any(v["exit"] == 1 and any(l.startswith("VIOLATION") for l in v["lines"]) for v in res.get("checks", {}).values()),
    how_checks_were_run="patch applied to a scratch worktree of /repo HEAD and `THEFITTEST_REPO=<worktree> ./check <ID> --tier quick` "
                        "(same code path as `git -C /repo apply`; /repo itself untouched)")
json.dump(meta, open(os.path.join(dst, "meta.json"), "w"), indent=1)
print("kept", name, "detected=", meta["detected"])
