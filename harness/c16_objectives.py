"""Module-level objectives / genotype->phenotype maps for the live parallel runs of C16.

They must be importable by joblib (loky) workers, which receive them pickled by reference.
This module deliberately imports nothing from thefittest (a worker then starts in a fraction of a
second instead of re-compiling the numba code).

Every function is deterministic and row-wise (row i of the result depends on row i of the input
only), sleeps a pseudo-random time derived from the content of the chunk it receives (so workers
finish in an order unrelated to the submission order) and, when given log=<path>, appends one line
per call:   <kind> <pid> <t_start_ns> <t_end_ns> <rows> <sha1 of the chunk bytes>
(one O_APPEND write per line; lines are short, hence atomic)."""
from __future__ import annotations

import hashlib
import os
import time

import numpy as np

DELAY_UNIT = 0.004  # seconds; delays are 0..7 units


def _digest(x) -> bytes:
    a = np.ascontiguousarray(np.asarray(x))
    return hashlib.sha1(a.tobytes() + str(a.shape).encode()).digest()


def _enter(x):
    t0 = time.monotonic_ns()
    d = _digest(x)
    time.sleep((d[0] % 8) * DELAY_UNIT)
    return t0, d


def _leave(kind, log, t0, d, x):
    if log:
        line = f"{kind} {os.getpid()} {t0} {time.monotonic_ns()} {len(x)} {d.hex()[:16]}\n"
        fd = os.open(log, os.O_WRONLY | os.O_APPEND | os.O_CREAT, 0o644)
        try:
            os.write(fd, line.encode())
        finally:
            os.close(fd)


def onemax(x, log=None):
    """binary strings -> number of ones (float64)"""
    t0, d = _enter(x)
    r = np.asarray(x).sum(axis=1).astype(np.float64)
    _leave("fit", log, t0, d, x)
    return r


def big_int(x, log=None):
    """binary strings -> int64 values of magnitude 2**53 + (weighted count): exact as integers, NOT representable in float64 when odd"""
    t0, d = _enter(x)
    a = np.asarray(x).astype(np.int64)
    r = (1 << 53) + (a * (np.arange(a.shape[1], dtype=np.int64) % 3 + 1)).sum(axis=1)
    _leave("fit", log, t0, d, x)
    return r


def scheduled(x, log=None, bonus=0.0):
    """number of ones + bonus * first bit: `bonus` is a keyword argument the caller re-binds after constructing the optimizer"""
    t0, d = _enter(x)
    a = np.asarray(x).astype(np.float64)
    r = a.sum(axis=1) + bonus * a[:, 0] - 0.5 * bonus * a[:, -1]
    _leave("fit", log, t0, d, x)
    return r


def tree_score(x, log=None):
    """object array of trees -> a value that tells trees of different shapes apart (size, depth, printed form)"""
    t0, d = _enter(np.array([len(t) for t in x], dtype=np.int64))
    r = np.array([float(len(t)) - 0.25 * float(t.get_max_level()) + (sum(map(ord, str(t))) % 17) / 64.0 for t in x], dtype=np.float64)
    _leave("fit", log, t0, d, np.array([len(t) for t in x], dtype=np.int64))
    return r


def sphere(x, log=None):
    """real vectors -> -(sum of squares)"""
    t0, d = _enter(x)
    a = np.asarray(x, dtype=np.float64)
    r = -(a * a).sum(axis=1)
    _leave("fit", log, t0, d, x)
    return r


def weighted(x, log=None):
    """rows of floats -> weighted sum with fixed dyadic weights (exact in float64)"""
    t0, d = _enter(x)
    a = np.asarray(x, dtype=np.float64)
    w = (np.arange(a.shape[1]) % 4 + 1) / 4.0
    r = (a * w).sum(axis=1)
    _leave("fit", log, t0, d, x)
    return r


def bits_to_pm1(x, log=None):
    """genotype->phenotype for binary strings: 0/1 -> -1.0/+1.0, one phenotype row per genotype row"""
    t0, d = _enter(x)
    r = np.asarray(x).astype(np.float64) * 2.0 - 1.0
    _leave("g2p", log, t0, d, x)
    return r


def halve(x, log=None):
    """genotype->phenotype for real vectors: x -> x/2 (exact)"""
    t0, d = _enter(x)
    r = np.asarray(x, dtype=np.float64) * 0.5
    _leave("g2p", log, t0, d, x)
    return r


def neg_onemax(x, log=None):
    """- onemax (the dual objective of the C05 pairs)"""
    return -onemax(x, log)


def neg_sphere(x, log=None):
    return -sphere(x, log)


def neg_weighted(x, log=None):
    return -weighted(x, log)
