"""translate_loop.py — fail-closed translator for the record keeper and the scalar loop logic of base/_ea.py:

    TheFittest.__init__/_replace/_update/get,
    EvolutionaryAlgorithm._get_aim/_termitation_check/get_remains_calls          ->  coq/gen/GenLoop.v

A class becomes a Gallina record of its (declared) fields; a method `def m(self, a, ...)` becomes
`py_<Class>_<m> (self : <Class>) (a : ...) : <Class> * <result>` (only `<Class>` when it returns nothing, only the
result when it assigns no field).  `self._x = e` is a functional field update, `self._x` a projection,
`self._m(...)` a call of the translated method (threading `self`), `self._a._b` a nested projection.
Genotypes / phenotypes are abstract (Section variables G, P with default elements for out-of-range reads);
`x.copy()` of an abstract value is the value (immutable model: aliasing is EAStore.v's subject, not this file's);
`-np.inf` / `np.inf` are the extended rationals Qinf of Py.v; `Optional[T]` is `option T`, `e is not None` a match.

The theorems of theories/CodeEqLoop.v prove the loop model's `update_best`, `terminate`, `aim_of` and the remaining-calls
formula equal to these generated definitions (re-checked on every run)."""
from __future__ import annotations

import ast
import os
import sys

sys.path.insert(0, os.path.dirname(os.path.abspath(__file__)))
import common as C  # noqa: E402
from translate_code import Untranslatable, zlit, qlit  # noqa: E402

OUT_FILE = os.path.join(C.COQ, "gen", "GenLoop.v")
SRC = "thefittest/base/_ea.py"

# field name -> type ; types: Z Q B QI (extended rational) G P (abstract) LG LP LQ (lists) OZ OQ (option) TF (TheFittest)
FIELDS = {
    "TheFittest": [("_genotype", "G"), ("_phenotype", "P"), ("_fitness", "QI"), ("_no_update_counter", "Z")],
    # the scalar part of EvolutionaryAlgorithm's state that the translated methods read
    "EvolutionaryAlgorithm": [("_iters", "Z"), ("_pop_size", "Z"), ("_sign", "Z"), ("_aim", "QI"), ("_calls", "Z"),
                              ("_no_increase_num", "OZ"), ("_thefittest", "TF"),
                              # the part of the state the generation step works on
                              ("_elitism", "B"), ("_keep_history", "B"), ("_n_jobs", "Z"),
                              ("_population_g_i", "LG"), ("_population_ph_i", "LP"), ("_fitness_i", "LQ"),
                              ("_stats", "LS"), ("_on_generation", "CB")],
}
# adaptive subclasses: their own state next to the base record (field _ea)
BASE = {"SHADE": "EvolutionaryAlgorithm", "jDE": "EvolutionaryAlgorithm", "SHAGA": "EvolutionaryAlgorithm"}
FIELDS["SHADE"] = [("_ea", "EvolutionaryAlgorithm"), ("_F", "LQ"), ("_CR", "LQ"), ("_H_F", "LQ"), ("_H_CR", "LQ"), ("_k", "Z"), ("_H_size", "Z"), ("_p", "Q"),
                   ("_pbest_id", "LZ"), ("_population_archive", "LG"), ("_population_g_archive_i", "LG")]
FIELDS["jDE"] = [("_ea", "EvolutionaryAlgorithm"), ("_F", "LQ"), ("_CR", "LQ")]
FIELDS["SHAGA"] = [("_ea", "EvolutionaryAlgorithm"), ("_MR", "LQ"), ("_CR", "LQ"), ("_H_MR", "LQ"), ("_H_CR", "LQ"), ("_k", "Z"), ("_H_size", "Z")]
SUB_SRC = {"SHADE": "thefittest/optimizers/_shade.py", "jDE": "thefittest/optimizers/_jde.py", "SHAGA": "thefittest/optimizers/_shaga.py"}
# per subclass: the pinned text of the comprehension that builds the trial vectors (the variation operators: an oracle d_trials),
# the methods that draw random numbers (oracles) and the pure update rules (GenCode's translation of the same source)
SUB_TRIALS = {
    "SHADE": "np.array([get_new_individ_g(individ_g=self._population_g_i[i], F=self._F[i], CR=self._CR[i]) for i in range(self._pop_size)], dtype=np.float64)",
    "jDE": "np.array([get_new_individ_g(individ_g=self._population_g_i[i], F=mutate_F[i], CR=mutate_CR[i]) for i in range(self._pop_size)], dtype=np.float64)",
    "SHAGA": "np.array([get_new_individ_g(individ_g=self._population_g_i[i], MR=self._MR[i], CR=self._CR[i]) for i in range(self._pop_size)], dtype=np.float64)",
}
SUB_ORACLES = {   # method -> (argument types, result type)
    "SHADE": {"_generate_F_CR": ([], "LQLQ"), "_append_archive": (["LG", "LG"], "LG")},
    "jDE": {"_get_mutate_F": ([], "LQ"), "_get_mutate_CR": ([], "LQ")},
    "SHAGA": {"_generate_MR_CR": ([], "LQLQ")},
}
SUB_PURE = {      # method -> (GenCode definition, argument types, result type)
    "SHADE": {"_update_u_F": ("py_SHADE_update_u_F", ["Q", "LQ"], "Q"), "_update_u_CR": ("py_SHADE_update_u_CR", ["Q", "LQ", "LQ"], "Q")},
    "jDE": {},
    "SHAGA": {"_update_u": ("py_SHAGA_update_u", ["Q", "LQ", "LQ"], "Q")},
}
# _on_generation : Optional[Callable] is modelled by (is it set, how often was it called): the callback itself is the user's
METHODS = {
    "TheFittest": {
        "_replace": ([("new_genotype", "G"), ("new_phenotype", "P"), ("new_fitness", "Q")], None),
        "_update": ([("population_g", "LG"), ("population_ph", "LP"), ("fitness", "LQ")], None),
        "get": ([], "GPQI"),
    },
    "EvolutionaryAlgorithm": {
        "_get_aim": ([("optimal_value", "OQ"), ("termination_error_value", "Q")], "QI"),
        "_termitation_check": ([], "B"),
        "get_remains_calls": ([], "Z"),
        "_update_fittest": ([("population_g", "LG"), ("population_ph", "LP"), ("fitness", "LQ")], None),
        "_update_stats": ([("kwargs", "SE")], None),
        "_get_fitness": ([("population_ph", "LP")], "LQ"),
        "_update_data": ([], None),
        "_from_population_g_to_fitness": ([], None),
        "fit": ([], "EvolutionaryAlgorithm"),
    },
}
for _c in BASE:
    METHODS[_c] = {"_get_new_population": ([], None)}
METHODS["DifferentialEvolution"] = {
    "_get_init_population": ([], None),
    "_get_new_population": ([], None),
    "_from_population_g_to_fitness": ([], None),
}
# methods that `fit` / the generation step reach through `self.` and that subclasses override (or that are glue around the
# user's callables): dynamic dispatch = a parameter of the generated definitions
DISPATCH = {"_get_init_population", "_get_new_population", "_from_population_g_to_fitness", "_get_phenotype", "_update_data",
            "_first_generation", "_adapt"}
# calls without effect on the modelled state: seeding is C04's subject, _show_progress only prints
IGNORED = {"check_random_state", "self._show_progress"}
# base-class methods the theorems instantiate the dispatch with must not be overridden anywhere
NOT_OVERRIDDEN = {"fit", "_termitation_check", "_get_fitness", "_update_fittest", "_update_stats", "_get_aim", "get_remains_calls",
                  "get_fittest", "get_stats"}
COQT = {"Z": "Z", "Q": "Q", "B": "bool", "QI": "Qinf", "G": "G", "P": "P", "LG": "list G", "LP": "list P", "LQ": "list Q",
        "OZ": "option Z", "OQ": "option Q", "TF": "TheFittest", "GPQI": "G * P * Qinf", "LS": "list StatsEntry", "SE": "StatsEntry", "LB": "list bool",
        "CB": "bool * Z", "LZ": "list Z", "LQLQ": "list Q * list Q", "SHADE": "SHADE", "jDE": "jDE", "SHAGA": "SHAGA",
        "TheFittest": "TheFittest", "EvolutionaryAlgorithm": "EvolutionaryAlgorithm"}
PREFIX = {"TheFittest": "tf", "EvolutionaryAlgorithm": "ea", "SHADE": "sh", "jDE": "jd", "SHAGA": "sg"}


def fname(cls, f):
    return PREFIX[cls] + f


class MT:
    def __init__(self, cls, name, node, mcls=None):
        self.cls, self.name, self.node = cls, name, node
        self.mcls = mcls or cls            # the class the method is defined in (its state is the record of `cls`)
        self.args, self.ret = METHODS[self.mcls][name]
        self.env = {a: t for a, t in self.args}
        self.writes = False
        self.used_oracles = set()

    # ---------------------------------------------------------------- expressions
    def field_type(self, cls, f):
        for n, t in FIELDS[cls]:
            if n == f:
                return t
        if cls in BASE:
            return self.field_type(BASE[cls], f)
        raise Untranslatable(self.node, f"field {f} of {cls} is not declared for translation")

    def own(self, f):
        return any(n == f for n, _ in FIELDS[self.cls])

    def fget(self, f):
        """code reading self.<f> (through the base record for an inherited field)"""
        if self.own(f) or self.cls not in BASE:
            return f"({fname(self.cls, f)} self)"
        return f"({fname(BASE[self.cls], f)} ({fname(self.cls, '_ea')} self))"

    def base_self(self):
        return "self" if self.cls not in BASE else f"({fname(self.cls, '_ea')} self)"

    def with_base(self, code):
        """self with its base record replaced by <code>"""
        return code if self.cls not in BASE else f"(set_{fname(self.cls, '_ea')} {code} self)"

    def expr(self, e):
        if isinstance(e, ast.Constant):
            if isinstance(e.value, bool):
                return ("true" if e.value else "false"), "B"
            if isinstance(e.value, int):
                return zlit(e.value), "Z"
            if isinstance(e.value, float):
                return qlit(e.value), "Q"
            if e.value is None:
                return "None", "NONE"
        if isinstance(e, ast.Name):
            if e.id in self.env:
                return e.id, self.env[e.id]
            raise Untranslatable(e, "unknown name " + e.id)
        if isinstance(e, ast.Attribute):
            s = ast.unparse(e)
            if s == "np.inf":
                return "PosInf", "QI"
            if isinstance(e.value, ast.Name) and e.value.id == "self":
                t = self.field_type(self.cls, e.attr)
                if e.attr == "_ea":
                    raise Untranslatable(e, "the base record is not a Python attribute")
                return self.fget(e.attr), t
            if isinstance(e.value, ast.Attribute) and isinstance(e.value.value, ast.Name) and e.value.value.id == "self":
                inner_t = self.field_type(self.cls, e.value.attr)
                if inner_t != "TF":
                    raise Untranslatable(e, "nested attribute of a non-object field")
                t = self.field_type("TheFittest", e.attr)
                return f"({fname('TheFittest', e.attr)} ({fname(self.cls, e.value.attr)} self))", t
            raise Untranslatable(e, "attribute " + s)
        if isinstance(e, ast.UnaryOp) and isinstance(e.op, ast.USub):
            c, t = self.expr(e.operand)
            if t == "QI" and c == "PosInf":
                return "NegInf", "QI"
            if t == "Z":
                return f"(- {c})", "Z"
            if t == "Q":
                return f"(- {c})%Q", "Q"
            raise Untranslatable(e, "negation of " + t)
        if isinstance(e, ast.BinOp):
            (a, ta), (b, tb) = self.expr(e.left), self.expr(e.right)
            op = {ast.Add: "+", ast.Sub: "-", ast.Mult: "*"}.get(type(e.op))
            if op is None:
                raise Untranslatable(e, "operator")
            if ta == "Z" and tb == "Z":
                return f"({a} {op} {b})", "Z"
            if ta == "Z" and tb == "LQ" and op == "*":
                return f"(smul (ZtoQ {a}) {b})", "LQ"
            if ta == "LQ" and tb == "LQ" and op == "-":
                return f"(vsub {a} {b})", "LQ"
            if ta in ("Z", "Q") and tb in ("Z", "Q"):
                a = a if ta == "Q" else f"(ZtoQ {a})"
                b = b if tb == "Q" else f"(ZtoQ {b})"
                return f"({a} {op} {b})%Q", "Q"
            raise Untranslatable(e, f"arithmetic on {ta}, {tb}")
        if isinstance(e, ast.Compare) and len(e.ops) == 1:
            (a, ta), (b, tb) = self.expr(e.left), self.expr(e.comparators[0])
            op = e.ops[0]
            if isinstance(op, ast.IsNot) and tb == "NONE" and ta == "CB":
                return f"(fst {a})", "B"
            if isinstance(op, (ast.IsNot, ast.Is)) and tb == "NONE" and ta in ("OZ", "OQ"):
                test = f"(match {a} with Some _ => true | None => false end)"
                return (test if isinstance(op, ast.IsNot) else f"(negb {test})"), "B"
            if ta in ("Q", "QI") and tb in ("Q", "QI") and "QI" in (ta, tb):
                a = a if ta == "QI" else f"(Fin {a})"
                b = b if tb == "QI" else f"(Fin {b})"
                if isinstance(op, ast.Gt):
                    return f"(Qinf_ltb {b} {a})", "B"
                if isinstance(op, ast.GtE):
                    return f"(Qinf_leb {b} {a})", "B"
                if isinstance(op, ast.Lt):
                    return f"(Qinf_ltb {a} {b})", "B"
                if isinstance(op, ast.LtE):
                    return f"(Qinf_leb {a} {b})", "B"
            if ta == "Z" and tb == "OZ" and isinstance(op, ast.Eq):
                # int == Optional[int]:  False when the right-hand side is None
                return f"(match {b} with Some n_ => ({a} =? n_) | None => false end)", "B"
            if ta == "LQ" and tb == "LQ" and isinstance(op, ast.Gt):
                return f"(gt_mask {a} {b})", "LB"
            if ta == "LQ" and tb == "LQ" and isinstance(op, ast.GtE):
                return f"(geq_mask {a} {b})", "LB"
            if ta == "Z" and tb == "Z":
                tab = {ast.Eq: "=?", ast.Lt: "<?", ast.LtE: "<=?", ast.Gt: ">?", ast.GtE: ">=?"}
                if type(op) in tab:
                    return f"({a} {tab[type(op)]} {b})", "B"
            raise Untranslatable(e, f"comparison {type(op).__name__} on {ta}, {tb}")
        if isinstance(e, ast.BoolOp):
            cs = [self.expr(v) for v in e.values]
            if any(t != "B" for _, t in cs):
                raise Untranslatable(e, "and/or on non-bool")
            return "(" + (" || " if isinstance(e.op, ast.Or) else " && ").join(c for c, _ in cs) + ")", "B"
        if isinstance(e, ast.Subscript):
            (a, ta), (i, ti) = self.expr(e.value), self.expr(e.slice)
            if ti == "LB" and ta in ("LQ", "LG", "LP"):
                return f"(mask_select {i} {a})", ta              # a[mask]: the elements at the True positions, in order (a copy)
            if ti != "Z":
                raise Untranslatable(e, "index type")
            if ta == "LQ":
                return f"(getQ {a} {i})", "Q"
            if ta == "LG":
                return f"(getA dG {a} {i})", "G"
            if ta == "LP":
                return f"(getA dP {a} {i})", "P"
            raise Untranslatable(e, "subscript of " + ta)
        if isinstance(e, ast.Call):
            n = ast.unparse(e.func)
            if n == "len" and len(e.args) == 1:
                a, ta = self.expr(e.args[0])
                if ta in ("LQ", "LG", "LP"):
                    return f"(zlen {a})", "Z"
            if n == "self._fitness_function" and len(e.args) == 1 and [k.arg for k in e.keywords] == [None] \
                    and ast.unparse(e.keywords[0].value) == "self._fitness_function_args":
                a, ta = self.expr(e.args[0])
                if ta == "LP":
                    return f"(fitness_function {a})", "LQ"       # the user's objective: a Section variable
            if n == "np.argmax" and len(e.args) == 1:
                a, ta = self.expr(e.args[0])
                if ta == "LQ":
                    return f"(argmaxZ {a})", "Z"
            if n == "bool" and len(e.args) == 1:
                a, ta = self.expr(e.args[0])
                if ta == "B":
                    return a, "B"
            if isinstance(e.func, ast.Attribute) and e.func.attr == "copy" and not e.args:
                a, ta = self.expr(e.func.value)
                if ta in ("G", "P", "LQ", "LG", "LP"):
                    return a, ta
            if n == "np.abs" and len(e.args) == 1:
                a, ta = self.expr(e.args[0])
                if ta == "LQ":
                    return f"(vabs {a})", "LQ"
            if n == "np.float64" and len(e.args) == 1:
                a, ta = self.expr(e.args[0])
                if ta == "Q":
                    return a, "Q"
            if n == "np.vstack" and len(e.args) == 1 and isinstance(e.args[0], ast.List) and len(e.args[0].elts) == 2:
                (a, ta), (b, tb) = self.expr(e.args[0].elts[0]), self.expr(e.args[0].elts[1])
                if ta == "LG" and tb == "LG":
                    return f"({a} ++ {b})", "LG"
            if n == "find_pbest_id" and len(e.args) == 2:
                (a, ta), (b, tb) = self.expr(e.args[0]), self.expr(e.args[1])
                if ta == "LQ" and tb == "Q":
                    if "py_find_pbest_id" not in GENCODE_AVAILABLE:
                        raise Untranslatable(e, "find_pbest_id has no translation in gen/GenCode.v")
                    return f"(py_find_pbest_id {a} {b})", "LZ"           # GenCode's translation of utils.find_pbest_id
            m_ = self.self_call(e)
            if m_ is not None and m_ in SUB_PURE.get(self.cls, {}) and not e.keywords:
                dname, ats, rt = SUB_PURE[self.cls][m_]
                vs = [self.expr(x) for x in e.args]
                if [t for _, t in vs] == ats:
                    if dname not in GENCODE_AVAILABLE:
                        raise Untranslatable(e, f"{m_} has no translation in gen/GenCode.v")
                    return f"({dname} " + " ".join(c for c, _ in vs) + ")", rt      # GenCode's translation of the same method
            if m_ is not None and m_ in SUB_ORACLES.get(self.cls, {}) and not e.keywords:
                ats, rt = SUB_ORACLES[self.cls][m_]
                vs = [self.expr(x) for x in e.args]
                if [t for _, t in vs] == ats:
                    self.used_oracles.add(m_)
                    return f"(d_{PREFIX[self.cls]}{m_} self" + "".join(" " + c for c, _ in vs) + ")", rt    # draws random numbers: an oracle
            raise Untranslatable(e, "call of " + n)
        if isinstance(e, ast.Dict):
            keys = [k.value for k in e.keys]
            if keys == ["genotype", "phenotype", "fitness"]:
                vs = [self.expr(v) for v in e.values]
                if [t for _, t in vs] == ["G", "P", "QI"]:
                    return "(" + ", ".join(c for c, _ in vs) + ")", "GPQI"
            raise Untranslatable(e, "dict literal")
        raise Untranslatable(e, "expression " + type(e).__name__)

    # ---------------------------------------------------------------- statements
    def setter(self, field, code):
        # functional field update through the generated setter (keeps the terms small: a record literal would mention `self` once per field)
        if self.own(field) or self.cls not in BASE:
            return f"(set_{fname(self.cls, field)} ({code}) self)"
        b = BASE[self.cls]
        return f"(set_{fname(self.cls, '_ea')} (set_{fname(b, field)} ({code}) ({fname(self.cls, '_ea')} self)) self)"

    def self_call(self, call):
        """(method name, argument codes) of  self._m(...)  /  None"""
        if isinstance(call, ast.Call) and isinstance(call.func, ast.Attribute) and isinstance(call.func.value, ast.Name) and call.func.value.id == "self":
            return call.func.attr
        return None

    def call_args(self, cls, m, call):
        margs, _ = METHODS[cls][m]
        kw = {k.arg: k.value for k in call.keywords}
        vals = list(call.args)
        codes = []
        for i, (an, at) in enumerate(margs):
            v = vals[i] if i < len(vals) else kw.get(an)
            if v is None:
                raise Untranslatable(call, f"argument {an} missing")
            c, t = self.expr(v)
            if t != at:
                raise Untranslatable(call, f"argument {an}: {t}, expected {at}")
            codes.append(c)
        return codes

    def block(self, stmts, end):
        """end(): code for normal completion of the method (returns nothing)"""
        if not stmts:
            return end()
        s, rest = stmts[0], stmts[1:]
        # ---- calls without effect on the modelled state
        if isinstance(s, ast.Expr) and isinstance(s.value, ast.Call) and ast.unparse(s.value.func) in IGNORED:
            return self.block(rest, end)
        # ---- self._m(...) as a statement: dynamic dispatch or a translated method
        if isinstance(s, ast.Expr) and self.self_call(s.value) is not None and self.cls == "EvolutionaryAlgorithm":
            m = self.self_call(s.value)
            if m in DISPATCH and not s.value.args and not s.value.keywords:
                self.writes = True
                return f"let self := d{m} self in\n" + self.block(rest, end)
            if m == "_update_stats" and not s.value.args:
                names = [k.arg for k in s.value.keywords]
                if names != ["fitness", "population_g", "population_ph", "max_fitness", "max_g", "max_ph"]:
                    raise Untranslatable(s, f"_update_stats called with {names}")
                vs = [self.expr(k.value) for k in s.value.keywords]
                if [t for _, t in vs] != ["LQ", "LG", "LP", "Q", "G", "P"]:
                    raise Untranslatable(s, "types of the recorded values: " + str([t for _, t in vs]))
                entry = "{| " + "; ".join(f"se_{n} := {c}" for n, (c, _) in zip(names, vs)) + " |}"
                self.writes = True
                return f"let self := py_EvolutionaryAlgorithm__update_stats self {entry} in\n" + self.block(rest, end)
            if m == "_on_generation" and len(s.value.args) == 1 and ast.unparse(s.value.args[0]) == "self":
                self.writes = True
                cb = f"(fst ({fname(self.cls, '_on_generation')} self), snd ({fname(self.cls, '_on_generation')} self) + 1)"
                return f"let self := {self.setter('_on_generation', cb)} in\n" + self.block(rest, end)
        # ---- self._thefittest._update(...) / self._stats._update(kwargs)
        if isinstance(s, ast.Expr) and isinstance(s.value, ast.Call) and isinstance(s.value.func, ast.Attribute) and s.value.func.attr == "_update":
            tgt = ast.unparse(s.value.func.value)
            if tgt == "self._thefittest":
                codes = self.call_args("TheFittest", "_update", s.value)
                self.writes = True
                return (f"let self := {self.setter('_thefittest', 'py_TheFittest__update (' + fname(self.cls, '_thefittest') + ' self) ' + ' '.join(codes))} in\n"
                        + self.block(rest, end))
            if tgt == "self._stats" and len(s.value.args) == 1:
                c, t = self.expr(s.value.args[0])
                if t != "SE":
                    raise Untranslatable(s, "argument of Statistics._update")
                self.writes = True      # Statistics._update (pinned below): one copied entry appended per key
                return f"let self := {self.setter('_stats', '(' + fname(self.cls, '_stats') + ' self ++ [' + c + '])')} in\n" + self.block(rest, end)
        # ---- subclasses (SHADE / jDE / SHAGA)
        if self.cls in BASE:
            if isinstance(s, ast.Assign) and isinstance(s.targets[0], ast.Name) and ast.unparse(s.value) == SUB_TRIALS[self.cls]:
                self.env[s.targets[0].id] = "LG"
                extra = "".join(" " + v for v in ("mutate_F", "mutate_CR") if self.cls == "jDE")
                return f"let {s.targets[0].id} := d_{PREFIX[self.cls]}_trials self{extra} in\n" + self.block(rest, end)
            # a, b = <pair>   with a, b fields of self
            if isinstance(s, ast.Assign) and isinstance(s.targets[0], ast.Tuple) and len(s.targets[0].elts) == 2:
                c, t = self.expr(s.value)
                if t == "LQLQ":
                    fs = [x.attr for x in s.targets[0].elts if isinstance(x, ast.Attribute) and isinstance(x.value, ast.Name) and x.value.id == "self"]
                    if len(fs) == 2 and all(self.field_type(self.cls, f_) == "LQ" for f_ in fs):
                        self.writes = True
                        return (f"let '(t_1, t_2) := {c} in\nlet self := {self.setter(fs[0], 't_1')} in\nlet self := {self.setter(fs[1], 't_2')} in\n"
                                + self.block(rest, end))
                raise Untranslatable(s, "tuple assignment")
            # x = self._get_phenotype(y)  /  x = self._get_fitness(y)   on the base record
            if isinstance(s, ast.Assign) and isinstance(s.targets[0], ast.Name) and self.self_call(s.value) in ("_get_phenotype", "_get_fitness") \
                    and len(s.value.args) == 1 and not s.value.keywords:
                a, ta = self.expr(s.value.args[0])
                x = s.targets[0].id
                if self.self_call(s.value) == "_get_phenotype" and ta == "LG":
                    self.env[x] = "LP"
                    return f"let {x} := (d_get_phenotype {self.base_self()} {a}) in\n" + self.block(rest, end)
                if self.self_call(s.value) == "_get_fitness" and ta == "LP":
                    self.env[x] = "LQ"
                    self.writes = True
                    return (f"let '(b_, {x}) := py_EvolutionaryAlgorithm__get_fitness {self.base_self()} {a} in\nlet self := {self.with_base('b_')} in\n"
                            + self.block(rest, end))
                raise Untranslatable(s, "argument of " + self.self_call(s.value))
            # self._f[i] = v
            if isinstance(s, ast.Assign) and isinstance(s.targets[0], ast.Subscript) and isinstance(s.targets[0].value, ast.Attribute) \
                    and isinstance(s.targets[0].value.value, ast.Name) and s.targets[0].value.value.id == "self" \
                    and not (isinstance(s.targets[0].slice, ast.Name) and self.env.get(s.targets[0].slice.id) == "LB"):
                f_ = s.targets[0].value.attr
                (i, ti), (v, tv) = self.expr(s.targets[0].slice), self.expr(s.value)
                if self.field_type(self.cls, f_) == "LQ" and ti == "Z" and tv == "Q":
                    self.writes = True
                    return f"let self := {self.setter(f_, 'setA ' + self.fget(f_) + ' ' + i + ' ' + v)} in\n" + self.block(rest, end)
                raise Untranslatable(s, "indexed store into self." + f_)
        # ---- the trial vectors: partial(...) + list comprehension over the population = the variation operators (C07): an oracle here
        if isinstance(s, ast.Assign) and ast.unparse(s.value).startswith("partial(self._get_new_individ_g"):
            return self.block(rest, end)
        if isinstance(s, ast.Assign) and isinstance(s.targets[0], ast.Name) and ast.unparse(s.value) == \
                "np.array([get_new_individ_g(individ_g=self._population_g_i[i]) for i in range(self._pop_size)], dtype=np.float64)":
            self.env[s.targets[0].id] = "LG"
            return f"let {s.targets[0].id} := d_trials self in\n" + self.block(rest, end)
        # ---- mask = a >= b  (element-wise) and the masked writes  self._f[mask] = x[mask]
        if isinstance(s, ast.Assign) and isinstance(s.targets[0], ast.Name) and isinstance(s.value, ast.Compare) and len(s.value.ops) == 1 \
                and isinstance(s.value.ops[0], ast.GtE):
            (a, ta), (b, tb) = self.expr(s.value.left), self.expr(s.value.comparators[0])
            if ta == "LQ" and tb == "LQ":
                self.env[s.targets[0].id] = "LB"
                return f"let {s.targets[0].id} := geq_mask {a} {b} in\n" + self.block(rest, end)
        if isinstance(s, ast.Assign) and isinstance(s.targets[0], ast.Subscript) and isinstance(s.value, ast.Subscript) \
                and isinstance(s.targets[0].slice, ast.Name) and self.env.get(s.targets[0].slice.id) == "LB" \
                and ast.unparse(s.value.slice) == s.targets[0].slice.id:
            tgt = s.targets[0].value
            if isinstance(tgt, ast.Attribute) and isinstance(tgt.value, ast.Name) and tgt.value.id == "self":
                ft = self.field_type(self.cls, tgt.attr)
                src, st_ = self.expr(s.value.value)
                if st_ != ft or ft not in ("LG", "LP", "LQ"):
                    raise Untranslatable(s, "masked write types")
                self.writes = True
                m_ = s.targets[0].slice.id
                return f"let self := {self.setter(tgt.attr, 'mask_write ' + m_ + ' ' + src + ' ' + self.fget(tgt.attr))} in\n" + self.block(rest, end)
        # ---- x = self._m(...)  /  self._f = self._m(...)
        if isinstance(s, ast.Assign) and len(s.targets) == 1 and self.self_call(s.value) is not None and self.cls == "EvolutionaryAlgorithm":
            m = self.self_call(s.value)
            tgt = s.targets[0]
            if m == "_get_phenotype" and len(s.value.args) == 1:
                a, ta = self.expr(s.value.args[0])
                if ta != "LG":
                    raise Untranslatable(s, "argument of _get_phenotype")
                vcode, vt, pre = f"(d_get_phenotype self {a})", "LP", ""
            elif m == "_get_phenotype":
                raise Untranslatable(s, "shape of the _get_phenotype call")
            elif m in METHODS[self.cls] and METHODS[self.cls][m][1] is not None:
                codes = self.call_args(self.cls, m, s.value)
                vt = METHODS[self.cls][m][1]
                tmp = "v_" + m.strip("_")
                pre = f"let '(self, {tmp}) := py_{self.cls}_{m} self {' '.join(codes)} in\n"
                vcode = tmp
                self.writes = True
            else:
                raise Untranslatable(s, "value of self." + m)
            if isinstance(tgt, ast.Name):
                self.env[tgt.id] = vt
                return pre + f"let {tgt.id} := {vcode} in\n" + self.block(rest, end)
            if isinstance(tgt, ast.Attribute) and isinstance(tgt.value, ast.Name) and tgt.value.id == "self":
                if self.field_type(self.cls, tgt.attr) != vt:
                    raise Untranslatable(s, "field type")
                self.writes = True
                return pre + f"let self := {self.setter(tgt.attr, vcode)} in\n" + self.block(rest, end)
        # ---- (self._population_g_i[-1], self._population_ph_i[-1], self._fitness_i[-1]) = self._thefittest.get().values()
        if isinstance(s, ast.Assign) and isinstance(s.targets[0], ast.Tuple) and ast.unparse(s.value) == "self._thefittest.get().values()":
            tg = [ast.unparse(t) for t in s.targets[0].elts]
            if tg != ["self._population_g_i[-1]", "self._population_ph_i[-1]", "self._fitness_i[-1]"]:
                raise Untranslatable(s, "elitism write targets " + str(tg))
            self.writes = True
            tf = f"(py_TheFittest_get ({fname(self.cls, '_thefittest')} self))"
            code = (f"let '(e_g, e_ph, e_fit) := {tf} in\n"
                    f"let self := {self.setter('_population_g_i', 'set_last (' + fname(self.cls, '_population_g_i') + ' self) e_g')} in\n"
                    f"let self := {self.setter('_population_ph_i', 'set_last (' + fname(self.cls, '_population_ph_i') + ' self) e_ph')} in\n"
                    f"let self := {self.setter('_fitness_i', 'set_last (' + fname(self.cls, '_fitness_i') + ' self) (Qinf_val e_fit)')} in\n")
            return code + self.block(rest, end)
        # ---- if self._n_jobs > 1: <joblib> else: <serial>      (the parallel branch is C16's subject: an opaque parameter here)
        if isinstance(s, ast.If) and ast.unparse(s.test) == "self._n_jobs > 1" and s.orelse:
            outs = [t.id for st in s.orelse if isinstance(st, ast.Assign) for t in st.targets if isinstance(t, ast.Name)]
            if len(outs) != 1 or not isinstance(s.orelse[-1], ast.Assign):
                raise Untranslatable(s, "shape of the serial branch")
            x = outs[0]
            c, t = self.expr(s.orelse[-1].value)
            self.env[x] = t
            arg = ast.unparse(s.orelse[-1].value.args[0]) if isinstance(s.orelse[-1].value, ast.Call) and s.orelse[-1].value.args else "population_ph"
            return (f"let {x} := (if ({fname(self.cls, '_n_jobs')} self >? 1) then par_{x} self {arg} else {c}) in\n" + self.block(rest, end))
        # ---- for i in range(self._iters - 1): ... break ...   (fit)
        if isinstance(s, ast.For) and ast.unparse(s.iter) == "range(self._iters - 1)" and not s.orelse:
            def loop_end():
                return "(self, false)"
            body = self.loop_block(list(s.body), loop_end)
            self.writes = True
            return (f"let self := for_brk_p 0 (({fname(self.cls, '_iters')} self) - 1) self (fun {s.target.id} self =>\n{body}) in\n" + self.block(rest, end))
        if isinstance(s, ast.Expr) and isinstance(s.value, ast.Constant):
            return self.block(rest, end)
        if isinstance(s, ast.AnnAssign) and s.value is None:
            return self.block(rest, end)
        if isinstance(s, ast.Return):
            if rest:
                raise Untranslatable(s, "code after return")
            if isinstance(s.value, ast.Name) and s.value.id == "self" and self.ret == self.cls:
                return "self"
            c, t = self.expr(s.value)
            if t != self.ret:
                if t == "Q" and self.ret == "QI":
                    c = f"(Fin {c})"
                else:
                    raise Untranslatable(s, f"return type {t}, expected {self.ret}")
            return self.result(c)
        if isinstance(s, (ast.Assign, ast.AnnAssign, ast.AugAssign)):
            if isinstance(s, ast.AugAssign):
                tgt = s.target
                val = ast.BinOp(left=ast.parse(ast.unparse(s.target)).body[0].value, op=s.op, right=s.value)
            else:
                tgt = s.targets[0] if isinstance(s, ast.Assign) else s.target
                val = s.value
            c, t = self.expr(val)
            if isinstance(tgt, ast.Name):
                self.env[tgt.id] = t
                return f"let {tgt.id} := {c} in\n" + self.block(rest, end)
            if isinstance(tgt, ast.Attribute) and isinstance(tgt.value, ast.Name) and tgt.value.id == "self":
                ft = self.field_type(self.cls, tgt.attr)
                if t != ft:
                    if t == "Q" and ft == "QI":
                        c = f"(Fin {c})"
                    else:
                        raise Untranslatable(s, f"field {tgt.attr} : {ft} assigned a {t}")
                self.writes = True
                return f"let self := {self.setter(tgt.attr, c)} in\n" + self.block(rest, end)
            raise Untranslatable(s, "assignment target")
        if isinstance(s, ast.Expr) and isinstance(s.value, ast.Call):
            call = s.value
            if isinstance(call.func, ast.Attribute) and isinstance(call.func.value, ast.Name) and call.func.value.id == "self" \
                    and call.func.attr in METHODS[self.cls]:
                m = call.func.attr
                margs, mret = METHODS[self.cls][m]
                if mret is not None:
                    raise Untranslatable(s, "result of a method call discarded")
                kw = {k.arg: k.value for k in call.keywords}
                vals = list(call.args)
                codes = []
                for i, (an, at) in enumerate(margs):
                    v = vals[i] if i < len(vals) else kw.get(an)
                    if v is None:
                        raise Untranslatable(s, f"argument {an} missing")
                    c, t = self.expr(v)
                    if t != at:
                        raise Untranslatable(s, f"argument {an}: {t}, expected {at}")
                    codes.append(c)
                self.writes = True
                return f"let self := py_{self.cls}_{m} self {' '.join(codes)} in\n" + self.block(rest, end)
            raise Untranslatable(s, "expression statement")
        if isinstance(s, ast.If) and isinstance(s.test, ast.Compare) and len(s.test.ops) == 1 and isinstance(s.test.ops[0], ast.IsNot) \
                and isinstance(s.test.left, ast.Name) and self.env.get(s.test.left.id) in ("OZ", "OQ") \
                and isinstance(s.test.comparators[0], ast.Constant) and s.test.comparators[0].value is None:
            # `if x is not None:` narrows the Optional: inside the branch x is the value it carries
            x = s.test.left.id
            saved = self.env[x]
            self.env[x] = saved[1:]
            a = self.block(list(s.body) + rest, end)
            self.env[x] = saved
            b = self.block(list(s.orelse) + rest, end)
            return f"match {x} with\n| Some {x} => (\n{a})\n| None => (\n{b})\nend"
        if isinstance(s, ast.If) and self.cls in BASE and len(s.body) == 1 and len(s.orelse) == 1:
            # if c: x = e1 / else: x = e2  (the same local name or the same field of self): one joined binding instead of two copies of the rest
            def single(st):
                if isinstance(st, ast.AugAssign):
                    return ast.unparse(st.target), st.target, ast.BinOp(left=ast.parse(ast.unparse(st.target)).body[0].value, op=st.op, right=st.value)
                if isinstance(st, ast.Assign) and len(st.targets) == 1:
                    return ast.unparse(st.targets[0]), st.targets[0], st.value
                return None, None, None
            (ka, ta_, va), (kb, tb_, vb) = single(s.body[0]), single(s.orelse[0])
            if ka is not None and ka == kb:
                c, t = self.expr(s.test)
                (ca, tya), (cb, tyb) = self.expr(va), self.expr(vb)
                if t == "B" and tya == tyb:
                    if isinstance(ta_, ast.Name):
                        self.env[ta_.id] = tya
                        return f"let {ta_.id} := (if {c} then {ca} else {cb}) in\n" + self.block(rest, end)
                    if isinstance(ta_, ast.Attribute) and isinstance(ta_.value, ast.Name) and ta_.value.id == "self" and self.field_type(self.cls, ta_.attr) == tya:
                        self.writes = True
                        return f"let self := {self.setter(ta_.attr, 'if ' + c + ' then ' + ca + ' else ' + cb)} in\n" + self.block(rest, end)
        if isinstance(s, ast.If):
            c, t = self.expr(s.test)
            if t != "B":
                raise Untranslatable(s, "condition type")
            a = self.block(list(s.body) + rest, end)
            b = self.block(list(s.orelse) + rest, end)
            return f"if {c} then (\n{a})\nelse (\n{b})"
        raise Untranslatable(s, "statement " + type(s).__name__)

    def loop_block(self, stmts, end):
        """body of the generation loop of fit: `break` ends the loop"""
        if not stmts:
            return end()
        s, rest = stmts[0], stmts[1:]
        if isinstance(s, ast.Break):
            return "(self, true)"
        if isinstance(s, ast.If):
            t = s.test
            if self.self_call(t) is not None and self.self_call(t) in METHODS[self.cls] and METHODS[self.cls][self.self_call(t)][1] == "B" and not t.args:
                c = f"(py_{self.cls}_{self.self_call(t)} self)"
            else:
                c, tt = self.expr(t)
                if tt != "B":
                    raise Untranslatable(s, "condition type")
            a = self.loop_block(list(s.body) + rest, end)
            b = self.loop_block(list(s.orelse) + rest, end)
            return f"if {c} then (\n{a})\nelse (\n{b})"
        # any other statement: translate it alone and continue
        return self.block([s], lambda: self.loop_block(rest, end))

    def result(self, c):
        return f"(self, {c})" if self.writes_anywhere else c

    def translate(self):
        # does the method assign a field (directly or through a call)?  decided syntactically first
        self.writes_anywhere = any(
            (isinstance(n, ast.Attribute) and isinstance(n.ctx, ast.Store) and isinstance(n.value, ast.Name) and n.value.id == "self")
            or (isinstance(n, ast.Call) and isinstance(n.func, ast.Attribute) and isinstance(n.func.value, ast.Name)
                and n.func.value.id == "self" and n.func.attr in METHODS[self.cls] and METHODS[self.cls][n.func.attr][1] is None)
            for n in ast.walk(self.node))
        PURE = {"_get_aim", "_termitation_check", "get_remains_calls"}
        if (self.cls == "EvolutionaryAlgorithm" and self.name not in PURE) or self.cls in BASE:
            self.writes_anywhere = True
        params = [a.arg for a in self.node.args.args] + ([self.node.args.kwarg.arg] if self.node.args.kwarg else [])
        if params[:1] != ["self"] or params[1:] != [a for a, _ in self.args]:
            raise Untranslatable(self.node, f"parameters {params} differ from the declared {[a for a, _ in self.args]}")

        def end():
            if self.ret is not None:
                raise Untranslatable(self.node, "control reaches the end of a method that returns a value")
            return "self"
        body = self.block(list(self.node.body), end)
        rt = COQT[self.cls] if (self.ret is None or self.ret == self.cls) else (f"{COQT[self.cls]} * ({COQT[self.ret]})" if self.writes_anywhere else COQT[self.ret])
        ps = " ".join(f"({a} : {COQT[t]})" for a, t in self.args)
        return f"Definition py_{self.mcls}_{self.name} (self : {COQT[self.cls]}) {ps} : {rt} :=\n{body}."


def init_of(cls, node):
    """constructor defaults of the declared fields that __init__ sets to constants (TheFittest only)"""
    vals = {}
    for s in node.body:
        tgt = val = None
        if isinstance(s, ast.AnnAssign) and s.value is not None:
            tgt, val = s.target, s.value
        elif isinstance(s, ast.Assign):
            tgt, val = s.targets[0], s.value
        if isinstance(tgt, ast.Attribute) and isinstance(tgt.value, ast.Name) and tgt.value.id == "self":
            vals[tgt.attr] = ast.unparse(val)
    return vals


GENCODE_AVAILABLE = set()


def emit(out_file=OUT_FILE, src_root=None, need=None):
    """need: class names whose untranslatable methods make this call fail (default: all) — GenLoop.v is written either way, with an
    UNTRANSLATABLE comment in place of a definition, so that only the proofs about that class stop compiling"""
    import re
    gc = os.path.join(os.path.dirname(out_file), "GenCode.v")
    GENCODE_AVAILABLE.clear()
    if os.path.exists(gc):
        GENCODE_AVAILABLE.update(re.findall(r"^Definition (py_\w+)", open(gc).read(), flags=re.M))
    path = os.path.join(src_root or C.SRC, SRC)
    mod = ast.parse(open(path).read())
    classes = {n.name: n for n in mod.body if isinstance(n, ast.ClassDef)}
    L_ = ["(* GENERATED on every run by harness/translate_loop.py from src/thefittest/base/_ea.py; DO NOT EDIT. *)",
          "From TF Require Import Py.", "From TFG Require Import GenCode.", "Open Scope Z_scope.", "", "Section Loop.",
          "Variables G P : Type.", "Variables (dG : G) (dP : P).   (* what an out-of-range read of a population yields *)", ""]
    # Statistics._update is read as "append one copied entry per key": pinned by its text
    stat = classes.get("Statistics")
    want_stat = ("def _update(self, arg: Dict[str, Any]) -> None:\n    for key, value in arg.items():\n        try:\n            value_to_append = value.copy()\n"
                 "        except AttributeError:\n            value_to_append = value\n        if key not in self.keys():\n            self[key] = [value_to_append]\n"
                 "        else:\n            self[key].append(value_to_append)")
    got_stat = ast.unparse([n for n in stat.body if isinstance(n, ast.FunctionDef) and n.name == "_update"][0]) if stat else None
    if got_stat != want_stat:
        raise Untranslatable(stat or mod, "Statistics._update is no longer the pinned 'append a copy of every value under its key'")
    # the base-class methods the theorems are about must not be overridden by any optimizer
    import glob
    over = []
    for fpath in sorted(glob.glob(os.path.join(src_root or C.SRC, "thefittest", "optimizers", "*.py"))):
        for n in ast.parse(open(fpath).read()).body:
            if isinstance(n, ast.ClassDef):
                for f in n.body:
                    if isinstance(f, ast.FunctionDef) and f.name in NOT_OVERRIDDEN:
                        over.append(f"{os.path.basename(fpath)}:{n.name}.{f.name}")
    if over:
        raise Untranslatable(mod, "base-class loop methods are overridden: " + ", ".join(over))
    failed = []
    for cls in ("TheFittest", "EvolutionaryAlgorithm"):
        if cls not in classes:
            raise Untranslatable(mod, f"class {cls} not found")
        fs = FIELDS[cls]
        if cls == "EvolutionaryAlgorithm":
            L_.append("(* one history entry: the keyword arguments of _update_stats in _update_data *)")
            L_.append("Record StatsEntry := { se_fitness : list Q; se_population_g : list G; se_population_ph : list P; se_max_fitness : Q; se_max_g : G; se_max_ph : P }.")
            L_.append("")
        L_.append(f"Record {cls} := {{ " + "; ".join(f"{fname(cls, f)} : {COQT[t]}" for f, t in fs) + " }.")
        L_.append("")
        L_.append(f"(* functional field updates of {cls} *)")
        for f0, t0 in fs:
            parts = [f"{fname(cls, f1)} := " + ("v" if f1 == f0 else f"{fname(cls, f1)} self") for f1, _ in fs]
            L_.append(f"Definition set_{fname(cls, f0)} (v : {COQT[t0]}) (self : {cls}) : {cls} := {{| " + "; ".join(parts) + " |}.")
        L_.append("")
        if cls == "EvolutionaryAlgorithm":
            L_.append("(* the user's objective; the joblib branch of _get_fitness (C16's subject); dynamic dispatch of the methods that subclasses override *)")
            L_.append("Variable fitness_function : list P -> list Q.")
            L_.append("Variable par_value : EvolutionaryAlgorithm -> list P -> list Q.")
            L_.append("Variable d_get_phenotype : EvolutionaryAlgorithm -> list G -> list P.")
            L_.append("Variables d_get_init_population d_get_new_population d_update_data d_from_population_g_to_fitness d_first_generation d_adapt : EvolutionaryAlgorithm -> EvolutionaryAlgorithm.")
            L_.append("Variable d_trials : EvolutionaryAlgorithm -> list G.      (* the trial vectors of one DE generation: the variation operators (C07) *)")
            L_.append("")
        defs = {n.name: n for n in classes[cls].body if isinstance(n, ast.FunctionDef)}
        if cls == "TheFittest":
            iv = init_of(cls, defs["__init__"])
            if iv.get("_fitness") != "-np.inf" or iv.get("_no_update_counter") != "0" or "_genotype" in iv or "_phenotype" in iv:
                raise Untranslatable(defs["__init__"], f"TheFittest.__init__ no longer sets fitness=-inf, counter=0 and leaves the triple unset: {iv}")
            L_.append("(* TheFittest.__init__: fitness = -inf, counter = 0, genotype / phenotype not set *)")
            L_.append("Definition py_TheFittest_init : TheFittest := {| tf_genotype := dG; tf_phenotype := dP; tf_fitness := NegInf; tf_no_update_counter := 0 |}.")
            L_.append("")
        if cls == "EvolutionaryAlgorithm":
            iv = init_of(cls, defs["__init__"])
            want = {"_sign": "-1 if minimization else 1", "_aim": "self._get_aim(optimal_value, termination_error_value)", "_calls": "0",
                    "_thefittest": "TheFittest()", "_iters": "iters", "_pop_size": "pop_size", "_no_increase_num": "no_increase_num",
                    "_elitism": "elitism", "_keep_history": "keep_history", "_stats": "Statistics()", "_on_generation": "on_generation",
                    "_n_jobs": "self._get_n_jobs(n_jobs)"}
            bad = {k: iv.get(k) for k, v in want.items() if iv.get(k) != v}
            if bad:
                raise Untranslatable(defs["__init__"], f"EvolutionaryAlgorithm.__init__ initialises the loop state differently: {bad}")
            order = list(iv.keys())
            if order.index("_sign") > order.index("_aim"):
                raise Untranslatable(defs["__init__"], "EvolutionaryAlgorithm.__init__ computes _aim before _sign is set")
            cls_level = [t.id for n in classes[cls].body if isinstance(n, (ast.Assign, ast.AnnAssign)) and getattr(n, "value", None) is not None
                         for t in (n.targets if isinstance(n, ast.Assign) else [n.target]) if isinstance(t, ast.Name)]
            if set(cls_level) & {"_sign", "_aim", "_calls"}:
                raise Untranslatable(classes[cls], f"class-level defaults for loop state: {cls_level}")
        for m in METHODS[cls]:
            if m not in defs:
                failed.append((f"{cls}.{m}", "method not found"))
                L_.append(f"(* UNTRANSLATABLE {cls}.{m}: method not found *)")
                continue
            try:
                L_.append(f"(* base/_ea.py:{defs[m].lineno}  {cls}.{m} *)")
                L_.append(MT(cls, m, defs[m]).translate())
            except Untranslatable as ex:
                failed.append((f"{cls}.{m}", str(ex)))
                L_.append(f"(* UNTRANSLATABLE {cls}.{m}: {str(ex).replace('*)', '* )')} *)")
            L_.append("")
    # ---- the greedy family: DifferentialEvolution's overrides (the same record: a subclass adds no loop state)
    de_path = os.path.join(src_root or C.SRC, "thefittest/optimizers/_differentialevolution.py")
    de_cls = {n.name: n for n in ast.parse(open(de_path).read()).body if isinstance(n, ast.ClassDef)}.get("DifferentialEvolution")
    if de_cls is None:
        raise Untranslatable(mod, "class DifferentialEvolution not found")
    de_defs = {n.name: n for n in de_cls.body if isinstance(n, ast.FunctionDef)}
    for m in METHODS["DifferentialEvolution"]:
        if m not in de_defs:
            failed.append((f"DifferentialEvolution.{m}", "method not found"))
            L_.append(f"(* UNTRANSLATABLE DifferentialEvolution.{m}: method not found *)")
            continue
        try:
            L_.append(f"(* optimizers/_differentialevolution.py:{de_defs[m].lineno}  DifferentialEvolution.{m} *)")
            L_.append(MT("EvolutionaryAlgorithm", m, de_defs[m], mcls="DifferentialEvolution").translate())
        except Untranslatable as ex:
            failed.append((f"DifferentialEvolution.{m}", str(ex)))
            L_.append(f"(* UNTRANSLATABLE DifferentialEvolution.{m}: {str(ex).replace('*)', '* )')} *)")
        L_.append("")
    # ---- the adaptive subclasses: own state next to the base record; one generation's _get_new_population
    for sub in ("SHADE", "jDE", "SHAGA"):
        spath = os.path.join(src_root or C.SRC, SUB_SRC[sub])
        scls = {n.name: n for n in ast.parse(open(spath).read()).body if isinstance(n, ast.ClassDef)}.get(sub)
        fs = FIELDS[sub]
        L_.append(f"(* {sub}: the base record and the subclass's own state *)")
        L_.append(f"Record {sub} := {{ " + "; ".join(f"{fname(sub, f)} : {COQT[t]}" for f, t in fs) + " }.")
        for f0, t0 in fs:
            parts = [f"{fname(sub, f1)} := " + ("v" if f1 == f0 else f"{fname(sub, f1)} self") for f1, _ in fs]
            L_.append(f"Definition set_{fname(sub, f0)} (v : {COQT[t0]}) (self : {sub}) : {sub} := {{| " + "; ".join(parts) + " |}.")
        L_.append(f"(* oracles: the trial vectors (variation operators, C07) and the methods of {sub} that draw random numbers *)")
        extra = " -> list Q -> list Q" if sub == "jDE" else ""
        L_.append(f"Variable d_{PREFIX[sub]}_trials : {sub}{extra} -> list G.")
        for m_, (ats, rt) in SUB_ORACLES[sub].items():
            L_.append(f"Variable d_{PREFIX[sub]}{m_} : {sub} -> " + "".join(COQT[a] + " -> " for a in ats) + f"{COQT[rt]}.")
        L_.append("")
        if scls is None:
            failed.append((sub, "class not found"))
            L_.append(f"(* UNTRANSLATABLE {sub}: class not found *)")
            continue
        sdefs = {n.name: n for n in scls.body if isinstance(n, ast.FunctionDef)}
        # the subclass must not override what the base-state theorems rely on, and its base must be what the record says
        bases = [ast.unparse(b) for b in scls.bases]
        if bases != (["DifferentialEvolution"] if sub in ("SHADE", "jDE") else ["EvolutionaryAlgorithm"]):
            failed.append((sub, f"base classes {bases}"))
        for m in METHODS[sub]:
            if m not in sdefs:
                failed.append((f"{sub}.{m}", "method not found"))
                L_.append(f"(* UNTRANSLATABLE {sub}.{m}: method not found *)")
                continue
            try:
                L_.append(f"(* {SUB_SRC[sub]}:{sdefs[m].lineno}  {sub}.{m} *)")
                L_.append(MT(sub, m, sdefs[m]).translate())
            except Untranslatable as ex:
                failed.append((f"{sub}.{m}", str(ex)))
                L_.append(f"(* UNTRANSLATABLE {sub}.{m}: {str(ex).replace('*)', '* )')} *)")
            L_.append("")
    L_.append("(* EvolutionaryAlgorithm.__init__ (checked line by line by the translator): _sign = -1 if minimization else 1; _aim = _get_aim(optimal_value,")
    L_.append("   termination_error_value) evaluated with that sign; _calls = 0; _thefittest = TheFittest(); _stats = Statistics(); _iters, _pop_size,")
    L_.append("   _no_increase_num, _elitism, _keep_history, _on_generation as given; _n_jobs = _get_n_jobs(n_jobs) (C16); the populations are not set yet *)")
    L_.append("Definition py_EvolutionaryAlgorithm_init (iters pop_size : Z) (minimization : bool) (optimal_value : option Q) (termination_error_value : Q) (no_increase_num : option Z)")
    L_.append("    (elitism keep_history : bool) (n_jobs : Z) (has_callback : bool) : EvolutionaryAlgorithm :=")
    L_.append("  let sign := if minimization then -1 else 1 in")
    L_.append("  let mk aim := {| ea_iters := iters; ea_pop_size := pop_size; ea_sign := sign; ea_aim := aim; ea_calls := 0; ea_no_increase_num := no_increase_num;")
    L_.append("                   ea_thefittest := py_TheFittest_init; ea_elitism := elitism; ea_keep_history := keep_history; ea_n_jobs := n_jobs;")
    L_.append("                   ea_population_g_i := []; ea_population_ph_i := []; ea_fitness_i := []; ea_stats := []; ea_on_generation := (has_callback, 0) |} in")
    L_.append("  mk (py_EvolutionaryAlgorithm__get_aim (mk PosInf) optimal_value termination_error_value).")
    L_.append("")
    L_.append("End Loop.")
    text = "\n".join(L_) + "\n"
    os.makedirs(os.path.dirname(out_file), exist_ok=True)
    old = open(out_file).read() if os.path.exists(out_file) else None
    if old != text:
        with open(out_file, "w") as fh:
            fh.write(text)
    relevant = [(n, e) for n, e in failed if need is None or n.split(".")[0] in need]
    if relevant:
        raise RuntimeError("methods outside the translated subset (the tie to the source is broken): " + "; ".join(f"{n}: {e}" for n, e in relevant))
    return dict(failed=failed)


if __name__ == "__main__":
    print(emit())
    print(open(OUT_FILE).read())
