"""Table translator (DESIGN §3.1): SYMBOLIC_FUNCTION_NAME in init_symbolic_regression_uniset
(src/thefittest/base/_tree.py)  ->  coq/gen/GenSymTable.v

Reads the dict literal from the AST of the working tree (every key/value pair AS WRITTEN, so a
duplicated key is visible although python keeps only the last one).  Fail-closed: any shape it does
not recognise raises TranslateError naming the source line."""
from __future__ import annotations

import ast
import os

import common as C

SRC_FILE = os.path.join(C.SRC, "thefittest", "base", "_tree.py")
OUT_FILE = os.path.join(C.COQ, "gen", "GenSymTable.v")
FUNC = "init_symbolic_regression_uniset"
TABLE = "SYMBOLIC_FUNCTION_NAME"


class TranslateError(Exception):
    pass


def _imports(mod: ast.Module):
    """name -> module-qualified identifier for names bound by `from X import Y [as Z]` at module level"""
    out = {}
    for st in mod.body:
        if isinstance(st, ast.ImportFrom):
            modname = "." * st.level + (st.module or "")
            for al in st.names:
                out[al.asname or al.name] = f"{modname}.{al.name}"
    return out


def extract(path: str = SRC_FILE):
    """returns list of rows dict(key, fmt, name, sign, op, line) in source order"""
    src = open(path).read()
    mod = ast.parse(src, path)
    imps = _imports(mod)
    fn = [n for n in mod.body if isinstance(n, ast.FunctionDef) and n.name == FUNC]
    if len(fn) != 1:
        raise TranslateError(f"{path}: expected exactly one def {FUNC}, found {len(fn)}")
    assigns = [n for n in ast.walk(fn[0]) if isinstance(n, (ast.Assign, ast.AnnAssign))
               and any(isinstance(t, ast.Name) and t.id == TABLE
                       for t in (n.targets if isinstance(n, ast.Assign) else [n.target]))]
    if len(assigns) != 1:
        raise TranslateError(f"{path}:{fn[0].lineno}: expected exactly one assignment to {TABLE}, found {len(assigns)}")
    d = assigns[0].value
    if not isinstance(d, ast.Dict):
        raise TranslateError(f"{path}:{assigns[0].lineno}: {TABLE} is not a dict literal")
    # the table must not be modified afterwards (subscript stores / update / pop ...)
    for n in ast.walk(fn[0]):
        if isinstance(n, ast.Subscript) and isinstance(n.ctx, (ast.Store, ast.Del)) and \
                isinstance(n.value, ast.Name) and n.value.id == TABLE:
            raise TranslateError(f"{path}:{n.lineno}: {TABLE} is modified after its definition")
        if isinstance(n, ast.Call) and isinstance(n.func, ast.Attribute) and isinstance(n.func.value, ast.Name) \
                and n.func.value.id == TABLE and n.func.attr not in ("keys", "items", "values", "get"):
            raise TranslateError(f"{path}:{n.lineno}: unrecognised method call on {TABLE}: .{n.func.attr}")
    rows = []
    for k, v in zip(d.keys, d.values):
        if k is None:
            raise TranslateError(f"{path}:{v.lineno}: dict unpacking inside {TABLE}")
        if not (isinstance(k, ast.Constant) and isinstance(k.value, str)):
            raise TranslateError(f"{path}:{k.lineno}: key of {TABLE} is not a string literal")
        if not (isinstance(v, ast.Call) and isinstance(v.func, ast.Name) and v.func.id == "create_operator"
                and not v.keywords and len(v.args) == 4):
            raise TranslateError(f"{path}:{v.lineno}: value for key {k.value!r} is not create_operator(fmt, name, sign, op)")
        fmt, name, sign, op = v.args
        for a in (fmt, name, sign):
            if not (isinstance(a, ast.Constant) and isinstance(a.value, str)):
                raise TranslateError(f"{path}:{a.lineno}: create_operator argument is not a string literal")
        if not isinstance(op, ast.Name):
            raise TranslateError(f"{path}:{op.lineno}: operation of key {k.value!r} is not a plain identifier")
        if op.id not in imps:
            raise TranslateError(f"{path}:{op.lineno}: operation {op.id!r} is not bound by a module-level from-import")
        rows.append(dict(key=k.value, fmt=fmt.value, name=name.value, sign=sign.value, op=imps[op.id], line=k.lineno))
    if imps.get("create_operator") != "..utils.create_operator":
        raise TranslateError(f"{path}: create_operator is not thefittest.utils.create_operator")
    if not rows:
        raise TranslateError(f"{path}:{d.lineno}: {TABLE} is empty")
    return rows


def cstr(s: str) -> str:
    for ch in s:
        if ord(ch) < 32 or ord(ch) > 126:
            raise TranslateError(f"non-printable / non-ASCII character in table string {s!r}")
    return '"' + s.replace('"', '""') + '"'


def emit(rows, out: str = OUT_FILE):
    os.makedirs(os.path.dirname(out), exist_ok=True)
    body = ";\n  ".join(
        "{| sr_key := %s; sr_fmt := %s; sr_name := %s; sr_sign := %s; sr_op := %s |}"
        % (cstr(r["key"]), cstr(r["fmt"]), cstr(r["name"]), cstr(r["sign"]), cstr(r["op"])) for r in rows)
    text = ("(* GENERATED on every run by harness/translate_symtable.py from\n"
            "   src/thefittest/base/_tree.py : init_symbolic_regression_uniset : SYMBOLIC_FUNCTION_NAME.\n"
            "   Do not edit. Rows are the key/value pairs as written in the source (lines %s). *)\n"
            "From Coq Require Import String List.\nImport ListNotations.\nFrom TF Require Import TreeEval.\n"
            "Open Scope string_scope.\n"
            "Definition sym_table : list symrow := [\n  %s\n].\n"
            % (",".join(str(r["line"]) for r in rows), body))
    old = open(out).read() if os.path.exists(out) else None
    if old != text:                      # keep the timestamp when nothing changed (incremental make)
        with open(out, "w") as fh:
            fh.write(text)
    return out


def gen():
    rows = extract()
    emit(rows)
    return rows


if __name__ == "__main__":
    for r in gen():
        print(r)
