"""Shared machinery: paths, Coq literal printers, the coqc case runner, evidence, verdicts."""
from __future__ import annotations

import concurrent.futures as cf
import fractions
import hashlib
import json
import os
import re
import shutil
import subprocess
import sys
import tempfile
import time

VERIF = os.path.dirname(os.path.dirname(os.path.abspath(__file__)))
REPO = os.environ.get("THEFITTEST_REPO", "/repo")
SRC = os.path.join(REPO, "src")
COQ = os.path.join(VERIF, "coq")
SCRATCH_ROOT = os.path.join(VERIF, ".scratch")
COQ_ARGS = ["-Q", os.path.join(COQ, "theories"), "TF", "-Q", os.path.join(COQ, "gen"), "TFG",
            "-Q", os.path.join(COQ, "props"), "TFP"]
NCPU = min(16, os.cpu_count() or 4)


# --------------------------------------------------------------------------- literals
def cz(n) -> str:
    n = int(n)
    return f"({n})%Z" if n < 0 else f"{n}%Z"


def cnat(n) -> str:
    n = int(n)
    assert 0 <= n < 5000, n
    return f"{n}%nat"


def cq(x) -> str:
    """exact rational literal for an int / float / Fraction"""
    if isinstance(x, bool):
        x = int(x)
    if isinstance(x, int):
        fr = fractions.Fraction(x)
    elif isinstance(x, fractions.Fraction):
        fr = x
    else:
        x = float(x)
        if x != x or x in (float("inf"), float("-inf")):
            raise ValueError(f"non-finite value {x} cannot be sent to the exact model")
        fr = fractions.Fraction(*x.as_integer_ratio())
    n, d = fr.numerator, fr.denominator
    ns = f"({n})" if n < 0 else f"{n}"
    return f"({ns} # {d})"


def cbool(b) -> str:
    return "true" if b else "false"


def clist(items, f=None) -> str:
    if f is not None:
        items = [f(i) for i in items]
    return "[" + "; ".join(items) + "]"


def coption(x, f) -> str:
    return "None" if x is None else f"(Some {f(x)})"


def cdraw(d) -> str:
    k = d[0]
    if k == "U":
        return f"DU {cq(d[1])}"
    if k == "I":
        return f"DI {cz(d[1])} {cz(d[2])}"
    if k == "X":
        return f"DX {cq(d[1])}"
    raise ValueError(d)


def cdraws(ds) -> str:
    return clist(ds, cdraw)


# --------------------------------------------------------------------------- scratch
class Scratch:
    def __init__(self, tag: str):
        os.makedirs(SCRATCH_ROOT, exist_ok=True)
        self.dir = tempfile.mkdtemp(prefix=tag + "-", dir=SCRATCH_ROOT)

    def path(self, name: str) -> str:
        return os.path.join(self.dir, name)

    def cleanup(self) -> None:
        shutil.rmtree(self.dir, ignore_errors=True)


# --------------------------------------------------------------------------- coq runner
def run_coqc(vfile: str, timeout: int = 600):
    """compile one .v file; returns (rc, stdout+stderr)"""
    try:
        p = subprocess.run(["coqc"] + COQ_ARGS + [vfile], capture_output=True, text=True,
                           timeout=timeout, cwd=os.path.dirname(vfile))
        return p.returncode, p.stdout + p.stderr
    except subprocess.TimeoutExpired:
        return 124, f"coqc timeout after {timeout}s on {vfile}"


_BAD_RE = re.compile(r"=\s*\[(.*?)\]\s*:\s*list nat", re.S)


def parse_nat_list(out: str):
    m = _BAD_RE.search(out)
    if not m:
        return None
    body = m.group(1).strip()
    if not body:
        return []
    return [int(x.replace("%nat", "").strip()) for x in body.split(";")]


class CoqCases:
    """Accumulates cases (Coq terms as strings) of one family and evaluates
         bad_indices <check> cases
       in shards of <= shard cases under parallel coqc.  Returns the indices (into the list
       given) on which the model-side check returns false."""

    def __init__(self, scratch: Scratch, name: str, imports: str, check: str, ctype: str,
                 shard: int = 400):
        self.scratch, self.name, self.imports = scratch, name, imports
        self.check, self.ctype, self.shard = check, ctype, shard
        self.cases = []   # coq terms
        self.meta = []    # python-side description of each case (for replays)

    def add(self, term: str, meta) -> None:
        self.cases.append(term)
        self.meta.append(meta)

    def __len__(self):
        return len(self.cases)

    def _file_text(self, terms, extra: str = "") -> str:
        body = ";\n  ".join(terms)
        return (f"{self.imports}\nOpen Scope Q_scope.\n"
                f"Definition cases : list ({self.ctype}) := [\n  {body}\n].\n"
                f"Eval vm_compute in (bad_indices ({self.check}) cases).\n{extra}")

    def run(self, timeout: int = 1800):
        """returns (bad, errors): bad = sorted list of failing global indices; errors = list of
        (shard, output) for shards that did not evaluate (a broken model counts as a broken tie).
        A shard that only TIMES OUT (a loaded machine is not a property of the code) is split into quarters and
        evaluated again with three times the budget before it is reported."""
        if not self.cases:
            return [], []
        jobs = []
        for s, lo in enumerate(range(0, len(self.cases), self.shard)):
            f = self.scratch.path(f"{self.name}_{s:04d}.v")
            with open(f, "w") as fh:
                fh.write(self._file_text(self.cases[lo:lo + self.shard]))
            jobs.append((lo, min(self.shard, len(self.cases) - lo), f))
        bad, errors = [], []
        for attempt in (0, 1):
            retry = []
            with cf.ThreadPoolExecutor(max_workers=NCPU) as ex:
                futs = {ex.submit(run_coqc, f, timeout * (3 if attempt else 1)): (lo, n, f) for lo, n, f in jobs}
                for fut in cf.as_completed(futs):
                    lo, n, f = futs[fut]
                    rc, out = fut.result()
                    idx = parse_nat_list(out) if rc == 0 else None
                    if idx is not None:
                        bad.extend(lo + i for i in idx)
                    elif rc == 124 and attempt == 0 and n > 1:
                        q = max(1, (n + 3) // 4)
                        for k, sub in enumerate(range(lo, lo + n, q)):
                            g = f[:-2] + f"_r{k}.v"
                            with open(g, "w") as fh:
                                fh.write(self._file_text(self.cases[sub:min(sub + q, lo + n)]))
                            retry.append((sub, min(q, lo + n - sub), g))
                    else:
                        errors.append((os.path.basename(f), out[-2000:]))
            jobs = retry
            if not jobs:
                break
        return sorted(bad), errors

    def explain(self, i: int, expr: str, timeout: int = 300) -> str:
        """evaluate  expr  (a Coq term mentioning  c ) on case i and return Coq's printed value"""
        f = self.scratch.path(f"{self.name}_explain_{i}.v")
        with open(f, "w") as fh:
            fh.write(f"{self.imports}\nOpen Scope Q_scope.\nDefinition c : {self.ctype} := {self.cases[i]}.\n"
                     f"Eval vm_compute in ({expr}).\n")
        rc, out = run_coqc(f, timeout)
        return out.strip()[-4000:]


def coq_eval(scratch: Scratch, name: str, text: str, timeout: int = 600):
    f = scratch.path(name + ".v")
    with open(f, "w") as fh:
        fh.write(text)
    return run_coqc(f, timeout)


# --------------------------------------------------------------------------- misc
def sha(obj) -> str:
    return hashlib.sha256(json.dumps(obj, sort_keys=True, default=str).encode()).hexdigest()[:12]


def jsonable(x):
    import numpy as np
    if isinstance(x, dict):
        return {str(k): jsonable(v) for k, v in x.items()}
    if isinstance(x, (list, tuple)):
        return [jsonable(v) for v in x]
    if isinstance(x, np.ndarray):
        return jsonable(x.tolist())
    if isinstance(x, (np.integer,)):
        return int(x)
    if isinstance(x, (np.floating,)):
        return float(x)
    if isinstance(x, (np.bool_,)):
        return bool(x)
    if isinstance(x, fractions.Fraction):
        return f"{x.numerator}/{x.denominator}"
    if isinstance(x, (str, int, float, bool)) or x is None:
        return x
    return repr(x)


class Timer:
    def __init__(self):
        self.t0 = time.time()

    def s(self) -> float:
        return round(time.time() - self.t0, 2)


def log(*a):
    print(*a, file=sys.stderr, flush=True)
