"""Live traces of whole optimizer runs for the loop properties (C01, C02, C03, C05, C17).

A trace records, from OUTSIDE the optimizer: every batch handed to the objective (phenotypes and the
values returned), every genotype->phenotype call, the optimizer's state at every on_generation
callback and at the end (population, fitness, record triple, counters, remaining calls, history
lengths, alias relations), and get_stats()."""
from __future__ import annotations

import fractions
from operator import add, mul, sub

import numpy as np

import common as C
import live as L

KINDS = ["GeneticAlgorithm", "SelfCGA", "PDPGA", "SHAGA", "DifferentialEvolution", "jDE", "SHADE",
         "GeneticProgramming", "SelfCGP", "PDPGP"]
GREEDY = {"SHAGA", "DifferentialEvolution", "jDE", "SHADE"}
TREES = {"GeneticProgramming", "SelfCGP", "PDPGP"}
IMPORTS = "From TF Require Import Base EALoop LoopCheck."


def num(v):
    """exact Python number of a scalar: integers stay integers (int64 objectives beyond 2^53 must not be rounded)"""
    if isinstance(v, (bool, np.bool_)):
        return int(v)
    if isinstance(v, (int, np.integer)):
        return int(v)
    return float(v)


def ident(x):
    """canonical hashable identity of a genotype / phenotype"""
    if isinstance(x, np.ndarray):
        if x.dtype == object:
            return ("objarr",) + tuple(ident(v) for v in x)
        return ("arr", tuple(np.asarray(x, dtype=np.float64).ravel().tolist()))
    if isinstance(x, (float, int, np.floating, np.integer)):
        return ("num", float(x))
    return ("obj", str(x))


def make_uniset():
    from thefittest.base import EphemeralNode, FunctionalNode, TerminalNode, UniversalSet, create_operator
    from thefittest.utils.random import generator2
    fs = (FunctionalNode(create_operator("({} + {})", "add", "+", add)),
          FunctionalNode(create_operator("({} * {})", "mul", "*", mul)),
          FunctionalNode(create_operator("({} - {})", "sub", "-", sub)),
          FunctionalNode(create_operator("neg({})", "neg", "neg", lambda a: -a)))
    ts = [TerminalNode(np.array([1.0, 2.0, 3.0]), "x0"), TerminalNode(np.array([0.5, 0.25, 2.0]), "x1"), EphemeralNode(generator2)]
    return UniversalSet(fs, ts)


class G2P:
    def __init__(self, kind):
        self.kind = kind
        self.pairs = []

    def __call__(self, pop_g, **kw):
        if self.kind in TREES:
            ph = np.array([float(len(t) % 5) for t in pop_g], dtype=np.float64).reshape(-1, 1)
        elif self.kind in ("DifferentialEvolution", "jDE", "SHADE"):
            ph = np.floor(np.asarray(pop_g, dtype=np.float64) * 2.0)
        else:
            ph = np.asarray(pop_g, dtype=np.float64)[:, ::2].copy()
        for g, p in zip(pop_g, ph):
            self.pairs.append((ident(g), ident(p)))
        return ph


def random_config(rng, kind, **force):
    cfg = dict(kind=kind, seed=rng.randrange(1 << 30), pop=rng.randint(8, 11), iters=rng.choice([1, 2, 3, 5, 7]),
               elitism=rng.random() < 0.6, minimization=rng.random() < 0.5, g2p=rng.random() < 0.35,
               init=rng.random() < 0.35, objective=rng.choice(["onemax", "plateau", "const", "neg", "weighted", "first", "nearties", "nearties45"]),
               scale=rng.choice([1.0, 1.0, 2.0 ** 40, 0.125]), opt_mode=rng.choice(["none", "none", "first", "mid", "never"]),
               err=rng.choice([0.0, 0.125, 1.0]), nin=rng.choice([None, None, 0, 1, 2, 50]), str_len=rng.randint(4, 8),
               dim=rng.randint(1, 3), keep_history=True, offset=rng.choice([0.0, 0.0, 0.0, 2.0 ** 50, -(2.0 ** 50)]),
               strategy=rng.choice(["best_1", "rand_1", "current_to_best_1", "rand_to_best1", "best_2", "rand_2"]))
    cfg["buffer"] = rng.random() < 0.3           # the objective returns the same (overwritten) output array on every call
    if cfg["offset"] != 0.0:
        cfg["err"] = rng.choice([0.0, 1.0])      # keep sign*optimal_value - err exactly representable next to 2^50
    if kind in TREES:
        cfg["objective"] = rng.choice(["onemax", "const", "plateau", "nearties", "nearties45"])   # Objective maps trees to len(tree)
    if kind in ("DifferentialEvolution", "jDE", "SHADE") and rng.random() < 0.25:
        cfg["objective"], cfg["scale"] = "view", 1.0      # the objective returns a view of the population it was handed
    # operator names and their numeric parameters (incl. the argument-parameterised *_k / custom_rate entries)
    if kind == "GeneticAlgorithm" and rng.random() < 0.7:
        cfg["ops"] = dict(selection=rng.choice(["tournament_k", "tournament_3", "rank", "proportional", "tournament_k"]),
                          crossover=rng.choice(["uniform_k", "uniform_prop_k", "uniform_rank_k", "uniform_tour_k", "one_point", "two_point", "uniform_2", "empty"]),
                          mutation=rng.choice(["custom_rate", "custom_rate", "weak", "average", "strong"]),
                          tour_size=rng.choice([2, 3, 4]), parents_num=rng.choice([2, 3, 4]), mutation_rate=rng.choice([0.0625, 0.25, 0.5]))
    if kind == "GeneticProgramming" and rng.random() < 0.7:
        cfg["ops"] = dict(selection=rng.choice(["tournament_k", "tournament_3", "rank", "tournament_k"]),
                          crossover=rng.choice(["gp_uniform_k", "gp_uniform_rank_k", "gp_uniform_tour_k", "gp_standard", "gp_one_point", "gp_uniform_prop_k"]),
                          mutation=rng.choice(["gp_custom_rate_point", "gp_custom_rate_grow", "gp_custom_rate_shrink", "gp_weak_grow", "gp_average_point"]),
                          tour_size=rng.choice([2, 3, 4]), parents_num=rng.choice([2, 3, 4]), mutation_rate=rng.choice([0.0625, 0.25, 0.5]))
    # integer-valued objectives returned as int64 arrays with values beyond 2^53 (exact in int64, not in float64)
    if kind in ("GeneticAlgorithm", "SelfCGA", "PDPGA", "DifferentialEvolution", "jDE") and rng.random() < 0.2:
        cfg.update(intobj=(1 << 60) if rng.random() < 0.7 else -(1 << 61), scale=1.0, offset=0.0, opt_mode="none", buffer=False,
                   objective=rng.choice(["onemax", "plateau", "weighted", "neg"]) if kind not in ("DifferentialEvolution", "jDE") else "plateau")
        if kind in ("DifferentialEvolution", "jDE") and cfg["intobj"] > 0 and rng.random() < 0.6:
            cfg.update(uint=True, minimization=False)      # an unsigned array (sums over uint8 data): comparisons are exact, differences wrap
    cfg.update(force)
    if cfg.get("uint") and cfg.get("minimization"):
        cfg["uint"] = False          # -1 * <unsigned array> is not defined: the unsigned objective is for maximisation only
    return cfg


def build(cfg, obj, g2p, callback, rng_init):
    import thefittest.optimizers as O
    kind = cfg["kind"]
    common = dict(iters=cfg["iters"], pop_size=cfg["pop"], elitism=cfg["elitism"], minimization=cfg["minimization"],
                  keep_history=cfg["keep_history"], random_state=cfg["seed"], on_generation=callback,
                  no_increase_num=cfg["nin"], genotype_to_phenotype=g2p,
                  fitness_function_args=cfg.get("_f_args"), genotype_to_phenotype_args=(cfg.get("_g_args") if g2p else None))
    if cfg.get("optimal_value") is not None:
        common.update(optimal_value=cfg["optimal_value"], termination_error_value=cfg["err"])
    init = None
    if kind in ("GeneticAlgorithm", "SelfCGA", "PDPGA", "SHAGA"):
        if cfg.get("_init_object") is not None:
            init = cfg["_init_object"]           # the caller re-uses the very array object of an earlier run
        elif cfg["init"]:
            init = np.array([[rng_init.randint(0, 1) for _ in range(cfg["str_len"])] for _ in range(cfg["pop"])], dtype=np.byte)
        opt = getattr(O, kind)(obj, str_len=cfg["str_len"], init_population=init, **common, **(cfg.get("ops") or {}))
    elif kind in ("DifferentialEvolution", "jDE", "SHADE"):
        if cfg.get("_init_object") is not None:
            init = cfg["_init_object"]
        elif cfg["init"]:
            wide = 12 if rng_init.random() < 0.4 else 8        # sometimes a warm start from a wider box than [-2, 2]
            init = np.array([[rng_init.randint(-wide, wide) / 4 for _ in range(cfg["dim"])] for _ in range(cfg["pop"])], dtype=np.float64)
            if rng_init.random() < 0.2:
                init[:] = init[0]                               # a replicated start: every donor is the common point, every trial equals its target
        kw = dict(left_border=-2.0, right_border=2.0, num_variables=cfg["dim"], init_population=init)
        if kind != "SHADE":
            kw["mutation"] = cfg.get("strategy", "rand_1")
        opt = getattr(O, kind)(obj, **kw, **common)
    else:
        from thefittest.base import Tree
        uniset = cfg["_uniset"]
        if cfg.get("_init_object") is not None:
            init = cfg["_init_object"]
        elif cfg["init"]:
            from thefittest.utils.random import numba_seed
            numba_seed(int(cfg["seed"]) ^ 0x2545F491)     # the caller-supplied initial trees are a function of the configuration
            init = np.array([Tree.random_tree(uniset, 3) for _ in range(cfg["pop"])], dtype=object)
        opt = getattr(O, kind)(obj, uniset=uniset, max_level=6, init_population=init, **common, **(cfg.get("ops") or {}))
    return opt, init


SERIES_ATTR = {"s_proba": "_selection_proba", "c_proba": "_crossover_proba", "m_proba": "_mutation_proba",
               "H_F": "_H_F", "H_CR": "_H_CR", "H_MR": "_H_MR", "F": "_F", "CR": "_CR"}


def adapt_state(opt):
    """deep copies of the live adaptation state (the quantities the subclasses also record in their history)"""
    return {k: L.snap(getattr(opt, a)) for k, a in SERIES_ATTR.items() if hasattr(opt, a)}


def observe(opt, obj, cfg):
    """state of the optimizer as seen from outside (deep copies) + alias relations"""
    tf = opt._thefittest
    pg, pp, fi = opt._population_g_i, opt._population_ph_i, opt._fitness_i
    rec_g, rec_p = tf._genotype, tf._phenotype
    alias = []
    try:
        if isinstance(rec_g, np.ndarray) and isinstance(pg, np.ndarray) and pg.dtype != object and np.shares_memory(rec_g, pg):
            alias.append("record.genotype~population_g")
        if isinstance(rec_p, np.ndarray) and isinstance(pp, np.ndarray) and pp.dtype != object and np.shares_memory(rec_p, pp):
            alias.append("record.phenotype~population_ph")
        if isinstance(pg, np.ndarray) and pg.dtype == object and any(rec_g is t for t in pg):
            alias.append("record.genotype is population_g[i]")
        if isinstance(pp, np.ndarray) and pp.dtype == object and any(rec_p is t for t in pp):
            alias.append("record.phenotype is population_ph[i]")
    except Exception as e:  # pragma: no cover
        alias.append(f"alias-observation-failed: {e}")
    st = opt.get_stats()
    return dict(pop_g=[ident(x) for x in pg], pop_ph=[ident(x) for x in pp], fitness=[num(v) for v in fi],
                rec=(ident(rec_g), ident(rec_p), num(tf._fitness)), counter=int(tf._no_update_counter),
                calls=int(opt._calls), remains=int(opt.get_remains_calls()), n_batches=len(obj.batches),
                hist_len={k: len(v) for k, v in st.items()}, alias=alias, adapt=adapt_state(opt),
                raw=(L.snap(pg), L.snap(pp), L.snap(fi)), stats_copy={k: [L.snap(e) for e in v] for k, v in st.items()})


def _report_ident(r):
    return tuple((k, num(v) if np.isscalar(v) else ident(v)) for k, v in sorted(r.items()))


def run_trace(cfg):
    import random as _r
    rng_init = _r.Random(cfg["seed"] ^ 0x5bd1e995)
    kind = cfg["kind"]
    off = cfg.get("offset", 0.0) if abs(cfg["scale"]) <= 2.0 and cfg["objective"] not in ("view", "nearties", "nearties45") else 0.0   # keep values exact
    obj = L.Objective(cfg["objective"], scale=cfg["scale"], offset=off, reuse_buffer=bool(cfg.get("buffer")),
                      int_offset=cfg.get("intobj"), unsigned=bool(cfg.get("uint")))
    g2p = G2P(kind) if cfg["g2p"] else None
    snaps = []
    holder = {}

    kept = []

    def cb(o):
        snaps.append(observe(o, obj, cfg))
        r = o.get_fittest()                       # a caller keeps every report it was given (history.append(opt.get_fittest()))
        kept.append((r, _report_ident(r)))
        return len(snaps)                         # what a progress-bar style callback returns (truthy): not a stopping rule
    if kind in TREES and "_uniset" not in cfg:
        cfg["_uniset"] = make_uniset()
    opt, init = build(cfg, obj, g2p, cb, rng_init)
    init_before = L.snap(init) if init is not None else None
    adapt_init = adapt_state(opt)
    if cfg.get("_between_build_and_fit") is not None:
        cfg["_between_build_and_fit"]()          # e.g. draws / other runs between constructing the optimizer and fit()
    opt.fit()
    final = observe(opt, obj, cfg)
    kept_changed = [i for i, (r, was) in enumerate(kept) if _report_ident(r) != was]
    sign = -1 if cfg["minimization"] else 1
    batches = []
    for X, v in obj.batches:
        batches.append(dict(ph=[ident(x) for x in X], value=[num(t) for t in v], fit=[sign * num(t) for t in v]))
    return dict(cfg={k: v for k, v in cfg.items() if not k.startswith("_")}, batches=batches, g2p=(g2p.pairs if g2p else None),
                snaps=snaps, final=final, stats=opt.get_stats(), opt=opt, obj=obj, init=init, init_before=init_before,
                fittest=opt.get_fittest(), kept_reports=len(kept), kept_changed=kept_changed, adapt_init=adapt_init)


def with_target(cfg):
    """choose optimal_value from a dry run so that the target is reached at the first / a middle / no generation"""
    mode = cfg["opt_mode"]
    if mode == "none":
        cfg["optimal_value"] = None
        return cfg
    dry = dict(cfg, optimal_value=None, nin=None, keep_history=True)
    tr = run_trace(dry)
    sign = -1.0 if cfg["minimization"] else 1.0
    best, per_gen = None, []
    for b in tr["batches"]:
        m = max(b["fit"])
        best = m if best is None else max(best, m)
        per_gen.append(best)
    if mode == "first":
        target_fit = per_gen[0]
    elif mode == "mid":
        target_fit = per_gen[len(per_gen) // 2]
    else:
        target_fit = per_gen[-1] + 1000.0 * abs(cfg["scale"]) + 8.0
    # aim = sign*opt - err >=...; choose opt so that aim == target_fit exactly:  opt = sign*(target_fit + err)
    cfg["optimal_value"] = sign * (target_fit + cfg["err"])
    if "_uniset" in dry:
        cfg["_uniset"] = dry["_uniset"]
    return cfg


# --------------------------------------------------------------------------- Coq case
class IdTable:
    def __init__(self):
        self.ids = {}

    def __call__(self, key):
        if key not in self.ids:
            self.ids[key] = len(self.ids) + 1
        return self.ids[key]


def coq_case(tr):
    """term of type lcase for LoopCheck.chk_loop; None when the trace cannot be expressed (e.g. the
    objective saw a phenotype whose genotype is unknown)"""
    cfg = tr["cfg"]
    gid, pid = IdTable(), IdTable()
    batches_g = []
    if tr["g2p"] is None:
        # genotype = phenotype
        g2p_tab = {}
        for b in tr["batches"]:
            row = []
            for p in b["ph"]:
                g = gid(p)
                g2p_tab[g] = pid(p)
                row.append(g)
            batches_g.append(row)
    else:
        pairs = list(tr["g2p"])
        g2p_tab = {}
        pos = 0
        for b in tr["batches"]:
            row = []
            for p in b["ph"]:
                if pos >= len(pairs) or pairs[pos][1] != p:
                    return None
                g = gid(pairs[pos][0])
                if g in g2p_tab and g2p_tab[g] != pid(p):
                    return None      # g2p not a function of content: cannot be expressed
                g2p_tab[g] = pid(p)
                row.append(g)
                pos += 1
            batches_g.append(row)
    nf_tab = {}
    for b in tr["batches"]:
        for p, f in zip(b["ph"], b["fit"]):
            q = pid(p)
            if q in nf_tab and nf_tab[q] != f:
                return None
            nf_tab[q] = f
    fin = tr["final"]

    def triple(g, p, f):
        return f"({C.cz(gid(g))}, {C.cz(pid(p))}, {C.cq(f)})"
    kindc = "Greedy" if cfg["kind"] in GREEDY else "Generational"
    if cfg.get("optimal_value") is None:
        aim = "None"
    else:
        aim = f"aim_of {C.cbool(cfg['minimization'])} (Some {C.cq(cfg['optimal_value'])}) {C.cq(cfg['err'])}"
    nin = "None" if cfg["nin"] is None else f"(Some {C.cnat(cfg['nin'])})"
    st = tr["stats"]
    hist = []
    for i in range(len(st.get("fitness", []))):
        pg, pp, fi = st["population_g"][i], st["population_ph"][i], st["fitness"][i]
        rows = C.clist([triple(ident(g), ident(p), num(f)) for g, p, f in zip(pg, pp, fi)])
        mx = triple(ident(st["max_g"][i]), ident(st["max_ph"][i]), num(st["max_fitness"][i]))
        hist.append(f"({rows}, {mx})")
    pop = C.clist([triple(g, p, f) for g, p, f in zip(fin["pop_g"], fin["pop_ph"], fin["fitness"])])
    g2pt = C.clist([f"({C.cz(a)}, {C.cz(b)})" for a, b in sorted(g2p_tab.items())])
    nft = C.clist([f"({C.cz(a)}, {C.cq(b)})" for a, b in sorted(nf_tab.items())])
    bt = C.clist([C.clist(r, C.cz) for r in batches_g])
    return (f"{{| lc_kind := {kindc}; lc_elit := {C.cbool(cfg['elitism'])}; lc_aim := {aim}; lc_nin := {nin}; "
            f"lc_iters := {C.cnat(cfg['iters'])}; lc_g2p := {g2pt}; lc_nf := {nft}; lc_batches := {bt}; "
            f"lc_gens := {C.cnat(len(tr['batches']))}; lc_calls := {C.cnat(fin['calls'])}; lc_callbacks := {C.cnat(len(tr['snaps']))}; "
            f"lc_best := {triple(*fin['rec'])}; lc_counter := {C.cnat(fin['counter'])}; lc_pop := {pop}; lc_hist := {C.clist(hist)} |}}")


def per_generation_best(tr):
    best, out = None, []
    for b in tr["batches"]:
        m = max(b["fit"])
        best = m if best is None else max(best, m)
        out.append(best)
    return out


def fr(x):
    return fractions.Fraction(*float(x).as_integer_ratio())
