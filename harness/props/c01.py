"""C01 — the reported best solution is the best individual ever evaluated."""
from __future__ import annotations

import numpy as np

import live as L
import loop_traces as LT
from props import _loop

ESCALATE = True     # cheap thorough tier: run it whenever an anchor file differs from the pinned fingerprint
RULE = ("live runs of all ten optimizer classes over random configurations (elitism, minimization, genotype_to_phenotype, "
        "init_population, objective family incl. plateau/constant/negative/2^40-scaled, stopping criteria); at every "
        "on_generation callback and at the end the record is compared with the maximum over every individual the "
        "objective wrapper has seen; alias observation and in-place perturbation of the population; every trace replayed "
        "through the Coq loop model. Additional family checked implementation-against-statement only (the loop model has finite "
        "values): objectives infinite in the good direction at an evaluated optimum. distinct = configuration incl. seed.")
THEORIES, TRUSTED, ASSUMPTIONS = _loop.THEORIES, _loop.TRUSTED, _loop.ASSUMPTIONS
gen = _loop.gen


def predicate(tr, rep):
    cfg, batches = tr["cfg"], tr["batches"]
    pairs = set(tr["g2p"]) if tr["g2p"] is not None else None
    states = tr["snaps"] + [tr["final"]]
    for si, st in enumerate(states):
        seen = batches[: st["n_batches"]]
        allfit = [f for b in seen for f in b["fit"]]
        g, p, f = st["rec"]
        where = dict(cfg=cfg, at=("callback %d" % si) if si < len(tr["snaps"]) else "end", record_fitness=f,
                     max_evaluated=max(allfit) if allfit else None)
        if not allfit or f != max(allfit):
            rep.problem("best", "reported best fitness is not the maximum over every individual handed to the fitness function",
                        where, "best-not-max", True, f, max(allfit) if allfit else None, "C01_best_is_max")
        elif not any(pp == p and ff == f for b in seen for pp, ff in zip(b["ph"], b["fit"])):
            rep.problem("best", "reported phenotype is not an evaluated individual that attained the reported fitness", where,
                        "best-not-evaluated", True, None, None, "C01_best_is_max")
        if pairs is not None:
            if (g, p) not in pairs:
                rep.problem("best", "reported phenotype is not the genotype_to_phenotype image of the reported genotype", where,
                            "best-g2p", True, None, None, "C01_best_is_max")
        elif g != p:
            rep.problem("best", "reported phenotype differs from the reported genotype although no genotype_to_phenotype is set",
                        where, "best-g2p", True, None, None, "C01_best_is_max")
        if st["alias"]:
            rep.problem("private", "the record shares storage with the working population: " + ", ".join(st["alias"]), where,
                        "record-aliases-population", True, st["alias"], None, "C01_fittest_private")
    if tr.get("kept_changed"):
        rep.problem("private", "a get_fittest() result kept by the caller at a generation boundary was changed by later optimizer updates "
                    "(reports of callbacks %s of %d)" % (tr["kept_changed"][:6], tr["kept_reports"]), dict(cfg=cfg),
                    "report-changed-later", True, None, None, "C01_fittest_private")
    # in-place population updates after the run must not change the record
    opt = tr["opt"]
    before = L.snap(opt._thefittest.get())
    for arr in (opt._population_g_i, opt._population_ph_i):
        if isinstance(arr, np.ndarray) and arr.dtype != object:
            arr[...] = 0 if arr.dtype.kind in "iub" else -12345.5
    opt._fitness_i[...] = (0 if opt._fitness_i.dtype.kind == "u" else -(1 << 62)) if opt._fitness_i.dtype.kind in "iu" else -1e300
    after = opt._thefittest.get()
    if not all(L.same(before[k], after[k]) for k in before):
        rep.problem("private", "overwriting the population in place changed the reported triple", dict(cfg=cfg),
                    "record-aliases-population", True, None, None, "C01_fittest_private")


def infinite_optimum(ctx, rep):
    """objectives that are infinite in the good direction at their optimum (log of an error that can be exactly 0): the record is the maximum
    over every evaluated individual — +inf (sign-normalised) once the optimum was evaluated (implementation against the statement only:
    the exact loop model has finite values)"""
    import thefittest.optimizers as O
    plans = [("GeneticAlgorithm", dict(str_len=6, selection="tournament_3")), ("SHAGA", dict(str_len=6)), ("SelfCGA", dict(str_len=6)),
             ("GeneticAlgorithm", dict(str_len=6, selection="rank", elitism=False))]
    for kind, kw in plans[: ctx.pick(4, 4)]:
        for mini in (True, False):
            seed, pop = ctx.rng.randrange(1 << 30), ctx.rng.choice([8, 10])
            seen = []

            def f(X, mini=mini, seen=seen):
                with np.errstate(all="ignore"):
                    v = np.log((np.asarray(X) == 0).sum(axis=1).astype(np.float64))     # -inf on the all-ones string
                v = v if mini else -v
                seen.extend(float(t) for t in v)
                return v
            rng_np = np.random.RandomState(seed % (1 << 31))
            init = rng_np.randint(0, 2, size=(pop, 6)).astype(np.byte)
            init[pop // 2] = 1                                                   # the optimum is in the initial population
            reports = []
            opt = getattr(O, kind)(f, iters=4, pop_size=pop, minimization=mini, init_population=init, random_state=seed,
                                   on_generation=lambda o: reports.append(float(o.get_fittest()["fitness"])), **kw)
            opt.fit()
            rep.traces += 1
            rep.count("infinite-optimum", (kind, seed, mini))
            best = max((-t if mini else t) for t in seen)
            got = float(opt.get_fittest()["fitness"])
            if got != best or any(r != float("inf") for r in reports):
                rep.problem("best", f"{kind}: the objective is infinite (in the good direction) at an evaluated individual, the reported fitness is {got} "
                            f"(at the generation boundaries: {reports[:4]})", dict(kind=kind, seed=seed, minimization=mini, pop_size=pop, objective="log(#zeros)"),
                            "record-not-max", True, got, best, "C01_record_is_max")


def parallel_trees(ctx, rep):
    """tree optimizers with n_jobs > 1 (individuals of different sizes dealt to worker processes): every recorded fitness belongs to the tree
    recorded next to it, and the reported phenotype attains the reported fitness (deterministic objective, re-evaluated here)"""
    import thefittest.optimizers as O
    import c16_objectives as CO
    for kind, nj in (("GeneticProgramming", 2), ("SelfCGP", 3), ("GeneticProgramming", 3), ("PDPGP", 4))[: ctx.pick(3, 4)]:
        seed, pop = ctx.rng.randrange(1 << 30), ctx.rng.choice([9, 10])
        mini = bool(seed % 2)
        from thefittest.base._tree import init_symbolic_regression_uniset
        uniset = init_symbolic_regression_uniset(np.arange(12, dtype=np.float64).reshape(6, 2) / 4.0, ("add", "mul", "sub", "cos"))     # picklable nodes
        opt = getattr(O, kind)(CO.tree_score, uniset=uniset, iters=4, pop_size=pop, max_level=5, n_jobs=nj, keep_history=True,
                               random_state=seed, minimization=mini)
        opt.fit()
        rep.traces += 1
        rep.count("parallel-trees", (kind, nj, seed))
        sign = -1.0 if mini else 1.0
        st = opt.get_stats()
        case = dict(kind=kind, n_jobs=nj, random_state=seed, pop_size=pop, minimization=mini)
        bad = None
        for g, (P, F) in enumerate(zip(st["population_ph"], st["fitness"])):
            vals = sign * CO.tree_score(np.array(list(P), dtype=object))
            if not np.array_equal(vals, np.asarray(F, dtype=np.float64)):
                j = int(np.argmax(vals != np.asarray(F, dtype=np.float64)))
                bad = f"generation {g}: fitness[{j}] = {float(np.asarray(F)[j])} but the tree stored next to it evaluates to {float(vals[j])}"
                break
            if float(sign * CO.tree_score(np.array([st["max_ph"][g]], dtype=object))[0]) != float(st["max_fitness"][g]):
                bad = f"generation {g}: max_ph does not attain max_fitness"
                break
        ft = opt.get_fittest()
        if bad is None and float(sign * CO.tree_score(np.array([ft["phenotype"]], dtype=object))[0]) != float(ft["fitness"]):
            bad = f"the reported phenotype evaluates to {float(sign * CO.tree_score(np.array([ft['phenotype']], dtype=object))[0])}, reported fitness {float(ft['fitness'])}"
        if bad:
            rep.problem("best", f"{kind} with n_jobs={nj}: {bad}", case, "record-not-evaluated", True, None, None, "C01_record_is_max")


def run(ctx, rep):
    _loop.run_all(ctx, rep, "C01", predicate, 30, 300)
    infinite_optimum(ctx, rep)
    parallel_trees(ctx, rep)


def replay(ctx, rp):
    return _loop.replay_trace(ctx, rp, predicate)
