"""C02 — best-so-far never regresses; elitism and greedy replacement retain it."""
from __future__ import annotations

import numpy as np

import loop_traces as LT
from props import _loop

ESCALATE = True     # cheap thorough tier: run it whenever an anchor file differs from the pinned fingerprint
RULE = ("live runs of all ten optimizer classes (objectives with ties and plateaus so that >= vs > matters); per generation: "
        "best-so-far non-decreasing, elitism => last slot equals the record, greedy family: slot-wise fitness non-decreasing "
        "and a slot changes only to its own trial when trial >= parent, stored fitness = objective re-evaluated on the stored "
        "phenotype; every trace replayed through the Coq loop model. distinct = configuration incl. seed.")
THEORIES, TRUSTED, ASSUMPTIONS = _loop.THEORIES + _loop.ADAPT_THEORIES, _loop.TRUSTED, _loop.ASSUMPTIONS
gen = _loop.gen_greedy


def predicate(tr, rep):
    cfg, batches = tr["cfg"], tr["batches"]
    states = tr["snaps"] + [tr["final"]]
    sign = -1 if cfg["minimization"] else 1
    prev = None
    for si, st in enumerate(states):
        where = dict(cfg=cfg, state=si)
        if prev is not None and st["rec"][2] < prev["rec"][2]:
            rep.problem("monotone", "best-so-far fitness decreased between two generations", where, "best-regressed", True,
                        st["rec"][2], prev["rec"][2], "C02_best_monotone")
        if cfg["elitism"]:
            last = (st["pop_g"][-1], st["pop_ph"][-1], st["fitness"][-1])
            if last != tuple(st["rec"]):
                rep.problem("elite", "with elitism the population does not contain the best-so-far in its last slot", where,
                            "elite-missing", True, last[2], st["rec"][2], "C02_elite_present")
        # stored fitness is the objective of the stored phenotype
        pg, pp, fi = st["raw"]
        val = sign * tr["obj"].value(pp)
        if not np.array_equal(val, fi):
            rep.problem("consistent", "a slot's stored fitness is not the value the fitness function returns for the stored phenotype",
                        where, "slot-inconsistent", True, fi.tolist(), val.tolist(), "C02_slot_consistent")
        if cfg["kind"] in LT.GREEDY and prev is not None:
            # generation index of this state = n_batches-1 ; its trial batch = batches[n_batches-1]
            trial = batches[st["n_batches"] - 1]
            for j in range(cfg["pop"]):
                if st["fitness"][j] < prev["fitness"][j]:
                    rep.problem("slot", "a population slot's fitness decreased in the greedy family", dict(where, slot=j),
                                "slot-regressed", True, st["fitness"][j], prev["fitness"][j], "C02_slot_monotone")
                    break
                is_elite_slot = cfg["elitism"] and j == cfg["pop"] - 1
                if is_elite_slot:
                    continue
                accepted = trial["fit"][j] >= prev["fitness"][j]
                exp = (trial["ph"][j], trial["fit"][j]) if accepted else (prev["pop_ph"][j], prev["fitness"][j])
                if (st["pop_ph"][j], st["fitness"][j]) != exp:
                    rep.problem("slot", "greedy replacement: slot is not (trial if trial >= parent else parent)", dict(where, slot=j),
                                "slot-replacement", True, st["fitness"][j], exp[1], "C02_slot_replaced_only_by_better")
                    break
        prev = st


def parallel_slots(ctx, rep):
    """n_jobs > 1 with a population that does not divide evenly: in every recorded generation the fitness stored for a
    slot is the value the fitness function returns for the individual stored there (the trajectory itself is C16's)"""
    import thefittest.optimizers as O
    import live as L
    for kind in ("DifferentialEvolution", "SHADE", "SHAGA", "GeneticAlgorithm"):
        for nj in ((2,) if ctx.quick else (2, 3)):
            pop, seed = ctx.rng.choice([9, 11, 13]), ctx.rng.randrange(1 << 30)
            mini = ctx.rng.random() < 0.5
            obj = L.Objective("weighted")
            kw = dict(iters=3, pop_size=pop, n_jobs=nj, keep_history=True, random_state=seed, minimization=mini)
            if kind in ("SHAGA", "GeneticAlgorithm"):
                opt = getattr(O, kind)(obj, str_len=7, **kw)
            else:
                opt = getattr(O, kind)(obj, left_border=-2.0, right_border=2.0, num_variables=3, **kw)
            opt.fit()
            rep.traces += 1
            rep.count("parallel-slots", (kind, pop, nj, seed))
            st = opt.get_stats()
            sign = -1.0 if mini else 1.0
            for g, (ph, fi) in enumerate(zip(st["population_ph"], st["fitness"])):
                val = sign * obj.value(np.asarray(ph))
                if not np.array_equal(val, np.asarray(fi)):
                    rep.problem("consistent", f"{kind} with n_jobs={nj}, pop_size={pop}: a slot's stored fitness is not the value the fitness function "
                                "returns for the individual stored there", dict(kind=kind, n_jobs=nj, pop=pop, seed=seed, minimization=mini, generation=g),
                                "slot-inconsistent:parallel", True, np.asarray(fi).tolist(), val.tolist(), "C02_slot_consistent")
                    break


def undefined_points(ctx, rep):
    """objectives that are undefined (NaN) on part of the search space — sqrt / log outside their domain — with a NaN-free initial population:
    the best-so-far is never NaN and never gets worse, and with elitism it stays in the population (implementation against the statement:
    the exact loop model has no NaN)"""
    import thefittest.optimizers as O
    for kind, kw in (("GeneticAlgorithm", dict(str_len=8)), ("SelfCGA", dict(str_len=8)), ("GeneticAlgorithm", dict(str_len=8, selection="rank")))[: ctx.pick(3, 3)]:
        for mini in (False, True):
            seed, pop = ctx.rng.randrange(1 << 30), ctx.rng.choice([10, 12])

            def f(X, mini=mini):
                ones = np.asarray(X, dtype=np.float64).sum(axis=1)
                with np.errstate(all="ignore"):
                    v = np.sqrt(5.0 - ones) + 0.125 * ones          # NaN where more than 5 bits are set
                return -v if mini else v
            rs = np.random.RandomState(seed % (1 << 31))
            init = (rs.uniform(size=(pop, 8)) < 0.3).astype(np.byte)
            init[init.sum(axis=1) > 5] = 0
            track = []

            def cb(o, track=track):
                ft = o.get_fittest()
                inpop = any(np.array_equal(ft["genotype"], g) for g in o._population_g_i)
                track.append((float(ft["fitness"]), inpop))
            opt = getattr(O, kind)(f, iters=7, pop_size=pop, minimization=mini, init_population=init, random_state=seed, on_generation=cb,
                                   mutation_rate=0.2, **({} if kind != "GeneticAlgorithm" else dict(mutation="custom_rate")), **kw)
            opt.fit()
            rep.traces += 1
            rep.count("undefined-points", (kind, seed, mini))
            vals = [t[0] for t in track] + [float(opt.get_fittest()["fitness"])]
            bad = any(np.isnan(v) for v in vals) or any(b < a for a, b in zip(vals, vals[1:])) or not all(t[1] for t in track)
            if bad:
                rep.problem("best", f"{kind}: with an objective that is NaN on part of the space the best-so-far became NaN / got worse / left the population under elitism: {vals}",
                            dict(kind=kind, random_state=seed, pop_size=pop, minimization=mini, objective="sqrt(5 - #ones) + #ones/8"), "best-regressed", True, vals, None, "C02_best_monotone")


def run(ctx, rep):
    undefined_points(ctx, rep)
    _loop.run_all(ctx, rep, "C02", predicate, 30, 300, force=dict(iters=5))
    parallel_slots(ctx, rep)


def replay(ctx, rp):
    if rp["first"]["signature"] == "slot-inconsistent:parallel":
        return None            # generic replay: re-executes the check with the recorded tier and seed
    return _loop.replay_trace(ctx, rp, predicate)
