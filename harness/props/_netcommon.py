"""Helpers shared by the C12 and C13 correspondences: building trees over the real network universal
set, printing nets / schedules as Coq terms, independent Python-side predicates and an independent
reference evaluator."""
from __future__ import annotations

import itertools
import math

import numpy as np

_L = {}


def lib():
    """lazy import of the library pieces (numba compiles eagerly at import, ~30 s)"""
    if not _L:
        from thefittest.base import Net, Tree, FunctionalNode, TerminalNode
        from thefittest.base._tree import init_net_uniset, EphemeralConstantNode
        from thefittest.base._net import HiddenBlock
        from thefittest.base._gpnn import genotype_to_phenotype_tree
        from thefittest.classifiers import MLPEAClassifier
        from thefittest.regressors import MLPEARegressor
        _L.update(Net=Net, Tree=Tree, FunctionalNode=FunctionalNode, TerminalNode=TerminalNode,
                  init_net_uniset=init_net_uniset, EphemeralConstantNode=EphemeralConstantNode,
                  HiddenBlock=HiddenBlock, g2p=genotype_to_phenotype_tree,
                  MLPEAClassifier=MLPEAClassifier, MLPEARegressor=MLPEARegressor)
    return _L


# ------------------------------------------------------------------------------- Coq printers
def nats(xs) -> str:
    return "[" + "; ".join(str(int(x)) for x in xs) + "]"


def natll(xss) -> str:
    return "[" + "; ".join(nats(x) for x in xss) + "]"


def pairs(ps) -> str:
    return "[" + "; ".join(f"({int(a)}, {int(b)})" for a, b in ps) + "]"


def net_fields(net):
    """plain-python view of a Net: (inputs, layers, outputs, connects, n_weights, activs)"""
    ins = [int(v) for v in net._inputs]
    layers = [[int(v) for v in l] for l in net._hidden_layers]
    outs = [int(v) for v in net._outputs]
    con = [(int(a), int(b)) for a, b in np.asarray(net._connects).reshape(-1, 2)]
    acts = [(int(k), int(v)) for k, v in net._activs.items()]
    return ins, layers, outs, con, len(net._weights), acts


def net_term(ins, layers, outs, con, nw, acts, sort_sets=True, sort_con=False) -> str:
    if sort_sets:
        ins, outs = sorted(ins), sorted(outs)
        layers = [sorted(l) for l in layers]
        acts = sorted(acts)
    if sort_con:
        con = sorted(con)
    return (f"(mkNet {nats(ins)} {natll(layers)} {nats(outs)} {pairs(con)} {int(nw)} {pairs(acts)})%nat")


def impl_net_term(net, sort_sets=True, sort_con=False) -> str:
    return net_term(*net_fields(net), sort_sets=sort_sets, sort_con=sort_con)


def net_json(net):
    ins, layers, outs, con, nw, acts = net_fields(net)
    return dict(inputs=sorted(ins), hidden_layers=[sorted(l) for l in layers], outputs=sorted(outs),
                connects=con, n_weights=nw, activs=sorted(acts))


# ------------------------------------------------------------------------------- trees
# shapes:  ("op", isgt, left, right) | ("in", k) | ("bias",) | ("hid", size, act)
def make_uniset(nv, block, offset, max_hidden=3):
    return lib()["init_net_uniset"](n_variables=nv, input_block_size=block,
                                    max_hidden_block_size=max_hidden, offset=offset)


def uniset_parts(uniset, offset):
    """(gt_node, add_node, [input block terminals], bias terminal or None)"""
    L = lib()
    f = {n._name: n for n in uniset._functional_set[2]}
    terms = [t for t in uniset._terminal_set if type(t) is L["TerminalNode"]]
    bias = terms[-1] if offset else None
    blocks = terms[:-1] if offset else terms
    return f["gt"], f["add"], blocks, bias


def hidden_node(size, act):
    L = lib()
    hb = L["HiddenBlock"].__new__(L["HiddenBlock"])
    hb._activ, hb._size = int(act), int(size)
    return L["EphemeralConstantNode"](value=hb, name=str(hb))


def shape_nodes(shape, parts):
    gt, add, blocks, bias = parts
    k = shape[0]
    if k == "op":
        return [gt if shape[1] else add] + shape_nodes(shape[2], parts) + shape_nodes(shape[3], parts)
    if k == "in":
        return [blocks[shape[1]]]
    if k == "bias":
        return [bias]
    return [hidden_node(shape[1], shape[2])]


def shape_str(shape) -> str:
    k = shape[0]
    if k == "op":
        return "(%s %s %s)" % (shape_str(shape[2]), ">" if shape[1] else "+", shape_str(shape[3]))
    if k == "in":
        return "in%d" % shape[1]
    if k == "bias":
        return "bias"
    return "h%d:%d" % (shape[1], shape[2])


def tree_of_shape(shape, parts):
    return lib()["Tree"](shape_nodes(shape, parts))


def gnodes_term(tree, nv, offset) -> str:
    """tree._nodes (prefix order) as a Coq  list gnode"""
    L = lib()
    out = []
    for node in tree._nodes:
        if isinstance(node, L["FunctionalNode"]):
            out.append("GOp true" if node._name == "gt" else "GOp false")
        elif type(node) is L["TerminalNode"]:
            ids = sorted(int(v) for v in node._value)
            if offset and ids == [nv - 1]:
                out.append("GBias")
            else:
                out.append("GIn " + nats(ids))
        else:
            out.append(f"GHid {int(node._value._size)} {int(node._value._activ)}")
    return "([" + "; ".join(out) + "])%nat"


def tree_json(tree, nv, offset):
    L = lib()
    out = []
    for node in tree._nodes:
        if isinstance(node, L["FunctionalNode"]):
            out.append(node._name)
        elif type(node) is L["TerminalNode"]:
            out.append(["in", sorted(int(v) for v in node._value)])
        else:
            out.append(["hid", int(node._value._size), int(node._value._activ)])
    return out


def tree_from_json(nodes, nv, block, offset):
    """rebuild a real Tree from tree_json output (for replays)"""
    L = lib()
    parts = uniset_parts(make_uniset(nv, block, offset), offset)
    gt, add, blocks, bias = parts
    res = []
    for n in nodes:
        if n == "gt":
            res.append(gt)
        elif n == "add":
            res.append(add)
        elif n[0] == "in":
            res.append(L["TerminalNode"](value=set(n[1]), name="in"))
        else:
            res.append(hidden_node(n[1], n[2]))
    return L["Tree"](res)


def enum_shapes(n_nodes, terminals):
    """all tree shapes with exactly n_nodes nodes (n_nodes odd) over two binary operators"""
    if n_nodes == 1:
        for t in terminals:
            yield t
        return
    for left in range(1, n_nodes - 1, 2):
        right = n_nodes - 1 - left
        for l in enum_shapes(left, terminals):
            for r in enum_shapes(right, terminals):
                yield ("op", True, l, r)
                yield ("op", False, l, r)


def shape_size(shape):
    return 1 if shape[0] != "op" else 1 + shape_size(shape[2]) + shape_size(shape[3])


def random_shape(rng, depth, terminals):
    if depth == 0 or (depth < 5 and rng.random() < 0.3):
        return rng.choice(terminals)
    return ("op", rng.random() < 0.5, random_shape(rng, depth - 1, terminals),
            random_shape(rng, depth - 1, terminals))


# ------------------------------------------------------------------------------- predicates
def py_valid(net, nv=None, decoded=False):
    """independent Python form of the C13 validity clauses; returns the list of violated clauses"""
    ins, layers, outs, con, nw, acts = net_fields(net)
    bad = []
    allids = ins + [v for l in layers for v in l] + outs
    if len(allids) != len(set(allids)):
        bad.append("sets-disjoint")
    if len(con) != len(set(con)):
        bad.append("connections-unique")
    rank = {}
    for v in ins:
        rank[v] = 0
    for i, l in enumerate(layers):
        for v in l:
            rank[v] = i + 1
    for v in outs:
        rank[v] = len(layers) + 1
    hidden = {v for l in layers for v in l}
    for a, b in con:
        if a not in rank or b not in rank or not rank[a] < rank[b] or a in outs or b in ins:
            bad.append("forward-only")
            break
    # acyclic, checked without the rank (Kahn)
    nodes = set(allids) | {a for a, _ in con} | {b for _, b in con}
    indeg = {v: 0 for v in nodes}
    for _, b in con:
        indeg[b] += 1
    queue = [v for v in nodes if indeg[v] == 0]
    seen = 0
    succ = {}
    for a, b in con:
        succ.setdefault(a, []).append(b)
    while queue:
        v = queue.pop()
        seen += 1
        for b in succ.get(v, []):
            indeg[b] -= 1
            if indeg[b] == 0:
                queue.append(b)
    if seen != len(nodes):
        bad.append("acyclic")
    targets = {b for _, b in con}
    sources = {a for a, _ in con}
    if not (hidden | set(outs)) <= targets:
        bad.append("incoming")
    if not hidden <= sources:
        bad.append("outgoing")
    # every hidden node has a path to an output
    pred = {}
    for a, b in con:
        pred.setdefault(b, []).append(a)
    reach, stack = set(outs), list(outs)
    while stack:
        v = stack.pop()
        for a in pred.get(v, []):
            if a not in reach:
                reach.add(a)
                stack.append(a)
    if not hidden <= reach:
        bad.append("path-to-output")
    if nw != len(con):
        bad.append("one-weight-per-connection")
    if len(acts) != len({k for k, _ in acts}) or {k for k, _ in acts} != hidden | set(outs):
        bad.append("activation-per-node")
    if decoded:
        if not set(ins) <= set(range(nv)):
            bad.append("inputs-are-columns")
        non_in = sorted(hidden | set(outs))
        if non_in != list(range(nv, nv + len(non_in))):
            bad.append("ids-contiguous")
        srcs = {o: sorted(a for a, b in con if b == o) for o in outs}
        if len({tuple(s) for s in srcs.values()}) > 1:
            bad.append("outputs-share-sources")
    return bad


def schedule_of(net):
    """the cached schedule of a Net after _get_order, with ties among duplicate rows canonicalised
    (weight ids ascending within a run of equal sources)"""
    sched = []
    for fr, to, wid, codes, anodes in zip(net._numba_from, net._numba_to, net._numba_weights_id,
                                          net._numba_activs_code, net._numba_activs_nodes):
        fr = [int(v) for v in fr]
        rows = []
        for row in np.asarray(wid).reshape(len(to), -1):
            row = [int(v) for v in row]
            i = 0
            canon = []
            while i < len(fr):
                j = i
                while j < len(fr) and fr[j] == fr[i]:
                    j += 1
                canon.extend(sorted(row[i:j]))
                i = j
            rows.append(canon)
        sched.append(dict(frm=fr, to=[int(v) for v in to], wid=rows,
                          act=[(int(c), [int(v) for v in ns]) for c, ns in zip(codes, anodes)]))
    return sched


def sched_term(sched) -> str:
    gs = []
    for g in sched:
        act = "[" + "; ".join(f"({c}, {nats(ns)})" for c, ns in g["act"]) + "]"
        gs.append(f"mkG {nats(g['frm'])} {nats(g['to'])} {natll(g['wid'])} {act}")
    return "([" + "; ".join(gs) + "])%nat"


def py_sched_ok(net, sched):
    """every non-input node scheduled exactly once, sources computed before use, weight rows are
    exactly the connection rows into the target"""
    ins, layers, outs, con, nw, acts = net_fields(net)
    bad = []
    done = set(ins)
    want = {v for l in layers for v in l} | set(outs)
    seen = []
    for g in sched:
        if not set(g["frm"]) <= done:
            bad.append("source-before-computed")
        for t, row in zip(g["to"], g["wid"]):
            rows = sorted((con[i][0], i) for i in row)
            exp = sorted((a, i) for i, (a, b) in enumerate(con) if b == t)
            if rows != exp or [con[i][0] for i in row] != g["frm"] or any(con[i][1] != t for i in row):
                bad.append("weight-rows")
        anodes = [v for _, ns in g["act"] for v in ns]
        if sorted(anodes) != sorted(g["to"]):
            bad.append("activation-nodes")
        amap = dict(acts)
        if any(amap.get(v) != c for c, ns in g["act"] for v in ns):
            bad.append("activation-codes")
        seen.extend(g["to"])
        done |= set(g["to"])
    if sorted(seen) != sorted(want):
        bad.append("each-node-once")
    return sorted(set(bad))


# ------------------------------------------------------------------------------- reference evaluator
def _act(code, x):
    if code == 0:
        return 1.0 / (1.0 + math.exp(-x)) if x > -700 else 0.0
    if code == 1:
        return x if x > 0 else 0.0 * x
    if code == 2:
        return math.exp(-(x * x))
    if code == 3:
        return math.tanh(x)
    if code == 4:
        return x
    raise ValueError(code)


def ref_forward(ins, con, acts, out_order, x_row, w, joint_softmax=True):
    """schedule-independent reference: value(n) = act_n(sum over rows (a,n) of w*value(a)),
    evaluated by memoised recursion over the graph; softmax jointly over all code-5 nodes.
    x_row: one sample (indexed by input id), w: weights indexed like con."""
    amap = dict(acts)
    into = {}
    for i, (a, b) in enumerate(con):
        into.setdefault(b, []).append((a, i))
    sm_nodes = sorted(v for v, c in amap.items() if c == 5)
    memo = {}
    pre_memo = {}

    def pre(v):
        if v not in pre_memo:
            pre_memo[v] = math.fsum(w[i] * value(a) for a, i in into.get(v, []))
        return pre_memo[v]

    def value(v):
        if v in memo:
            return memo[v]
        if v in ins:
            r = float(x_row[v])
        elif amap[v] == 5:
            zs = [pre(u) for u in sm_nodes]
            m = max(zs)
            es = [math.exp(z - m) for z in zs]
            s = math.fsum(es) or 1.0
            for u, e in zip(sm_nodes, es):
                memo[u] = e / s
            r = memo[v]
        else:
            r = _act(amap[v], pre(v))
        memo[v] = r
        return r

    return [value(o) for o in out_order]


def exact_float_ok(ins, con, acts, x_row, w, limit=1 << 50):
    """True when evaluating the net on this sample with these weights is exact in binary64 whatever the
    summation order: every weighted sum, scaled to the common power-of-two denominator of its terms, has
    sum of absolute numerators below 2^50 (only ReLU / identity nodes).  Used to keep the exact regime
    free of rounding (deep random nets can exceed 53 bits)."""
    from fractions import Fraction
    amap = dict(acts)
    into = {}
    for i, (a, b) in enumerate(con):
        into.setdefault(b, []).append((a, i))
    memo = {}
    ok = [True]

    def value(v):
        if v in memo:
            return memo[v]
        if v in ins:
            r = Fraction(float(x_row[v]))
        else:
            terms = [Fraction(float(w[i])) * value(a) for a, i in into.get(v, [])]
            den = max([t.denominator for t in terms] + [1])
            if sum(abs(t.numerator) * (den // t.denominator) for t in terms) >= limit or den >= limit:
                ok[0] = False
            r = sum(terms, Fraction(0))
            if amap.get(v) == 1 and r < 0:
                r = Fraction(0)
        memo[v] = r
        return r

    for v in set(amap) | set(ins):
        value(v)
    return ok[0]
