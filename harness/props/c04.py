"""C04 — a run is a deterministic function of its arguments and random_state."""
from __future__ import annotations

import random as pyrandom

import numpy as np

import common as C
import estimators as E
import live as L
import loop_traces as LT
import translate_rng as TR

ESCALATE = True     # cheap thorough tier: run it whenever an anchor file differs from the pinned fingerprint
RULE = ("for each of the ten optimizer classes and the six estimators: run with an integer seed, then perturb every generator "
        "(python random, numpy global, both numba streams, a complete run of a DIFFERENT optimizer with another seed), then "
        "re-run with the same integer seed, with the same init_population object, and with RandomState(seed): every evaluated batch, every get_stats() series, the "
        "adaptation state, the result (and for estimators the fitted model and its predictions) must be identical; pairs of "
        "different seeds must differ in the initial population (a collision is reported as inconclusive); the RNG call-site "
        "table is re-extracted from the source and checked by the audit theorem. distinct = (class, configuration, seed).")
ASSUMPTIONS = ["each numba stream is a function of its seed (MT19937 trusted)", "the user objective is deterministic",
               "n_jobs = 1 (worker-side generator state with a stochastic genotype_to_phenotype is runtime behaviour outside the model)"]
TRUSTED = ["model: coq/theories/Entropy.v; translator harness/translate_rng.py (AST scan of RNG call sites); "
           "estimator stand-in harness/estimators.py for the removed BaseEstimator._validate_data"]
THEORIES = ["Base", "Entropy", "EntropyProofs", "GenRngSites"]


def gen(ctx):
    TR.emit()


def perturb(rng):
    """consume a random amount of every generator and run another optimizer completely"""
    import thefittest.optimizers as O
    from thefittest.utils.random import flip_coin, random_sample, uniform
    for _ in range(rng.randint(0, 7)):
        pyrandom.random()
    for _ in range(rng.randint(0, 7)):
        np.random.random()
    for _ in range(rng.randint(0, 7)):
        flip_coin(0.5)
    for _ in range(rng.randint(0, 5)):
        random_sample(10, 3, True)
        uniform(0.0, 1.0, 2)
    # other optimizers are CONSTRUCTED (not necessarily run) with other operator parameters
    for _ in range(rng.randint(1, 2)):
        which = rng.choice(["GeneticAlgorithm", "SelfCGA", "PDPGA"])
        extra = dict(tour_size=rng.choice([2, 5, 6]), parents_num=rng.choice([2, 5, 6]), mutation_rate=rng.choice([0.03125, 0.75])) if which == "GeneticAlgorithm" else {}
        built = getattr(O, which)(lambda x: x.sum(axis=1).astype(np.float64), iters=2, pop_size=8, str_len=5, random_state=rng.randrange(1 << 20), **extra)
        if rng.random() < 0.5:
            built.fit()
    # a run that the caller aborts (an exception from the objective, caught by the caller — Ctrl-C in a notebook) leaves nothing behind
    if rng.random() < 0.5:
        class _Abort(Exception):
            pass
        calls = {"n": 0}

        def aborting(x):
            calls["n"] += 1
            if calls["n"] >= 2:
                raise _Abort()
            return x.sum(axis=1).astype(np.float64)
        try:
            getattr(O, rng.choice(["GeneticAlgorithm", "SHAGA"]))(aborting, iters=4, pop_size=8, str_len=6, random_state=rng.randrange(1 << 20)).fit()
        except _Abort:
            pass
    other = rng.choice(["GeneticAlgorithm", "DifferentialEvolution", "SHAGA", "jDE"])
    if other in ("GeneticAlgorithm", "SHAGA"):
        getattr(O, other)(lambda x: x.sum(axis=1).astype(np.float64), iters=3, pop_size=8, str_len=6, random_state=rng.randrange(1 << 20)).fit()
    else:
        getattr(O, other)(lambda x: x.sum(axis=1), iters=3, pop_size=8, left_border=-1.0, right_border=1.0, num_variables=2,
                          random_state=rng.randrange(1 << 20)).fit()


ADAPT = ("_H_F", "_H_CR", "_H_MR", "_F", "_CR", "_MR", "_selection_proba", "_crossover_proba", "_mutation_proba",
         "_selection_operators", "_crossover_operators", "_mutation_operators", "_k", "_population_g_archive_i")


def stats_diff(a, b):
    if set(a.keys()) != set(b.keys()):
        return "series"
    for k in a:
        if len(a[k]) != len(b[k]) or not all(L.same(x, y) for x, y in zip(a[k], b[k])):
            return k
    return None


def compare(tr, tr2, rep, where, label):
    if [b["ph"] for b in tr["batches"]] != [b["ph"] for b in tr2["batches"]] or [b["value"] for b in tr["batches"]] != [b["value"] for b in tr2["batches"]]:
        gen_ = next((i for i, (x, y) in enumerate(zip(tr["batches"], tr2["batches"])) if x != y), min(len(tr["batches"]), len(tr2["batches"])))
        rep.problem("determinism", f"{label}: the populations handed to the fitness function differ from generation {gen_} on", dict(where, generation=gen_),
                    "nondeterministic-run", True, None, None, "C04")
        return
    d = stats_diff(tr["stats"], tr2["stats"])
    if d:
        rep.problem("determinism", f"{label}: get_stats() series '{d}' differs", where, "nondeterministic-run", True, None, None, "C04")
    if tr["final"]["rec"] != tr2["final"]["rec"] or tr["final"]["pop_g"] != tr2["final"]["pop_g"]:
        rep.problem("determinism", f"{label}: result / final population differ", where, "nondeterministic-run", True, None, None, "C04")
    for a in ADAPT:
        if hasattr(tr["opt"], a) and not L.same(getattr(tr["opt"], a), getattr(tr2["opt"], a)):
            rep.problem("determinism", f"{label}: adaptation state {a} differs", where, "nondeterministic-run", True, None, None, "C04")


def run(ctx, rep):
    import thefittest.optimizers as O
    sites, other, seeds, crs = TR.scan()
    rep.extra["rng_sites"] = [list(map(str, s)) for s in sites]
    rep.count("audit", "sites", n=len(sites))
    bad_sites = [s for s in sites if not s[3]]
    if bad_sites or other:
        rep.problem("audit", "an entropy source outside the two seeded numba streams is used by algorithm code", dict(sites=[list(map(str, s)) for s in bad_sites], other=other),
                    "unseeded-entropy-site", False, None, None, "C04_all_sites_seeded")
    # ---------------- optimizers
    n = ctx.pick(5, 30)
    for kind in LT.KINDS:
        for j in range(n):
            # tree optimizers run longer: the depth-limit fallbacks of the GP operators are only reached once trees press against max_level
            cfg = LT.random_config(ctx.rng, kind, opt_mode="none", iters=ctx.rng.choice([6, 8] if kind in LT.TREES else [2, 3, 5]),
                                   **(dict(init=True) if j == 0 else {}))
            cfg["optimal_value"] = None
            tr = LT.run_trace(dict(cfg))
            perturb(ctx.rng)
            tr2 = LT.run_trace(dict(cfg))
            rep.traces += 2
            where = dict(cfg=tr["cfg"])
            rep.count("rerun:" + kind, (kind, cfg["seed"]))
            rep.hist("kind", kind)
            compare(tr, tr2, rep, where, "same integer seed")
            # random numbers consumed BETWEEN constructing the optimizer and calling fit() must not matter either
            tr5 = LT.run_trace(dict(cfg, _between_build_and_fit=lambda: perturb(ctx.rng)))
            rep.traces += 1
            compare(tr, tr5, rep, where, "draws / another run between construction and fit()")
            if cfg["init"] and tr.get("init") is not None:
                # the caller hands the SAME init_population object to a second optimizer (what the library's own tests do)
                tr6 = LT.run_trace(dict(cfg, _init_object=tr["init"]))
                rep.traces += 1
                rep.count("rerun-same-init-object:" + kind, (kind, cfg["seed"]))
                compare(tr, tr6, rep, where, "second run given the same init_population object")
            # RandomState in the same state
            perturb(ctx.rng)
            orig_build = LT.build

            def build_rs(cfg_, obj, g2p, cb, rng_init, orig_build=orig_build):
                opt, init = orig_build(cfg_, obj, g2p, cb, rng_init)
                opt._random_state = np.random.RandomState(cfg_["seed"])
                return opt, init
            LT.build = build_rs
            try:
                tr3 = LT.run_trace(dict(cfg))
            finally:
                LT.build = orig_build
            rep.traces += 1
            compare(tr, tr3, rep, where, "RandomState(seed) vs integer seed")
            # a different seed changes the initial population (unless one was supplied)
            if not cfg["init"]:
                cfg4 = dict(cfg, seed=cfg["seed"] + 1 + ctx.rng.randrange(1000))
                tr4 = LT.run_trace(dict(cfg4))
                rep.count("seed-sensitivity", (kind, cfg["seed"], cfg4["seed"]))
                if tr4["batches"][0]["ph"] == tr["batches"][0]["ph"] and not cfg["g2p"]:
                    rep.hist("seed_collision_inconclusive", kind)
                    if kind not in LT.TREES or len(set(tr["batches"][0]["ph"])) > 2:
                        rep.problem("seed", "two different seeds produced the same initial population", dict(cfg=tr["cfg"], other_seed=cfg4["seed"]),
                                    "seed-insensitive", True, None, None, "C04")
            if len(rep.samples) < 2:
                rep.sample(dict(cfg=tr["cfg"], generations=len(tr["batches"]), first_batch_head=tr["batches"][0]["value"][:4]))
    # ---------------- problem sizes of real use (strings of hundreds of bits, populations of hundreds): the same seed still
    # gives the same run.  Compared by digest: initial population, every recorded generation's best, final population
    import hashlib

    def big_run(name, kw, seed):
        opt = getattr(O, name)(lambda x: np.asarray(x, dtype=np.float64).sum(axis=1), iters=2, random_state=seed, keep_history=True, **kw)
        opt.fit()
        st = opt.get_stats()
        h = hashlib.sha256()
        for P in st["population_g"]:
            h.update(np.ascontiguousarray(np.asarray(P, dtype=np.float64)).tobytes())
        h.update(np.asarray(st["max_fitness"], dtype=np.float64).tobytes())
        h.update(np.ascontiguousarray(np.asarray(opt._population_g_i, dtype=np.float64)).tobytes())
        return h.hexdigest(), float(opt.get_fittest()["fitness"])
    big = [(nm, dict(pop_size=p, str_len=n)) for nm in ("GeneticAlgorithm", "SelfCGA", "PDPGA", "SHAGA") for p, n in ((128, 512), (40, 1700))]
    big += [(nm, dict(pop_size=260, num_variables=256, left_border=-1.0, right_border=1.0)) for nm in ("DifferentialEvolution", "jDE", "SHADE")]
    for nm, kw in big[:ctx.pick(11, 11)]:
        seed = ctx.rng.randrange(1 << 20)
        a = big_run(nm, kw, seed)
        perturb(ctx.rng)
        b = big_run(nm, kw, seed)
        rep.traces += 2
        rep.count("large:" + nm, (nm, seed, tuple(sorted(kw.items()))))
        if a != b:
            rep.problem("determinism", f"{nm} at a realistic problem size: same random_state, different run (initial population / history / result digest)",
                        dict(optimizer=nm, seed=seed, kw=kw), "nondeterministic-run", True, a[1], b[1], "C04")
    # ---------------- estimators
    E.install()
    specs = [("GeneticProgrammingClassifier", dict(), ["a", "b"]), ("GeneticProgrammingRegressor", dict(), None),
             ("MLPEAClassifier", dict(hidden_layers=(2,)), [3, 7, 11]), ("MLPEARegressor", dict(hidden_layers=(2,)), None),
             ("GeneticProgrammingNeuralNetClassifier", dict(weights_optimizer_args=dict(iters=2, pop_size=6)), ["u", "v"]),
             ("GeneticProgrammingNeuralNetRegressor", dict(weights_optimizer_args=dict(iters=2, pop_size=6)), None)]
    for name, kw, labels in specs[: ctx.pick(6, 6)]:
        for rep_i in range(ctx.pick(1, 4)):
            seed = ctx.rng.randrange(1 << 20)
            X, y = E.tiny_problem(ctx.rng, labels=labels)
            if labels is not None:
                y = np.array(y)

            def fit_once(rs):
                m = E.make(name, n_iter=2, pop_size=8, random_state=rs, **kw)
                m.fit(X.copy(), y.copy())
                desc = str(getattr(m, "tree_", "")) + "|" + (repr(np.asarray(m.net_._weights).tolist()) if hasattr(m, "net_") else "")
                return desc, np.asarray(m.predict(X)).tolist()
            a = fit_once(seed)
            perturb(ctx.rng)
            b = fit_once(seed)
            perturb(ctx.rng)
            c = fit_once(np.random.RandomState(seed))
            rep.traces += 3
            rep.count("estimator:" + name, (name, seed))
            if a != b or a != c:
                rep.problem("determinism", f"{name}: same random_state, different fitted model or predictions" + (" (RandomState vs int)" if a == b else ""),
                            dict(estimator=name, seed=seed, kw={k: str(v) for k, v in kw.items()}), "nondeterministic-estimator", True, a[0][:200], (b if a != b else c)[0][:200], "C04")


def replay(ctx, rp):
    return None      # generic replay of harness/main.py (re-executes the check, looks for the recorded signature)
