"""C16 — parallel evaluation is equivalent to serial evaluation: correspondence model <-> implementation.

Families
  n_jobs        every (pop_size, n_jobs) on a bare EvolutionaryAlgorithm: self._n_jobs vs get_n_jobs
                (cpu_count read from joblib at run time), ValueError for n_jobs = 0
  n_jobs-cpu    the same with thefittest.base._ea.cpu_count patched to other machine sizes
  split         _split_population on the population of row ids 0..pop-1 (2-D, one column):
                numpy's linspace cut points vs the bit-exact PrimFloat model, envelope membership,
                chunk (start, size) list vs the model's chunks
  live          short runs of real optimizers through joblib with sleeping objectives:
                histories, fittest, evaluation counts vs the serial run, bit for bit
The python-side property predicate (independent of the Coq model) is chunks_ok / n_jobs_ok."""
from __future__ import annotations

import os
import sys

import numpy as np

import common as C

RULE = ("exhaustive: every (pop_size, n_jobs) with 1 <= pop_size <= B (B=120 quick, 200 thorough) and n_jobs in "
        "[-20, pop_size+20] on a bare thefittest.base._ea.EvolutionaryAlgorithm: self._n_jobs vs Coq get_n_jobs "
        "(joblib cpu_count passed in), ValueError at 0, _split_population cut points vs the bit-exact PrimFloat "
        "linspace model and chunk (start,size) lists vs the model, plus an independent python predicate "
        "(n_jobs in [1,pop]; chunks non-empty, contiguous, in order, covering); the same _n_jobs comparison with "
        "cpu_count patched to {1,2,3,8,64}. live: joblib runs (pop 8-12, iters 3) of GeneticAlgorithm, "
        "DifferentialEvolution, GeneticAlgorithm+genotype_to_phenotype (thorough: + jDE, SHADE with g2p) for n_jobs in "
        "{2,3,pop,pop+5,-1,-2} against the serial run with the same random_state: get_stats() histories, "
        "get_fittest(), _calls and the rows seen by the workers must be identical. A case is distinct by "
        "(family, pop_size, n_jobs[, cpu | optimizer]).")
ASSUMPTIONS = [
    "joblib.Parallel returns the list of results in submission order (hypothesis of C16_parallel_is_serial; exercised, not proved, by the delayed-worker runs)",
    "objective and genotype_to_phenotype are deterministic and row-wise: f(xs ++ ys) = f(xs) ++ f(ys), one output row per input row",
    "numpy.linspace(0,pop,n+1,dtype=int64) lies in the envelope for pop > 256 (proved by vm_compute sweep for pop <= 256 on the bit-exact model; compared with numpy itself up to the correspondence bound)",
    "population handed to _split_population has exactly pop_size rows",
]
TRUSTED = ["models: coq/theories/Split.v (get_n_jobs, split_population, evaluate, run), SplitFloat.v (binary64 linspace via "
           "PrimFloat/Uint63 primitives); check functions coq/theories/C16Check.v",
           "Coq primitive floats and 63-bit integers as implemented by the kernel's VM (PrimFloat.*, PrimInt63.* are primitives, not axioms of this development)"]
THEORIES = ["Base", "Split", "SplitFloat", "SplitProofs", "C16Check", "RandomPrims", "Py", "GenCode", "CodeEqC16"]

IMPORTS = "From TF Require Import Base Split SplitFloat C16Check.\nOpen Scope Z_scope."
LIVE_N_JOBS = lambda pop: [2, 3, pop, pop + 5, -1, -2]   # noqa: E731  (1 is the serial reference)


# ----------------------------------------------------------------------- python-side property predicates
def n_jobs_ok(pop, eff):
    """the normalised number of jobs lies in [1, pop_size]"""
    return isinstance(eff, (int, np.integer)) and 1 <= int(eff) <= pop


def chunks_ok(pop, eff, chunks):
    """chunks (lists of row ids, from the population 0..pop-1): eff of them, none empty, each a contiguous
    ascending run, consecutive chunks adjacent, together exactly 0..pop-1 in order.  Returns '' or the clause."""
    if len(chunks) != eff:
        return f"{len(chunks)} chunks for n_jobs={eff}"
    if any(len(ch) == 0 for ch in chunks):
        return "empty chunk"
    flat = [r for ch in chunks for r in ch]
    if flat != list(range(pop)):
        return "chunks do not cover the population exactly once in order"
    return ""


def bare(pop, n_jobs):
    from thefittest.base._ea import EvolutionaryAlgorithm
    return EvolutionaryAlgorithm(fitness_function=_rowsum, iters=1, pop_size=pop, n_jobs=n_jobs)


def _rowsum(x):
    return x.sum(axis=1)


def split_ids(ea, pop):
    """_split_population on the (pop,1) array of row ids; returns list of lists of ids"""
    population = np.arange(pop, dtype=np.int64).reshape(pop, 1)
    parts = ea._split_population(population)
    return [[int(v) for v in p[:, 0]] for p in parts]


def coq_opt(z):
    return "None" if z is None else f"(Some {C.cz(z)})"


def coq_split_case(pop, eff, cuts, chunks):
    ch = C.clist([f"({C.cz(c[0] if c else -1)}, {C.cnat(len(c))})" for c in chunks])
    return f"({C.cz(pop)}, {C.cz(eff)}, {C.clist(cuts, C.cz)}, {ch})"


# ----------------------------------------------------------------------- one (pop, n_jobs) case
def eval_case(pop, nj):
    """returns dict(eff | error, cuts, chunks)"""
    try:
        ea = bare(pop, nj)
    except ValueError as e:
        return dict(error="ValueError: " + str(e))
    eff = int(ea._n_jobs)
    cuts = [int(v) for v in np.linspace(start=0, stop=ea._pop_size, num=ea._n_jobs + 1, dtype=np.int64)]
    return dict(eff=eff, cuts=cuts, chunks=split_ids(ea, pop))


def judge_case(rep, pop, nj, cpu, r, family="n_jobs"):
    """python-side predicate on one case; reports a problem when the property fails; returns True when it holds"""
    case = dict(kind="split", pop_size=pop, n_jobs=nj, cpu_count=cpu)
    if nj == 0:
        if "error" not in r:
            rep.problem(family, "n_jobs = 0 is not rejected", case, "n_jobs:zero-accepted", True, r, None,
                        "C16_n_jobs_zero_rejected")
            return False
        return True
    if "error" in r:
        rep.problem(family, "non-zero n_jobs rejected: " + r["error"], case, "n_jobs:rejected", True, r, None,
                    "C16_n_jobs_range")
        return False
    neg = "negative" if nj < 0 else "positive"
    if not n_jobs_ok(pop, r["eff"]):
        rep.problem(family, f"_n_jobs = {r['eff']} outside [1, pop_size={pop}] for n_jobs={nj} (cpu_count={cpu})",
                    case, f"n_jobs:{neg}:out-of-range", True, r, None, "C16_n_jobs_range")
        bad = chunks_ok(pop, r["eff"], r["chunks"])
        if bad:
            rep.problem("split", f"_split_population: {bad} (sizes {[len(c) for c in r['chunks']]})", case,
                        f"split:{neg}:" + bad.split(" ")[0], True, r, None, "C16_chunks")
        return False
    bad = chunks_ok(pop, r["eff"], r["chunks"])
    if bad:
        rep.problem("split", f"_split_population: {bad} (sizes {[len(c) for c in r['chunks']]})", case,
                    f"split:{neg}:" + bad.split(" ")[0], True, r, None, "C16_chunks")
        return False
    return True


# ----------------------------------------------------------------------- live runs
def _opt_specs():
    import c16_objectives as O
    from thefittest.optimizers import DifferentialEvolution, GeneticAlgorithm, SHADE, jDE
    return {
        "GeneticAlgorithm": (GeneticAlgorithm, dict(fitness_function=O.onemax, str_len=16), False),
        "DifferentialEvolution": (DifferentialEvolution, dict(fitness_function=O.sphere, left_border=-2.0,
                                                              right_border=2.0, num_variables=4), False),
        "GeneticAlgorithm+g2p": (GeneticAlgorithm, dict(fitness_function=O.weighted, str_len=16,
                                                        genotype_to_phenotype=O.bits_to_pm1), True),
        "jDE": (jDE, dict(fitness_function=O.sphere, left_border=-2.0, right_border=2.0, num_variables=3), False),
        # integer-typed objective beyond 2**53: the values (and their dtype) come back from the workers exactly as the objective returned them
        "GeneticAlgorithm+bigint": (GeneticAlgorithm, dict(fitness_function=O.big_int, str_len=12, selection="rank"), False),
        # keyword arguments re-bound between construction and fit(): serial and parallel runs both see the dictionary as it is when they evaluate
        "GeneticAlgorithm+args": (GeneticAlgorithm, dict(fitness_function=O.scheduled, str_len=12), False),
        "SHADE+g2p": (SHADE, dict(fitness_function=O.sphere, left_border=-2.0, right_border=2.0, num_variables=3,
                                  genotype_to_phenotype=O.halve), True),
    }


def read_log(path):
    rows = []
    if os.path.exists(path):
        for ln in open(path):
            k, pid, t0, t1, n, h = ln.split()
            rows.append(dict(kind=k, pid=int(pid), t0=int(t0), t1=int(t1), n=int(n), h=h))
    return rows


def live_run(ctx, name, pop, nj, seed, iters=3):
    Cls, kw, has_g2p = _opt_specs()[name]
    log = ctx.scratch.path(f"live_{name.replace('+', '_')}_{pop}_{nj}_{seed}.log")
    if os.path.exists(log):
        os.remove(log)
    kw = dict(kw)
    kw["fitness_function_args"] = {"log": log}
    if has_g2p:
        kw["genotype_to_phenotype_args"] = {"log": log}
    # both signs: minimization is decided by the seed so that the serial and the parallel run of a pair agree
    m = Cls(iters=iters, pop_size=pop, n_jobs=nj, keep_history=True, random_state=seed, minimization=bool(seed % 2), **kw)
    if name.endswith("+args"):
        kw["fitness_function_args"]["bonus"] = 2.5          # the caller updates its own dictionary after construction
    m.fit()
    stats = {k: [np.asarray(v) for v in vs] for k, vs in m.get_stats().items()}
    fittest = m.get_fittest()
    return dict(eff=int(m._n_jobs), calls=int(m._calls), stats=stats, fittest=fittest, log=read_log(log))


def same_array(a, b):
    a, b = np.asarray(a), np.asarray(b)
    return a.shape == b.shape and a.dtype == b.dtype and a.tobytes() == b.tobytes()


def compare_live(ser, par):
    """'' when the parallel run equals the serial one bit for bit, else the first difference"""
    if set(ser["stats"]) != set(par["stats"]):
        return "history keys differ"
    for k in sorted(ser["stats"]):
        if len(ser["stats"][k]) != len(par["stats"][k]):
            return f"history '{k}' has {len(par['stats'][k])} entries, serial {len(ser['stats'][k])}"
        for g, (x, y) in enumerate(zip(ser["stats"][k], par["stats"][k])):
            if not same_array(x, y):
                return f"history '{k}' differs at generation {g}"
    for k in ("genotype", "phenotype", "fitness"):
        if not same_array(ser["fittest"][k], par["fittest"][k]):
            return f"get_fittest()['{k}'] differs"
    if ser["calls"] != par["calls"]:
        return f"_calls {par['calls']} vs serial {ser['calls']}"
    for kind in ("fit", "g2p"):
        ns = sum(r["n"] for r in ser["log"] if r["kind"] == kind)
        npar = sum(r["n"] for r in par["log"] if r["kind"] == kind)
        if ns != npar:
            return f"{kind}: workers saw {npar} rows, the serial run {ns}"
        cs = sum(1 for r in ser["log"] if r["kind"] == kind)
        cp = sum(1 for r in par["log"] if r["kind"] == kind)
        if cp != cs * par["eff"]:
            return f"{kind}: {cp} chunk calls for {cs} evaluations with _n_jobs={par['eff']}"
    nfit = sum(r["n"] for r in par["log"] if r["kind"] == "fit")
    if nfit != par["calls"]:
        return f"_calls = {par['calls']} but the objective saw {nfit} rows"
    return ""


def judge_live(rep, name, pop, nj, seed, ser, par):
    case = dict(kind="live", optimizer=name, pop_size=pop, n_jobs=nj, random_state=seed, iters=3)
    ok = True
    diff = compare_live(ser, par)
    if diff:
        rep.problem("live", f"{name} pop_size={pop} n_jobs={nj}: parallel run differs from the serial run: {diff}",
                    case, "live:differs", True, dict(eff=par["eff"], calls=par["calls"]), None,
                    "C16_parallel_is_serial")
        ok = False
    if any(r["n"] == 0 for r in par["log"]):
        neg = "negative" if nj < 0 else "positive"
        rep.problem("live", f"{name} pop_size={pop} n_jobs={nj} (_n_jobs={par['eff']}): the objective / "
                    f"genotype_to_phenotype was handed {sum(r['n'] == 0 for r in par['log'])} EMPTY chunks",
                    case, f"live:{neg}:empty-chunk", True, dict(eff=par["eff"]), None, "C16_chunks")
        ok = False
    return ok


def permuted_batches(log, eff):
    """number of (batches, batches whose completion order differs from their start order)"""
    tot = perm = 0
    for kind in ("fit", "g2p"):
        rows = [r for r in log if r["kind"] == kind]
        for lo in range(0, len(rows) - eff + 1, eff):
            # lines are appended at completion: file order = completion order
            batch = rows[lo:lo + eff]
            tot += 1
            if [r["t0"] for r in batch] != sorted(r["t0"] for r in batch):
                perm += 1
    return tot, perm


# ----------------------------------------------------------------------- run
def gen(ctx):
    """(T) _get_n_jobs is translated from base/_ea.py on every run; fail closed"""
    import translate_code as TC
    TC.ensure(TC.C16_METHODS)


def run(ctx, rep):
    sys.path.insert(0, os.path.join(C.VERIF, "harness"))
    import joblib
    import thefittest.base._ea as EA
    cpu = int(joblib.cpu_count())
    B = ctx.pick(120, 200)
    rep.extra["cpu_count"] = cpu
    rep.extra["pop_bound"] = B

    f_nj = C.CoqCases(ctx.scratch, "n_jobs", IMPORTS, "chk_n_jobs", "Z * Z * Z * option Z", shard=4000)
    f_sp = C.CoqCases(ctx.scratch, "split", IMPORTS, "chk_split", "Z * Z * list Z * list (Z * nat)", shard=250)

    # ---------------- exhaustive (pop, n_jobs)
    t_py = C.Timer()
    seen_split = set()
    deviating = 0
    for pop in range(1, B + 1):
        for nj in range(-20, pop + 21):
            r = eval_case(pop, nj)
            rep.count("n_jobs", (pop, nj), nontrivial=nj != 0)
            judge_case(rep, pop, nj, cpu, r)
            eff = r.get("eff")
            f_nj.add(f"({C.cz(cpu)}, {C.cz(pop)}, {C.cz(nj)}, {coq_opt(eff)})",
                     dict(kind="split", pop_size=pop, n_jobs=nj, cpu_count=cpu, impl_n_jobs=eff))
            if eff is None:
                continue
            rep.hist("request", "negative" if nj < 0 else ("above pop_size" if nj > pop else "1..pop_size"))
            if (pop, eff) not in seen_split:      # the split depends on (pop_size, _n_jobs) only
                seen_split.add((pop, eff))
                rep.count("split", (pop, eff), nontrivial=eff > 1)
                exact = [k * pop // eff for k in range(eff + 1)]
                if r["cuts"] != exact:
                    deviating += 1
                f_sp.add(coq_split_case(pop, eff, r["cuts"], r["chunks"]),
                         dict(kind="split", pop_size=pop, n_jobs=nj, cpu_count=cpu, impl_n_jobs=eff,
                              cuts=r["cuts"], sizes=[len(c) for c in r["chunks"]]))
                if (pop, eff) in ((30, 22), (8, 3)):
                    rep.sample(dict(family="split", pop_size=pop, n_jobs=nj, impl_n_jobs=eff, cuts=r["cuts"],
                                    exact_floor=exact, sizes=[len(c) for c in r["chunks"]]))
    rep.hist("split_pairs", len(seen_split))
    rep.hist("split_pairs_where_numpy_differs_from_exact_floor", deviating)
    for pop, nj in ((8, -1), (8, -2), (5, 30), (12, 5)):
        r = eval_case(pop, nj)
        rep.sample(dict(family="n_jobs", pop_size=pop, n_jobs=nj, cpu_count=cpu, impl_n_jobs=r.get("eff"),
                        sizes=[len(c) for c in r.get("chunks", [])]))

    # ---------------- other machine sizes (cpu_count patched in the module namespace; nothing in /repo is edited)
    orig_cpu = EA.cpu_count
    try:
        for fake in (1, 2, 3, 8, 64):
            EA.cpu_count = lambda fake=fake: fake
            for pop in ([1, 2, 3, 5, 8, 13, 40] if ctx.quick else list(range(1, 41)) + [64, 65, 100]):
                for nj in range(-70, pop + 4):
                    r = eval_case(pop, nj)
                    rep.count("n_jobs-cpu", (fake, pop, nj), nontrivial=nj != 0)
                    judge_case(rep, pop, nj, fake, r, family="n_jobs-cpu")
                    f_nj.add(f"({C.cz(fake)}, {C.cz(pop)}, {C.cz(nj)}, {coq_opt(r.get('eff'))})",
                             dict(kind="split", pop_size=pop, n_jobs=nj, cpu_count=fake, impl_n_jobs=r.get("eff")))
    finally:
        EA.cpu_count = orig_cpu

    C.log(f"[C16] exhaustive python side {t_py.s()}s")
    # ---------------- live parallel runs
    t_live = C.Timer()
    names = list(_opt_specs())
    if ctx.quick:
        plan = [("GeneticAlgorithm", 8, [2, -1, 13]), ("DifferentialEvolution", 10, [3, 10, -2]),
                ("GeneticAlgorithm+g2p", 9, [2, 14, -1]), ("SHADE+g2p", 11, [2, 3]),      # a greedy-family optimizer with a phenotype map too
                ("GeneticAlgorithm+bigint", 8, [2, 3]), ("GeneticAlgorithm+args", 9, [2, 3])]
    else:
        plan = [(nm, pop, LIVE_N_JOBS(pop)) for nm, pop in zip(names, (8, 10, 9, 12, 8, 9, 11))]
    tot_b = perm_b = 0
    for pi, (name, pop, njs) in enumerate(plan):
        seed = ctx.rng.randrange(1, 1 << 19) * 2 + (1 if pi % 2 == 0 else 0)     # alternate minimization on / off
        ser = live_run(ctx, name, pop, 1, seed)
        rep.count("live", (name, pop, 1, seed))
        if any(r["n"] != pop for r in ser["log"]):
            rep.problem("live", f"{name}: serial run evaluates batches of sizes {sorted(set(r['n'] for r in ser['log']))}, "
                        f"not pop_size={pop}", dict(kind="live", optimizer=name, pop_size=pop, n_jobs=1,
                                                    random_state=seed, iters=3), "live:serial-batch", False)
        for nj in njs:
            par = live_run(ctx, name, pop, nj, seed)
            rep.count("live", (name, pop, nj, seed))
            rep.traces += 1
            judge_live(rep, name, pop, nj, seed, ser, par)
            t, p = permuted_batches(par["log"], par["eff"])
            tot_b += t
            perm_b += p
            rep.hist("live_runs", f"{name}:pop={pop}:n_jobs={nj}->_n_jobs={par['eff']}")
            if len(rep.samples) < 10:
                rep.sample(dict(family="live", optimizer=name, pop_size=pop, n_jobs=nj, impl_n_jobs=par["eff"],
                                random_state=seed, calls=par["calls"], serial_calls=ser["calls"],
                                worker_pids=len(set(r["pid"] for r in par["log"])), batches=t,
                                batches_completed_out_of_start_order=p,
                                best_fitness=float(par["fittest"]["fitness"])))
    C.log(f"[C16] live runs {t_live.s()}s")
    rep.extra["live_batches"] = tot_b
    rep.extra["live_batches_completed_out_of_start_order"] = perm_b
    if tot_b and not perm_b:
        rep.problem("live", "no joblib batch completed out of start order: the delayed-worker runs did not permute "
                    "completion order, so they do not exercise the reassembly-in-submission-order clause", {},
                    "live:no-permutation", False)
    try:
        from joblib.externals.loky import get_reusable_executor
        get_reusable_executor().shutdown(wait=True)
    except Exception:
        pass

    # ---------------- thorough tier: the vm_compute sweep of the float model against the envelope, to pop <= 512
    if not ctx.quick:
        rc, out = C.coq_eval(ctx.scratch, "sweep512", IMPORTS + "\nEval vm_compute in (sweep_b 512).\n", timeout=1500)
        ok512 = rc == 0 and "= true" in out
        rep.count("sweep512", 512, n=1)
        rep.extra["float_model_in_envelope_upto512"] = ok512
        if not ok512:
            rep.problem("sweep512", "the PrimFloat linspace model leaves the envelope for some 1 <= n <= pop <= 512 "
                        "(or the sweep did not evaluate): " + out[-600:], {}, "sweep512", False)

    # ---------------- evaluate the model on every case
    t_coq = C.Timer()
    for fc in (f_nj, f_sp):
        bad, errors = fc.run()
        rep.hist("coq_cases", fc.name + ":" + str(len(fc)))
        for e in errors:
            rep.problem(fc.name, "model evaluation failed: %s" % (e,), {}, "model-eval", False)
        for i in bad[:20]:
            meta = fc.meta[i]
            neg = "negative" if meta["n_jobs"] < 0 else "positive"
            expl = fc.explain(i, "let '(cpu, pop, n, out) := c in (get_n_jobs cpu pop n, get_n_jobs_orig cpu pop n)"
                              if fc is f_nj else
                              "let '(pop, j, cuts, chunks) := c in (linspace_int pop j, envelope_b pop j cuts)")
            rep.problem(fc.name, "model and implementation disagree", meta, f"{fc.name}:{neg}:model-vs-impl", False,
                        meta.get("impl_n_jobs"), expl)
        if len(bad) > 20:
            rep.hist("coq_bad_total", fc.name + ":" + str(len(bad)))
    C.log(f"[C16] coq cases {t_coq.s()}s")
    rep.exhaustive = True
    rep.exhaustive_note = (f"all (pop_size, n_jobs) with 1 <= pop_size <= {B}, -20 <= n_jobs <= pop_size+20 "
                           f"(cpu_count={cpu}); {len(seen_split)} distinct (pop_size, _n_jobs) splits compared with the "
                           f"PrimFloat model, {deviating} of them differ from the exact floor formula")


# ----------------------------------------------------------------------- replay
def replay(ctx, rp) -> bool:
    """re-executes the first problem of a replay file against the real code; True = property holds there"""
    sys.path.insert(0, os.path.join(C.VERIF, "harness"))
    first = rp.get("first", rp)
    case = first.get("case", {})
    kind = case.get("kind")
    if kind == "split":
        import thefittest.base._ea as EA
        pop, nj, cpu = int(case["pop_size"]), int(case["n_jobs"]), case.get("cpu_count")
        orig = EA.cpu_count
        try:
            import joblib
            if cpu is not None and int(cpu) != int(joblib.cpu_count()):
                EA.cpu_count = lambda: int(cpu)
            r = eval_case(pop, nj)
        finally:
            EA.cpu_count = orig
        print(f"pop_size={pop} n_jobs={nj} cpu_count={cpu}: ", end="")
        if "error" in r:
            print(r["error"])
            return nj == 0
        sizes = [len(c) for c in r["chunks"]]
        print(f"_n_jobs={r['eff']} cut points={r['cuts']} chunk sizes={sizes}")
        if nj == 0:
            return False
        bad = "" if n_jobs_ok(pop, r["eff"]) else f"_n_jobs={r['eff']} outside [1,{pop}]"
        bad = bad or chunks_ok(pop, r["eff"], r["chunks"])
        if bad:
            print("violated:", bad)
        return not bad
    if kind == "live":
        name, pop, nj, seed = case["optimizer"], int(case["pop_size"]), int(case["n_jobs"]), int(case["random_state"])
        ser = live_run(ctx, name, pop, 1, seed)
        par = live_run(ctx, name, pop, nj, seed)

        class _R:
            problems = []

            def problem(self, *a, **k):
                self.problems.append(a[1])
        r = _R()
        ok = judge_live(r, name, pop, nj, seed, ser, par)
        print(f"{name} pop_size={pop} n_jobs={nj} -> _n_jobs={par['eff']}; calls {par['calls']} (serial {ser['calls']}); "
              f"chunk sizes seen by workers: {sorted(set(x['n'] for x in par['log']))}")
        for p in r.problems:
            print("violated:", p)
        return ok
    print("replay: nothing executable in this file (kind=%r): %s" % (kind, first.get("what", "")[:300]))
    return False
