"""C09 — a tree means what it prints: correspondence model <-> implementation.

Real thefittest Tree objects are built over two universal sets:
  * "int"  : six integer-valued operators (arity 1..3, two per arity), terminals x0..x2 bound to
             integers and ephemeral integer constants  -> exact __call__/__str__/set_terminals;
  * "sym"  : init_symbolic_regression_uniset over every key of the name table (+ a user-defined
             neg), array / scalar terminals on a dyadic grid -> real operators, batch vs sample.
Every accessor is first run in MIRROR mode (the same source as plain python: an out-of-range read
raises IndexError instead of reading foreign memory), then compiled; both must agree with each
other, with an independent recursive definition computed here, and with the Coq model."""
from __future__ import annotations

import fractions
import math
import warnings

import numpy as np

import common as C
import mirror as MR
import translate_symtable as TS

RULE = ("index helpers: ALL well-formed prefix trees with <= N nodes over arities {0,1,2,3} (N=6 quick, 8 thorough) "
        "x every node index for subtree_id/subtree/concat/get_args_id/get_levels/get_max_level/len/copy/==, random "
        "grown trees beyond; mirror (pure python) run first, then compiled, then Coq model, plus an independent "
        "recursive definition in python. __call__/__str__: integer-valued order-sensitive operators (exact) on the "
        "same trees; real operators of the symbolic-regression universal set on dyadic scalars/arrays (exact where "
        "the exact rational result is a float, else 2^-40 relative; transcendental functions against python math "
        "via a per-case oracle), batch vs every sample alone. common region: all pairs of trees <= M nodes (M=5) "
        "and random k-tuples (k<=4) against the recursive definition. A case is distinct by (family, tree, index/args).")
ASSUMPTIONS = ["trees are well formed (built by the library or by Tree(nodes) from a valid prefix list); indices 0 <= i < len",
               "terminal values finite; arrays of equal length; no overflow in user arithmetic",
               "transcendental functions are uninterpreted in the model (oracle = python math on the same arguments)"]
TRUSTED = ["models: coq/theories/Tree.v TreeIdx.v TreeEval.v; check functions coq/theories/C09Check.v",
           "table translator harness/translate_symtable.py (AST of _tree.py, fail-closed)"]
THEORIES = ["Tree", "TreeIdx", "TreeEval", "TreeProofs", "TreeProofs2", "TreeEvalProofs", "TreeCR", "TreeCRk", "C09Check",
            "GenSymTable", "Py", "PyLemmas", "GenCode", "CodeEqC09"]

IMPORTS = ("From Coq Require Import String Ascii.\nFrom Coq Require Import List Arith ZArith QArith.\n"
           "From TF Require Import Base Tree TreeIdx TreeEval C09Check.\nOpen Scope nat_scope.")
SPEC = {  # key -> (model identifier, arity, reference by NAME, format)
    "cos": (0, 1), "sin": (1, 1), "add": (2, 2), "sub": (3, 2), "mul": (4, 2), "div": (5, 2),
    "abs": (6, 1), "logabs": (7, 1), "exp": (8, 1), "sqrtabs": (9, 1), "neg": (10, 1)}
SPEC_FMT = {"cos": "cos({})", "sin": "sin({})", "add": "({} + {})", "sub": "({} - {})", "mul": "({} * {})",
            "div": "({} / {})", "abs": "abs({})", "logabs": "log(abs({}))", "exp": "exp({})",
            "sqrtabs": "sqrt(abs({}))", "neg": "-{}"}
MAXV = float(np.finfo(np.float64).max)
SIG_SYMTABLE = "symtable:duplicate-key-logabs"
SIG_DIV = "save_div:scalar-zero-divisor"
SIG_ARGS = "find_id_args_from_i:terminal-oob-write"


def gen(ctx):
    TS.gen()
    import translate_code as TC
    TC.ensure(["find_end_subtree_from_i", "find_id_args_from_i", "get_levels_tree_from_i"])


# =========================================================================== coq literals
N = C.cnat


def nl(xs):
    return C.clist([C.cnat(int(x)) for x in xs])


def nll(xss):
    return C.clist([nl(x) for x in xss])


def cstr(s):
    assert all(32 <= ord(ch) < 127 for ch in s), s
    return '"' + s.replace('"', '""') + '"%string'


def cval(v):
    if isinstance(v, np.ndarray):
        return "(Ar " + C.clist([C.cq(float(x)) for x in v]) + ")"
    return f"(Sc {C.cq(float(v))})"


# =========================================================================== shapes, independent recursion
def shapes(n, maxar=3):
    """all arity arrays of well-formed trees with exactly n nodes"""
    out = []

    def go(prefix, need):
        if len(prefix) == n:
            if need == 0:
                out.append(tuple(prefix))
            return
        if need == 0:
            return
        for a in range(maxar + 1):
            if need - 1 + a <= n - len(prefix) - 1:
                go(prefix + [a], need - 1 + a)
    go([], 1)
    return out


def nest(ar):
    """independent parser: nested (index, [children]); raises on malformed input"""
    pos = 0

    def rec():
        nonlocal pos
        i = pos
        pos += 1
        return (i, [rec() for _ in range(ar[i])])
    t = rec()
    if pos != len(ar):
        raise ValueError("not a single tree")
    return t


def rec_info(ar):
    """recursive definitions: end[i], args[i], levels[i] (relative, prefix order), depth"""
    n = len(ar)
    end, args, lv, size = [0] * n, [None] * n, [None] * n, [0] * n

    def rec(t):
        i, kids = t
        sub = [0]
        for k in kids:
            rec(k)
            sub += [x + 1 for x in lv[k[0]]]
        lv[i] = sub
        size[i] = 1 + sum(size[k[0]] for k in kids)
        end[i] = i + size[i]
        args[i] = [k[0] for k in kids]
    rec(nest(ar))
    return end, args, lv, max(lv[0])


def cr_ref(ars):
    """recursive common region of k trees: per tree the common positions and the border positions"""
    ts = [nest(a) for a in ars]
    com, bor = [[] for _ in ars], [[] for _ in ars]

    def rec(nodes):
        for j, nd in enumerate(nodes):
            com[j].append(nd[0])
        if len({ars[j][nd[0]] for j, nd in enumerate(nodes)}) == 1:
            for kids in zip(*[nd[1] for nd in nodes]):
                rec(kids)
        else:
            for j, nd in enumerate(nodes):
                bor[j].append(nd[0])
    rec(ts)
    return com, bor


# =========================================================================== universal sets
def g_int(f, args):
    return (7 * (f + 1) + sum((i + 2) * a for i, a in enumerate(args)) + args[0] * args[-1]) % 1000003


class Lib:
    """everything imported from the library, built once"""

    def __init__(self):
        from thefittest.base import _tree as T
        from thefittest import utils as U
        import operator
        self.T, self.U = T, U
        self.ifun = []
        for f in range(6):
            k = f // 2 + 1
            if k == 1:
                op = (lambda f: lambda a: g_int(f, [a]))(f)
            elif k == 2:
                op = (lambda f: lambda a, b: g_int(f, [a, b]))(f)
            else:
                op = (lambda f: lambda a, b, c: g_int(f, [a, b, c]))(f)
            fmt = f"f{f}(" + ", ".join(["{}"] * k) + ")"
            self.ifun.append(T.FunctionalNode(U.create_operator(fmt, f"f{f}", f"f{f}", op)))
        self.ifmt = [f"f{f}(" + ", ".join(["{}"] * (f // 2 + 1)) + ")" for f in range(6)]
        self.neg = T.FunctionalNode(U.create_operator("-{}", "neg", "-", operator.neg))
        self.scalar_zero_div = float(U.save_div(1.0, 0.0))   # the library's scalar convention for x/0
        self.sym = {}
        self.sym_err = {}

    def sym_node(self, key):
        """the functional node the library binds to an accepted name (uniset with that single name)"""
        if key == "neg":
            return self.neg
        if key not in self.sym and key not in self.sym_err:
            try:
                u = self.T.init_symbolic_regression_uniset(np.zeros((2, 1)), (key,))
                self.sym[key] = u._functional_set[-1][0]
            except Exception as e:     # name not accepted
                self.sym_err[key] = f"{type(e).__name__}: {e}"
        return self.sym.get(key)

    # spec entries: ("F", fid) | ("S", key) | ("T", name, value) | ("C", value)
    def build(self, spec):
        nodes = []
        for e in spec:
            if e[0] == "F":
                nodes.append(self.ifun[e[1]])
            elif e[0] == "S":
                nd = self.sym_node(e[1])
                if nd is None:
                    raise KeyError(e[1])
                nodes.append(nd)
            elif e[0] == "T":
                v = np.array(e[2], dtype=np.float64) if isinstance(e[2], (list, tuple)) else e[2]
                nodes.append(self.T.TerminalNode(v, e[1]))
            else:
                gen_ = (lambda v: (lambda: v))(e[1])
                gen_.__name__ = "const"
                nodes.append(self.T.EphemeralNode(gen_)())
        return self.T.Tree(nodes)


def spec_arity(e):
    if e[0] == "F":
        return e[1] // 2 + 1
    if e[0] == "S":
        return SPEC[e[1]][1]
    return 0


def tname_id(name, names):
    if name not in names:
        names.append(name)
    return names.index(name)


def spec_name(e):
    return e[1] if e[0] == "T" else str(e[1])


def rand_spec(rng, ar, kind, tvals):
    """assign symbols to the positions of an arity array"""
    spec = []
    for a in ar:
        if a == 0:
            r = rng.random()
            if r < 0.7:
                nm = rng.choice(sorted(k for k in tvals if not k.startswith("__")))
                spec.append(("T", nm, tvals[nm]))
            else:
                spec.append(("C", rng.choice(tvals["__const__"])))
        elif kind == "int":
            spec.append(("F", 2 * (a - 1) + rng.randrange(2)))
        else:
            keys = [k for k, (_, k_ar) in SPEC.items() if k_ar == a and k in tvals["__keys__"]]
            spec.append(("S", rng.choice(keys)))
    return spec


def rand_shape(rng, max_nodes, arities=(0, 1, 2, 3), p_leaf=0.35):
    """random well-formed arity array (grown top-down, forced to close before max_nodes)"""
    ar, need = [], 1
    while need > 0:
        room = max_nodes - len(ar) - need
        if room <= 0 or (len(ar) > 0 and rng.random() < p_leaf):
            a = 0
        else:
            a = rng.choice([x for x in arities if 0 < x <= room] or [0])
        ar.append(a)
        need += a - 1
    return ar


# =========================================================================== reference evaluation
def ref_int(spec, env=None):
    ar = [spec_arity(e) for e in spec]

    def rec(t):
        i, kids = t
        e = spec[i]
        if e[0] == "F":
            return g_int(e[1], [rec(k) for k in kids])
        if env is not None and spec_name(e) in env:
            return env[spec_name(e)]
        return e[2] if e[0] == "T" else e[1]
    return rec(nest(ar))


def ref_str(spec, fmts):
    ar = [spec_arity(e) for e in spec]

    def rec(t):
        i, kids = t
        e = spec[i]
        if e[0] in ("F", "S"):
            f = fmts[e[1]]
            out, args = "", [rec(k) for k in kids]
            for part in f.split("{}")[:-1]:
                out += part + args.pop(0)
            return out + f.split("{}")[-1]
        return spec_name(e)
    return rec(nest(ar))


class Hazard(Exception):
    pass


def ref_real(spec, k, zero_div, oracle):
    """value of sample k by the NAMES of the operators, with python's math; records the
    transcendental calls in `oracle`; returns (float value, exact Fraction or None)"""
    ar = [spec_arity(e) for e in spec]

    def chk(x):
        if not math.isfinite(x) or abs(x) > 1e100:
            raise Hazard("overflow")
        return x

    def rec(t):
        i, kids = t
        e = spec[i]
        if e[0] in ("T", "C"):
            v = e[2] if e[0] == "T" else e[1]
            v = float(v[k]) if isinstance(v, (list, tuple)) else float(v)
            return v, fractions.Fraction(v)
        a = [rec(kk) for kk in kids]
        key = e[1]
        x, xe = a[0]
        if key in ("add", "sub", "mul"):
            y, ye = a[1]
            fv = {"add": x + y, "sub": x - y, "mul": x * y}[key]
            ex = None if xe is None or ye is None else {"add": xe + ye, "sub": xe - ye, "mul": xe * ye}[key]
            return chk(fv), ex
        if key == "div":
            y, ye = a[1]
            if y == 0:
                if ye is not None and ye != 0:
                    raise Hazard("float zero, exact non-zero")
                return zero_div, fractions.Fraction(zero_div)
            if abs(y) < 1e-9 or (ye is not None and ye == 0):
                raise Hazard("tiny divisor")
            return chk(x / y), (None if xe is None or ye is None else xe / ye)
        if key == "neg":
            return -x, (None if xe is None else -xe)
        if key == "abs":
            return abs(x), (None if xe is None else abs(xe))
        if key in ("cos", "sin", "logabs", "sqrtabs") and abs(x) > 1e6:
            raise Hazard("huge argument of a transcendental function")
        if key in ("cos", "sin"):
            v = math.cos(x) if key == "cos" else math.sin(x)
            oracle.append((0 if key == "cos" else 1, x, v))
            return v, None
        if key == "exp":
            try:
                v = math.exp(x)
            except OverflowError:
                v = MAXV
            oracle.append((2, x, min(v, MAXV)))
            return min(v, MAXV), None          # saturation allowed here; any further arithmetic on it is a hazard
        if key == "logabs":
            ax = abs(x)
            if ax == 0:
                if xe is not None and xe != 0:
                    raise Hazard("float zero, exact non-zero")
                return 1.0, fractions.Fraction(1)
            if ax < 1e-9 or (xe is not None and xe == 0):
                raise Hazard("log near zero")
            v = math.log(ax)
            oracle.append((3, ax, v))
            return v, None
        if key == "sqrtabs":
            ax = abs(x)
            if 0 < ax < 1e-9:
                raise Hazard("sqrt near zero")
            v = math.sqrt(ax)
            oracle.append((4, ax, v))
            return v, None
        raise KeyError(key)
    return rec(nest(ar))


def close(a, b, tol=2.0 ** -40):
    return a == b or abs(a - b) <= tol * (1 + abs(b))


# =========================================================================== the run
class Run:
    def __init__(self, ctx, rep):
        self.ctx, self.rep = ctx, rep
        self.L = Lib()
        self.fams = {}
        self.skipped = 0

    def fam(self, name, check, ctype, shard=300):
        if name not in self.fams:
            self.fams[name] = C.CoqCases(self.ctx.scratch, name, IMPORTS, check, ctype, shard)
        return self.fams[name]

    # ---- coq terms for nodes
    def cnodes(self, spec, vfmt, names):
        out = []
        for e in spec:
            if e[0] == "F":
                out.append(f"FN {N(e[1])} {N(e[1] // 2 + 1)}")
            elif e[0] == "S":
                out.append(f"FN {N(SPEC[e[1]][0])} {N(SPEC[e[1]][1])}")
            else:
                v = e[2] if e[0] == "T" else e[1]
                out.append(f"TN {N(tname_id(spec_name(e), names))} {vfmt(v)}")
        return C.clist(out)

    # ------------------------------------------------------------------ index accessors
    def accessors(self, specs, family):
        """specs: list of int-uniset specs.  Mirror pass, compiled pass, recursion, Coq."""
        rep, L = self.rep, self.L
        f_idx = self.fam("idx", "chk_idx", "list nat * list nat * list (list nat) * list (list nat) * nat * nat")
        f_sub = self.fam("subtree", "chk_subtree", "ptree sy * nat * ptree sy")
        f_cat = self.fam("concat", "chk_concat", "ptree sy * nat * ptree sy * ptree sy")
        trees = [L.build(s) for s in specs]
        ars = [[spec_arity(e) for e in s] for s in specs]
        donors = [L.build(s) for s in ([("T", "x0", 1)], [("F", 2), ("T", "x1", 2), ("C", 5)],
                                       [("F", 4), ("F", 0), ("T", "x2", 3), ("T", "x0", 1), ("F", 1), ("C", 7)])]
        donors_sy = [[(self.sy_id(n), n._n_args) for n in d._nodes] for d in donors]

        def observe(t):
            n = len(t)
            o = dict(ends=[], args=[], lvls=[], subs=[], cats=[], err=None)
            for i in range(n):
                try:
                    o["ends"].append(int(t.subtree_id(i)[1]))
                except IndexError as e:
                    o["ends"].append(f"IndexError: {e}")
                try:
                    o["args"].append([int(x) for x in t.get_args_id(i)])
                except IndexError as e:
                    o["args"].append(f"IndexError: {e}")
                try:
                    o["lvls"].append([int(x) for x in t.get_levels(i)])
                except IndexError as e:
                    o["lvls"].append(f"IndexError: {e}")
            try:
                o["ml"] = int(t.get_max_level())
            except IndexError as e:
                o["ml"] = f"IndexError: {e}"
            return o

        with MR.patched_library():
            mir = [observe(t) for t in trees]
        for spec, t, ar, m in zip(specs, trees, ars, mir):
            n = len(t)
            end, args, lv, depth = rec_info(ar)
            key = tuple(ar)
            rep.hist("tree_size", n)
            case0 = dict(kind="accessors", spec=spec, arities=ar)
            # mirror first: an IndexError there means the compiled code would read out of bounds
            mirror_bad = False
            for i in range(n):
                for nm, got in (("subtree_id", m["ends"][i]), ("get_args_id", m["args"][i]), ("get_levels", m["lvls"][i])):
                    if isinstance(got, str):
                        mirror_bad = True
                        term_args = nm == "get_args_id" and ar[i] == 0
                        rep.problem(family, f"{nm}({i}) raises {got} when the helper runs as plain python "
                                    "(the compiled helper reads/writes out of bounds)",
                                    dict(case0, index=i, accessor=nm), SIG_ARGS if term_args else f"{nm}:mirror-indexerror",
                                    True, got, args[i] if nm == "get_args_id" else None, "C09_args_id" if term_args else nm)
            # compiled pass (only where the mirror did not fault)
            c = dict(ends=[], args=[], lvls=[])
            for i in range(n):
                c["ends"].append(int(t.subtree_id(i)[1]) if not isinstance(m["ends"][i], str) else None)
                c["args"].append([int(x) for x in t.get_args_id(i)] if not isinstance(m["args"][i], str) else None)
                c["lvls"].append([int(x) for x in t.get_levels(i)] if not isinstance(m["lvls"][i], str) else None)
            c["ml"] = int(t.get_max_level())
            for nm in ("ends", "args", "lvls"):
                for i in range(n):
                    if c[nm][i] is not None and c[nm][i] != m[nm][i]:
                        rep.problem(family, f"compiled and mirror disagree on {nm}[{i}]", dict(case0, index=i),
                                    f"{nm}:compiled-vs-mirror", False, c[nm][i], m[nm][i])
            # property predicate: recursive definition
            for i in range(n):
                rep.count(family, (key, i))
                if c["ends"][i] is not None and c["ends"][i] != end[i]:
                    rep.problem(family, f"subtree_id({i}) is not the end of the sub-term", dict(case0, index=i),
                                "subtree_id", True, c["ends"][i], end[i], "C09_subtree_flatten")
                if c["args"][i] is not None and c["args"][i] != args[i]:
                    rep.problem(family, f"get_args_id({i}) is not the list of argument roots", dict(case0, index=i),
                                "get_args_id", True, c["args"][i], args[i], "C09_args_id")
                if c["lvls"][i] is not None and c["lvls"][i] != lv[i]:
                    rep.problem(family, f"get_levels({i}) differs from the recursive levels", dict(case0, index=i),
                                "get_levels", True, c["lvls"][i], lv[i], "C09_levels")
            if c["ml"] != depth or len(t) != n:
                rep.problem(family, "get_max_level / len differ from depth / size", case0, "max_level", True, c["ml"], depth,
                            "C09_max_level")
            if not mirror_bad:
                f_idx.add(f"({nl(ar)}, {nl(c['ends'])}, {nll(c['args'])}, {nll(c['lvls'])}, {N(c['ml'])}, {N(len(t))})", case0)
            else:  # pre-repair model of find_id_args_from_i on the terminal indices
                f_old = self.fam("args_old", "chk_args_old", "list nat * nat * option (list nat)")
                for i in range(n):
                    out = "None" if isinstance(m["args"][i], str) else f"(Some {nl(m['args'][i])})"
                    f_old.add(f"({nl(ar)}, {N(i)}, {out})", dict(case0, index=i))
            # subtree / concat / copy / eq  (python slicing only; find_end already validated above)
            if any(isinstance(x, str) for x in m["ends"]):
                continue
            snap = self.snapshot(t)
            pt = self.cptree(t)
            for i in range(n):
                s = t.subtree(i)
                sub_sy = [(self.sy_id(x), x._n_args) for x in s._nodes]
                exp_nodes = t._nodes[i:end[i]]
                ok = (len(s._nodes) == len(exp_nodes) and all(a is b for a, b in zip(s._nodes, exp_nodes))
                      and [int(x) for x in s._n_args] == ar[i:end[i]] and s._nodes is not t._nodes)
                rep.count(family + "-subtree", (key, i))
                if not ok:
                    rep.problem(family, f"subtree({i}) is not the encoding of the sub-term at {i}", dict(case0, index=i),
                                "subtree", True, sub_sy, None, "C09_subtree_flatten")
                f_sub.add(f"({pt}, {N(i)}, {self.cptree(s)})", dict(case0, index=i))
                back = t.concat(i, s)
                if not (len(back._nodes) == n and all(a is b for a, b in zip(back._nodes, t._nodes))
                        and [int(x) for x in back._n_args] == ar):
                    rep.problem(family, f"concat({i}, subtree({i})) is not the identity", dict(case0, index=i),
                                "concat-subtree-id", True, [self.sy_id(x) for x in back._nodes], None, "C09_concat_subtree_id")
                f_cat.add(f"({pt}, {N(i)}, {self.cptree(s)}, {self.cptree(back)})", dict(case0, index=i, donor="subtree(i)"))
                for dj in ((i + len(t)) % len(donors),) if self.ctx.quick or n > 6 else range(len(donors)):
                    d = donors[dj]
                    r = t.concat(i, d)
                    exp_nodes = t._nodes[:i] + d._nodes + t._nodes[end[i]:]
                    exp_ar = ar[:i] + [x._n_args for x in d._nodes] + ar[end[i]:]
                    rep.count(family + "-concat", (key, i, dj))
                    if not (len(r._nodes) == len(exp_nodes) and all(a is b for a, b in zip(r._nodes, exp_nodes))
                            and [int(x) for x in r._n_args] == exp_ar):
                        rep.problem(family, f"concat({i}, donor) is not the tree with the sub-term at {i} replaced",
                                    dict(case0, index=i, donor=dj), "concat", True, [self.sy_id(x) for x in r._nodes], None,
                                    "C09_concat_flatten")
                    else:
                        # the accessors of the NEW tree describe the new tree (t.get_max_level() / len(t) were called before)
                        exp_depth = rec_info([int(x) for x in exp_ar])[3]
                        got = (int(r.get_max_level()), len(r), int(r.copy().get_max_level()))
                        if got != (exp_depth, len(exp_nodes), exp_depth):
                            rep.problem(family, f"get_max_level / len of concat({i}, donor) (and of its copy) describe another tree",
                                        dict(case0, index=i, donor=dj), "concat:max_level", True, list(got), [exp_depth, len(exp_nodes), exp_depth],
                                        "C09_max_level")
                    f_cat.add(f"({pt}, {N(i)}, {self.cptree(d)}, {self.cptree(r)})", dict(case0, index=i, donor=dj))
            cp = t.copy()
            if not (cp == t and cp is not t and cp._nodes is not t._nodes and cp._n_args is not t._n_args
                    and not np.shares_memory(cp._n_args, t._n_args) and all(a is b for a, b in zip(cp._nodes, t._nodes))):
                rep.problem(family, "copy is not an equal tree with fresh containers", case0, "copy", True, None, None, "C09_copy_eq")
            if self.snapshot(t) != snap:
                rep.problem(family, "an accessor modified the tree it was called on", case0, "mutation", True, None, None,
                            "C09_concat_subtree_id")
        self.rep.sample(dict(family=family, spec=specs[-1], arities=ars[-1], subtree_id=mir[-1]["ends"], get_levels0=mir[-1]["lvls"][0]))

    def sy_id(self, node):
        """identifier of a node for the Coq side: function f -> f ; terminal -> 100 + name hash table"""
        nm = node._name
        if not hasattr(self, "_ids"):
            self._ids = {}
        if nm not in self._ids:
            self._ids[nm] = len(self._ids)
        return self._ids[nm]

    def cptree(self, t):
        return ("(" + C.clist([f"({N(self.sy_id(x))}, {N(x._n_args)})" for x in t._nodes]) + ", "
                + nl([int(x) for x in t._n_args]) + ")")

    @staticmethod
    def snapshot(t):
        return ([id(x) for x in t._nodes], [(x._name, x._n_args, repr(x._value) if not callable(x._value) else id(x._value))
                                             for x in t._nodes], [int(x) for x in t._n_args])

    # ------------------------------------------------------------------ __call__ / __str__ / set_terminals / ==
    def call_int(self, specs, family):
        rep, L = self.rep, self.L
        f_call = self.fam("call_int", "chk_call_int", "list (node Z) * Z")
        f_str = self.fam("str", "chk_str", "list (node unit) * list string * list string * string")
        f_set = self.fam("set_terminals", "chk_set_terminals", "list (node Z) * list (nat * Z) * list (node Z) * Z")
        fmts = {f: L.ifmt[f] for f in range(6)}
        for spec in specs:
            t = L.build(spec)
            key = tuple(map(tuple, map(lambda e: tuple(map(str, e)), spec)))
            case = dict(kind="call_int", spec=spec)
            got, exp = t(), ref_int(spec)
            rep.count(family, key)
            if got != exp:
                rep.problem(family, "tree() is not the value of the expression it denotes", case, "call", True, got, exp,
                            "C09_call_is_eval")
            names = []
            f_call.add(f"({self.cnodes(spec, C.cz, names)}, {C.cz(got)})", case)
            s_got, s_exp = str(t), ref_str(spec, fmts)
            if s_got != s_exp:
                rep.problem(family, "str(tree) is not the expression it denotes", case, "str", True, s_got, s_exp,
                            "C09_str_is_render")
            names = []
            nodes = self.cnodes(spec, lambda v: "tt", names)
            f_str.add(f"({nodes}, {C.clist([cstr(x) for x in L.ifmt])}, {C.clist([cstr(x) for x in names])}, {cstr(s_got)})",
                      dict(case, kind="str"))
            # set_terminals with a pseudo-random environment (present, absent and constant names)
            rng = self.ctx.rng
            cand = ["x0", "x1", "x2", "zz"] + [spec_name(e) for e in spec if e[0] == "C"][:1]
            env = {nm: rng.randrange(-9, 10) for nm in cand if rng.random() < 0.6}
            snap = self.snapshot(t)
            t2 = t.set_terminals(**env)
            spec2 = [e if e[0] in ("F", "S") or spec_name(e) not in env else ("T", spec_name(e), env[spec_name(e)]) for e in spec]
            ok_nodes = len(t2) == len(t) and all(
                (b is a) if (e[0] == "F" or spec_name(e) not in env) else
                (type(b) is L.T.TerminalNode and b._name == a._name and b._value == env[spec_name(e)] and b._n_args == 0)
                for a, b, e in zip(t._nodes, t2._nodes, spec))
            v2, e2 = t2(), ref_int(spec, env)
            rep.count(family + "-set_terminals", (key, tuple(sorted(env.items()))))
            if not ok_nodes or v2 != e2 or self.snapshot(t) != snap or t2._nodes is t._nodes or not (t2 == t):
                rep.problem(family, "set_terminals does not rebind exactly the named terminals on a copy",
                            dict(case, kind="set_terminals", env=env), "set_terminals", True, v2, e2, "C09_set_terminals")
            # chained rebinds: t1 = t.set_terminals(env); t2 = t1.set_terminals(env'); every tree keeps denoting what it denoted
            # (also a copy, a subtree and a graft of the rebound tree, rebound again)
            env_b = {nm: v + 17 for nm, v in env.items()}
            v_t, v_t2 = t(), t2()
            t3 = t2.set_terminals(**env_b)
            t4 = t2.copy().set_terminals(**env_b)
            t5 = t2.concat(0, t2.subtree(0)).set_terminals(**env_b)
            e3 = ref_int(spec, env_b) if env else ref_int(spec)
            rep.count(family + "-set_terminals-chain", (key, tuple(sorted(env.items()))))
            if t() != v_t or t2() != v_t2 or t2() != e2 or any(x() != e3 for x in (t3, t4, t5)):
                rep.problem(family, "a second set_terminals (on the rebound tree, its copy or a graft of it) changed what an earlier tree evaluates to",
                            dict(case, kind="set_terminals", env=env, env_second=env_b), "set_terminals", True, [t(), t2(), t3(), t4(), t5()], [v_t, e2, e3, e3, e3], "C09_set_terminals")
            names = []
            p1 = self.cnodes(spec, C.cz, names)
            p2 = C.clist([f"FN {N(self.L.ifun.index(b))} {N(b._n_args)}" if isinstance(b, L.T.FunctionalNode)
                          else f"TN {N(tname_id(b._name, names))} {C.cz(b._value)}" for b in t2._nodes])
            cenv = C.clist([f"({N(tname_id(nm, names))}, {C.cz(v)})" for nm, v in env.items()])
            f_set.add(f"({p1}, {cenv}, {p2}, {C.cz(v2)})", dict(case, kind="set_terminals", env=env))
        # terminals are bound per NODE: two nodes may carry the same name and different values (hand-built trees; grafts of
        # differently rebound copies: A = t.set_terminals(x0=a), B = t.set_terminals(x0=b), A.concat(i, B.subtree(j))).  Twin trees
        # f(S, S') whose halves print identically and differ in the values their terminals carry:
        rng = self.ctx.rng
        for spec in specs:
            if not any(e[0] == "T" for e in spec) or len(spec) > 12:
                continue
            shift = rng.randrange(1, 50)
            twin_r = [e if e[0] != "T" else ("T", e[1], e[2] + shift) for e in spec]
            for twin in ([("F", 2 + rng.randrange(2))] + list(spec) + twin_r, [("F", 2 + rng.randrange(2))] + twin_r + list(spec)):
                t = L.build(twin)
                case = dict(kind="call_int", spec=twin, twin=True)
                got, exp = t(), ref_int(twin)
                rep.count(family + "-twin", tuple(map(tuple, map(lambda e: tuple(map(str, e)), twin))))
                if got != exp:
                    rep.problem(family, "tree() is not the value of the expression it denotes (equal-printing sub-expressions whose terminals carry different values)",
                                case, "call", True, got, exp, "C09_call_is_eval")
                # the same tree obtained through the public operations: rebind two copies, graft one half
                host = L.build([("F", twin[0][1])] + list(spec) + list(spec))
                env_l = {e[1]: e[2] for e in twin[1:1 + len(spec)] if e[0] == "T"}
                env_r = {e[1]: e[2] for e in twin[1 + len(spec):] if e[0] == "T"}
                A, B = host.set_terminals(**env_l), host.set_terminals(**env_r)
                G = A.concat(1 + len(spec), B.subtree(1 + len(spec)))
                if G() != exp or str(G) != str(t):
                    rep.problem(family, "concat of a differently rebound copy's subtree: the value is not that of the expression the graft denotes",
                                dict(case, via="set_terminals+subtree+concat"), "call", True, G(), exp, "C09_call_is_eval")
                names = []
                f_call.add(f"({self.cnodes(twin, C.cz, names)}, {C.cz(got)})", case)
        rep.sample(dict(family=family, spec=specs[-1], value=L.build(specs[-1])(), str=str(L.build(specs[-1]))))

    def eq_pairs(self, specs):
        rep, L = self.rep, self.L
        f_eq = self.fam("eq", "chk_eq", "list (node Z) * list (node Z) * bool")
        rng = self.ctx.rng
        trees = [L.build(s) for s in specs]
        n = len(specs)
        for _ in range(self.ctx.pick(300, 2000)):
            i = rng.randrange(n)
            j = i if rng.random() < 0.15 else rng.randrange(n)
            if rng.random() < 0.3:   # same shape, perturb one symbol or only the bound values
                sp = list(specs[i])
                k = rng.randrange(len(sp))
                e = sp[k]
                if e[0] == "F":
                    sp[k] = ("F", e[1] ^ (1 if rng.random() < 0.5 else 0))
                elif e[0] == "T":
                    sp[k] = ("T", e[1] if rng.random() < 0.5 else "x" + str(rng.randrange(3)), rng.randrange(-5, 6))
                a, b, sa, sb = trees[i], L.build(sp), specs[i], sp
            else:
                a, b, sa, sb = trees[i], trees[j], specs[i], specs[j]
            got = bool(a == b)
            exp = len(sa) == len(sb) and all((x[0] == "F") == (y[0] == "F") and
                                             (x[1] == y[1] if x[0] == "F" else spec_name(x) == spec_name(y))
                                             for x, y in zip(sa, sb))
            rep.count("eq", (str(sa), str(sb)), nontrivial=len(sa) == len(sb))
            case = dict(kind="eq", a=sa, b=sb)
            if got != exp:
                rep.problem("eq", "== is not equality of the symbol sequences", case, "eq", True, got, exp, "C09_eq_structural")
            names = []
            f_eq.add(f"({self.cnodes(sa, C.cz, names)}, {self.cnodes(sb, C.cz, names)}, {C.cbool(got)})", case)

    # ------------------------------------------------------------------ common region
    def common_region(self, shapes2, ktuples):
        rep, L = self.rep, self.L
        f2 = self.fam("cr2", "chk_cr2", "list nat * list nat * (list nat * list nat * list nat * list nat)")
        f2r = self.fam("cr2_rec", "chk_cr2_rec", "list nat * list nat * (list nat * list nat * list nat * list nat)")
        fk = self.fam("crk", "chk_crk", "list (list nat) * list (list nat) * list (list nat)")
        fk2 = self.fam("crk_vs_cr2", "chk_crk_vs_cr2", "list nat * list nat")
        fkr = self.fam("crk_rec", "chk_crk_rec", "list (list nat) * list (list nat) * list (list nat)")
        rng = self.ctx.rng
        mk = lambda ar: L.build(rand_spec(rng, ar, "int", self.tv_int))
        tuples = [(a, b) for a in shapes2 for b in shapes2] + ktuples
        trees = [[mk(list(ar)) for ar in tup] for tup in tuples]

        def observe(ts):
            try:
                r = ts[0].get_common_region(ts[1:])
                return [[int(x) for x in l] for l in r[0]], [[int(x) for x in l] for l in r[1]]
            except (IndexError, ValueError, UnboundLocalError) as e:
                return f"{type(e).__name__}: {e}"
        with MR.patched_library():
            mir = [observe(ts) for ts in trees]
        for tup, ts, m in zip(tuples, trees, mir):
            ars = [list(a) for a in tup]
            case = dict(kind="common_region", arities=ars)
            fam_ = "cr2" if len(tup) == 2 else "crk"
            rep.count(fam_, tuple(map(tuple, ars)), nontrivial=any(len(a) > 1 for a in ars))
            rep.hist("cr_k", len(tup))
            exp = cr_ref(ars)
            if isinstance(m, str):
                rep.problem(fam_, f"get_common_region raises {m} in mirror mode", case, fam_ + ":mirror-error", True, m, exp,
                            "C09_common_region_spec")
                continue
            snaps = [self.snapshot(t) for t in ts]
            c = observe(ts)
            if c != m:
                rep.problem(fam_, "compiled and mirror disagree on the common region", case, fam_ + ":compiled-vs-mirror", False, c, m)
            if [list(x) for x in c[0]] != exp[0] or [list(x) for x in c[1]] != exp[1]:
                rep.problem(fam_, "common region differs from the recursive definition", case, fam_, True, c, exp,
                            "C09_common_region_spec")
            if [self.snapshot(t) for t in ts] != snaps:
                rep.problem(fam_, "get_common_region modified a tree", case, fam_ + ":mutation", True)
            if len(tup) == 2:
                term = f"({nl(ars[0])}, {nl(ars[1])}, ({nl(c[0][0])}, {nl(c[0][1])}, {nl(c[1][0])}, {nl(c[1][1])}))"
                f2.add(term, case)
                f2r.add(term, case)
                fk2.add(f"({nl(ars[0])}, {nl(ars[1])})", case)
                # the k-tree walk on the same pair (Tree.get_common_region uses it only for k >= 3)
                with MR.patched_library():
                    mk2 = self.L.U.common_region(ts)
                ck2 = self.L.U.common_region(ts)
                ck2 = ([[int(x) for x in l] for l in ck2[0]], [[int(x) for x in l] for l in ck2[1]])
                if ck2 != ([[int(x) for x in l] for l in mk2[0]], [[int(x) for x in l] for l in mk2[1]]) or \
                        ck2[0] != exp[0] or ck2[1] != exp[1]:
                    rep.problem("crk", "common_region (k-tree walk) on a pair differs from the recursive definition", case, "crk",
                                True, ck2, exp, "C09_common_region_spec")
                fk.add(f"({nll(ars)}, {nll(ck2[0])}, {nll(ck2[1])})", case)
                fkr.add(f"({nll(ars)}, {nll(ck2[0])}, {nll(ck2[1])})", case)
            else:
                fk.add(f"({nll(ars)}, {nll(c[0])}, {nll(c[1])})", case)
                fkr.add(f"({nll(ars)}, {nll(c[0])}, {nll(c[1])})", case)
        rep.sample(dict(family="common_region", arities=[list(a) for a in tuples[-1]], impl=mir[-1]))

    # ------------------------------------------------------------------ the name table, live
    def named(self, rows):
        """every accepted name computes the function it is named for (reference: python math by NAME)"""
        rep, L = self.rep, self.L
        pts = [-2.0, -0.75, 0.0, 0.5, 1.0, math.e, 4.0, 9.0]
        ref1 = {"cos": math.cos, "sin": math.sin, "abs": abs, "exp": lambda x: min(math.exp(x), MAXV),
                "logabs": lambda x: 1.0 if x == 0 else math.log(abs(x)), "sqrtabs": lambda x: math.sqrt(abs(x))}
        ref2 = {"add": lambda x, y: x + y, "sub": lambda x, y: x - y, "mul": lambda x, y: x * y,
                "div": lambda x, y: None if y == 0 else x / y}
        keys = []
        for r in rows:
            if r["key"] not in keys:
                keys.append(r["key"])
        dup = [k for k in keys if sum(1 for r in rows if r["key"] == k) > 1]
        for k in dup:
            rep.problem("symtable", f"key {k!r} occurs more than once in SYMBOLIC_FUNCTION_NAME (lines "
                        f"{[r['line'] for r in rows if r['key'] == k]}): only the last entry is reachable",
                        dict(kind="symtable", key=k), SIG_SYMTABLE, False, None, None, "C09_symtable_named")
        for key in keys + [k for k in SPEC if k not in keys and k != "neg"]:
            case = dict(kind="named", functional_set_names=[key])
            nd = L.sym_node(key)
            rep.count("named", key)
            if nd is None:
                if key in SPEC:
                    rep.problem("named", f"the name {key!r} of the specification is not accepted: {L.sym_err[key]}", case,
                                SIG_SYMTABLE if key == "sqrtabs" else "named:not-accepted", False, L.sym_err[key], None,
                                "C09_symtable_named")
                continue
            if key not in SPEC:
                rep.problem("named", f"accepted name {key!r} has no entry in the specification table", case, "named:unknown", False)
                continue
            fid, arity = SPEC[key]
            if nd._n_args != arity or nd._value._formula.count("{}") != arity:
                rep.problem("named", f"{key}: arity {nd._n_args} / placeholders {nd._value._formula.count('{}')} != {arity}",
                            case, "named:arity", True, nd._n_args, arity, "C09_symtable_named")
                continue
            bad = None
            for x in pts:
                if arity == 1:
                    got_s = float(nd._value(x))
                    got_a = [float(v) for v in nd._value(np.array(pts))]
                    exp = ref1[key](x)
                    if not close(got_s, exp, 1e-12) or not close(got_a[pts.index(x)], exp, 1e-12):
                        bad = dict(x=x, scalar=got_s, array=got_a[pts.index(x)], expected=exp)
                        break
                else:
                    for y in pts:
                        exp = ref2[key](x, y)
                        got_s = float(nd._value(x, y))
                        if exp is not None and not close(got_s, exp, 1e-12):
                            bad = dict(x=x, y=y, scalar=got_s, expected=exp)
                            break
                    if bad:
                        break
            # printing: the format must show the name's function
            s = L.build([("S", key)] + [("T", "x0", 1.0)] * arity)
            shown = str(s)
            exp_shown = SPEC_FMT[key].replace("{}", "x0")
            if bad is not None or shown != exp_shown:
                rep.problem("named", f"the accepted name {key!r} does not compute/print the function it is named for: "
                            f"{bad} prints {shown!r} (expected {exp_shown!r})", dict(case, witness=bad),
                            SIG_SYMTABLE if key == "logabs" else "named:wrong-function", True, bad, None, "C09_symtable_named")
        rep.sample(dict(family="named", keys=keys, duplicated=dup))

    # ------------------------------------------------------------------ real operators, batch vs sample
    def real_ops(self, ncases):
        rep, L, rng = self.rep, self.L, self.ctx.rng
        f_real = self.fam("call_real", "chk_call_real", "list (node val) * list (nat * Q * Q) * bool * Q * val", 150)
        f_bm = self.fam("batch_model", "chk_batch_model", "list (node val) * list (nat * Q * Q) * bool * nat", 150)
        f_str = self.fam("str", "chk_str", "list (node unit) * list string * list string * string")
        keys_ok = [k for k in SPEC if L.sym_node(k) is not None]
        exact_keys = [k for k in ("add", "sub", "mul", "div", "neg", "abs") if k in keys_ok]
        grid = [x / 4 for x in range(-12, 13)]
        nsamp = 4
        fmts = {k: (L.sym_node(k)._value._formula if L.sym_node(k) is not None else SPEC_FMT[k]) for k in SPEC}
        fixed = [  # boundary cases: division by zero in every scalar/array combination, special points
            [("S", "div"), ("T", "x0", [1.0, 2.0, -3.0, 0.0]), ("T", "x1", [0.0, 4.0, 0.0, 0.0])],
            [("S", "div"), ("T", "x0", [1.0, 2.0, -3.0, 0.0]), ("C", 0.0)],
            [("S", "div"), ("C", 1.0), ("T", "x1", [0.0, 4.0, 0.0, 0.5])],
            [("S", "div"), ("C", 1.0), ("C", 0.0)],
            [("S", "div"), ("T", "x0", [1.0, 2.0, -3.0, 0.0]), ("S", "sub"), ("T", "x1", [2.0, 2.0, 1.0, 0.0]), ("C", 2.0)],
            [("S", "add"), ("C", 1.5), ("S", "mul"), ("T", "x0", [1.0, 2.0, -3.0, 0.0]), ("C", -0.25)],
        ]
        for k in ("logabs", "sqrtabs", "exp", "cos", "sin", "abs", "neg"):
            if k in keys_ok:
                fixed.append([("S", k), ("T", "x0", [0.0, 4.0, -9.0, 0.25])])
                fixed.append([("S", k), ("C", 0.0)])
                fixed.append([("S", k), ("C", 4.0)])
        if "exp" in keys_ok:
            fixed.append([("S", "exp"), ("T", "x0", [1000.0, 709.0, 710.0, -1000.0])])
            fixed.append([("S", "exp"), ("C", 1000.0)])
        specs = [(s, "fixed") for s in fixed]
        for c in range(ncases):
            exact = c % 2 == 0
            keys = exact_keys if exact else keys_ok
            tv = {"x0": [rng.choice(grid) for _ in range(nsamp)], "x1": [rng.choice(grid + [0.0] * 6) for _ in range(nsamp)],
                  "s0": rng.choice(grid), "s1": rng.choice([0.0, 0.0, 1.0, -2.0, 0.5]),
                  "__const__": [0.0, 1.0, -1.5, 2.0, 0.25], "__keys__": keys}
            if rng.random() < 0.25:   # all-scalar tree (no array anywhere)
                tv = {k: v for k, v in tv.items() if k not in ("x0", "x1")}
            arities = tuple(sorted({SPEC[k][1] for k in keys} | {0}))
            ar = rand_shape(rng, rng.choice([3, 5, 8, 12] if not exact else [3, 5, 7, 9]), arities)
            specs.append((rand_spec(rng, ar, "sym", tv), "exact" if exact else "transc"))
        with warnings.catch_warnings():
            warnings.simplefilter("ignore")
            for spec, flavour in specs:
                self.one_real(spec, flavour, f_real, f_bm, f_str, fmts, nsamp)
        rep.hist("real_skipped_hazard", self.skipped)

    def one_real(self, spec, flavour, f_real, f_bm, f_str, fmts, nsamp):
        rep, L = self.rep, self.L
        case = dict(kind="real", spec=spec)
        try:
            t = L.build(spec)
        except KeyError:
            return
        has_arr = any(e[0] == "T" and isinstance(e[2], (list, tuple)) for e in spec)
        oracle, refs = [], []
        try:
            for k in range(nsamp if has_arr else 1):
                refs.append(ref_real(spec, k, L.scalar_zero_div, oracle))
        except Hazard:
            self.skipped += 1
            return
        got = t()
        is_arr = isinstance(got, np.ndarray)
        rep.count("real-" + flavour, str(spec))
        rep.hist("real_ops", ",".join(sorted({e[1] for e in spec if e[0] == "S"})) if len(spec) < 4 else "tree")
        gv = [float(x) for x in got] if is_arr else [float(got)] * len(refs)
        if not all(math.isfinite(x) for x in gv):
            rep.problem("real", "evaluation produced a non-finite value on finite small inputs", case, "real:nonfinite", True, gv)
            return
        if is_arr and len(gv) != nsamp:
            rep.problem("real", "batch result has the wrong length", case, "real:length", True, gv)
            return
        # 1. the value of the expression, by the names of its operators
        exact_all = True
        for k, (rv, rex) in enumerate(refs):
            tolk = 1e-12 if flavour == "transc" or rex is None else 2.0 ** -40
            if rex is not None and fractions.Fraction(gv[k]) != rex:
                exact_all = False
            if rex is None:
                exact_all = False
            zero_div = any(e == ("S", "div") for e in spec)
            if not close(gv[k], rv, tolk):
                rep.problem("real", f"tree() differs from the expression it denotes at sample {k}", dict(case, sample=k),
                            SIG_DIV if zero_div and self.is_zero_div(spec, k) else "real:value", True, gv[k], rv, "C09_call_is_eval")
        # 2. batch = each sample alone (the sample is evaluated through set_terminals with scalars)
        if has_arr:
            for k in range(nsamp):
                env = {e[1]: float(e[2][k]) for e in spec if e[0] == "T" and isinstance(e[2], (list, tuple))}
                alone = t.set_terminals(**env)()
                if isinstance(alone, np.ndarray):
                    rep.problem("real", "a tree over scalars returned an array", dict(case, sample=k), "real:kind", True, alone)
                    continue
                tolk = 0.0 if flavour != "transc" else 1e-12
                if not close(gv[k], float(alone), tolk):
                    rep.problem("batch", f"batch[{k}] = {gv[k]!r} but sample {k} evaluated alone gives {float(alone)!r}",
                                dict(case, kind="batch", sample=k, env=env),
                                SIG_DIV if self.is_zero_div(spec, k) else "batch:pointwise", True, gv[k], float(alone),
                                "C09_batch_pointwise")
                rep.count("batch", (str(spec), k))
        # 3. the Coq model (repaired save_div), value and kind (scalar / array)
        names = []
        nodes = self.cnodes(spec, lambda v: cval(np.array(v, dtype=np.float64) if isinstance(v, (list, tuple)) else v), names)
        orc = C.clist([f"({N(f)}, {C.cq(a)}, {C.cq(v)})" for f, a, v in oracle])
        tol = "(0 # 1)" if exact_all else "(1 # 1099511627776)"
        f_real.add(f"({nodes}, {orc}, false, {tol}, {cval(got)})", case)
        if has_arr:
            f_bm.add(f"({nodes}, {orc}, false, {N(self.ctx.rng.randrange(nsamp))})", dict(case, kind="batch_model"))
        s_got, s_exp = str(t), ref_str(spec, {k: SPEC_FMT[k] for k in SPEC})
        if s_got != s_exp:
            rep.problem("real", "str(tree) is not the expression it denotes", case, "str", True, s_got, s_exp, "C09_str_is_render")
        names = []
        nodes = self.cnodes(spec, lambda v: "tt", names)
        ff = [""] * 11
        for k, (fid, _) in SPEC.items():
            ff[fid] = fmts[k]
        f_str.add(f"({nodes}, {C.clist([cstr(x) for x in ff])}, {C.clist([cstr(x) for x in names])}, {cstr(s_got)})",
                  dict(case, kind="str"))
        if len(rep.samples) < 10 and len(spec) > 3:
            rep.sample(dict(family="real", spec=spec, str=s_got, value=gv))

    @staticmethod
    def is_zero_div(spec, k):
        """does some division in the tree have a zero divisor at sample k (reference semantics)?"""
        ar = [spec_arity(e) for e in spec]
        hit = [False]

        def rec(t):
            i, kids = t
            e = spec[i]
            if e[0] in ("T", "C"):
                v = e[2] if e[0] == "T" else e[1]
                return float(v[k]) if isinstance(v, (list, tuple)) else float(v)
            a = [rec(x) for x in kids]
            try:
                if e[1] == "div":
                    if a[1] == 0:
                        hit[0] = True
                        return 1.0
                    return a[0] / a[1]
                return {"add": lambda: a[0] + a[1], "sub": lambda: a[0] - a[1], "mul": lambda: a[0] * a[1],
                        "neg": lambda: -a[0], "abs": lambda: abs(a[0]), "cos": lambda: math.cos(a[0]),
                        "sin": lambda: math.sin(a[0]), "exp": lambda: min(math.exp(min(a[0], 700.0)), MAXV),
                        "logabs": lambda: 1.0 if a[0] == 0 else math.log(abs(a[0])),
                        "sqrtabs": lambda: math.sqrt(abs(a[0]))}[e[1]]()
            except (OverflowError, ValueError):
                return 1.0
        rec(nest(ar))
        return hit[0]


def run(ctx, rep):
    MR.build()
    R = Run(ctx, rep)
    rng = ctx.rng
    R.tv_int = {"x0": 3, "x1": -2, "x2": 5, "__const__": [0, 1, 7, -4]}
    try:
        rows = TS.extract()
    except Exception as e:  # already reported by the driver as a broken tie
        rows = []
        C.log("translator:", e)
    # 0. corpus: witnesses of the repaired defects, re-executed first on every run
    import contextlib
    import io
    import json
    import os
    cp = os.path.join(C.VERIF, "corpus", "C09.json")
    for ent in (json.load(open(cp)) if os.path.exists(cp) else []):
        buf = io.StringIO()
        with contextlib.redirect_stdout(buf), warnings.catch_warnings():
            warnings.simplefilter("ignore")
            ok = recheck(R.L, ent["case"], rng)
        rep.count("corpus", ent["signature"])
        if not ok:
            rep.problem("corpus", "regression: " + ent["what"] + " | " + buf.getvalue()[-600:], ent["case"], ent["signature"], True,
                        None, None, ent.get("clause", ""))
    # 1. the name table, live (defect (i) is exhibited here concretely)
    R.named(rows)
    # 2. exhaustive small trees: accessors, call, str, set_terminals
    N = ctx.pick(6, 8)
    all_shapes = [s for n in range(1, N + 1) for s in shapes(n)]
    rep.hist("shapes_enumerated", len(all_shapes))
    specs = [rand_spec(rng, ar, "int", R.tv_int) for ar in all_shapes]
    R.accessors(specs, "accessors-exhaustive")
    R.call_int(specs, "call-exhaustive")
    # 3. random trees beyond the bound (grown by the library itself and by the harness)
    big = [rand_spec(rng, rand_shape(rng, rng.choice([12, 20, 40, 80]), p_leaf=0.25), "int", R.tv_int)
           for _ in range(ctx.pick(25, 400))]
    uni = R.L.T.UniversalSet(tuple(R.L.ifun), tuple([R.L.T.TerminalNode(v, k) for k, v in R.tv_int.items() if k[0] == "x"]
                                                      + [R.L.T.EphemeralNode((lambda: 7))]))
    from thefittest.utils.random import numba_seed
    for s in range(ctx.pick(10, 60)):
        numba_seed(rng.randrange(1 << 30))
        t = R.L.T.Tree.random_tree(uni, rng.choice([2, 3, 4]))
        if len(t) > 400:
            continue
        big.append([("F", R.L.ifun.index(n)) if isinstance(n, R.L.T.FunctionalNode) else
                    (("T", n._name, n._value) if type(n) is R.L.T.TerminalNode else ("C", n._value)) for n in t._nodes])
    R.accessors(big, "accessors-random")
    R.call_int(big, "call-random")
    R.eq_pairs(specs + big[:20])
    # 4. common region: all pairs up to M nodes, random k-tuples
    M = 5
    sh2 = [s for n in range(1, M + 1) for s in shapes(n)]
    if ctx.quick:
        sh2 = [s for s in sh2 if len(s) <= 4] + rng.sample([s for s in sh2 if len(s) == 5], 6)
    kt = []
    for _ in range(ctx.pick(150, 3000)):
        k = rng.choice([2, 3, 3, 4])
        base = rand_shape(rng, rng.choice([4, 8, 16, 30]), p_leaf=0.3)
        tup = []
        for _j in range(k):     # related shapes (mutated copies) so that the region is not just the root
            if rng.random() < 0.7:
                sp = list(base)
                t0 = nest(sp)
                i = rng.randrange(len(sp))
                end = rec_info(sp)[0][i]
                sp[i:end] = rand_shape(rng, rng.choice([1, 3, 6]), p_leaf=0.3)
                tup.append(tuple(sp))
            else:
                tup.append(tuple(rand_shape(rng, rng.choice([4, 8, 16]), p_leaf=0.3)))
        kt.append(tuple(tup))
    R.common_region(sh2, kt)
    # 5. real operators
    R.real_ops(ctx.pick(300, 4000))
    # ---------------- evaluate the model on every case
    for name, fc in R.fams.items():
        bad, errors = fc.run()
        rep.hist("coq_cases", name + ":" + str(len(fc)))
        for e in errors:
            rep.problem(name, "model evaluation failed: %s" % (e,), {}, "model-eval", False)
        for i in bad[:10]:
            already = any(p["case"] == C.jsonable(fc.meta[i]) and p["prop_violated"] for p in rep.problems)
            rep.problem(name, "model and implementation disagree", fc.meta[i], name + ":model-vs-impl", False,
                        None, None if already else fc.explain(i, "c")[:1500])
    rep.exhaustive = True
    rep.exhaustive_note = (f"all {len(all_shapes)} well-formed prefix trees with <= {N} nodes over arities 0..3 x every index "
                           f"(accessors, subtree, concat, call, str); common region on all ordered pairs of {len(sh2)} trees "
                           f"(<= {M} nodes{', 5-node trees sampled in the quick tier' if ctx.quick else ''}); the rest is sampled")


# =========================================================================== replay
def recheck(L, case, rng) -> bool:
    """re-execute one recorded case against the real code; True = property holds on it"""
    kind = case.get("kind")

    def tup(spec):
        return [tuple(e) for e in spec]
    if kind == "named":
        key = case["functional_set_names"][0]
        nd = L.sym_node(key)
        if nd is None:
            print("name not accepted:", L.sym_err.get(key))
            return False
        w = case.get("witness") or {}
        if "x" in w and "y" not in w:
            got = float(nd._value(w["x"]))
            print(f"{key}({w['x']}) = {got}; expected {w['expected']}")
            return close(got, w["expected"], 1e-12)
        return True
    if kind == "symtable":
        rows = TS.extract()
        n = sum(1 for r in rows if r["key"] == case["key"])
        print(f"key {case['key']!r} occurs {n} time(s) in SYMBOLIC_FUNCTION_NAME")
        return n <= 1
    if kind in ("batch", "real"):
        spec = tup(case["spec"])
        t = L.build(spec)
        with warnings.catch_warnings():
            warnings.simplefilter("ignore")
            got = t()
            ok = True
            nsamp = len(got) if isinstance(got, np.ndarray) else 1
            for k in range(nsamp):
                env = {e[1]: float(e[2][k]) for e in spec if e[0] == "T" and isinstance(e[2], (list, tuple))}
                alone = float(t.set_terminals(**env)())
                gk = float(got[k]) if isinstance(got, np.ndarray) else float(got)
                print(f"sample {k}: batch {gk!r}  alone {alone!r}")
                ok = ok and close(gk, alone, 1e-12)
        return ok
    if kind == "accessors":
        spec = tup(case["spec"])
        t = L.build(spec)
        ar = [spec_arity(e) for e in spec]
        end, args, lv, depth = rec_info(ar)
        ok = True
        with MR.patched_library():
            for i in ([case["index"]] if "index" in case else range(len(t))):
                try:
                    r = (int(t.subtree_id(i)[1]), [int(x) for x in t.get_args_id(i)], [int(x) for x in t.get_levels(i)])
                    good = r == (end[i], args[i], lv[i])
                    print(f"index {i}: impl {r} recursive {(end[i], args[i], lv[i])}")
                except IndexError as e:
                    print(f"index {i}: IndexError {e} (plain-python run of the helper)")
                    good = False
                ok = ok and good
        return ok
    if kind in ("call_int", "str", "set_terminals"):
        spec = tup(case["spec"])
        t = L.build(spec)
        env = case.get("env") or {}
        v, e = t.set_terminals(**env)(), ref_int(spec, env)
        print(f"value {v} expected {e}; str {str(t)!r}")
        return v == e and str(t) == ref_str(spec, {f: L.ifmt[f] for f in range(6)})
    if kind == "common_region":
        ars = case["arities"]
        tv = {"x0": 3, "x1": -2, "x2": 5, "__const__": [0, 1, 7, -4]}
        ts = [L.build(rand_spec(rng, a, "int", tv)) for a in ars]
        try:
            with MR.patched_library():
                r = ts[0].get_common_region(ts[1:])
            got = ([[int(x) for x in l] for l in r[0]], [[int(x) for x in l] for l in r[1]])
        except Exception as e:
            print("raises", type(e).__name__, e)
            return False
        exp = cr_ref(ars)
        print("impl", got, "recursive", exp)
        return got[0] == exp[0] and got[1] == exp[1]
    if kind == "eq":
        a, b = L.build(tup(case["a"])), L.build(tup(case["b"]))
        print("==", bool(a == b))
        return True
    return None


def replay(ctx, rp) -> bool:
    """re-execute the first problem of a replay file against the real code; True = property holds"""
    MR.build()
    pr = rp.get("first", rp)
    r = recheck(Lib(), pr.get("case", {}), ctx.rng)
    if r is None:
        print("no concrete input in this replay (broken obligation / tie):", pr.get("what", "")[:500])
        return False
    return r
