"""C12 — Net.forward computes the function its graph defines: correspondence
model (coq/theories/NetForward.v, NetOrder.v) <-> implementation (Net.forward / utils.forward2d)."""
from __future__ import annotations

import itertools

import numpy as np

import common as C
from props import _netcommon as N
from props import c13 as P13

RULE = ("nets from three sources: mlp = BaseMLPEA._defitne_net of the real MLPEAClassifier/Regressor (hidden tuples "
        "(), (1), (2,3), (3,2,2), ... x offset), tree = genotype_to_phenotype_tree on all trees <=3 nodes plus a fifth (quick) / all "
        "(thorough) of the 5-node trees plus random trees to depth 4, dag = hand-built layered DAGs with skip connections and duplicate "
        "rows. exact regime (ReLU/identity activations, dyadic weights and inputs, 3 samples): Coq model over Qc "
        "(scheduled forward with a garbage-filled reused buffer AND the schedule-independent ref_eval) must equal the "
        "float output exactly, for own weights, for weight batches of 1-4 rows, after shuffling the connection rows "
        "together with the weights; Python predicates: batch row r = single-row call, shuffled = original, repeated "
        "calls and copies give identical results, output = independent recursive evaluator. float regime (all "
        "activation codes, softmax outputs, uniform weights): output = independent evaluator within 1e-9 (relative to max(1,|value|)), softmax "
        "rows >= 0 and sum to 1. A case is distinct by (family, net, weights, variant).")
ASSUMPTIONS = ["node ids are 0..N-1 and inputs are columns of X (the compiled code indexes a flat buffer without bounds checks)",
               "exact regime: activations ReLU/identity only; other activations are compared with Python math within 1e-9",
               "exp/tanh are not modelled (abstract act / smx in the Coq model)", "finite inputs and weights"]
TRUSTED = ["models: coq/theories/Net.v NetOrder.v NetForward.v; check functions coq/theories/C12Check.v (instance K=V=Qc)",
           "independent Python reference evaluator and predicates: harness/props/_netcommon.py"]
THEORIES = ["Base", "Net", "NetAlgebra", "NetOrder", "NetForward", "NetProofs", "NetProofs2", "NetOrderProofs",
            "NetMLPProofs", "NetForwardProofs", "NetForwardProofs2", "C12Check", "NetForwardQc", "NetMLPProofs2"]

IMPORTS = "From TF Require Import Base Net NetAlgebra NetOrder NetForward C12Check."
SIG_SOFTMAX = "softmax:per-schedule-group:outputs-with-different-source-sets"


def qlist(xs):
    return C.clist([C.cq(float(v)) for v in xs])


def qll(xss):
    return C.clist([qlist(x) for x in xss])


def dyadic(rng, lo=-8, hi=8, den=4.0):
    return rng.randint(lo, hi) / den


def fresh_net(ins, layers, outs, con, w, acts):
    Net = N.lib()["Net"]
    return Net(inputs=set(ins), hidden_layers=[set(l) for l in layers], outputs=set(outs),
               connects=np.array(con, dtype=np.int64).reshape(-1, 2), weights=np.array(w, dtype=np.float64),
               activs=dict(acts))


def ref_out(net, X, W):
    """rows x samples x outputs by the independent evaluator, outputs in the net's own order"""
    ins, layers, outs, con, nw, acts = N.net_fields(net)
    order = [int(v) for v in net._numpy_outputs] if getattr(net, "_numpy_inputs", None) is not None else outs
    return np.array([[N.ref_forward(set(ins), con, acts, order, x, w) for x in X] for w in W])


def softmax_sources_differ(net):
    ins, layers, outs, con, nw, acts = N.net_fields(net)
    sm = [v for v, c in acts if c == 5]
    srcs = {tuple(sorted(a for a, b in con if b == v)) for v in sm}
    return len(srcs) > 1


def random_dag(rng, exact):
    """hand-built layered DAG with skip connections and duplicate rows"""
    ni = rng.randint(1, 3)
    layers, e = [], ni
    for _ in range(rng.randint(0, 3)):
        k = rng.randint(1, 3)
        layers.append(list(range(e, e + k)))
        e += k
    no = rng.randint(1, 3)
    outs = list(range(e, e + no))
    ranks = [list(range(ni))] + layers + [outs]
    con = []
    for r in range(1, len(ranks)):
        lower = [v for l in ranks[:r] for v in l]
        for v in ranks[r]:
            srcs = rng.sample(lower, rng.randint(1, min(3, len(lower))))
            if r == len(ranks) - 1 and len(ranks) > 2 and rng.random() < 0.5:
                srcs = list(set(srcs) | {rng.choice(ranks[r - 1])})
            for a in srcs:
                con.append((a, v))
                if rng.random() < 0.2:
                    con.append((a, v))          # duplicate row: contributes twice
    # every hidden node needs an outgoing connection only for C13; not for evaluation
    rng.shuffle(con)
    codes = (1, 4) if exact else (0, 1, 2, 3, 4)
    acts = [(v, rng.choice(codes)) for l in layers for v in l]
    if exact or rng.random() < 0.5:
        acts += [(v, rng.choice(codes)) for v in outs]
    else:
        acts += [(v, 5) for v in outs]
    w = [dyadic(rng) for _ in con] if exact else [rng.uniform(-2, 2) for _ in con]
    return fresh_net(range(ni), layers, outs, con, w, acts), ni


def run(ctx, rep):
    L = N.lib()
    rng = ctx.rng
    f_fw = C.CoqCases(ctx.scratch, "forward", IMPORTS, "chk_forward",
                      "net * list (list Q) * list (list Q) * list (list (list Q))", shard=150)
    f_pr = C.CoqCases(ctx.scratch, "premises", IMPORTS, "chk_premises", "net", shard=400)

    def make_X(ncols, offset, exact, samples=3):
        X = np.array([[dyadic(rng) if exact else rng.uniform(-2, 2) for _ in range(ncols)] for _ in range(samples)])
        if offset:
            X[:, -1] = 1.0
        return X

    def check_net(net, ncols, offset, exact, family, desc, library_built):
        """all variants on one net"""
        nw = len(net._connects)
        if exact:
            net._weights = np.array([dyadic(rng) for _ in range(nw)], dtype=np.float64)
        elif len(net._weights) != nw:
            net._weights = np.array([rng.uniform(-2, 2) for _ in range(nw)])
        X = make_X(ncols, offset, exact)
        if exact:
            # keep the exact regime exact: deep nets may need more than 53 bits -> compare with tolerance instead
            i0, _, _, c0, _, a0 = N.net_fields(net)
            if not all(N.exact_float_ok(set(i0), c0, a0, xr, net._weights, limit=1 << 44) for xr in X):
                exact = False
                family = family + "-float"
                rep.hist("exact_downgraded", family)
        case0 = dict(fn="Net.forward", family=family, desc=desc, net=N.net_json(net),
                     weights=[float(v) for v in net._weights], X=X.tolist(), exact=exact)
        key = (family, str(desc), exact)
        tol = 0.0 if exact else 1e-9

        def differs(a, b):
            a, b = np.asarray(a), np.asarray(b)
            if a.shape != b.shape or not np.all(np.isfinite(a)):
                return True
            return bool(np.max(np.abs(a - b) / np.maximum(1.0, np.abs(b)), initial=0.0) > tol)

        split = (not library_built) and softmax_sources_differ(net)
        if not split:
            # premises of C12_forward_is_ref (Layered, sm_same) in their Coq boolean form
            f_pr.add(N.impl_net_term(net, sort_sets=False), case0)

        def problem(what, sig, impl, model, clause):
            rep.problem(family, what, case0, SIG_SOFTMAX if split else sig, True, impl, model, clause)

        own = net.forward(X)
        rep.count(family + ":own", key)
        rep.hist("net_source", family)
        rep.hist("schedule_groups", len(net._numba_from))
        n_out = len(net._outputs)
        if own.shape != (1, X.shape[0], n_out):
            problem(f"output shape {own.shape}", "forward:shape", own.tolist(), None, "C12_forward_is_ref")
            return
        ref = ref_out(net, X, [list(net._weights)])
        if differs(own, ref):
            problem("forward(X) differs from the independent reference evaluation of the graph", "forward:ref",
                    own.tolist(), ref.tolist(), "C12_forward_is_ref")
        acts = dict(N.net_fields(net)[5])
        if any(c == 5 for c in acts.values()) and all(acts[int(o)] == 5 for o in net._numpy_outputs):
            if np.any(own < 0) or not np.allclose(own.sum(axis=2), 1.0, atol=1e-9):
                problem("softmax outputs are not a distribution per sample", "softmax:normalised", own.tolist(), None,
                        "C12_softmax_normalised")
        # weight batches of 1-4 rows
        k = rng.randint(1, 4)
        W = np.array([[dyadic(rng) if exact else rng.uniform(-2, 2) for _ in range(nw)] for _ in range(k)]).reshape(k, nw)
        if rng.random() < 0.5:
            W[rng.randrange(k)] = net._weights
        if exact:
            i0, _, _, c0, _, a0 = N.net_fields(net)
            if not all(N.exact_float_ok(set(i0), c0, a0, xr, wr, limit=1 << 44) for xr in X for wr in W):
                W = np.array(net._weights, dtype=np.float64).reshape(1, -1)
                k = 1
        batch = net.forward(X, W)
        rep.count(family + ":batch", key + (k,))
        rep.hist("batch_rows", k)
        for r in range(k):
            single = net.forward(X, W[r:r + 1])
            if differs(batch[r], single[0]):
                problem(f"row {r} of forward(X, W) differs from forward(X, W[{r}:{r + 1}])", "forward:batch-row",
                        batch.tolist(), single.tolist(), "C12_batch_rows_independent")
        refb = ref_out(net, X, W)
        if differs(batch, refb):
            problem("forward(X, W) differs from the reference evaluation with each row as the weights",
                    "forward:batch-ref", batch.tolist(), refb.tolist(), "C12_forward_is_ref")
        # history: repeated call after a different batch, and on a copy
        again = net.forward(X)
        cp = net.copy()
        on_copy = cp.forward(X)
        rep.count(family + ":history", key)
        if differs(again, own) or not np.array_equal(again, own):
            problem("a repeated forward(X) after another call differs", "forward:history", again.tolist(), own.tolist(),
                    "C12_history_independent")
        if differs(on_copy, own) or not np.array_equal(on_copy, own):
            problem("forward(X) on net.copy() differs", "forward:copy", on_copy.tolist(), own.tolist(),
                    "C12_history_independent")
        # re-binding the weight vector (how fit() stores trained weights) after an earlier forward call:
        # the next forward must use the weights the net carries NOW
        saved_w = net._weights
        new_w = np.array([dyadic(rng) if exact else rng.uniform(-2, 2) for _ in range(nw)], dtype=np.float64)
        if (not exact) or all(N.exact_float_ok(set(N.net_fields(net)[0]), N.net_fields(net)[3], N.net_fields(net)[5], xr, new_w, limit=1 << 44) for xr in X):
            net._weights = new_w
            rebound = net.forward(X)
            expect = net.forward(X, new_w.reshape(1, -1))
            net._weights = saved_w
            rep.count(family + ":rebind", key)
            if differs(rebound, expect):
                problem("after re-binding net._weights, forward(X) still evaluates earlier weights (result depends on earlier forward calls)",
                        "forward:stale-weights", rebound.tolist(), expect.tolist(), "C12_history_independent")
            back = net.forward(X)
            if differs(back, own):
                problem("forward(X) after restoring the weights differs from the first call", "forward:history", back.tolist(), own.tolist(),
                        "C12_history_independent")
        # samples are evaluated independently, whatever the scale of the OTHER samples in the batch
        if X.shape[0] >= 3:
            Xs = X.copy()
            Xs[0] = Xs[0] * 2048.0
            Xs[1] = Xs[1] / 1024.0
            if offset:
                Xs[:, -1] = 1.0
            big = net.forward(Xs)
            rep.count(family + ":scale", key)
            soft = any(c == 5 for c in acts.values()) and all(acts[int(o)] == 5 for o in net._numpy_outputs)
            for i in range(Xs.shape[0]):
                alone = net.forward(Xs[i:i + 1])
                a, b = np.asarray(big[0][i]), np.asarray(alone[0][0])
                bad = (not np.all(np.isfinite(a))) or a.shape != b.shape or bool(np.max(np.abs(a - b) / np.maximum(1.0, np.abs(b)), initial=0.0) > 1e-9)
                if soft and not bad:
                    bad = bool(np.any(a < 0) or abs(float(a.sum()) - 1.0) > 1e-9)
                if bad:
                    problem(f"sample {i} of a batch with widely different scales is not evaluated as it is alone (or is not finite / not normalised)",
                            "forward:sample-independence", big[0][i].tolist(), alone[0][0].tolist(), "C12_forward_is_ref")
                    break
        # shuffled connection rows (with their weights) on a fresh net
        ins, layers, outs, con, _, acts_l = N.net_fields(net)
        perm = list(range(nw))
        rng.shuffle(perm)
        sh = fresh_net(ins, layers, outs, [con[i] for i in perm], [float(net._weights[i]) for i in perm], acts_l)
        sh._outputs = net._outputs                      # same column order of the outputs
        shuffled = sh.forward(X)
        rep.count(family + ":shuffle", key + (tuple(perm),))
        if differs(shuffled, own):
            problem("forward after permuting the connection rows together with the weights differs", "forward:order",
                    shuffled.tolist(), own.tolist(), "C12_connection_order_irrelevant")
        # exact regime: the Coq model (scheduled forward + ref_eval) on own weights, the batch and the shuffled net
        if exact and not split:
            order = [int(v) for v in net._numpy_outputs]
            for nt, Wm, out, variant in ((net, net._weights.reshape(1, -1), own, "own"), (net, W, batch, "batch"),
                                         (sh, sh._weights.reshape(1, -1), shuffled, "shuffled")):
                i2, l2, o2, c2, n2, a2 = N.net_fields(nt)
                term = N.net_term(i2, l2, order, c2, n2, a2, sort_sets=False)
                f_fw.add(f"({term}, {qll(X.tolist())}, {qll(Wm.tolist())}, "
                         f"{C.clist([qll(row) for row in out.tolist()])})", dict(case0, variant=variant,
                                                                                W=Wm.tolist(), impl=out.tolist()))
        return own

    # ------------------------------------------------------------------ MLP builder nets
    hidden_tuples = [(), (1,), (2,), (2, 3), (3, 1), (3, 2, 2), (1, 1, 1)]
    if not ctx.quick:
        hidden_tuples += [h for k in (1, 2, 3) for h in itertools.product((1, 2, 3), repeat=k)]
    for hidden in hidden_tuples:
        for offset in (True, False):
            for n_in, n_out in ((2, 1), (4, 3)):
                for rep_i in range(ctx.pick(2, 3)):
                    act = rng.choice((1, 4))
                    net = P13.mlp_build(False, hidden, offset, P13.ACT_NAMES[act], n_in, n_out)
                    check_net(net, n_in, offset, True, "mlp", dict(hidden=hidden, offset=offset, n_in=n_in, n_out=n_out,
                                                                   act=act, i=rep_i), True)
                # float regime: classifier (softmax outputs), any activation
                act = rng.randrange(5)
                net = P13.mlp_build(True, hidden, offset, P13.ACT_NAMES[act], n_in, n_out)
                check_net(net, n_in, offset, False, "mlp-float", dict(hidden=hidden, offset=offset, n_in=n_in,
                                                                      n_out=n_out, act=act), True)

    # ------------------------------------------------------------------ decoded trees
    nv = 3
    n_trees = 0
    for block in (1, 2):
        for offset in (True, False):
            n_dim = nv - 1 if offset else nv
            n_blocks = len(range(0, n_dim, block))
            terms = [("in", k) for k in range(n_blocks)] + ([("bias",)] if offset else []) + [("hid", 1, None), ("hid", 2, None)]
            parts = N.uniset_parts(N.make_uniset(nv, block, offset), offset)
            for nn in range(1, 5 + 1, 2):
                for shape in N.enum_shapes(nn, terms):
                    def fill(s, codes):
                        if s[0] == "op":
                            return ("op", s[1], fill(s[2], codes), fill(s[3], codes))
                        if s[0] == "hid":
                            return ("hid", s[1], rng.choice(codes))
                        return s
                    if nn == 5 and ctx.quick and rng.random() < 0.8:
                        continue
                    nout = rng.choice((1, 2, 3))
                    sh = fill(shape, (1, 4))
                    net = L["g2p"](N.tree_of_shape(sh, parts), nv, nout, "ln", offset)
                    check_net(net, nv, offset, True, "tree", dict(tree=N.shape_str(sh), block=block, offset=offset,
                                                                  nout=nout), True)
                    n_trees += 1
                    if nn <= 3 or rng.random() < 0.2:
                        sh = fill(shape, (0, 1, 2, 3, 4))
                        net = L["g2p"](N.tree_of_shape(sh, parts), nv, nout, "softmax", offset)
                        check_net(net, nv, offset, False, "tree-float", dict(tree=N.shape_str(sh), block=block,
                                                                             offset=offset, nout=nout), True)
    for _ in range(ctx.pick(300, 6000)):
        nv2 = rng.randint(2, 5)
        offset = rng.random() < 0.5
        block = rng.randint(1, 2)
        n_dim = nv2 - 1 if offset else nv2
        if n_dim < 1:
            continue
        n_blocks = len(range(0, n_dim, block))
        exact = rng.random() < 0.7
        codes = (1, 4) if exact else (0, 1, 2, 3, 4)
        terms = [("in", k) for k in range(n_blocks)] + ([("bias",)] if offset else [])
        terms += [("hid", s, a) for s in (1, 2, 3) for a in codes]
        sh = N.random_shape(rng, rng.randint(1, 4), terms)
        parts = N.uniset_parts(N.make_uniset(nv2, block, offset, 4), offset)
        nout = rng.choice((1, 2, 3))
        net = L["g2p"](N.tree_of_shape(sh, parts), nv2, nout, "ln" if exact else "softmax", offset)
        check_net(net, nv2, offset, exact, "tree" if exact else "tree-float",
                  dict(tree=N.shape_str(sh), block=block, offset=offset, nout=nout, nv=nv2), True)
        n_trees += 1

    # ------------------------------------------------------------------ hand-built DAGs
    for i in range(ctx.pick(500, 12000)):
        exact = rng.random() < 0.7
        net, ni = random_dag(rng, exact)
        check_net(net, ni, False, exact, "dag" if exact else "dag-float", dict(i=i), False)
    # test_net's literal example and the item-14 witness
    net16 = fresh_net({0, 1}, [{2, 3}, {4}], {5}, [[0, 2], [1, 3], [2, 4], [3, 4], [4, 5]], [0.1, 0.2, 0.4, 0.5, 1.5],
                      {2: 1, 3: 1, 4: 1, 5: 1})
    out = net16.forward(np.array([[1.0, 2.0]]))
    rep.count("dag:own", "test_net")
    if out[0][0][0] != 0.36000000000000004:
        rep.problem("dag", "test_net's literal example gives another value", dict(fn="Net.forward", desc="test_net"),
                    "forward:test_net", True, out.tolist())
    w14 = fresh_net({0, 1}, [], {2, 3}, [[0, 2], [1, 3]], [1.0, 1.0], {2: 5, 3: 5})
    X14 = np.array([[0.5, -1.0], [2.0, 0.25]])
    out14 = w14.forward(X14)
    ref14 = ref_out(w14, X14, [[1.0, 1.0]])
    rep.count("dag-float:own", "item14")
    case14 = dict(fn="Net.forward", family="dag-float", desc="item14: outputs {2,3} with softmax, rows 0->2, 1->3",
                  net=N.net_json(w14), weights=[1.0, 1.0], X=X14.tolist(), exact=False)
    if np.max(np.abs(out14 - ref14)) > 1e-9 or not np.allclose(out14.sum(axis=2), 1.0):
        rep.problem("dag-float", "softmax is applied per schedule group: outputs with different source sets are "
                    "normalised separately (each output = 1)", case14, SIG_SOFTMAX, True, out14.tolist(), ref14.tolist(),
                    "C12_softmax_normalised")
    rep.sample(dict(family="dag-float", item14=case14, impl=out14.tolist(), reference=ref14.tolist()))
    rep.sample(dict(family="dag", test_net=out.tolist()))

    # ------------------------------------------------------------------ activation formulas pointwise
    from thefittest.utils import multiactivation2d
    grid = np.array([[k / 4.0 for k in range(-24, 25)]])
    for code in range(5):
        got = multiactivation2d(grid, code)
        exp = np.array([[N._act(code, float(v)) for v in grid[0]]])
        rep.count("activation", code, n=grid.shape[1])
        if np.max(np.abs(got - exp)) > 1e-12:
            rep.problem("activation", f"multiactivation2d code {code} differs from its formula", dict(code=code),
                        "activation:formula", True, got.tolist(), exp.tolist())
    sm = multiactivation2d(np.array([[1.0, 2.0, 3.0], [0.0, 0.0, 0.0], [-1000.0, 0.0, 1000.0]]), 5)
    rep.count("activation", 5, n=3)
    if np.any(sm < 0) or not np.allclose(sm.sum(axis=1), 1.0):
        rep.problem("activation", "softmax_numba rows are not distributions", dict(code=5), "softmax:normalised", True,
                    sm.tolist())

    # ------------------------------------------------------------------ the model on every exact case
    bad, errors = f_fw.run()
    rep.hist("coq_cases", "forward:" + str(len(f_fw)))
    for e in errors:
        rep.problem("forward", "model evaluation failed: %s" % (e,), {}, "model-eval", False)
    for i in bad[:10]:
        rep.problem("forward", "Coq model (scheduled forward / ref_eval over Qc) and implementation disagree",
                    f_fw.meta[i], "forward:model-vs-impl", False, f_fw.meta[i].get("impl"), None)
    bad, errors = f_pr.run()
    rep.hist("coq_cases", "premises:" + str(len(f_pr)))
    for e in errors:
        rep.problem("premises", "model evaluation failed: %s" % (e,), {}, "model-eval", False)
    for i in bad[:10]:
        rep.problem("premises", "a net does not meet the premises Layered / sm_same of C12_forward_is_ref",
                    f_pr.meta[i], "premises:not-layered", False)
    rep.exhaustive = True
    rep.exhaustive_note = (f"all trees with <= {ctx.pick(3, 5)} nodes (quick: plus a random fifth of the 5-node trees) over n_variables=3, "
                           "input_block_size {1,2}, offset on/off, hidden blocks of size 1,2 with drawn activation codes; "
                           "MLP hidden tuples listed in RULE; random trees / DAGs beyond")
    for m in f_fw.meta[:2]:
        rep.sample(dict(family="forward-coq", case=m))


def replay(ctx, rp) -> bool:
    case = rp["first"]["case"]
    if case.get("fn") != "Net.forward" or "net" not in case:
        print("no executable replay for", case)
        return False
    nj = case["net"]
    net = fresh_net(nj["inputs"], nj["hidden_layers"], nj["outputs"], nj["connects"], case["weights"], nj["activs"])
    X = np.array(case["X"], dtype=np.float64)
    out = net.forward(X)
    ref = ref_out(net, X, [case["weights"]])
    print("forward:", out.tolist())
    print("reference:", ref.tolist())
    ok = out.shape == ref.shape and bool(np.max(np.abs(out - ref), initial=0.0) <= 1e-9)
    return ok
