"""C15 — adaptive control parameters stay in range and follow their update rules."""
from __future__ import annotations

import math

import numpy as np

import common as C
import live as L
import mirror as MR

RULE = ("live SHADE / SHAGA / jDE runs in log mode (pop 4-12 so the memory wraps; plateau, constant and always-improving "
        "objectives): every parameter-generation call, every memory write, every archive update and every jDE "
        "regeneration/acceptance is a one-step case (model applied to the implementation's previous state and draws); "
        "ranges of every F / CR / MR actually used, NaN-freeness of the memories, cyclic index, archive size/membership, "
        "accept-only; independent Python recomputation of the stated means. distinct = (run, generation, site).")
ASSUMPTIONS = ["real-valued primitives are modelled by the value they returned (after loc + scale*x, computed in the harness "
               "with the same float operations as the code)", "fitness finite", "means compared within 2^-30 relative"]
TRUSTED = ["models: coq/theories/Adapt.v; checkers C15Check.v; mirror log mode",
           "code translator harness/translate_code.py + coq/theories/Py.v: randc01 / randn01 proved equal to the definitions generated from optimizers/_shade.py (theories/CodeEqC15.v); lehmer_mean, SHADE._update_u_F/_update_u_CR/_generate_F_CR, SHAGA._update_u/_randc/_randn/_generate_MR_CR, jDE._get_mutate_F/_get_mutate_CR translated as methods (self reads = parameters, self stores rejected) and proved equal to Adapt.v (theories/CodeEqAdapt.v); SHADE/jDE/SHAGA._get_new_population translated by harness/translate_loop.py as functions on (base record, own state) with the random parts as oracles, memory write / archive / accept-only proved (theories/CodeEqAdaptStep.v)"]
THEORIES = ["Base", "RandomPrims", "RandomPrimsProofs", "RandomPrimsProofs2", "Adapt", "AdaptProofs", "C11Check", "C07Check", "C15Check",
            "Py", "PyLemmas", "GenCode", "CodeEqC11", "CodeEqC06", "CodeEqC07", "CodeEqC15", "CodeEqAdapt", "EALoop", "EALoopProofs", "EALoopProofs2", "GenLoop", "CodeEqLoop", "CodeEqStep", "CodeEqGreedy", "CodeEqAdaptStep", "BinaryOps", "BinaryOpsProofs", "DEOps", "DEOpsProofs"]
IMPORTS = "From TF Require Import Base RandomPrims Adapt C11Check C07Check C15Check."


def gen(ctx):
    import translate_code as TC
    TC.ensure(TC.C07_FUNCS + ["randc01", "randn01", "randint", "uniform", "find_pbest_id", "sattolo_shuffle_2d"] + TC.C15_METHODS)
    import translate_loop as TL
    TL.emit(need=["TheFittest", "EvolutionaryAlgorithm", "DifferentialEvolution", "SHADE", "jDE", "SHAGA"])



def ql(xs):
    return C.clist([float(x) for x in xs], C.cq)


def mem_term(a, b, k):
    return f"{{| mem_a := {ql(a)}; mem_b := {ql(b)}; mem_k := {C.cnat(k)} |}}"


def convert_generate(draws, H_a, scale_a, kind):
    """mirror log of _generate_F_CR / _generate_MR_CR -> model draws (DU for the memory index, DX for the value each
    real-valued primitive returned after its affine arithmetic)"""
    out, r = [], None
    H = len(H_a[0])
    phase = 0
    for d in draws:
        if d[0] == "U":
            out.append(d)
            r = int(np.floor((H - 0) * d[1]))
            phase = 1
        elif d[0] == "XC":
            x = np.float64(d[1][0])
            if kind == "SHADE":
                loc = np.float64(H_a[0][r])
                out.append(("X", float(loc + np.float64(0.1) * x)))
            else:
                # SHAGA: _randc(u_MR, 0.1/str_len) may loop; then _randn(u_CR, 0.1) exactly once.  We cannot see from
                # the log alone which call a sample belongs to: resolved by the caller (see below)
                out.append(("XC", float(x), r))
        elif d[0] == "XN":
            out.append(("X", float(d[3][0])))
        else:
            return None
    return out


def resolve_shaga(conv, H_MR, H_CR, scale_mr, hi):
    """decide, as the code does, whether a cauchy sample belongs to the _randc loop or is the single _randn sample"""
    out, in_randc, r = [], False, None
    for d in conv:
        if d[0] == "U":
            out.append(d)
            in_randc = True
        elif d[0] == "XC":
            x, r = np.float64(d[1]), d[2]
            if in_randc:
                v = float(np.float64(H_MR[r]) + np.float64(scale_mr) * x)
                out.append(("X", v))
                if not (v <= 0 or v > hi):
                    in_randc = False
            else:
                out.append(("X", float(np.float64(H_CR[r]) + np.float64(0.1) * x)))
        else:
            out.append(d)
    return out


def lehmer(x, w):
    x, w = np.asarray(x, dtype=np.float64), np.asarray(w, dtype=np.float64)
    den = float(np.sum(w * x))
    return 0.0 if den == 0 else float(np.sum(w * x * x)) / den


def close(a, b, tol=1e-9):
    return (math.isnan(a) and math.isnan(b)) or abs(a - b) <= tol * (1 + abs(a))


def plain_ranges(ctx, rep):
    """compiled runs without the mirror (so that this family still runs when the samplers were restructured beyond what the mirror knows):
    every F / CR / MR in force and every memory cell, read at each generation boundary, is in its documented range"""
    import thefittest.optimizers as O
    plans = [("SHADE", dict(left_border=-2.0, right_border=2.0, num_variables=3)), ("SHAGA", dict(str_len=10)),
             ("jDE", dict(left_border=-2.0, right_border=2.0, num_variables=3))]
    for kind, kw in plans:
        for _ in range(ctx.pick(4, 12)):
            seed, pop = ctx.rng.randrange(1 << 30), ctx.rng.choice([6, 9, 12])
            seen = []

            def cb(o, seen=seen):
                seen.append({a: np.array(getattr(o, a), dtype=np.float64).copy() for a in ("_F", "_CR", "_MR", "_H_F", "_H_CR", "_H_MR") if hasattr(o, a)})
            opt = getattr(O, kind)(lambda X: -np.asarray(X, dtype=np.float64).sum(axis=1) ** 2, iters=14, pop_size=pop, random_state=seed, on_generation=cb, **kw)
            opt.fit()
            rep.traces += 1
            rep.count("plain-ranges", (kind, seed))
            hi_mr = 5.0 / kw["str_len"] if kind == "SHAGA" else None
            for g, snap_ in enumerate(seen):
                for a, v in snap_.items():
                    if a in ("_F", "_H_F"):
                        lo_ok, hi = v > 0, 1.0 if kind != "jDE" else 1.0 + 1e-12
                        if kind == "jDE":
                            lo_ok, hi = v >= opt._F_min - 1e-12, opt._F_min + opt._F_max + 1e-12
                    elif a in ("_MR", "_H_MR"):
                        lo_ok, hi = v > 0, hi_mr
                    else:
                        lo_ok, hi = v >= 0, 1.0
                    if not (np.all(np.isfinite(v)) and np.all(lo_ok) and np.all(v <= hi)):
                        rep.problem("range", f"{kind}: {a} holds a value outside its documented range at generation {g + 1}: {v.tolist()}",
                                    dict(kind=kind, random_state=seed, pop_size=pop, generation=g + 1, series=a), "plain-range", True, v.tolist(), None, "C15_shade_ranges")
                        break
                else:
                    continue
                break


def run(ctx, rep):
    import thefittest.optimizers as O
    plain_ranges(ctx, rep)
    MR.build()
    fg_sh = C.CoqCases(ctx.scratch, "gen_shade", IMPORTS, "chk_gen_shade", "nat * Z * list draw * list (Z * Q * Q)", shard=80)
    fg_sg = C.CoqCases(ctx.scratch, "gen_shaga", IMPORTS, "chk_gen_shaga", "Q * nat * Z * list draw * list (Z * Q * Q)", shard=80)
    fm_sh = C.CoqCases(ctx.scratch, "mem_shade", IMPORTS, "chk_mem_shade", "memory * list Q * list Q * list Q * list Q * memory", shard=100)
    fm_sg = C.CoqCases(ctx.scratch, "mem_shaga", IMPORTS, "chk_mem_shaga", "memory * list Q * list Q * list Q * list Q * memory", shard=100)
    f_ar = C.CoqCases(ctx.scratch, "archive", IMPORTS, "chk_archive", "nat * list Z * list Z * list draw * list Z", shard=100)
    f_jf = C.CoqCases(ctx.scratch, "jde_F", IMPORTS, "chk_jde_F", "Q * Q * Q * list Q * list draw * list Q", shard=100)
    f_jc = C.CoqCases(ctx.scratch, "jde_CR", IMPORTS, "chk_jde_CR", "Q * list Q * list draw * list Q", shard=100)
    f_ac = C.CoqCases(ctx.scratch, "accept", IMPORTS, "chk_accept", "list Q * list Q * list Q * list Q * list Q", shard=100)
    f_up = C.CoqCases(ctx.scratch, "update", IMPORTS, "chk_upd", "nat * Q * list Q * list Q * Q", shard=300)
    # ---- direct one-step cases of the cell update on reachable parameter values (CR = 0 and 1 are drawn with
    #      probability ~6% each: the clamp of _randn / randn01), all small success sets
    import itertools
    sh = O.SHADE(lambda x: x.sum(axis=1), iters=2, pop_size=4, left_border=-1.0, right_border=1.0, num_variables=1)
    sg = O.SHAGA(lambda x: x.sum(axis=1), iters=2, pop_size=4, str_len=8)
    vals_cr, vals_f, dfs = [0.0, 0.25, 1.0], [0.125, 0.5, 1.0], [0.5, 1.0, 3.0]
    # improvements of ordinary size and improvements in tiny units (a total below 1e-8 is still a strictly positive total)
    for n, dfs in [(n_, d_) for n_ in (0, 1, 2) for d_ in (dfs, [2.0 ** -34, 2.0 ** -33, 3 * 2.0 ** -34])]:
        for S in itertools.product(vals_cr, repeat=n):
            for df in itertools.product(dfs, repeat=n):
                for code, fn, Sv in ((1, lambda u, S_, d: sh._update_u_CR(u, S_, d), S),
                                     (2, lambda u, S_, d: sg._update_u(u, S_, d), S),
                                     (2, lambda u, S_, d: sg._update_u(u, S_, d), tuple(vals_f[vals_cr.index(x)] * 0.5 for x in S)),
                                     (0, lambda u, S_, d: sh._update_u_F(u, S_), tuple(vals_f[vals_cr.index(x)] for x in S))):
                    u = 0.5
                    out = float(fn(u, np.array(Sv, dtype=np.float64), np.array(df, dtype=np.float64)))
                    case = dict(fn=["SHADE._update_u_F", "SHADE._update_u_CR", "SHAGA._update_u"][code], u=u, S=list(Sv), df=list(df), out=out)
                    rep.count("update", (code, Sv, df))
                    if math.isnan(out) or not (0 <= out <= 1):
                        rep.problem("memory", "the value written to a success-history cell is NaN / outside its range for reachable successful parameters",
                                    case, "shaga:nan-memory" if code == 2 and math.isnan(out) else "update-range", True, out, None, "C15_memory_invariant")
                        continue
                    # the documented rule, recomputed: no success -> the previous cell; otherwise the (improvement-weighted) mean
                    import fractions as _fr
                    Sq, dq = [_fr.Fraction(x) for x in Sv], [_fr.Fraction(x) for x in df]
                    if not Sq or (code in (1, 2) and sum(dq) <= 0):
                        exp = _fr.Fraction(u)
                    else:
                        w = [_fr.Fraction(1)] * len(Sq) if code == 0 else [x / sum(dq) for x in dq]
                        if code == 1:
                            exp = sum(a * b for a, b in zip(w, Sq))
                        else:
                            den = sum(a * b for a, b in zip(w, Sq))
                            exp = _fr.Fraction(0) if den == 0 else sum(a * b * b for a, b in zip(w, Sq)) / den
                    if abs(_fr.Fraction(out) - exp) > _fr.Fraction(1, 10 ** 9):
                        rep.problem("memory", "the value written to a success-history cell is not the documented mean of the successful parameters "
                                    "(improvement-weighted; the previous cell only when nothing improved)", case, "update-rule", True, out, float(exp),
                                    "C15_memory_invariant")
                        continue
                    f_up.add(f"({C.cnat(code)}, {C.cq(u)}, {ql(Sv)}, {ql(df)}, {C.cq(out)})", case)
    kinds = ["SHADE", "SHAGA", "jDE"] * ctx.pick(5, 40)
    for run_i, kind in enumerate(kinds):
        seed = ctx.rng.randrange(1 << 30)
        pop = ctx.rng.randint(4, 12)
        iters = ctx.rng.randint(pop + 1, pop + 4) if ctx.rng.random() < 0.4 else ctx.rng.randint(3, 7)   # wrap-around
        obj = L.Objective(["onemax", "weighted", "minx", "plateau", "const"][(run_i // 3) % 5],   # every (kind, direction, objective) combination over 10 triples
                          scale=(2.0 ** -30 if (run_i // 3) % 3 == 2 else 1.0))                     # every third triple in tiny units (improvements ~1e-9)
        rec = []
        mini = (run_i // 3) % 2 == 1          # every kind is run in both optimisation directions, alternating
        cfg = dict(kind=kind, seed=seed, pop=pop, iters=iters, objective=obj.kind, minimization=mini)
        rep.hist("minimization", mini)
        with L.log_mode():
            if kind == "SHAGA":
                n = ctx.rng.randint(4, 10)
                cfg["str_len"] = n
                opt = O.SHAGA(obj, iters=iters, pop_size=pop, str_len=n, random_state=seed, minimization=mini)
                A, B, genname = "_H_MR", "_H_CR", "_generate_MR_CR"
            elif kind == "SHADE":
                opt = O.SHADE(obj, iters=iters, pop_size=pop, left_border=-2.0, right_border=2.0, num_variables=2, random_state=seed, minimization=mini)
                A, B, genname = "_H_F", "_H_CR", "_generate_F_CR"
            else:
                # F_max is the SPAN (F in [F_min, F_min + F_max]); F_max < F_min is admissible
                fmin, fmax = ctx.rng.choice([0.1, 0.25, 0.5, 0.625]), ctx.rng.choice([0.9, 0.5, 0.375, 0.25])
                tF, tCR = ctx.rng.choice([0.1, 0.5, 1.0]), ctx.rng.choice([0.1, 0.5])
                cfg.update(F_min=fmin, F_max=fmax, t_F=tF, t_CR=tCR)
                opt = O.jDE(obj, iters=iters, pop_size=pop, left_border=-2.0, right_border=2.0, num_variables=2, random_state=seed,
                            F_min=fmin, F_max=fmax, t_F=tF, t_CR=tCR, minimization=mini)
            if kind in ("SHADE", "SHAGA"):
                orig_gen = getattr(opt, genname)

                def gen(orig=orig_gen, opt=opt):
                    start = len(MR.TAPE.log)
                    pre = (L.snap(getattr(opt, A)), L.snap(getattr(opt, B)))
                    a, b = orig()
                    rec.append(dict(site="generate", pre=pre, out=(L.snap(a), L.snap(b)), draws=list(MR.TAPE.log[start:])))
                    return a, b
                setattr(opt, genname, gen)
                orig_np = opt._get_new_population

                def newpop(orig=orig_np, opt=opt):
                    pre = dict(a=L.snap(getattr(opt, A)), b=L.snap(getattr(opt, B)), k=int(opt._k), fit=L.snap(opt._fitness_i),
                               pop=L.snap(opt._population_g_i))
                    nb = len(obj.batches)
                    orig()
                    trial = np.asarray(obj.batches[nb][1], dtype=np.float64) * opt._sign
                    pa = L.snap(opt._MR if kind == "SHAGA" else opt._F)
                    rec.append(dict(site="memory", pre=pre, post=dict(a=L.snap(getattr(opt, A)), b=L.snap(getattr(opt, B)), k=int(opt._k)),
                                    trial=trial, pa=pa, pb=L.snap(opt._CR), trial_g=L.snap(obj.batches[nb][0])))
                opt._get_new_population = newpop
                if kind == "SHADE":
                    orig_ar = opt._append_archive

                    def arch(archive, worse_g, orig=orig_ar):
                        start = len(MR.TAPE.log)
                        a0, w0 = L.snap(archive), L.snap(worse_g)
                        out = orig(archive, worse_g)
                        rec.append(dict(site="archive", archive=a0, worse=w0, out=L.snap(out), draws=list(MR.TAPE.log[start:])))
                        return out
                    opt._append_archive = arch
            else:
                for nm in ("_get_mutate_F", "_get_mutate_CR"):
                    orig_m = getattr(opt, nm)

                    def mut(orig=orig_m, nm=nm, opt=opt):
                        start = len(MR.TAPE.log)
                        old = L.snap(opt._F if nm.endswith("F") else opt._CR)
                        out = orig()
                        rec.append(dict(site=nm, old=old, out=L.snap(out), draws=list(MR.TAPE.log[start:])))
                        return out
                    setattr(opt, nm, mut)
                orig_np = opt._get_new_population

                def newpop(orig=orig_np, opt=opt):
                    pre = dict(F=L.snap(opt._F), CR=L.snap(opt._CR), fit=L.snap(opt._fitness_i))
                    nb = len(obj.batches)
                    nrec = len(rec)
                    orig()
                    trial = np.asarray(obj.batches[nb][1], dtype=np.float64) * opt._sign
                    newF, newCR = rec[nrec]["out"], rec[nrec + 1]["out"]
                    rec.append(dict(site="accept", pre=pre, trial=trial, newF=newF, newCR=newCR, post=dict(F=L.snap(opt._F), CR=L.snap(opt._CR))))
                opt._get_new_population = newpop
            opt.fit()
        rep.traces += 1
        rep.hist("kind", kind)
        gi = 0
        for ri, r in enumerate(rec):
            gi += 1
            where = dict(cfg=cfg, site=r["site"], index=gi)
            rep.count(kind + ":" + r["site"], (seed, gi))
            if r["site"] == "generate":
                a, b = [float(v) for v in r["out"][0]], [float(v) for v in r["out"][1]]
                H = len(r["pre"][0])
                hi = 1.0 if kind == "SHADE" else 5 / cfg["str_len"]
                if any(not (0 < v <= hi) for v in a) or any(not (0 <= v <= 1) for v in b) or any(math.isnan(v) for v in a + b):
                    rep.problem("range", f"{kind}: a generated parameter is outside its range ({'F' if kind == 'SHADE' else 'MR'} in (0,{hi}], CR in [0,1])",
                                dict(where, first=a, second=b, memory=[r["pre"][0].tolist(), r["pre"][1].tolist()]),
                                "shaga:nan-memory" if kind == "SHAGA" and any(math.isnan(v) for v in b) else "range", True, [a, b], None, "C15_ranges")
                conv = convert_generate(r["draws"], r["pre"], 0.1, kind)
                if conv is None or any(math.isnan(float(v)) for v in list(r["pre"][0]) + list(r["pre"][1])):
                    continue
                if kind == "SHAGA":
                    conv = resolve_shaga(conv, r["pre"][0], r["pre"][1], 0.1 / cfg["str_len"], hi)
                # memory index per individual from the U draws
                idx = [int(np.floor(H * d[1])) for d in conv if d[0] == "U"]
                out = C.clist([f"({C.cz(i)}, {C.cq(x)}, {C.cq(y)})" for i, x, y in zip(idx, a, b)])
                case = dict(where, draws=conv, out=list(zip(idx, a, b)))
                if kind == "SHADE":
                    fg_sh.add(f"({C.cnat(cfg['pop'])}, {C.cz(H)}, {C.cdraws(conv)}, {out})", case)
                else:
                    fg_sg.add(f"({C.cq(hi)}, {C.cnat(cfg['pop'])}, {C.cz(H)}, {C.cdraws(conv)}, {out})", case)
            elif r["site"] == "memory":
                pre, post = r["pre"], r["post"]
                H = len(pre["a"])
                par, trial = [float(v) for v in pre["fit"]], [float(v) for v in r["trial"]]
                pa, pb = [float(v) for v in r["pa"]], [float(v) for v in r["pb"]]
                nk = (pre["k"] + 1) % H
                succ = [t > p for p, t in zip(par, trial)]
                df = [abs(p - t) for p, t, s in zip(par, trial, succ) if s]
                Sa = [x for x, s in zip(pa, succ) if s]
                Sb = [x for x, s in zip(pb, succ) if s]
                if kind == "SHADE":
                    ea = lehmer(Sa, np.ones(len(Sa))) if Sa else float(pre["a"][pre["k"]])
                    eb = float(np.sum(np.array(df) / sum(df) * np.array(Sb))) if Sb and sum(df) > 0 else float(pre["b"][pre["k"]])
                    rng_a, rng_b = (lambda v: 0 < v <= 1), (lambda v: 0 <= v <= 1)
                else:
                    w = (np.array(df) / sum(df)) if Sa and sum(df) > 0 else None
                    ea = lehmer(Sa, w) if w is not None else float(pre["a"][pre["k"]])
                    eb = lehmer(Sb, w) if w is not None else float(pre["b"][pre["k"]])
                    hi = 5 / cfg["str_len"]
                    rng_a, rng_b = (lambda v: 0 < v <= hi), (lambda v: 0 <= v <= 1)
                pa_, pb_ = [float(v) for v in post["a"]], [float(v) for v in post["b"]]
                if any(math.isnan(v) for v in pa_ + pb_) or any(not rng_a(v) for v in pa_) or any(not rng_b(v) for v in pb_):
                    nan = any(math.isnan(v) for v in pb_) and kind == "SHAGA"
                    rep.problem("memory", f"{kind}: a success-history cell left its range (NaN or out of bounds)", dict(where, memory=[pa_, pb_], S_first=Sa, S_second=Sb, df=df),
                                "shaga:nan-memory" if nan else "memory-range", True, [pa_, pb_], None, "C15_memory_invariant")
                    continue
                if any(math.isnan(float(v)) for v in list(pre["a"]) + list(pre["b"])):
                    continue
                if post["k"] != nk or not close(pa_[nk], ea) or not close(pb_[nk], eb) or \
                        any(pa_[i] != float(pre["a"][i]) or pb_[i] != float(pre["b"][i]) for i in range(H) if i != nk):
                    rep.problem("memory", f"{kind}: the memory was not advanced by one cell holding the stated mean of the strictly improving trials (or a copy)",
                                dict(where, k=pre["k"], expected=[ea, eb], got=[pa_[nk], pb_[nk]], post_k=post["k"]), "memory-rule", True, [pa_, pb_], [ea, eb], "C15_memory_invariant")
                if kind == "SHADE":
                    # what was handed to the archive in this generation must be exactly the parents of STRICTLY better trials
                    arch = next((x for x in reversed(rec[:ri]) if x["site"] == "archive"), None)
                    exp_worse = np.asarray(pre["pop"])[np.array(succ, dtype=bool)] if any(succ) else np.zeros((0, np.asarray(pre["pop"]).shape[1]))
                    if arch is not None and not (np.asarray(arch["worse"]).shape == exp_worse.shape and np.array_equal(np.asarray(arch["worse"]), exp_worse)):
                        rep.problem("archive", "SHADE archive received individuals that were not replaced by strictly better trials (or missed some)",
                                    dict(where, parents_fit=par, trial_fit=trial, archived=np.asarray(arch["worse"]).tolist()), "archive-not-strict", True,
                                    np.asarray(arch["worse"]).tolist(), exp_worse.tolist(), "C15_archive_strictly_better")
                term = (f"({mem_term(pre['a'], pre['b'], pre['k'])}, {ql(par)}, {ql(trial)}, {ql(pa)}, {ql(pb)}, {mem_term(post['a'], post['b'], post['k'])})")
                case = dict(where, pre=[pre["a"].tolist(), pre["b"].tolist(), pre["k"]], par=par, trial=trial, first=pa, second=pb, post=[pa_, pb_, post["k"]])
                (fm_sh if kind == "SHADE" else fm_sg).add(term, case)
            elif r["site"] == "archive":
                ids = L and {}
                def ident(v, ids=ids):
                    k = tuple(np.asarray(v, dtype=np.float64).tolist())
                    return ids.setdefault(k, len(ids) + 1)
                a0, w0, out = [ident(v) for v in r["archive"]], [ident(v) for v in r["worse"]], [ident(v) for v in r["out"]]
                if len(out) > cfg["pop"] or any(x not in a0 + w0 for x in out):
                    rep.problem("archive", "SHADE archive exceeds pop_size or holds an individual that was neither archived nor just replaced",
                                dict(where, sizes=[len(a0), len(w0), len(out)]), "archive", True, len(out), cfg["pop"], "C15_archive")
                if len(set(a0 + w0)) == len(a0 + w0):
                    ds = [d for d in r["draws"] if d[0] == "U"]
                    f_ar.add(f"({C.cnat(cfg['pop'])}, {C.clist(a0, C.cz)}, {C.clist(w0, C.cz)}, {C.cdraws(ds)}, {C.clist(out, C.cz)})",
                             dict(where, archive=a0, worse=w0, out=out))
            elif r["site"] in ("_get_mutate_F", "_get_mutate_CR"):
                old, out = [float(v) for v in r["old"]], [float(v) for v in r["out"]]
                xs = []
                for d in r["draws"]:
                    if d[0] == "XU":
                        xs.extend(("X", float(v)) for v in d[3])
                isF = r["site"].endswith("F")
                lo, hi = (cfg["F_min"], cfg["F_min"] + cfg["F_max"]) if isF else (0.0, 1.0)
                changed = [o != n for o, n in zip(old, out)]
                if any(c and not (lo <= n <= hi) for c, n in zip(changed, out)):
                    rep.problem("range", f"jDE: a regenerated {'F' if isF else 'CR'} is outside [{lo},{hi}]", dict(where, old=old, new=out), "jde-range", True, out, None, "C15_jde_ranges")
                if isF:
                    f_jf.add(f"({C.cq(cfg['F_min'])}, {C.cq(cfg['F_max'])}, {C.cq(cfg['t_F'])}, {ql(old)}, {C.cdraws(xs)}, {ql(out)})", dict(where, old=old, out=out, draws=xs))
                else:
                    f_jc.add(f"({C.cq(cfg['t_CR'])}, {ql(old)}, {C.cdraws(xs)}, {ql(out)})", dict(where, old=old, out=out, draws=xs))
            elif r["site"] == "accept":
                par, trial = [float(v) for v in r["pre"]["fit"]], [float(v) for v in r["trial"]]
                for nm, new in (("F", r["newF"]), ("CR", r["newCR"])):
                    old, post = [float(v) for v in r["pre"][nm]], [float(v) for v in r["post"][nm]]
                    new = [float(v) for v in new]
                    exp = [n if t >= p else o for p, t, o, n in zip(par, trial, old, new)]
                    if post != exp:
                        rep.problem("accept", f"jDE: {nm} of an individual changed although its trial was not accepted (or did not change when it was)",
                                    dict(where, par=par, trial=trial, old=old, new=new), "jde-accept-only", True, post, exp, "C15_jde_accept_only")
                    f_ac.add(f"({ql(par)}, {ql(trial)}, {ql(old)}, {ql(new)}, {ql(post)})", dict(where, which=nm))
        if rec:
            rep.sample(dict(cfg=cfg, first_record=C.jsonable({k: v for k, v in rec[0].items() if k not in ("draws",)})))
    # ---- direct calls of SHADE._append_archive at every size combination (the runs above reach "every trial improved while the archive
    #      is non-empty" only by luck): never more than pop_size rows, only former archive members and replaced parents, everything kept
    #      while it fits
    from thefittest.utils.random import numba_seed
    for pop in (3, 5, 6):
        opt = O.SHADE(lambda X: np.asarray(X, dtype=np.float64).sum(axis=1), iters=2, pop_size=pop, left_border=-1.0, right_border=1.0, num_variables=2)
        for na in (0, 1, pop - 1, pop):
            for nw in (0, 1, pop - 1, pop):
                archive = np.array([[100.0 + i, -(100.0 + i)] for i in range(na)], dtype=np.float64).reshape(na, 2)
                worse = np.array([[200.0 + i, -(200.0 + i)] for i in range(nw)], dtype=np.float64).reshape(nw, 2)
                numba_seed(ctx.rng.randrange(1 << 30))
                out = np.asarray(opt._append_archive(archive.copy(), worse.copy()))
                rows = {tuple(r) for r in out.tolist()}
                allowed = {tuple(r) for r in archive.tolist()} | {tuple(r) for r in worse.tolist()}
                rep.count("archive-direct", (pop, na, nw))
                if len(out) > pop or not rows <= allowed or len(rows) != len(out) or (na + nw <= pop and rows != allowed):
                    rep.problem("archive", "SHADE._append_archive: the archive exceeds pop_size / holds a foreign or duplicated row / dropped a row although everything fits",
                                dict(pop_size=pop, archive_rows=na, replaced_parents=nw, out_rows=len(out)), "archive", True, len(out), min(pop, na + nw), "C15_archive")
    for fc in (f_up, fg_sh, fg_sg, fm_sh, fm_sg, f_ar, f_jf, f_jc, f_ac):
        bad, errors = fc.run()
        rep.hist("coq_cases", fc.name + ":" + str(len(fc)))
        for e in errors:
            rep.problem(fc.name, "model evaluation failed: %s" % (e,), {}, "model-eval", False)
        for i in bad[:12]:
            rep.problem(fc.name, "model and implementation disagree", fc.meta[i], fc.name + ":model-vs-impl", False)


def replay(ctx, rp):
    return None      # generic replay of harness/main.py (re-executes the check, looks for the recorded signature)
