"""C10 — SamplingGrid / GrayCode: correspondence model <-> implementation and property predicates.

The real classes (thefittest.utils.transformations) are run on
  * every bit string of the stated length (exhaustive, bounds below), int8 and float64 genotype arrays,
  * boxes whose float arithmetic is exact (dyadic borders, power-of-two steps)  -> exact comparison,
  * random non-dyadic boxes and the MLP trainer's grid -> 4 ulp (at the scale of the box) tolerance,
  * fit by bits and fit by h, batches that do / do not contain the largest code.
Every case is also evaluated by the Coq model (coq/theories/Grid.v, Gray.v via C10Check.v)."""
from __future__ import annotations

import inspect
import json
import os
from fractions import Fraction as Fr

import numpy as np

import common as C

RULE = ("transform/inverse_transform of the real SamplingGrid and GrayCode: exhaustive over ALL bit strings for every "
        "width vector (1 var: widths 1..6 quick / 1..10 thorough; 2 vars: all width pairs in that range; 3 vars: all "
        "triples with widths <= 6 quick / <= 7 thorough plus sampled triples up to 10), int8 and float64 genotypes, "
        "dyadic boxes with power-of-two steps (exact ==), each clause of the property evaluated by an independent "
        "numpy/Fraction predicate; inverse on full batches and on batches without the largest code, off-grid points "
        "incl. ties; fit by h; random non-dyadic boxes and the MLP grid within 4 ulp of the box scale. Every config is "
        "also checked against the Coq model (all rows when total bits <= 12 quick / 14 thorough, else sampled rows). "
        "A case = (family, kind, widths, box, dtype/batch).")
ASSUMPTIONS = ["borders finite, left < right, bits >= 1 (degenerate boxes / zero widths are outside the property)",
               "inverse_transform is applied to points inside the box",
               "exact model: IEEE rounding of left + h*k is outside it (dyadic inputs make the float computation exact; "
               "otherwise 4 ulp of max(|left|,|right|) are accepted)"]
TRUSTED = ["models: coq/theories/Gray.v, coq/theories/Grid.v; check functions coq/theories/C10Check.v",
           "code translator harness/translate_code.py + coq/theories/Py.v (array forms pow2s, matvecZ, xor_accumulate_rows, logical_xor2, column slices, hstack_col0): the decoders proved equal to the row-wise models (theories/CodeEqC10.v)",
           "numpy float64 arithmetic is IEEE-754 (exactness of dyadic computations)"]
THEORIES = ["Base", "Gray", "Grid", "GridProofs", "C10Check", "RandomPrims", "Py", "PyLemmas", "GenCode", "CodeEqC10"]

IMPORTS = "From TF Require Import Base Gray Grid C10Check."
SIG_WIDTH = "inverse_transform:width-from-batch-max"
SIG_OVER = "transform:float-overshoot-right-border"
ULP4 = 4.0 * 2.0 ** -52

L_CHOICES = [0.0, -1.0, -2.5, 0.75, -8.0, 3.0]
E_CHOICES = [-3, -1, 0, 2, 1, -2]


# ----------------------------------------------------------------------------- coq printers
def cbits(row) -> str:
    return "[" + ";".join("T" if int(v) else "F" for v in row) + "]"


def cqs(row) -> str:
    return "[" + "; ".join(C.cq(float(v)) for v in row) + "]"


def cvars(left, right, bits) -> str:
    return "[" + "; ".join(f"({C.cq(float(l))}, {C.cq(float(r))}, {int(w)}%nat)" for l, r, w in zip(left, right, bits)) + "]"


# ----------------------------------------------------------------------------- independent reference
def all_rows(n: int, dtype):
    idx = np.arange(1 << n, dtype=np.int64)
    return ((idx[:, None] >> np.arange(n - 1, -1, -1, dtype=np.int64)) & 1).astype(dtype)


def chunk_codes(rows_int: np.ndarray, widths):
    """raw binary reading of each variable's chunk; rows_int: (N, n) ints"""
    out, pos = [], 0
    for w in widths:
        c = np.zeros(rows_int.shape[0], dtype=np.int64)
        for j in range(w):
            c = (c << 1) | rows_int[:, pos + j].astype(np.int64)
        out.append(c)
        pos += w
    return out


def gray_decode(c: np.ndarray, w: int):
    k = c.copy()
    s = 1
    while s < w:
        k ^= k >> s
        s <<= 1
    return k


def ref_indices(rows_int, widths, kind):
    cs = chunk_codes(rows_int, widths)
    return [gray_decode(c, w) if kind == "gray" else c for c, w in zip(cs, widths)]


def ref_encode(k: int, w: int, kind: str):
    if kind == "gray":
        k = k ^ (k >> 1)
    return [(k >> (w - 1 - i)) & 1 for i in range(w)]


def exact_h(l, r, w):
    return (Fr(r) - Fr(l)) / (2 ** w - 1)


def exact_bits_from_h(l, r, h):
    """least w >= 1 with (r-l)/(2^w-1) <= h   (exact rationals)"""
    x = (Fr(r) - Fr(l)) / Fr(h)
    w = 1
    while 2 ** w - 1 < x:
        w += 1
    return w


def rint_half_even(q: Fr) -> int:
    f = q.numerator // q.denominator
    d = q - f
    if d < Fr(1, 2):
        return f
    if d > Fr(1, 2):
        return f + 1
    return f if f % 2 == 0 else f + 1


# ----------------------------------------------------------------------------- implementation access
def impl():
    from thefittest.utils.transformations import GrayCode, SamplingGrid
    return SamplingGrid, GrayCode


def make_grid(kind, left, right, bits=None, h=None, scalar=False):
    SG, GC = impl()
    g = (GC if kind == "gray" else SG)()
    nv = len(left)
    if scalar:
        kw = dict(left_border=float(left[0]), right_border=float(right[0]), num_variables=nv)
        if h is None:
            kw["bits_per_variable"] = int(bits[0])
        else:
            kw["h_per_variable"] = float(h[0])
    else:
        kw = dict(left_border=np.array(left, dtype=np.float64), right_border=np.array(right, dtype=np.float64),
                  num_variables=nv)
        if h is None:
            kw["bits_per_variable"] = np.array(bits, dtype=np.int64)
        else:
            kw["h_per_variable"] = np.array(h, dtype=np.float64)
    return g.fit(**kw)


def tol_of(l, r, exact):
    return 0.0 if exact else ULP4 * max(abs(l), abs(r))


# ----------------------------------------------------------------------------- single-case evaluator (run + replay)
def eval_case(case):
    """Re-executes one self-contained case on the real code. Returns (ok, clause, detail, signature)."""
    fn = case["fn"]
    kind = case.get("kind", "binary")
    if fn == "transform":
        left, right, bits = case["left"], case["right"], case["bits"]
        g = make_grid(kind, left, right, bits=bits)
        rows = np.array(case["rows"], dtype=np.dtype(case.get("dtype", "int8")))
        out = g.transform(rows)
        ks = ref_indices(np.array(case["rows"], dtype=np.int64), bits, kind)
        for i in range(rows.shape[0]):
            for j, (l, r, w) in enumerate(zip(left, right, bits)):
                y = float(out[i, j])
                exp = Fr(l) + exact_h(l, r, w) * int(ks[j][i])
                tol = tol_of(l, r, case.get("exact", False))
                if abs(Fr(y) - exp) > Fr(tol):
                    return False, "C10_transform_point", dict(row=i, var=j, impl=y, expected=float(exp)), "transform:point"
                if y > r:
                    return False, "C10_in_box", dict(row=i, var=j, impl=y, right=r, excess_ulps=(y - r) / np.spacing(r)), SIG_OVER
                if y < l:
                    return False, "C10_in_box", dict(row=i, var=j, impl=y, left=l), "transform:below-left"
        return True, "", None, ""
    if fn == "inverse_transform":
        left, right = case["left"], case["right"]
        g = make_grid(kind, left, right, bits=case.get("bits"), h=case.get("h_req"))
        bits = [int(b) for b in g.get_bits_per_variable()]
        pop = np.array(case["pop"], dtype=np.float64)
        try:
            out = g.inverse_transform(pop)
        except Exception as e:  # noqa: BLE001
            return False, "C10_inverse_fixed_length", f"inverse_transform raised {type(e).__name__}: {e}", SIG_WIDTH
        if out.ndim != 2 or out.shape != (pop.shape[0], sum(bits)):
            return False, "C10_inverse_fixed_length", dict(shape=list(out.shape), expected=[pop.shape[0], sum(bits)]), SIG_WIDTH
        if "expect" in case and not np.array_equal(out.astype(np.int64), np.array(case["expect"], dtype=np.int64)):
            return False, "C10_roundtrip_bits", dict(impl=out.tolist()), "inverse:roundtrip-bits"
        back = g.transform(out)
        for j, (l, r, w) in enumerate(zip(left, right, bits)):
            hq = exact_h(l, r, w)
            tol = Fr(tol_of(l, r, case.get("exact", False)))
            for i in range(pop.shape[0]):
                if abs(Fr(float(back[i, j])) - Fr(float(pop[i, j]))) > hq / 2 + tol:
                    return False, "C10_inverse_nearest", dict(row=i, var=j, x=float(pop[i, j]), back=float(back[i, j]), h=float(hq)), "inverse:nearest"
        return True, "", None, ""
    if fn == "fit_h":
        g = make_grid(kind, case["left"], case["right"], h=case["h_req"])
        bits = [int(b) for b in g.get_bits_per_variable()]
        hs = [float(x) for x in g.get_h_per_variable()]
        for j, (l, r, hr) in enumerate(zip(case["left"], case["right"], case["h_req"])):
            if bits[j] < 1 or Fr(hs[j]) > Fr(hr) * (1 + Fr(2) ** -51):
                return False, "C10_bits_from_step", dict(var=j, bits=bits[j], h=hs[j], h_req=hr), "fit:coarser-than-requested"
        return True, "", None, ""
    raise ValueError("unknown case " + fn)


def lifecycle_case(case):
    """fit -> transform -> the caller edits the arrays it passed -> transform -> re-fit the same object -> transform;
    returns [(what, signature, implementation, expected)] for every step that does not decode like a freshly fitted grid"""
    kind, b1, b2, boxes = case["kind"], case["bits1"], case["bits2"], (case["box1"], case["box2"])
    nv = len(b1)
    out = []
    SGc, GCc = impl()
    g = (GCc if kind == "gray" else SGc)()
    try:
        lo, hi, bt = np.array(boxes[0][0], dtype=np.float64), np.array(boxes[0][1], dtype=np.float64), np.array(b1, dtype=np.int64)
        g.fit(left_border=lo, right_border=hi, num_variables=nv, bits_per_variable=bt)
        rows1 = all_rows(sum(b1), np.int8)
        want1 = make_grid(kind, boxes[0][0], boxes[0][1], bits=b1).transform(rows1)
        t1 = g.transform(rows1)
        if not np.array_equal(t1, want1):
            out.append(("a grid fitted from caller-owned arrays decodes differently from one fitted from the same values",
                        "lifecycle:fit", t1.tolist()[:8], want1.tolist()[:8]))
        lo += 1.21
        hi -= 0.37
        bt[...] = bt[::-1] + 1                      # the caller recycles its buffers for something else
        t1b = g.transform(rows1)
        inv = g.inverse_transform(want1)
        if not np.array_equal(t1b, want1) or not np.array_equal(np.asarray(inv, dtype=np.int64), rows1.astype(np.int64)):
            out.append(("after fit(), editing the arrays the caller had passed to fit() changed transform / inverse_transform of the fitted grid",
                        "lifecycle:caller-array-edited", t1b.tolist()[:8], want1.tolist()[:8]))
        # re-fit the SAME object with another bits vector / box
        g.fit(left_border=np.array(boxes[1][0]), right_border=np.array(boxes[1][1]), num_variables=nv, bits_per_variable=np.array(b2, dtype=np.int64))
        rows2 = all_rows(sum(b2), np.int8)
        want2 = make_grid(kind, boxes[1][0], boxes[1][1], bits=b2).transform(rows2)
        t2 = g.transform(rows2)
        inv2 = g.inverse_transform(want2)
        if not np.array_equal(t2, want2) or not np.array_equal(np.asarray(inv2, dtype=np.int64), rows2.astype(np.int64)):
            out.append(("a re-fitted grid does not decode like a freshly fitted one (state of the earlier fit leaks)",
                        "lifecycle:refit", np.asarray(t2).tolist()[:8], want2.tolist()[:8]))
    except Exception as e:  # noqa: BLE001
        out.append((f"fit / transform / re-fit sequence raised {type(e).__name__}: {e}", "lifecycle:raised", None, repr(e)))
    return out


def replay(ctx, rp) -> bool:
    case = rp["first"]["case"] if "first" in rp else rp["case"]
    if case.get("fn") == "lifecycle":
        bad = lifecycle_case(case)
        C.log("replay:", "holds" if not bad else f"FAILS {bad[0][0]}")
        return not bad
    ok, clause, detail, sig = eval_case(case)
    C.log("replay:", "holds" if ok else f"FAILS clause={clause} detail={detail}")
    return ok


# ----------------------------------------------------------------------------- the run
class Fams:
    def __init__(self, ctx):
        self.ctx, self.f = ctx, {}

    def get(self, name, check, ctype, shard):
        if name not in self.f:
            self.f[name] = C.CoqCases(self.ctx.scratch, name, IMPORTS, check, ctype, shard=shard)
        return self.f[name]


def gen(ctx):
    """(T) the decoders are translated from utils/transformations.py on every run; fail closed"""
    import translate_code as TC
    TC.ensure(TC.C10_METHODS)


def run(ctx, rep):
    SG, GC = impl()
    rng = ctx.rng
    nprng = np.random.RandomState(rng.randrange(1 << 31))
    fam = Fams(ctx)
    WMAX = ctx.pick(6, 10)
    W3 = ctx.pick(6, 7)
    NCOQ = ctx.pick(12, 14)
    BLOCK = 512
    has_num_bits = "num_bits" in inspect.signature(SG.int_to_bit).parameters
    rep.extra["int_to_bit_has_num_bits"] = has_num_bits

    f_b2i = fam.get("bit_to_int", "chk_bit_to_int", "nat * list Z", 4)
    f_g2b = fam.get("gray_to_bit", "chk_gray_to_bit", "nat * list (list bool)", 2)
    f_b2g = fam.get("bit_to_gray", "chk_bit_to_gray", "nat * list (list bool)", 2)
    f_i2b = fam.get("int_to_bit", "chk_int_to_bit", "option nat * list Z * list (list bool)", 40)
    f_tall = fam.get("transform_all", "chk_transform_blk", "bool * list (Q * Q * nat) * Z * list (list Q)", 6)
    f_trow = fam.get("transform_rows", "chk_transform_rows", "bool * list (Q * Q * nat) * list (list bool * list Q)", 12)
    f_tclo = fam.get("transform_close", "chk_transform_close", "bool * list (Q * Q * nat) * list (list bool * list Q)", 12)
    f_inv = fam.get("inverse", "chk_inverse", "bool * bool * list (Q * Q * nat) * list (list Q) * list (list bool)", 8)
    f_fh = fam.get("fit_h", "chk_fit_h", "Q * Q * Q * nat * Q", 400)
    f_fb = fam.get("fit_bits", "chk_fit_bits", "Q * Q * nat * Q", 400)

    tm = C.Timer()

    def report(ok, clause, detail, sig, case, family):
        if not ok:
            rep.problem(family, f"{clause} fails on the implementation: {detail}", case, sig, True, detail, None, clause)

    # ---------------------------------------------------------------- corpus (always first)
    cdir = os.path.join(C.VERIF, "corpus")
    for fn in sorted(os.listdir(cdir)) if os.path.isdir(cdir) else []:
        if fn.startswith("C10-") and fn.endswith(".json"):
            cj = json.load(open(os.path.join(cdir, fn)))
            for case in cj["cases"]:
                ok, clause, detail, sig = eval_case(case)
                rep.count("corpus", (fn, json.dumps(case, sort_keys=True)))
                report(ok, clause, detail, sig or cj.get("signature", ""), case, "corpus")
                rep.sample(dict(corpus=fn, case=case, holds=ok, detail=detail))

    # ---------------------------------------------------------------- A. static codec methods
    for w in range(1, WMAX + 1):
        N = 1 << w
        ints = np.arange(N, dtype=np.int64)
        for dt in (np.int8, np.float64):
            arr = all_rows(w, dt)
            o1 = SG.bit_to_int(arr)
            o2 = SG.bit_to_int(arr, powers=2 ** np.arange(WMAX, dtype=np.int64))
            rep.count("bit_to_int", (w, dt.__name__), n=N)
            if not (np.array_equal(o1, ints) and np.array_equal(o2, ints)):
                i = int(np.argmax((o1 != ints) | (o2 != ints)))
                rep.problem("bit_to_int", "bit_to_int is not the MSB-first positional value",
                            dict(fn="bit_to_int", row=arr[i].tolist(), dtype=dt.__name__), "codec:bit_to_int", True,
                            [int(o1[i]), int(o2[i])], i, "C10_binary_roundtrip")
            g2b = GC.gray_to_bit(arr).astype(np.int64)
            b2g = np.asarray(GC.bit_to_gray(arr)).astype(np.int64)
            rep.count("gray_to_bit", (w, dt.__name__), n=N)
            rep.count("bit_to_gray", (w, dt.__name__), n=N)
            exp_g2b = np.bitwise_xor.accumulate(arr.astype(np.int64), axis=1)
            code = ints ^ (ints >> 1)
            exp_b2g = (code[:, None] >> np.arange(w - 1, -1, -1)) & 1
            if not np.array_equal(g2b, exp_g2b):
                rep.problem("gray_to_bit", "gray_to_bit is not the prefix xor", dict(fn="gray_to_bit", w=w), "codec:gray_to_bit", True)
            if not np.array_equal(b2g, exp_b2g):
                rep.problem("bit_to_gray", "bit_to_gray(k) is not k xor (k>>1)", dict(fn="bit_to_gray", w=w), "codec:bit_to_gray", True)
            # round trips through the implementation's own functions
            if not (np.array_equal(GC.gray_to_bit(np.asarray(GC.bit_to_gray(arr))).astype(np.int64), arr.astype(np.int64))
                    and np.array_equal(np.asarray(GC.bit_to_gray(GC.gray_to_bit(arr))).astype(np.int64), arr.astype(np.int64))):
                rep.problem("gray", "Gray round trip fails", dict(fn="gray_roundtrip", w=w), "codec:gray-roundtrip", True,
                            clause="C10_gray_roundtrip")
            # adjacency on the implementation: codes of k and k+1 differ in exactly one bit
            if N > 1 and not np.all(np.sum(b2g[1:] != b2g[:-1], axis=1) == 1):
                rep.problem("gray", "successive Gray codes do not differ in exactly one bit", dict(fn="gray_adjacent", w=w),
                            "codec:gray-adjacent", True, clause="C10_gray_adjacent")
            if dt is np.int8:
                f_b2i.add(f"({w}%nat, {C.clist([int(v) for v in o1], C.cz)})", dict(fn="bit_to_int", w=w))
                f_g2b.add(f"({w}%nat, {C.clist(g2b, cbits)})", dict(fn="gray_to_bit", w=w))
                f_b2g.add(f"({w}%nat, {C.clist(b2g, cbits)})", dict(fn="bit_to_gray", w=w))
        # int_to_bit on batches: prefixes [0..m] (with and without the largest code), default width and given width
        ms = sorted(set([0, 1, N // 2 - 1, N // 2, N - 2, N - 1]) & set(range(N))) if w > 3 else list(range(N))
        for m in ms:
            ks = np.arange(m + 1, dtype=np.int64)
            for asfloat in (False, True):
                kk = ks.astype(np.float64) if asfloat else ks
                od = SG.int_to_bit(kk)
                rep.count("int_to_bit", (w, m, asfloat, "default"))
                f_i2b.add(f"(None, {C.clist([int(v) for v in ks], C.cz)}, {C.clist(od, cbits)})",
                          dict(fn="int_to_bit", ks=ks.tolist(), num_bits=None))
                if has_num_bits:
                    ow = SG.int_to_bit(kk, None, w)
                    ow2 = SG.int_to_bit(kk, 2 ** np.arange(WMAX, dtype=np.int64), num_bits=w)
                    rep.count("int_to_bit", (w, m, asfloat, "width"))
                    exp = (ks[:, None] >> np.arange(w - 1, -1, -1)) & 1
                    if ow.shape != exp.shape or not np.array_equal(ow, exp) or not np.array_equal(ow2, exp):
                        rep.problem("int_to_bit", "int_to_bit(num_bits=w) is not the w-bit binary expansion",
                                    dict(fn="int_to_bit", ks=ks.tolist(), num_bits=w), "codec:int_to_bit", True,
                                    ow.tolist(), None, "C10_binary_roundtrip")
                    f_i2b.add(f"(Some {w}%nat, {C.clist([int(v) for v in ks], C.cz)}, {C.clist(ow, cbits)})",
                              dict(fn="int_to_bit", ks=ks.tolist(), num_bits=w))

    C.log(f"[C10] codec done {tm.s()}s")
    # ---------------------------------------------------------------- B. exhaustive transform / inverse on exact boxes
    def exact_box(widths):
        left, right, es = [], [], []
        for w in widths:
            l = rng.choice(L_CHOICES)
            e = rng.choice(E_CHOICES)
            left.append(l)
            es.append(e)
            right.append(l + (2 ** w - 1) * 2.0 ** e)
        return left, right, es

    def submit_inverse(kind, left, right, bits, pop, out, tag):
        if out is None:
            return
        f_inv.add(f"(true, {C.cbool(kind == 'gray')}, {cvars(left, right, bits)}, {C.clist(pop, cqs)}, {C.clist(out, cbits)})",
                  dict(fn="inverse_transform", kind=kind, left=left, right=right, bits=list(bits), pop=np.asarray(pop).tolist(),
                       exact=True, batch=tag))

    def check_inverse(kind, g, left, right, bits, pop, expect_rows, tag, exact=True, to_coq=True, max_coq=512):
        """runs inverse_transform on a batch; property predicates; returns output or None"""
        n = sum(bits)
        case = dict(fn="inverse_transform", kind=kind, left=left, right=right, bits=list(bits), pop=np.asarray(pop).tolist(),
                    exact=exact, batch=tag)
        rep.count("inverse:" + tag, (kind, tuple(bits), tuple(left), tuple(right), tag, pop.shape[0]), n=pop.shape[0])
        rep.hist("inverse_batches", tag)
        try:
            out = g.inverse_transform(pop)
        except Exception as e:  # noqa: BLE001
            case["pop"] = case["pop"][:8]
            rep.problem("inverse", f"inverse_transform raised {type(e).__name__}: {e}", case, SIG_WIDTH, True, None, None,
                        "C10_inverse_fixed_length")
            return None
        if out.ndim != 2 or out.shape != (pop.shape[0], n):
            # shrink to a minimal batch: the row with the largest output still failing
            small = dict(case)
            small["pop"] = case["pop"][:2]
            ok2, cl2, det2, sg2 = eval_case(small)
            rep.problem("inverse", f"inverse_transform returns strings of length {out.shape[1:]} instead of {n} "
                        f"(batch '{tag}')", small if not ok2 else case, SIG_WIDTH, True, dict(shape=list(out.shape)), n,
                        "C10_inverse_fixed_length")
            return None
        if expect_rows is not None and not np.array_equal(out.astype(np.int64), expect_rows.astype(np.int64)):
            i = int(np.argmax(np.any(out.astype(np.int64) != expect_rows.astype(np.int64), axis=1)))
            small = dict(case)
            small["pop"] = [case["pop"][i]]
            small["expect"] = [expect_rows[i].astype(int).tolist()]
            rep.problem("inverse", "inverse_transform(transform(b)) != b", small, "inverse:roundtrip-bits", True,
                        out[i].tolist(), None, "C10_roundtrip_bits")
        if to_coq:
            if pop.shape[0] <= max_coq:
                submit_inverse(kind, left, right, bits, pop, out, tag)
            else:
                sel = np.sort(nprng.choice(pop.shape[0], size=256, replace=False))
                o2 = g.inverse_transform(pop[sel])
                if o2.shape == (256, n):
                    submit_inverse(kind, left, right, bits, pop[sel], o2, tag + ":sample256")
        return out

    def exhaustive_config(kind, widths, dtypes, coq_all):
        n = sum(widths)
        N = 1 << n
        left, right, es = exact_box(widths)
        g = make_grid(kind, left, right, bits=widths)
        hs = [2.0 ** e for e in es]
        if [float(x) for x in g.get_h_per_variable()] != hs:
            rep.problem("fit_bits", "h is not (right-left)/(2^bits-1)", dict(fn="fit_bits", left=left, right=right, bits=widths),
                        "fit:h", True, [float(x) for x in g.get_h_per_variable()], hs, "C10_transform_point")
        if int(g.get_str_len()) != n:
            rep.problem("fit_bits", "get_str_len != sum of bits", dict(fn="fit_bits", bits=widths), "fit:str_len", True)
        for l, r, w, hh in zip(left, right, widths, g.get_h_per_variable()):
            f_fb.add(f"({C.cq(l)}, {C.cq(r)}, {w}%nat, {C.cq(float(hh))})", dict(fn="fit_bits", left=l, right=r, bits=w))
        rows_i = all_rows(n, np.int8)
        idx_all = np.arange(N, dtype=np.int64)
        ks, sh = [], n
        for w in widths:                               # chunk value straight from the row index
            sh -= w
            c = (idx_all >> sh) & ((1 << w) - 1)
            ks.append(gray_decode(c, w) if kind == "gray" else c)
        expected = np.stack([l + h * k for l, h, k in zip(left, hs, ks)], axis=1)
        outs = {}
        for dt in dtypes:
            arr = rows_i if dt is np.int8 else rows_i.astype(dt)
            out = g.transform(arr)
            outs[dt.__name__] = out
            key = (kind, tuple(widths), tuple(left), tuple(es), dt.__name__)
            rep.count("transform_exhaustive", key, n=N)
            rep.hist("total_bits", n)
            rep.hist("nvars", len(widths))
            base = dict(fn="transform", kind=kind, left=left, right=right, bits=list(widths), dtype=dt.__name__, exact=True)

            def viol(clause, i, what, sig):
                c = dict(base)
                c["rows"] = [rows_i[i].tolist()]
                rep.problem("transform", what, c, sig, True, out[i].tolist(), expected[i].tolist(), clause)

            if out.shape != expected.shape or out.dtype != np.float64:
                rep.problem("transform", "wrong shape/dtype of transform output", base, "transform:shape", True, list(out.shape))
                continue
            if not np.array_equal(out, expected):
                i = int(np.argmax(np.any(out != expected, axis=1)))
                viol("C10_transform_point", i, "transform(b) != left + h*k", "transform:point")
            if not np.array_equal(out[0], np.array(left)):
                viol("C10_zero_left", 0, "all-zero string does not map to left_border", "transform:zero-left")
            if kind == "binary" and not np.array_equal(out[-1], np.array(right)):
                viol("C10_ones_right", N - 1, "all-ones binary string does not map to right_border", "transform:ones-right")
            if kind == "gray":
                # the code of the largest index (1 0 0 ... per variable) maps to right_border
                top = np.concatenate([[1] + [0] * (w - 1) for w in widths])
                yi = g.transform(top[None, :].astype(dt))[0]
                if not np.array_equal(yi, np.array(right)):
                    rep.problem("transform", "Gray code of 2^w-1 does not map to right_border", dict(base, rows=[top.tolist()]),
                                "transform:gray-top", True, yi.tolist(), right, "C10_transform_point")
            lo, hi = np.array(left)[None, :], np.array(right)[None, :]
            if np.any(out < lo) or np.any(out > hi):
                i = int(np.argmax(np.any((out < lo) | (out > hi), axis=1)))
                viol("C10_in_box", i, "transform output outside the box", "transform:in-box")
            # injectivity: each coordinate is a bijective function of its own chunk only
            pre = 0
            for j, w in enumerate(widths):
                post = n - pre - w
                col = out[:, j].reshape(1 << pre, 1 << w, 1 << post)
                if not (np.all(col == col[:1, :, :1]) and len(np.unique(col[0, :, 0])) == (1 << w)):
                    viol("C10_injective", 0, f"coordinate {j} is not a bijective function of its own bits", "transform:injective")
                pre += w
            if N <= (1 << 16) and len(np.unique(out, axis=0)) != N:
                viol("C10_injective", 0, "two distinct strings give the same point", "transform:injective")
        names = list(outs)
        if len(names) == 2 and not np.array_equal(outs[names[0]], outs[names[1]]):
            rep.problem("transform", "int8 and float64 genotype arrays decode differently",
                        dict(fn="transform", kind=kind, left=left, right=right, bits=list(widths)), "transform:dtype", True)
        out = outs[names[0]]
        if out.shape != expected.shape:
            return
        # ---- model
        vs = cvars(left, right, widths)
        gflag = C.cbool(kind == "gray")
        if coq_all:
            for lo_ in range(0, N, BLOCK):
                f_tall.add(f"({gflag}, {vs}, {lo_}%Z, {C.clist(out[lo_:lo_ + BLOCK], cqs)})",
                           dict(fn="transform", kind=kind, left=left, right=right, bits=list(widths), exact=True,
                                rows=rows_i[lo_:lo_ + 2].tolist(), block=lo_))
        else:
            sel = np.unique(np.concatenate([[0, N - 1], nprng.randint(0, N, size=254)]))
            f_trow.add(f"({gflag}, {vs}, " + C.clist([f"({cbits(rows_i[i])}, {cqs(out[i])})" for i in sel]) + ")",
                       dict(fn="transform", kind=kind, left=left, right=right, bits=list(widths), exact=True,
                            rows=rows_i[sel[:4]].tolist()))
        # ---- inverse: full batch (contains the largest code), batches without it, single rows
        if n <= 16:
            check_inverse(kind, g, left, right, widths, out, rows_i, "full")
            mask = np.ones(N, dtype=bool)
            for k, w in zip(ks, widths):
                mask &= k < max(1, (1 << w) // 2)
            check_inverse(kind, g, left, right, widths, out[mask], rows_i[mask], "lower-half")
            check_inverse(kind, g, left, right, widths, out[:1], rows_i[:1], "zero-row")
            m0 = ks[0] < (1 << widths[0]) - 1
            check_inverse(kind, g, left, right, widths, out[m0], rows_i[m0], "var0-without-largest", max_coq=512)
        sel = np.sort(nprng.choice(N, size=min(N, 5), replace=False))
        check_inverse(kind, g, left, right, widths, out[sel], rows_i[sel], "random5")
        # ---- off-grid points incl. ties (x = l + h*(k + f), f in {0, 1/4, 1/2, 3/4}); all exact in floats
        M = 48
        cols, kk = [], []
        for l, h, w in zip(left, hs, widths):
            top = (1 << w) - 1
            k = nprng.randint(0, top, size=M)          # 0 .. top-1
            f = nprng.choice([0.0, 0.25, 0.5, 0.75], size=M)
            cols.append(l + h * (k + f))
            kk.append((k, f))
        x = np.stack(cols, axis=1)
        x = np.vstack([x, np.array(right)[None, :], np.array(left)[None, :]])
        o = check_inverse(kind, g, left, right, widths, x, None, "off-grid")
        if o is not None:
            back = g.transform(o)
            hh = np.array(hs)[None, :]
            if np.any(np.abs(back - x) > hh / 2):
                i = int(np.argmax(np.any(np.abs(back - x) > hh / 2, axis=1)))
                rep.problem("inverse", "transform(inverse_transform(x)) is not a nearest grid point",
                            dict(fn="inverse_transform", kind=kind, left=left, right=right, bits=list(widths), pop=[x[i].tolist()],
                                 exact=True), "inverse:nearest", True, back[i].tolist(), None, "C10_inverse_nearest")

    dts = (np.int8, np.float64)
    n_cfg = 0
    for kind in ("binary", "gray"):
        for w in range(1, WMAX + 1):
            for _ in range(ctx.pick(2, 3)):
                exhaustive_config(kind, [w], dts, True)
                n_cfg += 1
        for w1 in range(1, WMAX + 1):
            for w2 in range(1, WMAX + 1):
                exhaustive_config(kind, [w1, w2], dts, w1 + w2 <= NCOQ)
                n_cfg += 1
        for w1 in range(1, W3 + 1):
            for w2 in range(1, W3 + 1):
                for w3 in range(1, W3 + 1):
                    tot = w1 + w2 + w3
                    exhaustive_config(kind, [w1, w2, w3], dts if tot <= 14 else (np.int8,), tot <= ctx.pick(9, 10))
                    n_cfg += 1
    rep.hist("exhaustive_configs", n_cfg)
    C.log(f"[C10] exhaustive configs done {tm.s()}s")

    # ---------------------------------------------------------------- C. sampled rows: wide grids, random boxes, MLP grid, fit by h
    def sampled_config(kind, left, right, bits, exact, nrows, family, h_req=None, scalar=False, near_dup=False):
        g = make_grid(kind, left, right, bits=None if h_req else bits, h=h_req, scalar=scalar)
        bits = [int(b) for b in g.get_bits_per_variable()]
        n = sum(bits)
        rows = nprng.randint(0, 2, size=(nrows, n)).astype(np.int64)
        if near_dup:
            # a converged population: one parent and single-bit mutants of it (leading columns first, then random columns);
            # every row of a batch is decoded on its own, whatever the other rows are
            cols = list(range(min(n, (nrows - 4) // 2))) + [rng.randrange(n) for _ in range(nrows)]
            for i in range(4, nrows):
                rows[i] = rows[3]
                rows[i, cols[i - 4]] ^= 1
        rows[0, :] = 0
        rows[1, :] = 1
        pos = 0
        for w in bits:                                 # row 2: Gray/binary code with only the top bit set
            rows[2, pos:pos + w] = 0
            rows[2, pos] = 1
            pos += w
        ks = ref_indices(rows, bits, kind)
        for dt in dts:
            out = g.transform(rows.astype(dt))
            rep.count(family, (kind, tuple(bits), tuple(left), tuple(right), dt.__name__), n=nrows)
            rep.hist(family + ":nvars", len(bits))
            base = dict(fn="transform", kind=kind, left=list(left), right=list(right), bits=bits, dtype=dt.__name__, exact=exact)
            for j, (l, r, w) in enumerate(zip(left, right, bits)):
                hq = exact_h(l, r, w)
                tol = Fr(tol_of(l, r, exact))
                for i in range(nrows):
                    y = float(out[i, j])
                    exp = Fr(l) + hq * int(ks[j][i])
                    c = dict(base, rows=[rows[i].tolist()])
                    if abs(Fr(y) - exp) > tol:
                        rep.problem("transform", "transform(b) differs from left + h*k by more than the tolerance", c,
                                    "transform:point", True, y, float(exp), "C10_transform_point")
                    elif y > r:
                        rep.problem("transform", f"float transform exceeds right_border by {(y - r) / np.spacing(r):.1f} ulp", c,
                                    SIG_OVER, True, y, r, "C10_in_box")
                    elif y < l:
                        rep.problem("transform", "transform output below left_border", c, "transform:below-left", True, y, l,
                                    "C10_in_box")
        # a returned array is the caller's: a later call on the same grid (same shape, other strings) does not change it
        first = g.transform(rows.astype(np.int8))
        keep = first.copy()
        second = g.transform(rows[::-1].copy().astype(np.int8))
        back1 = g.inverse_transform(np.minimum(keep, np.array(right)[None, :]))
        keep_b = back1.copy()
        _ = g.inverse_transform(np.minimum(second, np.array(right)[None, :]))
        rep.count("result-ownership", (kind, tuple(bits), tuple(left), tuple(right)))
        if not np.array_equal(first, keep) or np.shares_memory(first, second) or not np.array_equal(back1, keep_b):
            rep.problem("transform", "the array returned by an earlier transform / inverse_transform call was changed by a later call on the same grid",
                        dict(fn="transform", kind=kind, left=list(left), right=list(right), bits=bits, rows=rows[:3].tolist(), sequence="transform(A); transform(reversed A)"),
                        "transform:result-overwritten", True, None, None, "C10_transform_point")
        out = g.transform(rows.astype(np.int8))
        body = C.clist([f"({cbits(rows[i])}, {cqs(out[i])})" for i in range(nrows)])
        tgt = f_trow if exact else f_tclo
        tgt.add(f"({C.cbool(kind == 'gray')}, {cvars(left, right, bits)}, {body})",
                dict(fn="transform", kind=kind, left=list(left), right=list(right), bits=bits, exact=exact, rows=rows[:3].tolist()))
        # inverse on the implementation's own grid points: distinct rows only (a batch), with / without the all-ones row
        urows, idx = np.unique(rows, axis=0, return_index=True)
        idx = np.sort(idx)
        pts = np.minimum(out[idx], np.array(right)[None, :])   # keep points inside the box (1-ulp overshoot is item 15)
        check_inverse(kind, g, list(left), list(right), bits, pts, rows[idx], family + "-grid-points", exact=exact)
        keep = idx[idx != 1]
        pts = np.minimum(out[keep], np.array(right)[None, :])
        check_inverse(kind, g, list(left), list(right), bits, pts, rows[keep], family + "-without-ones", exact=exact)
        return g, bits

    # wide exact grids (widths up to 16, 1-3 variables)
    for _ in range(ctx.pick(24, 120)):
        nv = rng.randint(1, 3)
        widths = [rng.randint(WMAX + 1 if nv == 1 else 4, 16) for _ in range(nv)]
        left, right, es = exact_box(widths)
        sampled_config(rng.choice(["binary", "gray"]), left, right, widths, True, 40, "wide-exact")
    # very wide exact grids: one variable of 17..50 bits (beyond any 16/32-bit shortcut), left = 0, h = 1: left + h*k is k exactly
    for j in range(ctx.pick(16, 80)):
        w = [17, 24, 31, 32, 33, 34, 40, 47, 50][j % 9] if j < 9 else rng.randint(17, 50)
        extra = [rng.randint(1, 6)] if rng.random() < 0.5 else []
        widths = [w] + extra
        left = [0.0] * len(widths)
        right = [float(2 ** x - 1) for x in widths]
        sampled_config(["gray", "binary"][j % 2] if j >= 9 else "gray" if j % 2 == 0 else "binary", left, right, widths, True, 24, "very-wide-exact")
    for w in (33, 40, 50):                               # both codecs at the widths a 32-bit shortcut would break
        sampled_config("gray", [0.0], [float(2 ** w - 1)], [w], True, 24, "very-wide-exact")
    # long strings (past 53 and 64 bits in total), batches of near-duplicates
    for widths in ([16] * 5, [8, 16, 3, 40], [16] * 4, [10] * 6, [16] * 12)[:ctx.pick(5, 5)]:
        left, right, es = exact_box(widths)
        for kind in ("gray", "binary"):
            sampled_config(kind, left, right, widths, True, 40, "long-near-duplicates", near_dup=True)
    # random non-dyadic boxes
    for _ in range(ctx.pick(60, 600)):
        nv = rng.randint(1, 3)
        widths = [rng.randint(1, 12) for _ in range(nv)]
        left = [rng.uniform(-100, 100) for _ in range(nv)]
        right = [l + rng.uniform(0.001, 200) for l in left]
        sampled_config(rng.choice(["binary", "gray"]), left, right, widths, False, 24, "random-box")
    # the MLP trainer's grid: GrayCode, [-10, 10], 16 bits, scalar arguments
    for kind in ("gray", "binary"):
        sampled_config(kind, [-10.0] * 3, [10.0] * 3, [16] * 3, False, 64, "mlp-grid", scalar=True)
    g = make_grid("gray", [-10.0], [10.0], bits=[16], scalar=True)
    rows16 = all_rows(16, np.int8)
    y = g.transform(rows16)[:, 0]
    k16 = gray_decode(np.arange(1 << 16, dtype=np.int64), 16)
    exp16 = -10.0 + (20.0 / 65535.0) * k16
    rep.count("mlp-grid-exhaustive", ("gray", 16), n=1 << 16)
    if np.any(np.abs(y - exp16) > 10 * ULP4) or y.min() < -10.0 or len(np.unique(y)) != (1 << 16):
        rep.problem("transform", "MLP grid (GrayCode, [-10,10], 16 bits): decoding is not left + h*k / not injective",
                    dict(fn="transform", kind="gray", left=[-10.0], right=[10.0], bits=[16], rows=[rows16[int(np.argmax(np.abs(y - exp16)))].tolist()]),
                    "transform:point", True, None, None, "C10_transform_point")
    if y.max() > 10.0:
        i = int(np.argmax(y))
        rep.problem("transform", "MLP grid exceeds right border", dict(fn="transform", kind="gray", left=[-10.0], right=[10.0],
                    bits=[16], rows=[rows16[i].tolist()]), SIG_OVER, True, float(y[i]), 10.0, "C10_in_box")

    # fit by h
    def fit_h_case(kind, left, right, h_req, exact, scalar=False):
        g = make_grid(kind, left, right, h=h_req, scalar=scalar)
        bits = [int(b) for b in g.get_bits_per_variable()]
        hs = [float(x) for x in g.get_h_per_variable()]
        rep.count("fit_h", (kind, tuple(left), tuple(right), tuple(h_req)))
        for j, (l, r, hr) in enumerate(zip(left, right, h_req)):
            case = dict(fn="fit_h", kind=kind, left=[l], right=[r], h_req=[hr])
            ew = exact_bits_from_h(l, r, hr)
            x = (Fr(r) - Fr(l)) / Fr(hr) + 1
            near = any(abs(x - 2 ** p) <= Fr(2 ** p) * Fr(2) ** -45 for p in range(0, 64))
            rep.hist("fit_h_bits", bits[j])
            if bits[j] < 1 or Fr(hs[j]) > Fr(hr) * (1 + Fr(2) ** -51):
                rep.problem("fit_h", "grid derived from a step h is coarser than h", case, "fit:coarser-than-requested", True,
                            dict(bits=bits[j], h=hs[j]), ew, "C10_bits_from_step")
            elif bits[j] != ew and not near:
                rep.problem("fit_h", "bits derived from h are not the least sufficient number", case, "fit:bits", True,
                            bits[j], ew, "C10_bits_from_step")
            if not near:
                f_fh.add(f"({C.cq(l)}, {C.cq(r)}, {C.cq(hr)}, {bits[j]}%nat, {C.cq(hs[j])})", case)
        return g, bits

    for w in range(1, ctx.pick(8, 12) + 1):
        for l in L_CHOICES[:4]:
            for e in (-2, 0, 1):
                r = l + (2 ** w - 1) * 2.0 ** e
                for dj in (-1, 0, 1, 2):
                    fit_h_case("binary", [l], [r], [2.0 ** (e + dj)], True, scalar=True)
    for _ in range(ctx.pick(150, 1500)):
        nv = rng.randint(1, 3)
        left = [rng.uniform(-50, 50) for _ in range(nv)]
        right = [l + rng.uniform(0.01, 100) for l in left]
        h_req = [(r - l) * rng.choice([rng.uniform(0.0005, 0.5), 10 ** rng.uniform(-4, 0.3)]) for l, r in zip(left, right)]
        fit_h_case(rng.choice(["binary", "gray"]), left, right, h_req, False)
    for _ in range(ctx.pick(10, 60)):     # h-driven grids are then used: transform/inverse on them
        nv = rng.randint(1, 3)
        left = [rng.choice(L_CHOICES) for _ in range(nv)]
        right = [l + rng.choice([1.0, 2.5, 10.0, 0.375]) for l in left]
        h_req = [rng.choice([0.1, 0.05, 0.25, 0.3, 0.01]) for _ in range(nv)]
        sampled_config(rng.choice(["binary", "gray"]), left, right, None, False, 16, "h-fitted", h_req=h_req)
    # the docstring example of the class
    g = SG().fit(left_border=0.0, right_border=1.0, num_variables=3, h_per_variable=0.1)
    if [int(b) for b in g.get_bits_per_variable()] != [4, 4, 4]:
        rep.problem("fit_h", "documented example: bits for h=0.1 on [0,1] are not 4", dict(fn="fit_h", kind="binary", left=[0.0], right=[1.0],
                    h_req=[0.1]), "fit:bits", True)
    rep.sample(dict(family="fit_h", left=0.0, right=1.0, h_req=0.1, bits=[int(b) for b in g.get_bits_per_variable()],
                    h=[float(x) for x in g.get_h_per_variable()]))
    g = make_grid("gray", [0.0, 0.0], [15.0, 15.0], bits=[4, 4])
    try:
        o = g.inverse_transform(np.array([[0.0, 0.0], [1.0, 3.0]])).tolist()
    except Exception as e:  # noqa: BLE001
        o = repr(e)
    rep.sample(dict(family="inverse", kind="gray", left=[0.0, 0.0], right=[15.0, 15.0], bits=[4, 4], pop=[[0, 0], [1, 3]], impl=o))

    C.log(f"[C10] sampled/fit done {tm.s()}s")
    # ---------------------------------------------------------------- lifecycle of ONE fitted object
    # "for a fitted grid": the decoding depends on the last fit() only - not on an earlier fit of the same object, and not on
    # what the caller does afterwards with the arrays it passed to fit()
    for _ in range(ctx.pick(30, 200)):
        kind = rng.choice(["binary", "gray"])
        nv = rng.randint(1, 3)
        b1 = [rng.randint(1, 4) for _ in range(nv)]
        b2 = list(b1)
        rng.shuffle(b2)
        if b2 == b1 or rng.random() < 0.3:
            b2 = [rng.randint(1, 4) for _ in range(nv)]
        boxes = []
        for _k in range(2):
            left = [rng.choice(L_CHOICES) for _ in range(nv)]
            boxes.append((left, [l + rng.choice([1.0, 2.5, 10.0, 0.375]) for l in left]))
        case = dict(fn="lifecycle", kind=kind, bits1=b1, bits2=b2, box1=boxes[0], box2=boxes[1])
        rep.count("lifecycle", (kind, tuple(b1), tuple(b2), tuple(boxes[0][0]), tuple(boxes[1][0])))
        for what, sig, got, want in lifecycle_case(case):
            rep.problem("lifecycle", what, case, sig, True, got, want, "C10_transform_grid")
    C.log(f"[C10] lifecycle done {tm.s()}s")
    # ---------------------------------------------------------------- evaluate the model on every case
    for name, fc in fam.f.items():
        bad, errors = fc.run()
        C.log(f"[C10] coq {name}: {len(fc)} cases {tm.s()}s")
        rep.hist("coq_cases", name + ":" + str(len(fc)))
        for e in errors:
            rep.problem(name, "model evaluation failed: %s" % (e,), {}, "model-eval", False)
        for i in bad[:20]:
            meta = fc.meta[i]
            sig = name + ":model-vs-impl"
            if name == "inverse" and any(p["signature"] == SIG_WIDTH for p in rep.problems):
                sig = SIG_WIDTH + ":model-vs-impl"
            rep.problem(name, "model and implementation disagree", meta, sig, False, None, None)
    rep.exhaustive = True
    rep.exhaustive_note = (f"all bit strings: 1 variable widths 1..{WMAX}; 2 variables all width pairs in 1..{WMAX}; 3 variables all "
                           f"triples with widths 1..{W3}; both kinds; int8+float64 genotypes (3 variables above 14 total bits: int8 only); "
                           f"Coq model on all rows when total bits <= {NCOQ} (3 vars: <= {ctx.pick(9, 10)}), 256 sampled rows otherwise; "
                           f"static codec methods all strings widths 1..{WMAX}; MLP grid all 65536 Gray strings (implementation side)")
