"""C14 — self-configuration keeps operator probabilities a distribution and uses them."""
from __future__ import annotations

import numpy as np

import common as C
import live as L
import loop_traces as LT
import mirror as MR

RULE = ("live runs (log mode) of SelfCGA, SelfCGP, PDPGA, PDPGP over operator subsets (singletons, with/without 'empty'), K, "
        "thresholds, population sizes, plateau objectives; every _adapt call is one one-step case: previous maps, operator "
        "labels, fitness, (PDP: remembered parent fitness) and the draws consumed -> next maps (2^-30 relative) and next "
        "operator labels (exact), checked by an independent Python recomputation of the documented rule and by the Coq "
        "model; every _get_new_individ_g call is compared with the operator triple drawn for that individual. "
        "distinct = (run, generation).")
ASSUMPTIONS = ["thresholds > 0 and z*threshold <= 1", "objective values finite",
               "ties of group means / draws within 2^-40 of a cumulative boundary are not distinguished"]
TRUSTED = ["models: coq/theories/SelfConf.v; checkers C14Check.v; mirror log mode for the draws of _choice_operators",
           "code translator harness/translate_code.py + coq/theories/Py.v: SelfCGA._get_new_proba (dict = value list in key order, key = position) proved == selfc_new_proba (theories/CodeEqC14.v)"]
THEORIES = ["Base", "RandomPrims", "RandomPrimsProofs", "SelfConf", "SelfConfProofs", "C11Check", "C07Check", "C14Check",
            "Py", "PyLemmas", "GenCode", "Adapt", "AdaptProofs", "CodeEqC07", "CodeEqC11", "CodeEqC15", "CodeEqAdapt", "CodeEqC14"]
IMPORTS = "From TF Require Import Base RandomPrims SelfConf C11Check C07Check C14Check."

GA_S = ["proportional", "rank", "tournament_3", "tournament_5", "tournament_7", "tournament_k"]
GA_C = ["empty", "one_point", "two_point", "uniform_2", "uniform_7", "uniform_prop_2", "uniform_rank_2", "uniform_tour_3", "uniform_k"]
GA_M = ["weak", "average", "strong", "custom_rate"]
GP_C = ["gp_empty", "gp_standard", "gp_one_point", "gp_uniform_2", "gp_uniform_rank_2", "gp_uniform_prop_2", "gp_uniform_tour_3"]
GP_M = ["gp_weak_point", "gp_average_point", "gp_strong_grow", "gp_weak_grow", "gp_weak_shrink", "gp_custom_rate_point"]


def qlist(xs):
    return C.clist([float(x) for x in xs], C.cq)


def maps_term(m):
    return f"{{| m_sel := {qlist(m[0])}; m_cx := {qlist(m[1])}; m_mu := {qlist(m[2])} |}}"


def ops_term(o):
    return f"{{| o_sel := {C.clist(o[0], C.cnat)}; o_cx := {C.clist(o[1], C.cnat)}; o_mu := {C.clist(o[2], C.cnat)} |}}"


def subset(rng, names, allow_single=True):
    k = rng.choice([1, 1, 2, 3, len(names)]) if allow_single else rng.choice([2, 3, len(names)])
    return tuple(rng.sample(names, min(k, len(names))))


def expected_selfc(p, labels, fit, K, iters, thr):
    """the documented rule, recomputed independently: winner = best mean offspring fitness (first in sorted-name
    order on ties) gains K/iters, all lose K/(z iters), clip to [thr,1], normalise"""
    z = len(p)
    means = {}
    for j in sorted(set(labels)):
        vals = [f for l, f in zip(labels, fit) if l == j]
        means[j] = sum(vals) / len(vals)
    w = max(means, key=lambda j: (means[j], -j))
    raw = [x + (K / iters if j == w else 0.0) - K / (z * iters) for j, x in enumerate(p)]
    c = [min(max(x, thr), 1.0) for x in raw]
    s = sum(c)
    return [x / s for x in c], means, w


def expected_pdp(z, labels, succ, thr):
    r = []
    for j in range(z):
        used = [s for l, s in zip(labels, succ) if l == j]
        r.append(0.0 if not used else (sum(used) ** 2 + 1) / (len(used) + 1))
    tot = sum(r)
    return [thr + x * ((1 - z * thr) / tot) for x in r]


def picks(p, us):
    cs = np.cumsum(np.array(p, dtype=np.float64))
    out = []
    for u in us:
        roll = cs[-1] * u
        out.append(next((i for i, x in enumerate(cs) if roll <= x), len(p) - 1))
    return out


def close(a, b, tol=1e-9):
    return len(a) == len(b) and all(abs(x - y) <= tol * (1 + abs(x)) for x, y in zip(a, b))


def gen(ctx):
    """(T) the SelfC* update rule is translated from optimizers/_selfcga.py on every run; fail closed"""
    import translate_code as TC
    TC.ensure(TC.C14_METHODS)


def run(ctx, rep):
    import thefittest.optimizers as O
    MR.build()
    f_sc = C.CoqCases(ctx.scratch, "selfc", IMPORTS, "chk_selfc", "Q * Q * (Q * Q * Q) * nat * maps * ops * list Q * list draw * maps * ops", shard=60)
    f_pd = C.CoqCases(ctx.scratch, "pdp", IMPORTS, "chk_pdp", "(Q * Q * Q) * nat * maps * ops * list Q * list Q * list draw * maps * ops", shard=60)
    f_in = C.CoqCases(ctx.scratch, "init", IMPORTS, "chk_init", "nat * option nat * list Q")
    uniset = LT.make_uniset()
    runs = []
    for kind in ("SelfCGA", "PDPGA", "SelfCGP", "PDPGP"):
        for _ in range(ctx.pick(4, 30)):
            runs.append(kind)
    # constructor corner: a single crossover named 'empty'
    runs.append(("SelfCGA", dict(crossovers=("empty",))))
    runs.append(("PDPGA", dict(crossovers=("empty",))))
    for run_no, item in enumerate(runs):
        kind, forced = (item, {}) if isinstance(item, str) else item
        gp = kind.endswith("GP")
        sels = subset(ctx.rng, GA_S)
        cxs = subset(ctx.rng, GP_C if gp else GA_C)
        mus = subset(ctx.rng, GP_M if gp else GA_M)
        pop = ctx.rng.randint(8, 12)
        iters = ctx.rng.randint(3, 6)
        K = ctx.rng.choice([0.5, 2.0, 4.0])
        thr = ctx.rng.choice([0.01, 0.05, 0.1])
        seed = ctx.rng.randrange(1 << 30)
        obj = L.Objective(ctx.rng.choice(["onemax", "plateau", "const", "weighted"]))
        if isinstance(item, str) and run_no % 2 == 1:
            # fitness values of wildly different magnitude in one population (maximised / minimised)
            obj = L.Objective("penalty" if run_no % 4 == 3 else "penalty_min")
        thr_c, thr_m = ctx.rng.choice([0.01, 0.05, 0.1, 0.2]), ctx.rng.choice([0.01, 0.05, 0.1, 0.2])
        if len(cxs) * thr_c > 1 or len(mus) * thr_m > 1:
            thr_c = thr_m = thr
        kw = dict(iters=iters, pop_size=pop, selections=sels, crossovers=cxs, mutations=mus, selection_threshold_proba=thr,
                  crossover_threshold_proba=thr_c, mutation_threshold_proba=thr_m, random_state=seed, tour_size=3, parents_num=3,
                  keep_history=True)
        if obj.kind == "penalty_min":
            kw["minimization"] = True
        if kind.startswith("SelfC"):
            kw["K"] = K
        else:
            for k in ("selection_threshold_proba", "crossover_threshold_proba", "mutation_threshold_proba"):
                kw.pop(k)
        kw.update(forced)
        cfg = {k: v for k, v in kw.items() if k not in ("random_state",)}
        cfg.update(kind=kind, K=K, seed=seed, objective=obj.kind)
        steps, calls, my_prev = [], [], []
        try:
            with L.log_mode():
                if gp:
                    opt = getattr(O, kind)(obj, uniset=uniset, max_level=5, **kw)
                else:
                    opt = getattr(O, kind)(obj, str_len=8, **kw)
                names = [sorted(opt._selection_set.keys()), sorted(opt._crossover_set.keys()), sorted(opt._mutation_set.keys())]
                thrs = [float(opt._thresholds[k]) for k in ("selection", "crossover", "mutation")]

                def state(opt=opt):
                    ms = [opt._selection_proba, opt._crossover_proba, opt._mutation_proba]
                    os_ = [getattr(opt, "_selection_operators", []), getattr(opt, "_crossover_operators", []), getattr(opt, "_mutation_operators", [])]
                    return ([list(m.keys()) for m in ms], [[float(v) for v in m.values()] for m in ms], [[str(x) for x in o] for o in os_])
                init_state = state()
                orig_adapt = opt._adapt

                def adapt(orig=orig_adapt, opt=opt):
                    start = len(MR.TAPE.log)
                    pre = state()
                    fit = [float(v) for v in opt._fitness_i]
                    prev = [float(v) for v in getattr(opt, "_previous_fitness_i", [])]
                    orig()
                    # prev_indep: the parent fitness values THIS optimizer recorded while creating the current population
                    steps.append(dict(pre=pre, post=state(), fit=fit, prev=prev, prev_indep=list(my_prev), draws=list(MR.TAPE.log[start:])))
                    del my_prev[:]
                opt._adapt = adapt
                orig_new = opt._get_new_individ_g

                def new(sn, cn, mn, orig=orig_new, opt=opt):
                    calls.append((len(steps), str(sn), str(cn), str(mn)))
                    out = orig(sn, cn, mn)
                    if kind.startswith("PDP") and len(getattr(opt, "_previous_fitness_i", [])):
                        my_prev.append(float(opt._previous_fitness_i[-1]))
                    return out
                opt._get_new_individ_g = new
                opt.fit()
        except ZeroDivisionError as e:
            rep.count("constructor", (kind, cxs, seed))
            rep.problem("constructor", f"{kind}(crossovers={kw['crossovers']}) raises ZeroDivisionError: a single 'empty' crossover is an admissible operator subset",
                        cfg, "selfc-ctor:single-empty-crossover", True, str(e), None, "C14_distribution")
            continue
        except Exception as e:   # noqa: BLE001
            import traceback
            rep.count("run-raised", (kind, seed))
            rep.problem("rule", f"{kind}: the run of an admissible configuration raised {type(e).__name__}: {e} after {len(steps)} adaptation steps "
                        f"(run number {rep.traces + 1} of this process; earlier runs of other instances may have left state behind)", cfg,
                        "run-raised", True, traceback.format_exc()[-800:], None, "C14_pdp_rule")
            continue
        rep.traces += 1
        rep.hist("kind", kind), rep.hist("z", (len(names[0]), len(names[1]), len(names[2])))
        # constructor maps
        for t, (keys, vals) in enumerate(zip(init_state[0], init_state[1])):
            z = len(keys)
            e = keys.index("empty") if (t == 1 and "empty" in keys) else None
            rep.count("init", (kind, tuple(keys)))
            if keys != names[t] or abs(sum(vals) - 1) > 1e-12 or any(v <= 0 for v in vals):
                rep.problem("init", "initial operator probabilities are not a distribution over exactly the configured names", dict(cfg, keys=keys, values=vals),
                            "init-distribution", True, vals, None, "C14_distribution")
            f_in.add(f"({C.cnat(z)}, {C.coption(e, C.cnat)}, {qlist(vals)})", dict(cfg, keys=keys, values=vals))
        for gi, st in enumerate(steps):
            (k0, p0, o0), (k1, p1, o1) = st["pre"], st["post"]
            where = dict(cfg=cfg, generation=gi)
            rep.count("step:" + kind, (seed, gi))
            lab0 = [[names[t].index(x) for x in o0[t]] for t in range(3)]
            lab1 = [[names[t].index(x) for x in o1[t]] for t in range(3)]
            us = [d[1] for d in st["draws"] if d[0] == "U"]
            # distribution after the update
            for t in range(3):
                z = len(names[t])
                floor = thrs[t] / (1 + z * thrs[t] + K / iters) if kind.startswith("SelfC") else thrs[t]
                if sorted(k1[t]) != names[t] or abs(sum(p1[t]) - 1) > 1e-9 or any(v <= 0 for v in p1[t]) or any(v < floor - 1e-12 for v in p1[t]):
                    rep.problem("distribution", "operator probabilities are not a strictly positive distribution over the configured names above the floor",
                                dict(where, kind_of_map=t, keys=k1[t], values=p1[t], floor=floor), "distribution", True, p1[t], None, "C14_distribution")
            if kind.startswith("SelfC"):
                exp = [expected_selfc(p0[t], lab0[t], st["fit"], K, iters, thrs[t])[0] for t in range(3)]
                changed = True
            else:
                if st["prev"] != st["prev_indep"]:
                    rep.problem("rule", f"{kind}: the parent-fitness buffer used for the success flags holds {len(st['prev'])} values, but this optimizer recorded "
                                f"{len(st['prev_indep'])} while creating the current population (state of another instance / an earlier run leaks in)",
                                dict(where, buffer=st["prev"][:12], recorded=st["prev_indep"][:12]), "pdp:foreign-parent-fitness", True, st["prev"][:12], st["prev_indep"][:12], "C14_pdp_rule")
                if not st["prev_indep"]:
                    exp, changed = p0, False
                else:
                    succ = [a < b for a, b in zip(st["prev_indep"], st["fit"])]
                    exp = [expected_pdp(len(names[t]), lab0[t], succ, thrs[t]) for t in range(3)]
                    changed = True
            for t in range(3):
                if not close(p1[t], exp[t]):
                    rep.problem("rule", "probabilities were not updated by the documented rule", dict(where, kind_of_map=t, previous=p0[t], labels=lab0[t], fitness=st["fit"]),
                                "update-rule", True, p1[t], exp[t], "C14_selfc_rule" if kind.startswith("SelfC") else "C14_pdp_rule")
            if changed:
                # the operators of the next generation must be drawn from the UPDATED maps with this step's draws
                if len(us) != 3 * pop:
                    rep.problem("redraw", "the operators that create the next generation were not re-drawn from the updated probabilities "
                                f"({len(us)} draws consumed instead of 3*pop_size)", dict(where, post_labels=lab1),
                                "pdp:no-redraw" if kind.startswith("PDP") else "redraw", True, len(us), 3 * pop, "C14_redraw_uses_updated")
                else:
                    for t in range(3):
                        # by NAME: the u-th draw selects the entry of the updated map (in the map's own order) whose
                        # cumulative interval contains u; the operator applied must carry that entry's name
                        pk_names = [k1[t][j] for j in picks(p1[t], us[t * pop:(t + 1) * pop])]
                        pk = [names[t].index(x) for x in pk_names]
                        if pk_names != o1[t]:
                            rep.problem("redraw", "operator labels are not the weighted picks of this generation's draws under the updated probabilities",
                                        dict(where, kind_of_map=t), "redraw", True, lab1[t], pk, "C14_redraw_uses_updated")
            if k0 != names or k1 != names:
                rep.hist("maps_not_in_sorted_order", kind)
                rep.problem("order", "the probability maps are not kept in sorted-name order (the model assumes the code's sorted dicts)", dict(where, keys=k1),
                            "maps-unsorted", False)
                continue
            ds = [d for d in st["draws"] if d[0] in ("U", "I")]
            case = dict(where, pre_maps=p0, pre_labels=lab0, fitness=st["fit"], previous=st["prev"], draws=ds, post_maps=p1, post_labels=lab1)
            if obj.kind.startswith("penalty") and len({float(v) for v in st["fit"]} & {-1e20, 1e20}) and kind.startswith("SelfC"):
                # float group means absorb the O(10) terms next to 1e20: an exact near-tie of two penalised groups is a float tie.
                # The documented rule is checked in float arithmetic above; the exact model only when the winner is clear of ties.
                import fractions as _fr
                skip = False
                for t in range(3):
                    ms = {}
                    for l, f in zip(lab0[t], st["fit"]):
                        ms.setdefault(l, []).append(_fr.Fraction(f))
                    mv = sorted((sum(v) / len(v) for v in ms.values()), reverse=True)
                    if len(mv) > 1 and abs(mv[0] - mv[1]) <= abs(mv[0]) * _fr.Fraction(1, 10 ** 9):
                        skip = True
                if skip:
                    rep.hist("exact_model_skipped_near_tie", kind)
                    continue
            if kind.startswith("SelfC"):
                f_sc.add(f"({C.cq(K)}, {C.cq(iters)}, ({C.cq(thrs[0])}, {C.cq(thrs[1])}, {C.cq(thrs[2])}), {C.cnat(pop)}, {maps_term(p0)}, {ops_term(lab0)}, "
                         f"{qlist(st['fit'])}, {C.cdraws(ds)}, {maps_term(p1)}, {ops_term(lab1)})", case)
            else:
                f_pd.add(f"(({C.cq(thrs[0])}, {C.cq(thrs[1])}, {C.cq(thrs[2])}), {C.cnat(pop)}, {maps_term(p0)}, {ops_term(lab0)}, {qlist(st['prev'])}, "
                         f"{qlist(st['fit'])}, {C.cdraws(ds)}, {maps_term(p1)}, {ops_term(lab1)})", case)
        # one operator triple per individual: the i-th new individual of generation g uses the i-th drawn triple
        by_gen = {}
        for g, sn, cn, mn in calls:
            by_gen.setdefault(g, []).append((sn, cn, mn))
        for g, triples in by_gen.items():
            o = steps[g - 1]["post"][2] if g >= 1 else None
            if o is None:
                continue
            exp = list(zip(o[0], o[1], o[2]))
            rep.count("triples", (seed, g))
            if triples != exp:
                rep.problem("triples", "the operator triple applied to individual i is not the triple drawn for it", dict(cfg=cfg, generation=g),
                            "triples", True, triples[:3], exp[:3], "C14_redraw_uses_updated")
        if steps:
            rep.sample(dict(cfg=cfg, first_step=dict(pre=steps[0]["pre"][1], post=steps[0]["post"][1], n_draws=len(steps[0]["draws"]))))
    for fc in (f_sc, f_pd, f_in):
        bad, errors = fc.run()
        rep.hist("coq_cases", fc.name + ":" + str(len(fc)))
        for e in errors:
            rep.problem(fc.name, "model evaluation failed: %s" % (e,), {}, "model-eval", False)
        for i in bad[:15]:
            rep.problem(fc.name, "model and implementation disagree on the adaptation step", fc.meta[i], fc.name + ":model-vs-impl", False)


def replay(ctx, rp):
    return None      # generic replay of harness/main.py (re-executes the check, looks for the recorded signature)
