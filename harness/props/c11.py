"""C11 — selection and sampling primitives: correspondence model <-> implementation."""
from __future__ import annotations

import itertools
import math

import numpy as np

import common as C
import mirror as MR

RULE = ("families: bsi/argsort_k/find_pbest_id/minmax exhaustively over lattice vectors {0..3}^n (n<=4 quick, "
        "<=5 thorough) compiled vs mirror vs Coq model; random_sample/weighted/tournament/sattolo/randint "
        "with ALL outcomes of the random draws enumerated in script mode (u on a 1/8 or 1/16 grid plus "
        "0, 2^-53, 1-2^-53) vs model; seeded compiled runs vs log-mode mirror (same stream) vs model. "
        "Tournament winners additionally over fitness values from {-inf, finfo.min, -2, 1} (implementation against the statement: the "
        "rational model has no infinities). A case is non-trivial/distinct by (family, input, draws).")
ASSUMPTIONS = ["primitives return values in their documented range", "weights/fitness finite (no NaN)",
               "rejection loops terminate (partial correctness)"]
TRUSTED = ["models: coq/theories/RandomPrims.v; check functions coq/theories/C11Check.v"]
THEORIES = ["Base", "RandomPrims", "RandomPrimsProofs", "RandomPrimsProofs2", "SattoloCycle", "C11Check",
            "Py", "PyLemmas", "GenCode", "CodeEqC11"]
TRUSTED += ["code translator harness/translate_code.py (function bodies -> gen/GenCode.v) and the semantics it targets, "
            "coq/theories/Py.v: the models are PROVED equal to the generated definitions (theories/CodeEqC11.v)"]


def gen(ctx):
    """(T) regenerate gen/GenCode.v from the function bodies in the working tree; fail closed"""
    import translate_code as TC
    TC.ensure(TC.C11_FUNCS)


IMPORTS = "From TF Require Import Base RandomPrims C11Check."
EPS = 2.0 ** -53
U_SPECIAL = [0.0, EPS, 1.0 - EPS]


def q_list(xs):
    return C.clist(xs, C.cq)


def z_list(xs):
    return C.clist(xs, C.cz)


def nat_list(xs):
    return C.clist(xs, C.cnat)


def lattice(n, vals=(0, 1, 2, 3)):
    return itertools.product(vals, repeat=n)


# ----------------------------------------------------------------------- python-side property predicates
def ok_interval(v, c, i):
    """first index with v <= c_i, else last (c non-decreasing)"""
    exp = next((k for k, x in enumerate(c) if v <= x), len(c) - 1)
    return i == exp


def ok_topk(a, k, r):
    n = len(a)
    if sorted(r) != list(range(n)):
        return False
    return all(a[r[q]] <= a[r[p]] for p in range(k) for q in range(p, n))


def is_cycle(arr, out):
    n = len(arr)
    if sorted(arr) != sorted(out):
        return False
    if n < 2:
        return True
    pos = {v: i for i, v in enumerate(arr)}
    # successor: value at position p moves ... follow p -> position of out[p] in arr
    p, seen = 0, 0
    while True:
        p = pos[out[p]]
        seen += 1
        if p == 0:
            break
        if seen > n:
            return False
    return seen == n


def run(ctx, rep):
    MR.build()
    nmax = ctx.pick(4, 5)
    ugrid = [k / 8 for k in range(8)] if ctx.quick else [k / 16 for k in range(16)]
    ugrid = sorted(set(ugrid + U_SPECIAL))
    fams = {}

    def fam(name, check, ctype):
        fams[name] = C.CoqCases(ctx.scratch, name, IMPORTS, check, ctype)
        return fams[name]

    f_bsi = fam("bsi", "chk_bsi", "Q * list Q * nat")
    f_as = fam("argsort", "chk_argsort", "list Q * nat * list nat")
    f_pb = fam("pbest", "chk_pbest", "list Q * Q * list nat")
    f_mm = fam("minmax", "chk_minmax", "list Q * list Q")
    f_rs = fam("random_sample", "chk_random_sample", "Z * nat * bool * list draw * list Z")
    f_ws = fam("weighted", "chk_weighted", "list Q * nat * bool * list draw * list Z")
    f_ts = fam("tournament", "chk_tournament", "list Q * nat * nat * list draw * list Z")
    f_sa = fam("sattolo", "chk_sattolo", "list Z * list draw * list Z")
    f_ri = fam("randint", "chk_randint", "Z * Z * nat * list draw * list Z")
    f_fc = fam("flip", "chk_flip", "Q * list draw * bool")

    c_bsi = MR.compiled("thefittest.utils.binary_search_interval")
    m_bsi = MR.get("thefittest.utils.binary_search_interval")
    c_ask = MR.compiled("thefittest.utils.argsort_k")
    m_ask = MR.get("thefittest.utils.argsort_k")
    c_pb = MR.compiled("thefittest.utils.find_pbest_id")
    m_pb = MR.get("thefittest.utils.find_pbest_id")
    from thefittest.utils.transformations import minmax_scale

    def three_way(family, case, fc, fm, args_fn, canon=lambda x: [int(v) for v in x]):
        """compiled vs mirror; returns compiled output (canonical) or None when they differ"""
        out_c = canon(fc(*args_fn()))
        try:
            out_m = canon(fm(*args_fn()))
        except Exception as e:  # python semantics differs from the compiled code
            out_m = f"{type(e).__name__}: {e}"
        if out_c != out_m:
            return out_c, out_m
        return out_c, None

    # ---------------- long wheels (populations of tens to hundreds of individuals): every boundary, both neighbours of every boundary,
    #                  below the first and above the last cumulative weight
    for n in (16, 17, 18, 33, 64, 130):
        wts = [float(ctx.rng.choice([0, 1, 1, 2, 3])) for _ in range(n)]
        wts[0] = float(ctx.rng.choice([1, 2]))          # a first interval of positive length
        cs = list(np.cumsum(np.array(wts)))
        probes = sorted(set([-1.0, 0.0, 0.25, cs[0] / 2, cs[0]] + [c + d for c in cs for d in (-0.5, 0.0, 0.5)]))
        for v in probes:
            case = dict(fn="binary_search_interval", value=v, intervals=cs)
            o, diff = three_way("bsi", case, c_bsi, m_bsi, lambda: (np.float64(v), np.array(cs, dtype=np.float64)), canon=int)
            rep.count("bsi-long", (v, n, tuple(cs[:4])))
            if diff is not None:
                rep.problem("bsi", "compiled and mirror disagree", case, "bsi:compiled-vs-mirror", False, o, diff)
            if not ok_interval(v, cs, o):
                rep.problem("bsi", "binary_search_interval does not return the interval containing the value (a wheel of %d entries)" % n,
                            case, "bsi:interval", True, o, None, "C11_interval")
            if n <= 33:
                f_bsi.add(f"({C.cq(v)}, {q_list(cs)}, {C.cnat(o)})", case)
    # ---------------- deterministic helpers over the lattice
    for n in range(1, nmax + 1):
        for w in lattice(n):
            a = [float(x) for x in w]
            # cumulative sums (non-decreasing) as intervals
            cs = list(np.cumsum(np.array(a)))
            for v2 in range(-1, int(2 * cs[-1]) + 3):
                v = v2 / 2.0
                case = dict(fn="binary_search_interval", value=v, intervals=cs)
                o, diff = three_way("bsi", case, c_bsi, m_bsi,
                                    lambda: (np.float64(v), np.array(cs, dtype=np.float64)), canon=int)
                rep.count("bsi", (v, tuple(cs)))
                if diff is not None:
                    rep.problem("bsi", "compiled and mirror disagree", case, "bsi:compiled-vs-mirror", False, o, diff)
                if not ok_interval(v, cs, o):
                    rep.problem("bsi", "binary_search_interval does not return the interval containing the value",
                                case, "bsi:interval", True, o, None, "C11_interval")
                f_bsi.add(f"({C.cq(v)}, {q_list(cs)}, {C.cnat(o)})", case)
            for k in range(0, n + 1):
                case = dict(fn="argsort_k", array=a, k=k)
                o, diff = three_way("argsort", case, c_ask, m_ask, lambda: (np.array(a, dtype=np.float64), np.int64(k)))
                rep.count("argsort", (tuple(a), k))
                bad = not ok_topk(a, k, o)
                if diff is not None:
                    rep.problem("argsort", "compiled and mirror disagree (python semantics: %s)" % (diff,), case,
                                "argsort_k:stale-max-id", bad, o, diff, "C11_argsort_k")
                elif bad:
                    rep.problem("argsort", "first k entries of argsort_k do not index the k largest values", case,
                                "argsort_k:stale-max-id", True, o, None, "C11_argsort_k")
                f_as.add(f"({q_list(a)}, {C.cnat(k)}, {nat_list(o)})", case)
            for p in (0.0, 0.05, 0.25, 0.5, 0.75, 1.0):
                case = dict(fn="find_pbest_id", array=a, p=p)
                o, diff = three_way("pbest", case, c_pb, m_pb, lambda: (np.array(a, dtype=np.float64), np.float64(p)))
                rep.count("pbest", (tuple(a), p))
                cnt = max(1, int(p * n))
                rest = [a[j] for j in range(n) if j not in o]
                bad = (len(o) != cnt or len(set(o)) != cnt or any(not (0 <= j < n) for j in o)
                       or any(y > a[x] for x in o if 0 <= x < n for y in rest))
                if diff is not None or bad:
                    rep.problem("pbest", "p-best set is not the max(1,floor(p n)) fittest" if bad else
                                "compiled and mirror disagree", case, "argsort_k:stale-max-id", bad, o, diff, "C11_pbest")
                f_pb.add(f"({q_list(a)}, {C.cq(p)}, {nat_list(o)})", case)
            # minmax_scale (plain python/numpy function)
            arr = np.array(a, dtype=np.float64)
            before = arr.copy()
            s = minmax_scale(arr)
            case = dict(fn="minmax_scale", data=a)
            rep.count("minmax", tuple(a))
            bad = (len(s) != n or np.any(s < 0) or np.any(s > 1) or not np.array_equal(arr, before)
                   or (max(a) == min(a) and not np.all(s == 1))
                   or (max(a) != min(a) and (s[int(np.argmax(arr))] != 1 or s[int(np.argmin(arr))] != 0)))
            if bad:
                rep.problem("minmax", "minmax_scale contract violated", case, "minmax", True, s, None, "C11_minmax")
            f_mm.add(f"({q_list(a)}, {q_list(list(s))})", case)
    # minmax_scale far from the origin / at tiny magnitudes: a NON-constant vector must not be treated as constant
    # (values are exactly representable; the scaled values are compared with the exact quotient within 4 ulp)
    import fractions as _fr
    for base, step in ((1e6, 1.0), (2.0 ** 40, 1.0), (-1e6, 0.5), (1.0, 2.0 ** -30), (0.0, 2.0 ** -40), (1e6, 2.0 ** -10), (2.0 ** -30, 2.0 ** -60)):
        for pat in ((0, 1, 2), (2, 0, 1, 1), (0, 3), (1, 1, 0, 1)):
            a = [base + step * k for k in pat]
            arr = np.array(a, dtype=np.float64)
            s = minmax_scale(arr.copy())
            case = dict(fn="minmax_scale", data=a)
            rep.count("minmax-far", tuple(a))
            mx, mn = max(a), min(a)
            exp = [float(_fr.Fraction(x) - _fr.Fraction(mn)) / float(_fr.Fraction(mx) - _fr.Fraction(mn)) for x in a]
            if len(s) != len(a) or any(abs(float(u) - v) > 4 * 2.0 ** -52 for u, v in zip(s, exp)):
                rep.problem("minmax", "minmax_scale of a non-constant vector is not (x - min)/(max - min)", case, "minmax", True, list(map(float, s)), exp, "C11_minmax")
    rep.sample(dict(family="argsort", array=[1.0, 4.0, 9.0, 3.0], k=2,
                    impl=[int(v) for v in c_ask(np.array([1.0, 4.0, 9.0, 3.0]), 2)]))

    # ---------------- scripted: all outcomes of the draws
    def to_draws(log):
        return C.cdraws([d if d[0] != "U" else ("U", d[1]) for d in log])

    # random_sample
    for n in range(1, ctx.pick(4, 5) + 1):
        for q in range(0, n + 1):
            for replace in (True, False):
                for script, r in MR.enumerate_outcomes("thefittest.utils.random.random_sample",
                                                       lambda: (np.int64(n), np.int64(q), replace), [],
                                                       max_depth=q + (0 if replace else 2)):
                    o = [int(v) for v in r]
                    case = dict(fn="random_sample", n=n, quantity=q, replace=replace, draws=script)
                    rep.count("random_sample", (n, q, replace, tuple(script)), nontrivial=q > 0)
                    bad = len(o) != q or any(not (0 <= v < n) for v in o) or (not replace and len(set(o)) != q)
                    if bad:
                        rep.problem("random_sample", "random_sample contract violated", case, "random_sample", True, o,
                                    None, "C11_sample_distinct")
                    f_rs.add(f"({C.cz(n)}, {C.cnat(q)}, {C.cbool(replace)}, {to_draws(script)}, {z_list(o)})", case)
    # weighted sample (one pick, every u on the grid; two picks on a coarser set)
    for n in range(1, nmax + 1):
        for w in lattice(n):
            if sum(w) == 0:
                continue
            wf = [float(x) for x in w]
            for u in ugrid:
                script = [("U", u)]
                r, log, left = MR.run_script("thefittest.utils.random.random_weighted_sample", script,
                                             np.array(wf), np.int64(1), True)
                o = [int(v) for v in r]
                case = dict(fn="random_weighted_sample", weights=wf, quantity=1, replace=True, draws=script)
                rep.count("weighted", (tuple(w), u))
                cs = np.cumsum(np.array(wf))
                roll = cs[-1] * u
                if not ok_interval(roll, list(cs), o[0]):
                    rep.problem("weighted", "pick is not the index whose cumulative-weight interval contains u*S",
                                case, "weighted:interval", True, o, None, "C11_weighted_pick")
                elif wf[o[0]] == 0:
                    sig = "random_weighted_sample:u=0:zero-weight-index-0" if (u == 0.0 and o[0] == 0) else "weighted:zero-weight"
                    rep.problem("weighted", "zero-weight index chosen while positive weights exist (u=%r)" % u, case,
                                sig, True, o, None, "C11_zero_weight_excluded")
                f_ws.add(f"({q_list(wf)}, 1%nat, true, {to_draws(script)}, {z_list(o)})", case)
    # without replacement (rejection loop): every outcome for two / three picks on a coarse u grid
    cgrid = [0.0, 0.2, 0.45, 0.7, 1.0 - EPS]
    for w in [(1, 1), (1, 2, 1), (2, 0, 1, 1), (1, 1, 1, 1)]:
        wf = [float(x) for x in w]
        npos = sum(1 for x in w if x > 0)
        for q in range(1, min(3, npos) + 1):
            for script, r in MR.enumerate_outcomes("thefittest.utils.random.random_weighted_sample",
                                                   lambda: (np.array(wf), np.int64(q), False), cgrid, max_depth=q + 2):
                o = [int(v) for v in r]
                case = dict(fn="random_weighted_sample", weights=wf, quantity=q, replace=False, draws=script)
                rep.count("weighted-noreplace", (tuple(w), q, tuple(script)))
                if len(o) != q or len(set(o)) != q or any(not (0 <= v < len(w)) for v in o):
                    rep.problem("weighted", "sampling without replacement did not yield distinct in-range values", case,
                                "weighted:noreplace", True, o, None, "C11_sample_distinct")
                f_ws.add(f"({q_list(wf)}, {C.cnat(q)}, false, {to_draws(script)}, {z_list(o)})", case)
    rep.hist("ugrid", len(ugrid))
    # measure form of "frequencies follow the weights": on a fine grid the share of u mapped to i is w_i/S
    for w in [(1, 2, 1), (0, 3, 1), (2, 0, 0, 2), (1, 1, 1, 1, 4)]:
        wf = np.array([float(x) for x in w])
        N = 64 * int(sum(w))
        cnt = [0] * len(w)
        for k in range(N):
            r, _, _ = MR.run_script("thefittest.utils.random.random_weighted_sample", [("U", (k + 0.5) / N)], wf, np.int64(1), True)
            cnt[int(r[0])] += 1
        rep.count("weighted-measure", tuple(w), n=N)
        if cnt != [64 * x for x in w]:
            rep.problem("weighted", "share of the unit interval mapped to each index is not w_i/S",
                        dict(weights=list(w), counts=cnt, N=N), "weighted:measure", True, cnt, None, "C11_weighted_pick")
    # tournament: all index-draw outcomes for small n
    for n in range(1, ctx.pick(3, 4) + 1):
        # tournaments compare RAW fitness (SHAGA hands -f(x) under minimization): negative, all-negative and zero values included
        for w in lattice(n, (-2, -1, 0, 2) if n <= 3 else (-1, 0, 2)):
            ft = [float(x) for x in w]
            for tour in range(1, n + 1):
                for script, r in MR.enumerate_outcomes("thefittest.utils.selections.tournament_selection",
                                                       lambda: (np.array(ft), np.array(ft), np.int64(tour), np.int64(1)),
                                                       [], max_depth=tour + 1):
                    o = [int(v) for v in r]
                    case = dict(fn="tournament_selection", fitness=ft, tour_size=tour, quantity=1, draws=script)
                    rep.count("tournament", (tuple(w), tour, tuple(script)))
                    # contestants = distinct values of the script in order
                    cont = []
                    for d in script:
                        if d[2] not in cont:
                            cont.append(d[2])
                    bad = (len(o) != 1 or o[0] not in cont or len(cont) != tour
                           or any(ft[j] > ft[o[0]] for j in cont))
                    if bad:
                        rep.problem("tournament", "winner is not a fittest of tour_size distinct contestants", case,
                                    "tournament", True, o, None, "C11_tournament")
                    f_ts.add(f"({q_list(ft)}, {C.cnat(tour)}, 1%nat, {to_draws(script)}, {z_list(o)})", case)
    # ... and at the bottom of the value domain: -inf and the library's own clip value finfo.min (MIN_VALUE) among the contestants — the winner
    # is still one of the contestants and a fittest one (implementation against the statement; the rational model has no infinities)
    import itertools
    lowvals = (float("-inf"), float(np.finfo(np.float64).min), -2.0, 1.0)
    for n in range(1, 4):
        for ft in itertools.product(lowvals, repeat=n):
            for tour in range(1, n + 1):
                for script, r in MR.enumerate_outcomes("thefittest.utils.selections.tournament_selection",
                                                       lambda: (np.array(ft), np.array(ft), np.int64(tour), np.int64(1)),
                                                       [], max_depth=tour + 1):
                    o = [int(v) for v in r]
                    rep.count("tournament-low-values", (tuple(map(str, ft)), tour, tuple(script)), nontrivial=False)
                    cont = []
                    for d in script:
                        if d[2] not in cont:
                            cont.append(d[2])
                    if len(o) != 1 or o[0] not in cont or len(cont) != tour or any(ft[j] > ft[o[0]] for j in cont):
                        rep.problem("tournament", "winner is not a fittest of tour_size distinct contestants (fitness values -inf / finfo.min among them)",
                                    dict(fn="tournament_selection", fitness=[str(x) for x in ft], tour_size=tour, quantity=1, draws=script),
                                    "tournament", True, o, None, "C11_tournament")
    # sattolo: all outcomes on the u grid for n <= 4 (5 thorough); cyclicity checked on the implementation
    sgrid = sorted(set([k / 4 for k in range(4)] + U_SPECIAL)) if ctx.quick else sorted(set([k / 8 for k in range(8)] + U_SPECIAL))
    for n in range(1, ctx.pick(4, 5) + 1):
        arr = list(range(10, 10 + n))
        for script, r in MR.enumerate_outcomes("thefittest.utils.random.sattolo_shuffle",
                                               lambda: (np.array(arr, dtype=np.int64),), sgrid, max_depth=n):
            o = [int(v) for v in r]
            case = dict(fn="sattolo_shuffle", arr=arr, draws=script)
            rep.count("sattolo", (n, tuple(script)), nontrivial=n > 1)
            if not is_cycle(arr, o):
                rep.problem("sattolo", "sattolo_shuffle output is not a cyclic permutation of its input", case,
                            "sattolo", True, o, None, "C11_sattolo_cyclic")
            f_sa.add(f"({z_list(arr)}, {to_draws(script)}, {z_list(o)})", case)
    # randint / flip_coin
    for lo, hi in [(0, 1), (0, 5), (-3, 4), (2, 10)]:
        for u in ugrid:
            script = [("U", u), ("U", 1.0 - EPS)]
            r, log, left = MR.run_script("thefittest.utils.random.randint", script, np.int64(lo), np.int64(hi), np.int64(2))
            o = [int(v) for v in r]
            case = dict(fn="randint", low=lo, high=hi, size=2, draws=script)
            rep.count("randint", (lo, hi, u))
            if any(not (lo <= v < hi) for v in o) or len(o) != 2:
                rep.problem("randint", "randint outside [low, high)", case, "randint", True, o, None, "C11_randint_range")
            f_ri.add(f"({C.cz(lo)}, {C.cz(hi)}, 2%nat, {to_draws(script)}, {z_list(o)})", case)
    for t in (0.0, 0.25, 0.5, 1.0):
        for u in ugrid:
            r, log, left = MR.run_script("thefittest.utils.random.flip_coin", [("U", u)], np.float64(t))
            rep.count("flip", (t, u))
            if bool(r) != (u < t):
                rep.problem("flip", "flip_coin(threshold) is not u < threshold", dict(t=t, u=u), "flip", True, bool(r))
            f_fc.add(f"({C.cq(t)}, {to_draws([('U', u)])}, {C.cbool(bool(r))})", dict(t=t, u=u))

    # ---------------- seeded: compiled vs log-mode mirror (same stream) vs model
    c_ts = MR.compiled("thefittest.utils.selections.tournament_selection")
    c_ps = MR.compiled("thefittest.utils.selections.proportional_selection")
    c_rk = MR.compiled("thefittest.utils.selections.rank_selection")
    c_sat = MR.compiled("thefittest.utils.random.sattolo_shuffle")
    nseeds = ctx.pick(60, 600)
    for s in range(nseeds):
        seed = ctx.rng.randrange(1 << 30)
        n = ctx.rng.randint(2, 9)
        ft = [float(ctx.rng.randint(0, 6)) for _ in range(n)]
        if sum(ft) == 0:
            ft[0] = 1.0
        rk = [float(ctx.rng.randint(1, 5)) for _ in range(n)]
        tour = ctx.rng.randint(1, n)
        qty = ctx.rng.randint(1, 6)
        for name, fc, args in (
            ("tournament_selection", c_ts, (np.array(ft) - (3.0 if s % 2 else 0.0), np.array(rk), np.int64(tour), np.int64(qty))),
            ("proportional_selection", c_ps, (np.array(ft), np.array(rk), np.int64(tour), np.int64(qty))),
            ("rank_selection", c_rk, (np.array(ft), np.array(rk), np.int64(tour), np.int64(qty))),
        ):
            MR.seed(seed)
            oc = [int(v) for v in fc(*args)]
            MR.seed(seed)
            om, log = MR.run_log("thefittest.utils.selections." + name, *args)
            om = [int(v) for v in om]
            case = dict(fn=name, fitness=[float(v) for v in args[0]], rank=rk, tour_size=tour, quantity=qty, seed=seed, draws=log)
            rep.count("seeded-" + name, (seed, name))
            rep.traces += 1
            if oc != om:
                rep.problem("seeded", f"compiled {name} and log-mode mirror disagree under the same seed", case,
                            "seeded:compiled-vs-mirror", False, oc, om)
            bad = len(oc) != qty or any(not (0 <= v < n) for v in oc)
            if name == "proportional_selection":
                bad = bad or any(ft[v] == 0 for v in oc if 0 <= v < n)
            if bad:
                rep.problem("seeded", f"{name}: wrong count / invalid index / zero-weight pick", case, "seeded:" + name,
                            True, oc, None, "C11_selection_count_range")
            if name == "tournament_selection":
                f_ts.add(f"({q_list([float(v) for v in args[0]])}, {C.cnat(tour)}, {C.cnat(qty)}, {to_draws(log)}, {z_list(oc)})", case)
            else:
                wv = ft if name == "proportional_selection" else rk
                f_ws.add(f"({q_list(wv)}, {C.cnat(qty)}, true, {to_draws(log)}, {z_list(oc)})", case)
        arr = list(range(n))
        MR.seed(seed)
        oc = [int(v) for v in c_sat(np.array(arr, dtype=np.int64))]
        MR.seed(seed)
        om, log = MR.run_log("thefittest.utils.random.sattolo_shuffle", np.array(arr, dtype=np.int64))
        case = dict(fn="sattolo_shuffle", arr=arr, seed=seed, draws=log)
        rep.count("seeded-sattolo", seed)
        rep.traces += 1
        if oc != [int(v) for v in om]:
            rep.problem("seeded", "compiled sattolo_shuffle and log-mode mirror disagree", case, "seeded:compiled-vs-mirror", False, oc, om)
        if not is_cycle(arr, oc):
            rep.problem("sattolo", "sattolo_shuffle output is not a cyclic permutation", case, "sattolo", True, oc, None, "C11_sattolo_cyclic")
        f_sa.add(f"({z_list(arr)}, {to_draws(log)}, {z_list(oc)})", case)
        if s == 0:
            rep.sample(case)

    # ---------------- evaluate the model on every case
    for name, fc in fams.items():
        bad, errors = fc.run()
        rep.hist("coq_cases", name + ":" + str(len(fc)))
        for e in errors:
            rep.problem(name, "model evaluation failed: %s" % (e,), {}, "model-eval", False)
        for i in bad[:20]:
            already = any(p["case"] == C.jsonable(fc.meta[i]) and p["prop_violated"] for p in rep.problems)
            rep.problem(name, "model and implementation disagree", fc.meta[i], name + ":model-vs-impl", False,
                        None, None if already else fc.explain(i, "c"))
    rep.exhaustive = True
    rep.exhaustive_note = (f"lattice {{0..3}}^n, n<={nmax}: bsi, argsort_k (all k), find_pbest_id, minmax_scale; all draw "
                           f"outcomes: random_sample n<={ctx.pick(4,5)}, tournament n<={ctx.pick(3,4)}, sattolo n<={ctx.pick(4,5)} on the u grid")


def replay(ctx, rp):
    return None      # generic replay of harness/main.py
