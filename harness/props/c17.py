"""C17 — recorded history is complete, immutable and isolated from the caller."""
from __future__ import annotations

import numpy as np

import live as L
import loop_traces as LT
from props import _loop

ESCALATE = True     # cheap thorough tier: run it whenever an anchor file differs from the pinned fingerprint
RULE = ("live runs of all ten optimizer classes (byte, float and object-array genotypes; early termination; iters=1): one "
        "history entry per executed generation in every series; every entry compared at the END of the run with the deep copy "
        "the harness took when it was recorded; max_fitness/max_g/max_ph = first arg-max of fitness; population_g[0] = supplied "
        "init_population; keep_history=False records nothing; np.shares_memory / `is` between entries and live arrays; caller's "
        "init_population / fitness_function_args / genotype_to_phenotype_args hashed before and after; get_fittest() objects "
        "overwritten by the caller; every trace replayed through the Coq loop model incl. its history. distinct = configuration.")
THEORIES, TRUSTED, ASSUMPTIONS = _loop.THEORIES, _loop.TRUSTED, _loop.ASSUMPTIONS
gen = _loop.gen


def predicate(tr, rep):
    cfg, st, opt = tr["cfg"], tr["stats"], tr["opt"]
    gens = len(tr["batches"])
    where = dict(cfg=cfg, generations=gens)
    if not cfg["keep_history"]:
        if len(st) != 0:
            rep.problem("history", "keep_history=False but something was recorded", where, "history-not-empty", True, list(st.keys()))
        return
    bad = {k: len(v) for k, v in st.items() if len(v) != gens}
    if bad or not st:
        rep.problem("history", "a recorded series does not hold exactly one entry per executed generation", dict(where, lengths=bad),
                    "history-length", True, bad, gens, "C17_one_entry_per_generation")
    # immutability: entries as copied when recorded (at each callback) vs the entries at the end
    for si, s in enumerate(tr["snaps"]):
        for k, copies in s["stats_copy"].items():
            for i, c in enumerate(copies):
                e = st[k][i]
                ok = (list(c.keys()) == list(e.keys()) and all(L.same(c[t], e[t]) for t in c)) if isinstance(c, dict) else L.same(c, e)
                if not ok:
                    rep.problem("history", f"history entry {k}[{i}] was altered by a later generation", dict(where, series=k, entry=i, seen_at_callback=si),
                                "history-mutated", True, None, None, "C17_snapshot_immutable")
                    return
    for i in range(len(st.get("fitness", []))):
        f = np.asarray(st["fitness"][i])
        j = int(np.argmax(f))
        if st["max_fitness"][i] != f[j] or not L.same(st["max_g"][i], st["population_g"][i][j]) or not L.same(st["max_ph"][i], st["population_ph"][i][j]):
            rep.problem("history", f"max_fitness/max_g/max_ph of generation {i} are not the first arg-max of fitness[{i}]", dict(where, generation=i),
                        "history-max", True, LT.num(st["max_fitness"][i]), LT.num(f[j]), "C17_entries_consistent")
    # adaptation series: entry g is the state in effect when generation g was created = what the optimizer held live at the
    # end of generation g-1 (entry 0: the state right after construction); probability maps are distributions
    def same_entry(a, b):
        return (list(a.keys()) == list(b.keys()) and all(L.same(a[t], b[t]) for t in a)) if isinstance(a, dict) and isinstance(b, dict) else L.same(a, b)
    for k in LT.SERIES_ATTR:
        if k not in st:
            continue
        for g, e in enumerate(st[k]):
            if isinstance(e, dict):
                vals = [float(v) for v in e.values()]
                if abs(sum(vals) - 1.0) > 1e-9 or any(v <= 0 for v in vals):
                    rep.problem("history", f"recorded operator probabilities {k}[{g}] are not a distribution (sum {sum(vals)!r}): the entry is not a snapshot of "
                                "the state of its generation", dict(where, series=k, entry=g, values=vals), "history-adapt-not-snapshot", True, vals, None,
                                "C17_snapshot_immutable")
                    return
            # generation 0 has no callback: entry 1 (the state after generation 0's adaptation) is not observable from outside;
            # the callback after generation j (j >= 1) sees the state that generation j+1 records
            ref = tr["adapt_init"].get(k) if g == 0 else (tr["snaps"][g - 2]["adapt"].get(k) if 2 <= g <= len(tr["snaps"]) + 1 else None)
            if ref is not None and isinstance(e, dict) and not same_entry(e, ref):
                rep.problem("history", f"history entry {k}[{g}] is not the adaptation state that was in effect for generation {g} "
                            "(the state the optimizer held at the end of the previous generation / after construction)",
                            dict(where, series=k, entry=g), "history-adapt-not-snapshot", True, None, None, "C17_entries_consistent")
                return
    if tr["init"] is not None:
        if not L.same(st["population_g"][0], tr["init_before"]):
            rep.problem("history", "population_g[0] differs from the supplied init_population", where, "history-init", True)
        if not L.same(tr["init"], tr["init_before"]):
            rep.problem("caller", "the optimizer modified the caller's init_population", where, "caller-init-modified", True)
    # aliasing between history entries and live arrays / record
    live = [opt._population_g_i, opt._population_ph_i, opt._fitness_i]
    for k, entries in st.items():
        for i, e in enumerate(entries):
            if isinstance(e, np.ndarray) and e.dtype != object:
                for a in live:
                    if isinstance(a, np.ndarray) and a.dtype != object and np.shares_memory(e, a):
                        rep.problem("history", f"history entry {k}[{i}] shares memory with a live population array", dict(where, series=k, entry=i),
                                    "history-aliased", True, None, None, "C17_snapshot_immutable")
                        return
    # get_fittest(): caller-side writes do not reach the record
    ft = opt.get_fittest()
    ref = L.snap(ft)
    for key in ("genotype", "phenotype"):
        v = ft[key]
        if isinstance(v, np.ndarray) and v.dtype != object and v.size:
            v[...] = 0 if v.dtype.kind in "iub" else -777.25
        elif hasattr(v, "_nodes"):
            v._nodes = v._nodes[:1]
            v._n_args = v._n_args[:1]
    again = opt.get_fittest()
    if not all(L.same(ref[k], again[k]) for k in ref):
        rep.problem("caller", "changing the objects returned by get_fittest() changed the optimizer's own record", where, "fittest-not-isolated", True,
                    None, None, "C17_get_fittest_isolated")


def run(ctx, rep):
    import random as _r
    args_before = {}

    def pred(tr, rep):
        predicate(tr, rep)
        fa, ga = tr["cfg_args"]
        if not L.same(fa[0], fa[1]) or not L.same(ga[0], ga[1]):
            rep.problem("caller", "fitness_function_args / genotype_to_phenotype_args were modified by the optimizer", dict(cfg=tr["cfg"]),
                        "caller-args-modified", True)
    # wrap run_trace to pass caller-owned argument dicts and compare them afterwards
    orig = LT.run_trace

    def run_trace(cfg):
        fa = {"bonus": np.arange(4, dtype=np.float64)}
        ga = {"table": np.arange(3, dtype=np.float64)}
        cfg = dict(cfg, _f_args=fa, _g_args=ga)
        fb, gb = L.snap(fa), L.snap(ga)
        tr = orig(cfg)
        tr["cfg_args"] = ((fb, fa), (gb, ga))
        return tr
    LT.run_trace = run_trace
    try:
        _loop.run_all(ctx, rep, "C17", pred, 24, 200)
        # keep_history=False: nothing recorded
        _loop.run_all(ctx, rep, "C17", pred, 3, 20, force=dict(keep_history=False, opt_mode="none"), model=False)
    finally:
        LT.run_trace = orig
    restart_history(ctx, rep)


def restart_history(ctx, rep):
    """fit() called again on the same optimizer: "one entry per executed generation" counts every generation the object has executed, and the
    entries the caller has already read (the stats object and its snapshots) are not altered by the second run"""
    import copy
    import thefittest.optimizers as O
    plans = [("GeneticAlgorithm", dict(str_len=7)), ("SelfCGA", dict(str_len=7)), ("SHAGA", dict(str_len=7)),
             ("DifferentialEvolution", dict(left_border=-2.0, right_border=2.0, num_variables=2)), ("jDE", dict(left_border=-2.0, right_border=2.0, num_variables=2)),
             ("SHADE", dict(left_border=-2.0, right_border=2.0, num_variables=2)), ("PDPGA", dict(str_len=7))]
    for kind, kw in plans[: ctx.pick(7, 7)]:
        seed, pop, iters = ctx.rng.randrange(1 << 30), ctx.rng.choice([7, 8]), ctx.rng.choice([3, 4])
        gens = []

        def f(X, gens=gens):
            gens.append(len(X))
            return np.asarray(X, dtype=np.float64).sum(axis=1)
        opt = getattr(O, kind)(f, iters=iters, pop_size=pop, keep_history=True, random_state=seed, **kw)
        opt.fit()
        st1 = opt.get_stats()
        snap1 = {k: copy.deepcopy(list(v)) for k, v in st1.items()}
        n1 = len(gens)
        opt.fit()
        st2 = opt.get_stats()
        rep.traces += 2
        rep.count("restart-history", (kind, seed))
        case = dict(kind=kind, random_state=seed, pop_size=pop, iters=iters, fits=2)
        executed = len(gens)
        short = {k: len(v) for k, v in st2.items() if len(v) != executed}
        if short:
            rep.problem("history", f"{kind} fitted twice: {executed} generations were executed, recorded series lengths {short}", case, "history-length", True,
                        short, executed, "C17")
        altered = [k for k in snap1 if len(st2.get(k, [])) < len(snap1[k]) or not all(L.same(a, b) for a, b in zip(snap1[k], st2[k]))]
        if altered or any(len(st1.get(k, [])) < n1 for k in snap1):
            rep.problem("history", f"{kind} fitted twice: entries the caller had already read were altered / removed by the second run ({altered[:3]})", case,
                        "history-snapshot-altered", True, None, None, "C17")


def replay(ctx, rp):
    return _loop.replay_trace(ctx, rp, predicate)
