"""C13 — every network genotype decodes to a valid feed-forward network: correspondence
model (coq/theories/NetAlgebra.v, NetOrder.v) <-> implementation (base/_net.py, _gpnn.py, _mlp.py)."""
from __future__ import annotations

import itertools

import numpy as np

import common as C
from props import _netcommon as N

RULE = ("families: decode = genotype_to_phenotype_tree on ALL trees over the real network universal set "
        "(init_net_uniset, n_variables=3) with <=5 nodes (quick) / <=7 nodes (thorough) x input_block_size {1,2} x "
        "offset x n_outputs {1,3}, hidden blocks of size 1,2 (activation codes drawn per tree), plus random trees to "
        "depth 5 (library generator and own generator, block sizes <=3): whole decoded net (sets, connection rows, "
        "weight count, activs) = Coq model; boolean Valid (Coq) and an independent Python validity predicate on the "
        "implementation's net; order = cached _get_order schedule = model schedule + Python schedule predicate; "
        "forward = shape (1,samples,n_outputs) and finiteness; ops/fix = Net.__add__/__gt__/_fix on pairs of "
        "small nets (incl. nets with outputs, test_net's examples) = model; mlp = _defitne_net of the real "
        "MLPEAClassifier/Regressor over hidden tuples of <=3 layers (sizes 1..3) x offset x (n_in,n_out) = model and "
        "= requested architecture; train = train_net_weights (DE, jDE, SHADE, GA-family on the 16-bit Gray grid) on tiny "
        "problems: one weight per connection, all in [-10,10]. A case is distinct by (family, configuration, tree).")
ASSUMPTIONS = ["hidden block sizes >= 1 (max_hidden_block_size >= 2; HiddenBlock(1) draws from an empty range)",
               "node ids are 0..N-1 with inputs = columns of X", "finite inputs and weights (no NaN/inf)",
               "weight values (uniform(-2,2)) are not modelled, only their number"]
TRUSTED = ["models: coq/theories/Net.v NetAlgebra.v NetOrder.v; check functions coq/theories/C13Check.v",
           "Python-side predicates and tree builders: harness/props/_netcommon.py"]
THEORIES = ["Base", "Net", "NetAlgebra", "NetOrder", "NetProofs", "NetProofs2", "NetOrderProofs", "NetMLPProofs",
            "C13Check", "NetForward", "NetForwardProofs", "NetForwardProofs2", "NetMLPProofs2"]

IMPORTS = "From TF Require Import Base Net NetAlgebra NetOrder C13Check."
NV = 3
SIG_MLP = "mlp:no-hidden-layer+offset:features-ignored"


# ----------------------------------------------------------------------------------------------
def decode_case(shape, nv, block, offset, nout, oact_name, max_hidden=3):
    parts = N.uniset_parts(N.make_uniset(nv, block, offset, max_hidden), offset)
    tree = N.tree_of_shape(shape, parts)
    return tree, N.lib()["g2p"](tree, nv, nout, oact_name, offset)


def x_for(rng, nv, offset, samples=3):
    X = np.array([[rng.randint(-8, 8) / 4.0 for _ in range(nv)] for _ in range(samples)], dtype=np.float64)
    if offset:
        X[:, -1] = 1.0
    return X


def mlp_build(classifier, hidden, offset, act, n_in, n_out):
    L = N.lib()
    cls = L["MLPEAClassifier"] if classifier else L["MLPEARegressor"]
    est = cls(n_iter=2, pop_size=4, hidden_layers=tuple(hidden), activation=act, offset=offset)
    return est._defitne_net(n_in, n_out)


def mlp_spec(n_in, n_out, hidden, offset):
    """requested architecture: full bipartite between consecutive layers, bias -> every layer"""
    layers, e = [list(range(n_in))], n_in
    for h in list(hidden) + [n_out]:
        layers.append(list(range(e, e + h)))
        e += h
    con = set()
    for a, b in zip(layers, layers[1:]):
        con |= set(itertools.product(a, b))
    if offset:
        for l in layers[1:]:
            con |= {(n_in - 1, v) for v in l}
    return layers, con


def mlp_check(net, n_in, n_out, hidden, offset, classifier, act_code):
    ins, layers, outs, con, nw, acts = N.net_fields(net)
    spec_layers, spec_con = mlp_spec(n_in, n_out, hidden, offset)
    bad = []
    if set(con) != spec_con:
        bad.append("connection-set")
    if sorted(ins) != spec_layers[0] or [sorted(l) for l in layers] != spec_layers[1:-1] or sorted(outs) != spec_layers[-1]:
        bad.append("layers")
    dup = sorted(c for c in set(con) if con.count(c) > 1)
    first = spec_layers[1]
    if any(not (offset and a == n_in - 1 and b in first and con.count((a, b)) == 2) for a, b in dup):
        bad.append("duplicates-other-than-bias-first-layer")
    amap = dict(acts)
    if any(amap.get(v) != act_code for l in spec_layers[1:-1] for v in l):
        bad.append("hidden-activation")
    if any(amap.get(v) != (5 if classifier else 4) for v in spec_layers[-1]):
        bad.append("output-activation")
    if nw != len(con):
        bad.append("one-weight-per-connection")
    return bad


ACT_NAMES = {0: "sigma", 1: "relu", 2: "gauss", 3: "tanh", 4: "ln"}


def extreme_forward(ctx, rep, net, X, nout, offset, regression, case):
    """finite values (and normalised softmax rows) also for unscaled features and weights at the border of the
    trained range [-10, 10]: per-sample logits spread over thousands"""
    Xe = X.copy() * np.array([[300.0], [1.0], [-300.0]][: X.shape[0]])
    if offset:
        Xe[:, -1] = 1.0
    old_w = net._weights
    try:
        net._weights = np.array([ctx.rng.choice([-10.0, 10.0, ctx.rng.uniform(-10, 10)]) for _ in range(len(net._connects))], dtype=np.float64)
        out = net.forward(Xe)
    finally:
        net._weights = old_w
    # the caller's batch buffer, refilled in place between two calls (Fortran order / a strided view / float32: layouts that need conversion):
    # the second result is the evaluation of what the buffer holds NOW (a NaN batch first, then the imputed values)
    for layout in ("F", "strided", "float32"):
        base = np.asfortranarray(X.copy()) if layout == "F" else (np.repeat(X.copy(), 2, axis=1)[:, ::2] if layout == "strided" else X.astype(np.float32))
        first_vals = base.copy()
        base[...] = np.nan
        if offset:
            base[:, -1] = 1.0
        with np.errstate(all="ignore"):
            _ = net.forward(base)
        base[...] = first_vals
        got = net.forward(base)
        ref = net.copy().forward(np.ascontiguousarray(first_vals, dtype=np.float64))
        rep.count("forward-buffer-reuse", (id(net), layout), nontrivial=False)
        if got.shape != ref.shape or not np.allclose(got, ref, rtol=1e-9, atol=1e-12, equal_nan=False):
            rep.problem("forward", f"forward on a caller's buffer refilled in place ({layout} layout) returns the values of the EARLIER contents (non-finite for finite inputs)",
                        dict(case, layout=layout, X=np.asarray(first_vals, dtype=np.float64).tolist()), "forward:stale-input", True, np.asarray(got).tolist(), np.asarray(ref).tolist(), "C13_forward_shape")
            break
    rep.count("forward-extreme", (case.get("desc") if isinstance(case, dict) and "desc" in case else id(net), nout))
    bad = out.shape != (1, Xe.shape[0], nout) or not np.all(np.isfinite(out))
    if not bad and not regression:
        bad = bool(np.any(out < 0) or not np.allclose(out.sum(axis=2), 1.0, atol=1e-9))
    if bad:
        rep.problem("forward", "forward on unscaled inputs / border weights is not finite (or softmax rows are not distributions)",
                    dict(case, X=Xe.tolist()), "forward:extreme", True, out.tolist(), None, "C13_forward_shape")


def run(ctx, rep):
    L = N.lib()
    Net = L["Net"]
    fams = {}

    def fam(name, check, ctype, shard=300):
        fams[name] = C.CoqCases(ctx.scratch, name, IMPORTS, check, ctype, shard=shard)
        return fams[name]

    f_dec = fam("decode", "chk_decode", "nat * nat * nat * list gnode * net")
    f_val = fam("valid", "chk_valid", "net")
    f_ord = fam("order", "chk_order", "net * list group")
    f_op = fam("ops", "chk_op", "bool * net * net * net")
    f_fix = fam("fix", "chk_fix", "list nat * net * net")
    f_mlp = fam("mlp", "chk_mlp", "nat * nat * list nat * nat * bool * nat * net")
    f_arch = fam("mlparch", "chk_mlp_arch", "nat * nat * list nat * bool * net")

    # ------------------------------------------------------------------ decode
    def one_tree(shape, nv, block, offset, nout, family, max_hidden=3, tree=None, do_forward=True):
        regression = (nout == 1)
        oact_name, oact = ("ln", 4) if regression else ("softmax", 5)
        if tree is None:
            tree, net = decode_case(shape, nv, block, offset, nout, oact_name, max_hidden)
        else:
            net = L["g2p"](tree, nv, nout, oact_name, offset)
        tj = N.tree_json(tree, nv, offset)
        case = dict(fn="genotype_to_phenotype_tree", n_variables=nv, input_block_size=block, offset=offset,
                    n_outputs=nout, output_activation=oact_name, tree=tj, tree_str=str(tree))
        first = {}
        case["same_object_as"] = [first.setdefault(id(n_), i_) for i_, n_ in enumerate(tree._nodes)]   # node-object sharing between positions
        key = (nv, block, offset, nout, str(tj))
        rep.count(family, key, nontrivial=len(tree) > 1)
        rep.hist("tree_nodes", len(tree))
        bad = N.py_valid(net, nv, decoded=True)
        if net._offset != offset:
            bad.append("offset-flag")
        if bad:
            rep.problem(family, "decoded net violates: " + ", ".join(bad), case, "decode:valid:" + bad[0], True,
                        N.net_json(net), None, "C13_decode_valid")
        f_dec.add(f"(({nv}, {nout}, {oact})%nat, {N.gnodes_term(tree, nv, offset)}, {N.impl_net_term(net)})", case)
        f_val.add(N.impl_net_term(net), case)
        if not do_forward or bad:         # an invalid net (cycle, unreachable block) may make _get_order / forward loop
            return net
        X = x_for(ctx.rng, nv, offset)
        out = net.forward(X)
        rep.count("forward", key)
        if out.shape != (1, X.shape[0], nout) or not np.all(np.isfinite(out)):
            rep.problem("forward", f"forward output shape {out.shape} / finiteness wrong", dict(case, X=X.tolist()),
                        "forward:shape", True, out.tolist(), None, "C13_forward_shape")
        if not regression and not np.allclose(out.sum(axis=2), 1.0, atol=1e-9):
            rep.problem("forward", "softmax outputs do not sum to 1", dict(case, X=X.tolist()), "forward:softmax",
                        True, out.tolist(), None, "C13_forward_shape")
        extreme_forward(ctx, rep, net, X, nout, offset, regression, case)
        sched = N.schedule_of(net)
        sb = N.py_sched_ok(net, sched)
        rep.count("order", key)
        rep.hist("schedule_groups", len(sched))
        if sb:
            rep.problem("order", "schedule violates: " + ", ".join(sb), case, "order:" + sb[0], True, sched, None,
                        "C13_order_terminates")
        f_ord.add(f"({N.impl_net_term(net, sort_sets=False)}, {N.sched_term(sched)})", case)
        return net

    max_nodes = ctx.pick(5, 7)
    n_exh = 0
    sample_every = 997
    for block in (1, 2):
        for offset in (True, False):
            n_dim = NV - 1 if offset else NV
            n_blocks = len(range(0, n_dim, block))
            terms = [("in", k) for k in range(n_blocks)] + ([("bias",)] if offset else []) \
                + [("hid", 1, None), ("hid", 2, None)]
            for nn in range(1, max_nodes + 1, 2):
                # the 7-node layer is exhaustive for n_outputs=3 with offset and n_outputs=1 without (both
                # n_outputs for the smaller layers); stated in exhaustive_note
                for shape in N.enum_shapes(nn, terms):
                    def fill(s):
                        if s[0] == "op":
                            return ("op", s[1], fill(s[2]), fill(s[3]))
                        if s[0] == "hid":
                            return ("hid", s[1], ctx.rng.randrange(5))
                        return s
                    nouts = (1, 3) if nn <= 5 else ((3,) if offset else (1,))
                    for nout in nouts:
                        sh = fill(shape)
                        net = one_tree(sh, NV, block, offset, nout, "decode-exhaustive",
                                       do_forward=(nn <= 5 or n_exh % 4 == 0))
                        n_exh += 1
                        if n_exh % sample_every == 1:
                            rep.sample(dict(family="decode", tree=N.shape_str(sh), block=block, offset=offset,
                                            n_outputs=nout, net=N.net_json(net)))
    C.log(f"[C13] exhaustive trees: {n_exh}")

    # random trees, own generator (depth <= 5, wider configurations)
    for _ in range(ctx.pick(150, 1500)):
        nv = ctx.rng.randint(2, 6)
        offset = ctx.rng.random() < 0.5
        block = ctx.rng.randint(1, 3)
        n_dim = nv - 1 if offset else nv
        if n_dim < 1:
            continue
        n_blocks = len(range(0, n_dim, block))
        terms = [("in", k) for k in range(n_blocks)] + ([("bias",)] if offset else [])
        terms += [("hid", s, a) for s in (1, 2, 3) for a in range(5)]
        sh = N.random_shape(ctx.rng, ctx.rng.randint(1, 5), terms)
        one_tree(sh, nv, block, offset, ctx.rng.choice((1, 2, 3)), "decode-random", max_hidden=4)
    # trees in which ONE node object occupies several positions: Tree.copy()/subtree()/concat() copy the node list, not the
    # nodes, so after crossover / subtree mutation between relatives equal hidden blocks are the same Python object
    for _ in range(ctx.pick(150, 1000)):
        nv = ctx.rng.randint(2, 5)
        offset = ctx.rng.random() < 0.5
        block = ctx.rng.randint(1, 2)
        n_dim = nv - 1 if offset else nv
        if n_dim < 1:
            continue
        n_blocks = len(range(0, n_dim, block))
        terms = [("in", k) for k in range(n_blocks)] + ([("bias",)] if offset else [])
        terms += [("hid", s_, a_) for s_ in (1, 2) for a_ in (0, 1)] * 2
        sh = N.random_shape(ctx.rng, ctx.rng.randint(2, 5), terms)
        parts = N.uniset_parts(N.make_uniset(nv, block, offset, 3), offset)
        fresh = N.tree_of_shape(sh, parts)
        pool = {}
        shared = [pool.setdefault((int(n_._value._size), int(n_._value._activ)), n_) if isinstance(n_, L["EphemeralConstantNode"]) else n_
                  for n_ in fresh._nodes]
        tree = L["Tree"](shared)
        rep.hist("shared_node_positions", len(shared) - len({id(n_) for n_ in shared if isinstance(n_, L["EphemeralConstantNode"])})
                 - sum(1 for n_ in shared if not isinstance(n_, L["EphemeralConstantNode"])))
        one_tree(None, nv, block, offset, ctx.rng.choice((1, 2, 3)), "decode-shared-node-objects", tree=tree)
        # and through the library's own variation path
        if len(fresh) >= 3:
            try:
                j = ctx.rng.randrange(1, len(fresh))
                i = ctx.rng.randrange(1, len(fresh))
                varied = fresh.concat(i, fresh.copy().subtree(j))
            except Exception:   # noqa: BLE001
                varied = None
            if varied is not None and len(varied) <= 31:
                one_tree(None, nv, block, offset, ctx.rng.choice((1, 2, 3)), "decode-after-variation", tree=varied)
    # random trees from the library's own generator (what GP really produces)
    from thefittest.utils.random import numba_seed
    for _ in range(ctx.pick(100, 1000)):
        nv = ctx.rng.randint(2, 6)
        offset = ctx.rng.random() < 0.5
        block = ctx.rng.randint(1, 3)
        if (nv - 1 if offset else nv) < 1:
            continue
        uni = N.make_uniset(nv, block, offset, ctx.rng.randint(2, 4))
        numba_seed(ctx.rng.randrange(1 << 30))
        tree = L["Tree"].random_tree(uni, ctx.rng.randint(1, 5))
        one_tree(None, nv, block, offset, ctx.rng.choice((1, 2, 3)), "decode-library-random", tree=tree)

    # ------------------------------------------------------------------ ops / fix on small nets
    def rnd_net(kind):
        """unit and composite operands, some with outputs"""
        r = ctx.rng
        if kind == "in":
            return Net(inputs=set(r.sample(range(4), r.randint(1, 3))))
        if kind == "hid":
            s = r.choice((4, 6, 8))
            ids = set(range(s, s + r.randint(1, 2)))
            return Net(hidden_layers=[ids], activs={i: 1 for i in ids})
        if kind == "out":
            ids = set(range(12, 12 + r.randint(1, 2)))
            return Net(outputs=ids, activs={i: 4 for i in ids})
        if kind == "empty":
            return Net()
        if kind == "in>hid":
            return rnd_net("in") > rnd_net("hid")
        if kind == "hid>hid":
            a = Net(hidden_layers=[{4}], activs={4: 0})
            b = Net(hidden_layers=[{6, 7}], activs={6: 2, 7: 2})
            return a > b
        if kind == "in>out":
            return rnd_net("in") > rnd_net("out")
        if kind == "hid>out":
            return rnd_net("hid") > rnd_net("out")
        raise ValueError(kind)

    def disjoint_ids(a, b):
        """operands of + and > in the library never share hidden/output ids; keep that domain"""
        ha = set().union(*a._hidden_layers, a._outputs) if a._hidden_layers or a._outputs else set()
        hb = set().union(*b._hidden_layers, b._outputs) if b._hidden_layers or b._outputs else set()
        return not (ha & hb)

    kinds = ["in", "hid", "out", "empty", "in>hid", "hid>hid", "in>out", "hid>out"]
    reps = ctx.pick(3, 12)
    for ka in kinds:
        for kb in kinds:
            for _ in range(reps):
                a, b = rnd_net(ka), rnd_net(kb)
                if not disjoint_ids(a, b):
                    # shift b's hidden/output ids
                    continue
                for isgt in (True, False):
                    a0, b0 = N.net_json(a), N.net_json(b)
                    res = (a > b) if isgt else (a + b)
                    case = dict(fn="Net.__gt__" if isgt else "Net.__add__", a=a0, b=b0)
                    rep.count("ops", (isgt, str(a0), str(b0)))
                    rep.hist("ops_kinds", f"{ka} {'>' if isgt else '+'} {kb}")
                    if N.net_json(a) != a0 or N.net_json(b) != b0:
                        rep.problem("ops", "operand modified by + / >", case, "ops:operand-modified", True, N.net_json(res))
                    f_op.add(f"({C.cbool(isgt)}, {N.impl_net_term(a)}, {N.impl_net_term(b)}, "
                             f"{N.impl_net_term(res, sort_con=True)})", case)
    # test_net's literal examples (exact row orders are asserted by the repository's own test)
    n_in, n_2, n_5, n_6 = Net(inputs={0, 1, 3}), Net(inputs={2}), Net(hidden_layers=[{4}]), Net(hidden_layers=[{5, 6}])
    for a, b, isgt, exp in [(n_5, n_6, True, [[4, 5], [4, 6]]), (n_2, n_5, False, [[2, 4]]), (n_5, n_2, False, [[2, 4]]),
                            (n_5, n_2, True, [[2, 4]]), (n_in, n_2, True, []), (n_in, n_2, False, [])]:
        res = (a > b) if isgt else (a + b)
        case = dict(fn="Net.__gt__" if isgt else "Net.__add__", a=N.net_json(a), b=N.net_json(b), test_net=True)
        rep.count("ops", ("test_net", isgt, str(case["a"]), str(case["b"])))
        if [list(map(int, r)) for r in res._connects] != exp:
            rep.problem("ops", "test_net example gives different rows", case, "ops:test_net", False, N.net_json(res), exp)
        f_op.add(f"({C.cbool(isgt)}, {N.impl_net_term(a)}, {N.impl_net_term(b)}, {N.impl_net_term(res, sort_con=True)})", case)
    for _ in range(ctx.pick(40, 200)):
        a = rnd_net(ctx.rng.choice(["hid", "in>hid", "hid>hid", "hid>out", "in>out", "out"]))
        inputs = sorted(ctx.rng.sample(range(4), ctx.rng.randint(1, 3)))
        a0 = N.net_json(a)
        before = N.impl_net_term(a)
        res = a.copy()._fix(set(inputs))
        case = dict(fn="Net._fix", a=a0, inputs=inputs)
        rep.count("fix", (str(a0), tuple(inputs)))
        f_fix.add(f"({N.nats(inputs)}%nat, {before}, {N.impl_net_term(res)})", case)

    # ------------------------------------------------------------------ MLP builder
    hidden_tuples = [()] + [h for k in (1, 2, 3) for h in itertools.product((1, 2, 3), repeat=k)]
    if ctx.quick:
        hidden_tuples = [h for h in hidden_tuples if len(h) < 3 or ctx.rng.random() < 0.3]
    for hidden in hidden_tuples:
        for offset in (True, False):
            for classifier in (True, False):
                for n_in, n_out in ((2, 1), (4, 3), (1, 2)):
                    act = ctx.rng.randrange(5)
                    net = mlp_build(classifier, hidden, offset, ACT_NAMES[act], n_in, n_out)
                    case = dict(fn="_defitne_net", classifier=classifier, hidden_layers=list(hidden), offset=offset,
                                activation=ACT_NAMES[act], n_inputs=n_in, n_outputs=n_out)
                    rep.count("mlp", (hidden, offset, classifier, n_in, n_out))
                    rep.hist("mlp_hidden_layers", len(hidden))
                    bad = mlp_check(net, n_in, n_out, hidden, offset, classifier, act)
                    if net._offset != offset:
                        bad.append("offset-flag")
                    if bad:
                        sig = SIG_MLP if (len(hidden) == 0 and offset and bad[0] == "connection-set") else "mlp:" + bad[0]
                        rep.problem("mlp", "MLP builder does not yield the requested architecture: " + ", ".join(bad), case,
                                    sig, True, N.net_json(net), sorted(mlp_spec(n_in, n_out, hidden, offset)[1]),
                                    "C13_mlp_architecture")
                    oact = 5 if classifier else 4
                    f_mlp.add(f"(({n_in}, {n_out}, {N.nats(hidden)}, {act})%nat, {C.cbool(offset)}, {oact}%nat, "
                              f"{N.impl_net_term(net, sort_con=True)})", case)
                    f_arch.add(f"(({n_in}, {n_out}, {N.nats(hidden)})%nat, {C.cbool(offset)}, {N.impl_net_term(net)})", case)
                    # the built net can be evaluated: shape and finiteness
                    if not bad:
                        X = x_for(ctx.rng, n_in, offset)
                        out = net.forward(X)
                        rep.count("forward", ("mlp", hidden, offset, classifier, n_in, n_out))
                        if out.shape != (1, X.shape[0], n_out) or not np.all(np.isfinite(out)):
                            rep.problem("forward", f"forward output shape {out.shape} / finiteness wrong",
                                        dict(case, X=X.tolist()), "forward:shape", True, out.tolist(), None, "C13_forward_shape")
                        extreme_forward(ctx, rep, net, X, n_out, offset, not classifier, case)
                        sched = N.schedule_of(net)
                        sb = N.py_sched_ok(net, sched)
                        if sb:
                            rep.problem("order", "schedule violates: " + ", ".join(sb), case, "order:" + sb[0], True, sched)
                        f_ord.add(f"({N.impl_net_term(net, sort_sets=False)}, {N.sched_term(sched)})", case)
    rep.sample(dict(family="mlp", hidden_layers=[], offset=True, n_inputs=4, n_outputs=3,
                    net=N.net_json(mlp_build(True, (), True, "sigma", 4, 3))))

    # ------------------------------------------------------------------ trained weights: count and box
    train_weights(ctx, rep)

    # ------------------------------------------------------------------ evaluate the model on every case
    for name, fc in fams.items():
        bad, errors = fc.run()
        rep.hist("coq_cases", name + ":" + str(len(fc)))
        for e in errors:
            rep.problem(name, "model evaluation failed: %s" % (e,), {}, "model-eval", False)
        for i in bad[:10]:
            meta = fc.meta[i]
            if name == "valid":
                rep.problem(name, "Coq valid_b is false on the implementation's decoded net", meta, "valid:coq", True,
                            None, None, "C13_decode_valid")
                continue
            if name == "mlparch":
                already = any(p["case"] == C.jsonable(meta) and p["prop_violated"] for p in rep.problems)
                if not already:
                    rep.problem(name, "connection set differs from the requested architecture (Coq predicate)", meta,
                                "mlp:connection-set", True, None, None, "C13_mlp_architecture")
                continue
            sig = name + ":model-vs-impl"
            rep.problem(name, "model and implementation disagree", meta, sig, False, None, fc.explain(i, "c")[:1500])
    rep.exhaustive = True
    rep.exhaustive_note = (f"all trees over {{+,>}} x (input blocks, bias, hidden blocks of size 1 and 2) with <= {min(max_nodes,5)} "
                           f"nodes for n_variables={NV}, input_block_size in {{1,2}}, offset in {{on,off}}, n_outputs in {{1,3}}"
                           + ("" if max_nodes <= 5 else "; all 7-node trees for the same block/offset settings with n_outputs=3 "
                              "(offset on) / 1 (offset off), forward/schedule on every 4th")
                           + "; activation codes are drawn, not enumerated; MLP builder: all hidden tuples of <=2 layers "
                           "(quick) / <=3 layers (thorough) with sizes 1..3")


def train_data(rs):
    X = np.hstack([rs.randint(-4, 5, size=(12, 2)) / 2.0, np.ones((12, 1))])
    y = (X[:, 0] - 0.5 * X[:, 1] > 0).astype(np.int64)
    return X, np.eye(2)[y]


def train_once(opt, hidden, args, seed, X, targets):
    from thefittest.base._mlp import train_net_weights, fitness_function_weights
    from thefittest.utils.random import numba_seed
    numba_seed(seed)
    net0 = mlp_build(True, hidden, True, "sigma", 3, 2)
    w, _ = train_net_weights(net0, X, targets, dict(args), opt, fitness_function_weights, "classification")
    w = np.asarray(w, dtype=np.float64)
    bad = w.shape != (len(net0._connects),) or not np.all(np.isfinite(w)) or bool(np.any(np.abs(w) > 10.0))
    return w, bad


def optimizers():
    from thefittest.optimizers import DifferentialEvolution, jDE, SHADE, SHAGA, SelfCGA, GeneticAlgorithm
    return {c.__name__: c for c in (DifferentialEvolution, jDE, SHADE, SHAGA, SelfCGA, GeneticAlgorithm)}


def decode_and_train_sweep(ctx, rep):
    """the population decoder the structure optimizers call (base/_gpnn.genotype_to_phenotype: decode every tree, train its weights) used the
    way a sweep over input_block_size uses it: the SAME training arrays and optimizer settings, universal sets of different block sizes,
    the same tree shapes — every returned net carries exactly one finite weight in [-10, 10] per connection and is the decoding of its tree"""
    from thefittest.base._gpnn import genotype_to_phenotype as g2p_pop
    from thefittest.optimizers import SHADE
    from thefittest.utils.random import numba_seed
    X, targets = train_data(np.random.RandomState(ctx.rng.randrange(1 << 30)))
    X = np.hstack([X, X[:, :1] * 0.5])[:, :4] if X.shape[1] < 4 else X[:, :4]
    nv = X.shape[1]
    args = dict(iters=3, pop_size=6)
    shapes = [("op", True, ("in", 0), ("h", 2, 0)), ("op", False, ("op", True, ("in", 0), ("h", 1, 1)), ("h", 2, 0)),
              ("op", True, ("op", False, ("in", 0), ("in", 0)), ("h", 3, 2)), ("in", 0), ("op", True, ("h", 2, 1), ("h", 1, 0))]
    for block in (1, 2, 4, 1):
        parts = N.uniset_parts(N.make_uniset(nv, block, False), False)
        pop_g = np.array([N.tree_of_shape(sh, parts) for sh in shapes], dtype=object)
        numba_seed(ctx.rng.randrange(1 << 30))
        nets = g2p_pop(pop_g, 2, X, targets, dict(args), SHADE, "softmax", False, "classification")
        for sh, tree, net in zip(shapes, pop_g, nets):
            ref = N.lib()["g2p"](tree, nv, 2, "softmax", False)
            w = np.asarray(net._weights, dtype=np.float64)
            rep.count("decode-train-sweep", (block, N.shape_str(sh)))
            bad = w.shape != (len(net._connects),) or not np.all(np.isfinite(w)) or bool(np.any(np.abs(w) > 10.0)) \
                or sorted(map(tuple, np.asarray(net._connects).tolist())) != sorted(map(tuple, np.asarray(ref._connects).tolist()))
            if bad:
                rep.problem("train", f"genotype_to_phenotype (decode + train) with input_block_size={block}: a net does not carry one weight in [-10,10] per connection "
                            f"({len(w)} weights, {len(net._connects)} connections) or is not the decoding of its tree",
                            dict(fn="genotype_to_phenotype", tree=N.shape_str(sh), input_block_size=block, sweep=[1, 2, 4, 1], n_variables=nv),
                            "train:weights-per-connection", True, int(len(w)), int(len(net._connects)), "C13_train_weights")


def train_weights(ctx, rep):
    """C13 last clause on live tiny trainings: one weight per connection, all within [-10,10]"""
    decode_and_train_sweep(ctx, rep)
    opts = optimizers()
    X, targets = train_data(np.random.RandomState(ctx.rng.randrange(1 << 30)))
    runs = []
    for hidden in ((), (2,)):
        for name in opts:
            for _ in range(ctx.pick(1, 4)):
                runs.append((name, hidden, dict(iters=ctx.pick(4, 8), pop_size=ctx.pick(8, 12)),
                             ctx.rng.randrange(1 << 30), None))
    # the recorded witness family of the known finding (C07 defect in SHADE): fixed data and seeds
    for seed in range(ctx.pick(8, 40)):
        runs.append(("SHADE", (2,), dict(iters=6, pop_size=10), seed, 1))
    for name, hidden, args, seed, data_seed in runs:
        Xr, tr = (X, targets) if data_seed is None else train_data(np.random.RandomState(data_seed))
        case = dict(fn="train_net_weights", optimizer=name, hidden_layers=list(hidden), args=args, seed=seed,
                    data_seed=data_seed, X=Xr.tolist(), targets=tr.tolist())
        try:
            w, bad = train_once(opts[name], hidden, args, seed, Xr, tr)
        except Exception as e:  # environment limits (not the property) are reported as a broken tie
            rep.problem("train", f"train_net_weights raised {type(e).__name__}: {e}", case, "train:exception", False)
            continue
        rep.count("train", (name, hidden, seed, data_seed))
        if bad:
            rep.problem("train", "trained weights: wrong count or outside [-10,10]", case, "train:weights-box:" + name,
                        True, w.tolist(), None, "C13_weights_in_box")


# ------------------------------------------------------------------------------------------------
def replay(ctx, rp) -> bool:
    """re-execute the first problem of a replay file on the real code; True = property holds"""
    case = rp["first"]["case"]
    fn = case.get("fn")
    if fn == "_defitne_net":
        net = mlp_build(case["classifier"], tuple(case["hidden_layers"]), case["offset"], case["activation"],
                        case["n_inputs"], case["n_outputs"])
        act = {v: k for k, v in ACT_NAMES.items()}[case["activation"]]
        bad = mlp_check(net, case["n_inputs"], case["n_outputs"], tuple(case["hidden_layers"]), case["offset"],
                        case["classifier"], act)
        print("net:", N.net_json(net))
        print("violated:", bad)
        return not bad
    if fn == "genotype_to_phenotype_tree":
        tree = N.tree_from_json(case["tree"], case["n_variables"], case["input_block_size"], case["offset"])
        if case.get("same_object_as"):
            hid = N.lib()["EphemeralConstantNode"]
            nodes = list(tree._nodes)
            nodes = [nodes[j] if isinstance(nodes[i], hid) else nodes[i] for i, j in enumerate(case["same_object_as"])]
            tree = N.lib()["Tree"](nodes)
        net = N.lib()["g2p"](tree, case["n_variables"], case["n_outputs"], case["output_activation"], case["offset"])
        bad = N.py_valid(net, case["n_variables"], decoded=True)
        print("net:", N.net_json(net))
        print("violated:", bad)
        if not bad:
            X = np.ones((2, case["n_variables"]))
            out = net.forward(X)
            ok = out.shape == (1, 2, case["n_outputs"]) and bool(np.all(np.isfinite(out)))
            sb = N.py_sched_ok(net, N.schedule_of(net))
            print("forward shape", out.shape, "schedule:", sb)
            return ok and not sb
        return False
    if fn == "train_net_weights":
        w, bad = train_once(optimizers()[case["optimizer"]], tuple(case["hidden_layers"]), case["args"], case["seed"],
                            np.array(case["X"]), np.array(case["targets"]))
        print("weights:", w.tolist())
        return not bad
    print("no executable replay for", fn, "- case:", case)
    return False
