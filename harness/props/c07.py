"""C07 — real-coded DE family: candidates stay in the box; donors / trials / repair as named."""
from __future__ import annotations

import inspect
import itertools

import numpy as np

import common as C
import live as L
import mirror as MR
import translate_pools as TP

RULE = ("bounds_control / bounds_control_mean / binomial on dyadic vectors (exact), all index-draw outcomes of the six "
        "pool strategies on small dyadic populations (script mode), seeded compiled vs log-mode mirror, and every "
        "_get_new_individ_g call + every evaluated candidate + every population of live DE / jDE / SHADE runs on "
        "objectives that reward leaving the box (model replay within 2^-30 relative). distinct = (family, inputs, draws).")
ASSUMPTIONS = ["finite F and finite initial population (a NaN passes both comparisons of the clamp)",
               "primitives return values in their documented range", "exact arithmetic in the model; harvested float "
               "trajectories compared within 2^-30 relative"]
TRUSTED = ["models: coq/theories/DEOps.v; checkers C07Check.v; translator harness/translate_pools.py (GenDEPool.v)", "code translator harness/translate_code.py (bounds_control, bounds_control_mean, binomial, DE strategies -> gen/GenCode.v) over coq/theories/Py.v; models PROVED equal to the generated definitions (theories/CodeEqC07.v)"]
THEORIES = ["Base", "RandomPrims", "RandomPrimsProofs", "RandomPrimsProofs2", "DEOps", "DEOpsProofs", "C11Check", "C07Check", "GenDEPool", "Py", "PyLemmas", "GenCode", "CodeEqC11", "CodeEqC06", "CodeEqC07", "BinaryOps", "BinaryOpsProofs", "C06Check", "CodeEqNewIndivid"]
IMPORTS = "From TF Require Import Base RandomPrims DEOps C11Check C07Check."
MU = "thefittest.utils.mutations."
STRATS = ["best_1", "rand_1", "rand_to_best1", "current_to_best_1", "best_2", "rand_2"]
NIDX = [2, 3, 3, 2, 4, 5]
EPS = 2.0 ** -53


def gen(ctx):
    TP.emit()
    import translate_code as TC
    TC.ensure(TC.C07_FUNCS + TC.C07_METHODS + TC.C06_METHODS + TC.C06_FUNCS)


def qv(v):
    return C.clist([float(x) for x in v], C.cq)


def qm(m):
    return C.clist([qv(r) for r in m])


def textbook(code, cur, best, pop, F, rs):
    p = [pop[i] for i in rs]
    if code == 0:
        return best + F * (p[0] - p[1])
    if code == 1:
        return p[2] + F * (p[0] - p[1])
    if code == 2:
        return p[0] + F * (best - p[0]) + F * (p[1] - p[2])
    if code == 3:
        return cur + F * (best - cur) + F * (p[0] - p[1])
    if code == 4:
        return best + F * (p[0] - p[1]) + F * (p[2] - p[3])
    return p[4] + F * (p[0] - p[1]) + F * (p[2] - p[3])


def in_box(x, l, r):
    x = np.asarray(x, dtype=np.float64)
    return x.shape == l.shape and bool(np.all(x >= l) and np.all(x <= r))


def run(ctx, rep):
    MR.build()
    f_cl = C.CoqCases(ctx.scratch, "clamp", IMPORTS, "chk_clamp", "vec * vec * vec * vec")
    f_mn = C.CoqCases(ctx.scratch, "mean", IMPORTS, "chk_mean", "vec * vec * vec * vec * vec")
    f_bn = C.CoqCases(ctx.scratch, "binomialq", IMPORTS, "chk_binomial_q", "vec * vec * Q * list draw * vec")
    f_mu = C.CoqCases(ctx.scratch, "mutation", IMPORTS, "chk_mutation", "nat * vec * vec * list vec * Q * list draw * vec")
    f_de = C.CoqCases(ctx.scratch, "denew", IMPORTS, "chk_de_new", "nat * vec * vec * list vec * Q * Q * vec * vec * list draw * vec", shard=200)
    f_sh = C.CoqCases(ctx.scratch, "shadenew", IMPORTS, "chk_shade_new", "vec * list vec * list Z * Q * Q * list vec * vec * vec * list draw * vec", shard=200)

    from thefittest.optimizers._differentialevolution import bounds_control
    import thefittest.optimizers._shade as shade_mod
    bcm = shade_mod.bounds_control_mean
    bcm_nargs = len(inspect.signature(bcm.py_func).parameters)

    # ---------------- clamp / mean: dyadic grids, degenerate and asymmetric boxes
    vals = [-3.0, -1.0, -0.5, 0.0, 0.25, 1.0, 2.5, 8.0]
    boxes = [([0.0, 0.0], [1.0, 1.0]), ([-1.0, 0.25], [-1.0, 2.5]), ([-0.5, -3.0], [0.25, 8.0]), ([1.0, 1.0], [1.0, 1.0])]
    for l, r in boxes:
        la, ra = np.array(l), np.array(r)
        for a in itertools.product(vals, repeat=2):
            aa = np.array(a)
            before = aa.copy()
            out = bounds_control(aa, la, ra)
            case = dict(fn="bounds_control", array=list(a), left=l, right=r)
            rep.count("clamp", (a, tuple(l), tuple(r)))
            inside = (aa >= la) & (aa <= ra)
            if not in_box(out, la, ra) or not np.array_equal(out[inside], aa[inside]) or not np.array_equal(aa, before):
                rep.problem("clamp", "bounds_control: result outside the box / changed an inside coordinate / modified its input",
                            case, "bounds_control", True, out.tolist(), None, "C07_clamp_in_box")
            f_cl.add(f"({qv(a)}, {qv(l)}, {qv(r)}, {qv(out)})", case)
            for parent in ([l[0], r[1]], [(l[0] + r[0]) / 2, (l[1] + r[1]) / 2]):
                pa = np.array(parent)
                if bcm_nargs == 4:
                    out = bcm(aa, pa, la, ra)
                else:
                    out = bcm(aa, la, ra)
                case = dict(fn="bounds_control_mean", array=list(a), parent=parent, left=l, right=r, nargs=bcm_nargs)
                rep.count("mean", (a, tuple(parent), tuple(l), tuple(r)))
                if not in_box(out, la, ra) or not np.array_equal(out[inside], aa[inside]):
                    rep.problem("mean", "bounds_control_mean: repaired vector is still outside the box (or an inside coordinate changed)",
                                case, "bounds_control_mean:border-plus-value", True, out.tolist(), None, "C07_mean_in_box")
                f_mn.add(f"({qv(a)}, {qv(parent)}, {qv(l)}, {qv(r)}, {qv(out)})", case)

    # ---------------- binomial: all outcomes
    ug = [0.0, 0.3, 0.5, 0.7, 1.0 - EPS]
    for n in range(1, ctx.pick(3, 4) + 1):
        x = np.array([float(i) for i in range(n)])
        m = np.array([10.5 + i for i in range(n)])
        for CR in (0.0, 0.5, 1.0):
            for script, out in MR.enumerate_outcomes("thefittest.utils.crossovers.binomial", lambda: (x.copy(), m.copy(), np.float64(CR)), ug, max_depth=n + 1):
                case = dict(fn="binomial", individ=x.tolist(), mutant=m.tolist(), CR=CR, draws=script)
                rep.count("binomial", (n, CR, tuple(script)))
                # the clause itself, independent of how the draws are consumed: every coordinate from the donor or the parent, at least one from the donor
                outl = [float(v) for v in out]
                clause = len(outl) == n and all(outl[i] in (float(m[i]), float(x[i])) for i in range(n)) and any(outl[i] == float(m[i]) for i in range(n))
                if not clause:
                    rep.problem("binomial", "trial does not take at least one coordinate from the donor (every other one from donor or parent)",
                                case, "binomial", True, outl, None, "C07_binomial_structure")
                    continue
                try:
                    j = int(np.floor(n * script[0][1]))
                    exp = [float(m[i]) if (script[1 + i][1] < CR or i == j) else float(x[i]) for i in range(n)]
                except IndexError:
                    exp = None
                if outl != exp:
                    rep.problem("binomial", "trial is not the donor at locus j and at every locus whose coin fell below CR (randomness consumed differently)",
                                case, "binomial:draw-usage", False, outl, exp, "C07_binomial_structure")
                    continue
                f_bn.add(f"({qv(x)}, {qv(m)}, {C.cq(CR)}, {C.cdraws(script)}, {qv(out)})", case)

    # ---------------- strategies: all index outcomes on dyadic populations
    for code, (name, k) in enumerate(zip(STRATS, NIDX)):
        for npop in range(k, ctx.pick(k + 1, k + 2) + 1):
            if npop < 2:
                continue
            pop = np.array([[float((3 * i + j * j) % 7) - 3.0, 0.25 * i - j] for j, i in enumerate(range(npop))])
            pop = np.array([[float((3 * i) % 7) - 3.0, 0.25 * i * i - 1.0] for i in range(npop)])
            cur, best = pop[0].copy(), pop[npop - 1].copy() + 0.5
            for F in (0.0, 0.5, 2.0):
                cnt = 0
                ca, ba, pa = cur.copy(), best.copy(), pop.copy()     # the SAME arrays for every call: strategies must not write into them
                for script, out in MR.enumerate_outcomes(MU + name, lambda: (ca, ba, pa, np.float64(F)), [], max_depth=k + 1):
                    cnt += 1
                    if not (np.array_equal(ca, cur) and np.array_equal(ba, best) and np.array_equal(pa, pop)) or \
                            np.shares_memory(out, ca) or np.shares_memory(out, ba) or np.shares_memory(out, pa):
                        rep.problem(name, f"{name} modified (or returned a view of) its arguments — the best individual / population handed to it",
                                    dict(fn=name, current=cur.tolist(), best=best.tolist(), population=pop.tolist(), F=F, draws=script),
                                    f"{name}:inputs-modified", True, [ca.tolist(), ba.tolist()], [cur.tolist(), best.tolist()], "C07_donor_formula")
                        ca, ba, pa = cur.copy(), best.copy(), pop.copy()
                    if ctx.quick and cnt > 400:
                        break
                    rs = []
                    for d in script:
                        if d[2] not in rs:
                            rs.append(d[2])
                    case = dict(fn=name, current=cur.tolist(), best=best.tolist(), population=pop.tolist(), F=F, draws=script)
                    rep.count(name, (npop, F, tuple(script)))
                    exp = textbook(code, cur, best, pop, F, rs) if (len(rs) == k and len(set(rs)) == k) else None
                    if exp is None or not np.array_equal(np.asarray(out), exp):
                        # independent of HOW the indices are sampled: is the donor the strategy's combination of SOME k pairwise
                        # distinct members?  (all ordered k-tuples; populations here have at most k+2 members)
                        import itertools as _it
                        some = any(np.array_equal(np.asarray(out), textbook(code, cur, best, pop, F, list(t)))
                                   for t in _it.permutations(range(npop), k))
                        if some:
                            rep.problem(name, f"{name}: the donor is a combination of distinct members, but not of the indices the draws select in the model "
                                        "(randomness is consumed differently)", case, f"{name}:draw-usage", False, list(out), None if exp is None else exp.tolist())
                        else:
                            rep.problem(name, f"donor is not the {name} combination of {k} pairwise distinct members scaled by F",
                                        case, f"{name}:formula", True, list(out), None if exp is None else exp.tolist(), "C07_donor_formula")
                    f_mu.add(f"({C.cnat(code)}, {qv(cur)}, {qv(best)}, {qm(pop)}, {C.cq(F)}, {C.cdraws(script)}, {qv(out)})", case)

    # ---------------- seeded compiled vs mirror
    for s in range(ctx.pick(30, 300)):
        seed = ctx.rng.randrange(1 << 30)
        npop, dim = ctx.rng.randint(5, 9), ctx.rng.randint(1, 3)
        pop = np.array([[ctx.rng.randint(-8, 8) / 4 for _ in range(dim)] for _ in range(npop)])
        cur, best, F = pop[0].copy(), pop[1].copy(), ctx.rng.choice([0.25, 0.5, 1.0])
        for code, name in enumerate(STRATS):
            MR.seed(seed)
            c0, b0, p0 = cur.copy(), best.copy(), pop.copy()
            oc = MR.compiled(MU + name)(c0, b0, p0, np.float64(F))
            if not (np.array_equal(c0, cur) and np.array_equal(b0, best) and np.array_equal(p0, pop)) or np.shares_memory(oc, b0) or np.shares_memory(oc, c0):
                rep.problem(name, f"compiled {name} modified (or returned a view of) its arguments", dict(fn=name, current=cur.tolist(), best=best.tolist(), population=pop.tolist(), F=F, seed=seed),
                            f"{name}:inputs-modified", True, [c0.tolist(), b0.tolist()], [cur.tolist(), best.tolist()], "C07_donor_formula")
            MR.seed(seed)
            om, log = MR.run_log(MU + name, cur.copy(), best.copy(), pop.copy(), np.float64(F))
            rep.traces += 1
            rep.count("seeded-" + name, seed)
            case = dict(fn=name, current=cur.tolist(), best=best.tolist(), population=pop.tolist(), F=F, seed=seed, draws=log)
            if not np.array_equal(oc, om):
                rep.problem("seeded", f"compiled {name} and log-mode mirror disagree", case, "seeded:compiled-vs-mirror", False, oc.tolist(), np.asarray(om).tolist())
            f_mu.add(f"({C.cnat(code)}, {qv(cur)}, {qv(best)}, {qm(pop)}, {C.cq(F)}, {C.cdraws(log)}, {qv(oc)})", case)
        if s == 0:
            rep.sample(case)

    harvest(ctx, rep, f_de, f_sh)

    for fc in (f_cl, f_mn, f_bn, f_mu, f_de, f_sh):
        bad, errors = fc.run()
        rep.hist("coq_cases", fc.name + ":" + str(len(fc)))
        for e in errors:
            rep.problem(fc.name, "model evaluation failed: %s" % (e,), {}, "model-eval", False)
        for i in bad[:20]:
            rep.problem(fc.name, "model and implementation disagree", fc.meta[i], fc.name + ":model-vs-impl", False, None, fc.explain(i, "c")[:1200])
    rep.exhaustive = True
    rep.exhaustive_note = "all index-draw outcomes of the 6 pool strategies for pop = k..k+1(2); all coin outcomes of binomial n<=3(4); clamp/mean on an 8x8 value grid x 4 boxes"


def draws_to_model(draws):
    """mirror log -> model draws: XU (uniform(l,h,1)) becomes DX of the returned value"""
    out = []
    for d in draws:
        if d[0] in ("U", "I"):
            out.append(d)
        elif d[0] == "XU" and len(d[3]) == 1:
            out.append(("X", d[3][0]))
        else:
            return None
    return out


def harvest(ctx, rep, f_de, f_sh):
    from thefittest.optimizers import DifferentialEvolution, jDE, SHADE
    configs = [("DE", s) for s in STRATS] + [("jDE", s) for s in ("rand_1", "best_2")] + [("SHADE", None)] * ctx.pick(3, 12)
    configs = configs * ctx.pick(1, 4)
    forced = {len(configs) + i: ("default", True) for i in range(3)}        # init_population=None in a box with a pinned coordinate, one per class
    configs = configs + [("DE", "rand_1"), ("jDE", "best_2"), ("SHADE", None)]
    for ci, (kind, strat) in enumerate(configs):
        seed = ctx.rng.randrange(1 << 30)
        dim, pop = ctx.rng.randint(1, 3), ctx.rng.randint(6, 9)
        if ctx.rng.random() < 0.5 and ci not in forced:
            left, right = -1.0, 1.0
            la, ra = np.full(dim, left), np.full(dim, right)
        else:
            la = np.array([-(i + 1) / 2 for i in range(dim)])
            ra = np.array([0.25 * (i + 1) for i in range(dim)])
            if ctx.rng.random() < 0.3 or ci in forced:
                ra[0] = la[0]   # degenerate coordinate
            left, right = la, ra
        obj = L.Objective(ctx.rng.choice(["onemax", "minx", "neg", "weighted"]))   # sum x rewards leaving the box
        init = np.array([[la[j] + (ra[j] - la[j]) * ctx.rng.randint(0, 8) / 8 for j in range(dim)] for _ in range(pop)])
        # where the initial population comes from: a grid (above), the library's own draw (init_population=None), or the public
        # sampler float_population called by the user with the same borders — before the optimizer is built, or in between
        # building and fitting it (an unrelated call must not disturb an optimizer that already exists)
        init_mode = ctx.rng.choice(["grid", "grid", "default", "sampler", "sampler-after-build"]) if ci not in forced else "default"
        push_up = init_mode.startswith("sampler") and ctx.rng.random() < 0.7
        if push_up:
            obj = L.Objective("onemax")
        F, CR = ctx.rng.choice([0.5, 1.0, 2.0]), ctx.rng.choice([0.0, 0.5, 1.0])
        records, pops, geno_batches = [], [], []
        use_g2p = ctx.rng.random() < 0.4
        elitism, minimization = ctx.rng.random() < 0.7, ctx.rng.random() < 0.4
        if push_up:
            minimization = False
        Cls = {"DE": DifferentialEvolution, "jDE": jDE, "SHADE": SHADE}[kind]

        def user_sample():
            import random as _random
            np.random.seed(seed % (1 << 31))
            _random.seed(seed)
            P0 = Cls.float_population(pop, left, right, dim)
            if np.asarray(P0).shape != (pop, dim) or any(not in_box(x, la, ra) for x in P0):
                rep.problem("population", f"{kind}.float_population: a sampled individual lies outside the box", dict(kind=kind, seed=seed, left=la.tolist(), right=ra.tolist()),
                            "sampler-outside-box", True, np.asarray(P0).tolist(), None, "C07_run_in_box")
            return np.asarray(P0, dtype=np.float64)

        def g2p(P):
            # same shape, different values: a phenotype written back into the genotype population leaves the box
            geno_batches.append(L.snap(P))
            return np.asarray(P, dtype=np.float64) * 1000.0 + 7.0
        with L.log_mode():
            if init_mode == "sampler":
                init = user_sample()
            common = dict(iters=ctx.pick(5, 8), pop_size=pop, left_border=left, right_border=right, num_variables=dim,
                          init_population=None if init_mode == "default" else init.copy(), random_state=seed, minimization=minimization, elitism=elitism,
                          genotype_to_phenotype=g2p if use_g2p else None)
            if kind == "DE":
                opt = DifferentialEvolution(obj, mutation=strat, F=F, CR=CR, **common)
            elif kind == "jDE":
                opt = jDE(obj, mutation=strat, **common)
            else:
                opt = SHADE(obj, **common)
            orig = opt._get_new_individ_g

            def w(individ_g, F, CR, orig=orig, opt=opt):
                start = len(MR.TAPE.log)
                st = dict(cur=L.snap(individ_g), best=L.snap(opt._thefittest._genotype), pop=L.snap(opt._population_g_i), F=float(F), CR=float(CR))
                if kind == "SHADE":
                    st.update(pbest=[int(v) for v in opt._pbest_id], archive=L.snap(opt._population_archive), fit=L.snap(opt._fitness_i))
                out = orig(individ_g, F, CR)
                st.update(out=L.snap(out), draws=list(MR.TAPE.log[start:]))
                records.append(st)
                return out
            opt._get_new_individ_g = w
            opt._on_generation = lambda o: pops.append(L.snap(o._population_g_i))
            if init_mode == "sampler-after-build":
                user_sample()
                user_sample()
            opt.fit()
            refit = ctx.rng.random() < (0.6 if kind == "SHADE" else 0.25)
            if refit:
                pops.append(L.snap(opt._population_g_i))
                opt.fit()            # the same object fitted again (a restart): every clause holds in the second run as well
            pops.append(L.snap(opt._population_g_i))
        rep.traces += 1
        rep.hist("harvest_kind", kind + (":" + strat if strat else ""))
        rep.hist("harvest_g2p/elitism/min", (use_g2p, elitism, minimization))
        rep.hist("harvest_init", init_mode)
        rep.hist("harvest_refit", refit)
        cfg = dict(kind=kind, strategy=strat, seed=seed, dim=dim, pop=pop, left=la.tolist(), right=ra.tolist(), F=F, CR=CR, objective=obj.kind,
                   g2p=use_g2p, elitism=elitism, minimization=minimization, init_mode=init_mode)
        # every candidate handed to the objective (its genotype when a genotype_to_phenotype is configured), every population member
        for X in (geno_batches if use_g2p else [b[0] for b in obj.batches]):
            for x in X:
                rep.count("candidate", (seed, tuple(np.asarray(x).tolist())), nontrivial=False)
                if not in_box(x, la, ra):
                    sig = "bounds_control_mean:border-plus-value" if kind == "SHADE" else "candidate-outside-box"
                    rep.problem("candidate", f"{kind}: a candidate handed to the fitness function lies outside the box", dict(cfg, x=np.asarray(x).tolist()),
                                sig, True, np.asarray(x).tolist(), None, "C07_run_in_box")
                    break
        for P in pops:
            if any(not in_box(x, la, ra) for x in P) or np.asarray(P).shape != (pop, dim):
                sig = "bounds_control_mean:border-plus-value" if kind == "SHADE" else "member-outside-box"
                rep.problem("population", f"{kind}: a population member lies outside the box", dict(cfg), sig, True, np.asarray(P).tolist(), None, "C07_run_in_box")
        # "an archive member where the strategy says so": every row of the archive view handed to current-to-pbest is an individual that
        # was a population member (or a candidate) of this optimizer at some point
        if kind == "SHADE":
            known = {tuple(np.asarray(x, dtype=np.float64).tolist()) for P in pops for x in P} | {tuple(np.asarray(x, dtype=np.float64).tolist()) for x in init}
            known |= {tuple(np.asarray(st["out"], dtype=np.float64).tolist()) for st in records} | {tuple(np.asarray(x, dtype=np.float64).tolist()) for st in records for x in st["pop"]}
            for st in records:
                bad_rows = [np.asarray(a).tolist() for a in st["archive"] if tuple(np.asarray(a, dtype=np.float64).tolist()) not in known]
                rep.count("shade_archive_members", (seed, len(rep.nontrivial)), nontrivial=False)
                if bad_rows:
                    rep.problem("candidate", "SHADE: the archive handed to current-to-pbest contains a row that was never a population member of this optimizer",
                                dict(cfg, row=bad_rows[0], refit=refit), "archive-foreign-row", True, bad_rows[0], None, "C07_shade_sound")
                    break
        for st in records:
            ds = draws_to_model(st["draws"])
            if ds is None:
                # draws of a kind / shape the named operators do not make: reported, never skipped (a changed sampling routine shows up here first)
                rep.problem("candidate", f"{kind}: _get_new_individ_g drew random numbers of a kind the named strategy / crossover do not use",
                            dict(cfg, draws=[list(map(str, d)) for d in st["draws"][:12]]), "unknown-draw-kind", False)
                continue
            case = dict(cfg, fn="_get_new_individ_g", cur=st["cur"].tolist(), best=np.asarray(st["best"]).tolist(), population=st["pop"].tolist(),
                        Fi=st["F"], CRi=st["CR"], draws=st["draws"], out=st["out"].tolist())
            if kind == "SHADE":
                rep.count("shade_new", (seed, len(rep.nontrivial)))
                # "a p-best member": the p-best set consists of individuals at least as fit as every individual outside it
                # (internal, maximisation-normalised fitness), and is non-empty
                fit_ = np.asarray(st["fit"], dtype=np.float64)
                inside = set(st["pbest"])
                outside = [float(fit_[j]) for j in range(len(fit_)) if j not in inside]
                if not inside or (outside and min(float(fit_[j]) for j in inside) < max(outside)):
                    rep.problem("pbest", "SHADE: the p-best set handed to current-to-pbest contains an individual that is worse than one outside the set",
                                dict(cfg, pbest=st["pbest"], fitness=fit_.tolist()), "pbest-not-best", True, st["pbest"], fit_.tolist(), "C07_shade_sound")
                # distinctness observation (JADE/SHADE prescribe r1 != r2 != i): recorded, not part of the model
                f_sh.add(f"({qv(st['cur'])}, {qm(st['pop'])}, {C.clist(st['pbest'], C.cz)}, {C.cq(st['F'])}, {C.cq(st['CR'])}, {qm(st['archive'])}, "
                         f"{qv(la)}, {qv(ra)}, {C.cdraws(ds)}, {qv(st['out'])})", case)
            else:
                code = STRATS.index(strat)
                rep.count("de_new", (seed, len(rep.nontrivial)))
                f_de.add(f"({C.cnat(code)}, {qv(st['cur'])}, {qv(st['best'])}, {qm(st['pop'])}, {C.cq(st['F'])}, {C.cq(st['CR'])}, {qv(la)}, {qv(ra)}, "
                         f"{C.cdraws(ds)}, {qv(st['out'])})", case)
        if records:
            rep.sample({k: v for k, v in C.jsonable(records[0]).items() if k not in ("pop", "archive")})


def replay(ctx, rp):
    return None      # generic replay of harness/main.py (re-executes the check, looks for the recorded signature)
