"""C05 — minimising f is exactly maximising -f."""
from __future__ import annotations

import numpy as np

import live as L
import loop_traces as LT
import translate_misc as TM
from props import _loop

ESCALATE = True     # cheap thorough tier: run it whenever an anchor file differs from the pinned fingerprint
RULE = ("paired live runs (same seed): minimization=True on f vs minimization=False on -f, optimal_value v vs -v, for all ten "
        "optimizer classes incl. the success-history / self-configuring / PDP adaptation paths, all elitism and stop settings; "
        "every evaluated batch, every get_stats() series, the adaptation state, get_fittest() and the number of generations must "
        "be identical (negation is exact in IEEE); the minimization run is also replayed through the Coq loop model; the "
        "readers of `_sign` are re-extracted from the source and checked against the allow-list theorem. distinct = configuration.")
THEORIES = _loop.THEORIES + ["GenMisc"]
TRUSTED = _loop.TRUSTED + ["translator harness/translate_misc.py (readers of _sign)"]
ASSUMPTIONS = _loop.ASSUMPTIONS


def gen(ctx):
    TM.emit()
    _loop.gen(ctx)


def same_stats(a, b):
    if set(a.keys()) != set(b.keys()):
        return "different series: %s vs %s" % (sorted(a.keys()), sorted(b.keys()))
    for k in a:
        if len(a[k]) != len(b[k]):
            return f"series {k}: {len(a[k])} vs {len(b[k])} entries"
        for i, (x, y) in enumerate(zip(a[k], b[k])):
            if isinstance(x, dict):
                ok = list(x.keys()) == list(y.keys()) and all(L.same(x[t], y[t]) for t in x)
            else:
                ok = L.same(x, y)
            if not ok:
                return f"series {k}, generation {i} differs"
    return None


def nan_eq(a, b):
    """equality of nested lists / tuples of numbers in which NaN equals NaN"""
    if isinstance(a, (list, tuple)) and isinstance(b, (list, tuple)):
        return len(a) == len(b) and all(nan_eq(x, y) for x, y in zip(a, b))
    if isinstance(a, float) and isinstance(b, float) and a != a and b != b:
        return True
    return a == b


def run(ctx, rep):
    def predicate(tr, rep):
        cfg = dict(tr["cfg"])
        if not cfg["minimization"]:
            return
        # the dual run: maximise -f, target -v
        dual = dict(cfg, minimization=False, scale=-cfg["scale"], offset=-cfg.get("offset", 0.0),
                    intobj=(-cfg["intobj"] if cfg.get("intobj") is not None else None))
        if cfg.get("optimal_value") is not None:
            dual["optimal_value"] = -cfg["optimal_value"]
        if "_uniset" in tr:
            dual["_uniset"] = tr["_uniset"]
        tr2 = LT.run_trace(dual)
        rep.traces += 1
        where = dict(cfg=cfg)
        if len(tr["batches"]) != len(tr2["batches"]):
            rep.problem("dual", "the two runs stop at different generations", where, "dual:generations", True,
                        len(tr["batches"]), len(tr2["batches"]), "C05_dual")
            return
        for i, (a, b) in enumerate(zip(tr["batches"], tr2["batches"])):
            if a["ph"] != b["ph"] or not nan_eq(a["fit"], b["fit"]):
                rep.problem("dual", f"generation {i}: the two runs evaluate different populations / normalised fitness", dict(where, generation=i),
                            "dual:population", True, None, None, "C05_dual")
                return
        if not nan_eq(tr["final"]["rec"], tr2["final"]["rec"]) or tr["final"]["counter"] != tr2["final"]["counter"]:
            rep.problem("dual", "the two runs report a different genotype / phenotype / normalised fitness", where, "dual:fittest", True,
                        tr["final"]["rec"][2], tr2["final"]["rec"][2], "C05_dual")
        d = same_stats(tr["stats"], tr2["stats"])
        if d:
            rep.problem("dual", "get_stats() histories differ: " + d, where, "dual:stats", True, None, None, "C05_dual")
        for attr in ("_H_F", "_H_CR", "_H_MR", "_F", "_CR", "_MR", "_selection_proba", "_crossover_proba", "_mutation_proba",
                     "_selection_operators", "_crossover_operators", "_mutation_operators", "_k"):
            if hasattr(tr["opt"], attr):
                x, y = getattr(tr["opt"], attr), getattr(tr2["opt"], attr)
                ok = (list(x.keys()) == list(y.keys()) and all(L.same(x[t], y[t]) for t in x)) if isinstance(x, dict) else L.same(x, y)
                if not ok:
                    rep.problem("dual", f"adaptation state {attr} differs between the two runs", where, "dual:adaptation", True, None, None, "C05_dual")
    _loop.run_all(ctx, rep, "C05", predicate, 24, 200, force=dict(minimization=True))
    parallel_pairs(ctx, rep)
    restart_pairs(ctx, rep)
    # objectives that are undefined (NaN) on part of the search space: the duality is about ALL objectives
    # (implementation vs implementation only: the exact loop model has no NaN)
    _loop.run_all(ctx, rep, "C05", predicate, 3, 12, model=False,
                  force=dict(minimization=True, objective="nanstrip", opt_mode="none", scale=1.0, offset=0.0, buffer=False, g2p=False, intobj=None))


def parallel_pairs(ctx, rep):
    """n_jobs > 1: minimising f and maximising -f must still visit the same populations (the sign is applied once, in the parent)"""
    import thefittest.optimizers as O
    import c16_objectives as CO
    plans = [("GeneticAlgorithm", dict(str_len=6), CO.onemax, CO.neg_onemax), ("DifferentialEvolution", dict(left_border=-2.0, right_border=2.0, num_variables=2), CO.sphere, CO.neg_sphere),
             ("SHADE", dict(left_border=-2.0, right_border=2.0, num_variables=2), CO.weighted, CO.neg_weighted), ("SHAGA", dict(str_len=6), CO.weighted, CO.neg_weighted)]
    for kind, kw, f, nf in plans[: ctx.pick(3, 4)]:
        seed, pop = ctx.rng.randrange(1 << 30), ctx.rng.choice([8, 9])
        runs = []
        for mini, obj in ((True, f), (False, nf)):
            opt = getattr(O, kind)(obj, iters=3, pop_size=pop, n_jobs=2, keep_history=True, random_state=seed, minimization=mini, **kw)
            opt.fit()
            runs.append(opt)
            rep.traces += 1
        rep.count("parallel-dual", (kind, seed))
        a, b = (r.get_stats() for r in runs)
        case = dict(kind=kind, n_jobs=2, random_state=seed, pop_size=pop)
        d = same_stats(a, b)
        fa, fb = runs[0].get_fittest(), runs[1].get_fittest()
        if d or not all(L.same(fa[k], fb[k]) for k in fa):
            rep.problem("dual", f"{kind} with n_jobs=2: minimising f and maximising -f differ ({d or 'reported fittest'})", case, "dual:parallel", True,
                        None, None, "C05_dual")


def restart_pairs(ctx, rep):
    """fit() called again on the same optimizer (a restart that keeps the best-so-far record): minimising f and maximising -f still coincide,
    run after run — the record carried into the second run is in the normalised orientation in both"""
    import thefittest.optimizers as O
    import c16_objectives as CO
    plans = [("GeneticAlgorithm", dict(str_len=7), CO.onemax, CO.neg_onemax), ("DifferentialEvolution", dict(left_border=-2.0, right_border=2.0, num_variables=2), CO.sphere, CO.neg_sphere),
             ("SHADE", dict(left_border=-2.0, right_border=2.0, num_variables=2), CO.weighted, CO.neg_weighted), ("SHAGA", dict(str_len=7), CO.weighted, CO.neg_weighted),
             ("jDE", dict(left_border=-2.0, right_border=2.0, num_variables=2), CO.sphere, CO.neg_sphere), ("SelfCGA", dict(str_len=7), CO.onemax, CO.neg_onemax)]
    for kind, kw, f, nf in plans[: ctx.pick(6, 6)]:
        seed, pop = ctx.rng.randrange(1 << 30), ctx.rng.choice([8, 9])
        elit = ctx.rng.random() < 0.7
        runs = []
        spelled = ctx.rng.choice([True, np.True_, 1, np.bool_(True)])      # a truthy flag is a truthy flag (numpy comparisons, 0/1 columns of a problem table)
        for mini, obj in ((spelled, f), (False, nf)):
            opt = getattr(O, kind)(obj, iters=3, pop_size=pop, keep_history=True, random_state=seed, minimization=mini, elitism=elit, no_increase_num=2, **kw)
            opt.fit()
            first = dict(opt.get_fittest())
            opt.fit()
            runs.append((opt, first))
            rep.traces += 2
        rep.count("restart-dual", (kind, seed))
        (oa, fa1), (ob, fb1) = runs
        case = dict(kind=kind, random_state=seed, pop_size=pop, elitism=elit, fits=2, minimization_flag=repr(spelled))
        d = same_stats(oa.get_stats(), ob.get_stats())
        fa, fb = oa.get_fittest(), ob.get_fittest()
        if d or not all(L.same(fa[k], fb[k]) for k in fa) or not all(L.same(fa1[k], fb1[k]) for k in fa1) or oa._thefittest._no_update_counter != ob._thefittest._no_update_counter:
            rep.problem("dual", f"{kind} fitted twice: minimising f and maximising -f differ ({d or 'reported fittest / stagnation counter'})", case, "dual:restart", True,
                        float(fa["fitness"]), float(fb["fitness"]), "C05_dual")
        if float(fa["fitness"]) < float(fa1["fitness"]):
            rep.problem("dual", f"{kind} fitted twice under minimisation: the best-so-far record got worse across the restart", case, "dual:restart", True,
                        float(fa["fitness"]), float(fa1["fitness"]), "C05_dual")


def replay(ctx, rp):
    return None      # generic replay of harness/main.py (re-executes the check, looks for the recorded signature)
