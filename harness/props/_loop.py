"""Shared driver for the loop properties C01, C02, C03, C05, C17: generates live traces of all ten
optimizer classes, applies the property-specific Python predicates, replays every trace through
the Coq loop model (LoopCheck.chk_loop)."""
from __future__ import annotations

import numpy as np

import common as C
import loop_traces as LT

THEORIES = ["Base", "EALoop", "EALoopProofs", "EALoopProofs2", "EAStore", "EAStoreProofs", "LoopCheck",
            "RandomPrims", "Py", "PyLemmas", "GenCode", "GenLoop", "CodeEqLoop", "CodeEqStep"]
TRUSTED = ["translator harness/translate_loop.py (class TheFittest and the scalar stopping logic of EvolutionaryAlgorithm -> gen/GenLoop.v, "
           "regenerated on every run; classes as records, methods as functions on them, -inf as the extended rationals of coq/theories/Py.v); "
           "update_best / terminate / aim_of of the loop model are PROVED equal to the generated definitions (theories/CodeEqLoop.v)",
           "model: coq/theories/EALoop.v; replay checker coq/theories/LoopCheck.v; trace recorder harness/loop_traces.py "
           "(objective / genotype_to_phenotype wrappers, on_generation callback, np.shares_memory / `is` alias observations)"]
ASSUMPTIONS = ["objective values finite (no NaN/inf: the record is never initialised on an all -inf batch)",
               "objective and genotype_to_phenotype are deterministic functions of the individual",
               "every batch of the variation operators has pop_size individuals (their side: C06-C08)"]
DIFF = {1: "number of generations", 2: "evaluation count", 3: "callback count", 4: "best-so-far triple", 5: "stagnation counter",
        6: "final population (after elitism)", 7: "history entries"}


BASE_CLASSES = ["TheFittest", "EvolutionaryAlgorithm"]
ADAPT_THEORIES = ["CodeEqGreedy", "Adapt", "AdaptProofs", "CodeEqC07", "CodeEqC11", "CodeEqC15", "CodeEqAdapt", "CodeEqAdaptStep"]


def gen(ctx, need=None):
    """(T) regenerate gen/GenLoop.v (and gen/GenCode.v, which it refers to for find_pbest_id and the update rules) from the working tree;
    fail closed on the classes the property's theorems are about"""
    import translate_code as TC
    import translate_loop as TL
    TC.emit()
    TL.emit(need=need or BASE_CLASSES)


def gen_greedy(ctx):
    import translate_code as TC
    gen(ctx, need=BASE_CLASSES + ["DifferentialEvolution", "SHADE", "jDE", "SHAGA"])
    TC.ensure(["find_pbest_id"] + TC.C15_METHODS)


def configs(ctx, n_per_kind, force=None):
    out = []
    strategies = ["best_2", "rand_1", "current_to_best_1", "rand_to_best1", "best_1", "rand_2"]
    for kind in LT.KINDS:
        for i in range(n_per_kind):
            f = dict(force or {})
            if kind in ("DifferentialEvolution", "jDE"):
                f.setdefault("strategy", strategies[i % 6])       # every strategy name is exercised, not sampled
                if i % 6 == 0:
                    f.setdefault("elitism", True)
            cfg = LT.random_config(ctx.rng, kind, **f)
            out.append(cfg)
    return out


def run_all(ctx, rep, pid, predicate, n_quick, n_thorough, force=None, model=True):
    """predicate(tr, rep) adds rep.problem(...) for violations of the property on this trace"""
    fc = C.CoqCases(ctx.scratch, "loop", LT.IMPORTS, "chk_loop", "lcase", shard=40)
    cfgs = configs(ctx, ctx.pick(n_quick, n_thorough), force)
    for cfg in cfgs:
        try:
            cfg = LT.with_target(cfg)
            tr = LT.run_trace(cfg)
        except Exception as e:
            import traceback
            rep.problem("run", f"optimizer run raised {type(e).__name__}: {e}", {k: v for k, v in cfg.items() if not k.startswith('_')},
                        "run-raised", False, None, traceback.format_exc()[-1500:])
            continue
        rep.traces += 1
        key = tuple(sorted((k, str(v)) for k, v in tr["cfg"].items()))
        rep.count("trace:" + cfg["kind"], key, nontrivial=len(tr["batches"]) > 1 or cfg["iters"] == 1)
        rep.hist("kind", cfg["kind"]), rep.hist("gens", len(tr["batches"])), rep.hist("objective", cfg["objective"])
        rep.hist("stop", f"opt={cfg['opt_mode']},nin={cfg['nin']}"), rep.hist("elitism/min/g2p/init", (cfg["elitism"], cfg["minimization"], cfg["g2p"], cfg["init"]))
        predicate(tr, rep)
        if model:
            term = LT.coq_case(tr)
            if term is None:
                rep.hist("not_expressible", cfg["kind"])
            else:
                fc.add(term, dict(cfg=tr["cfg"], n_batches=len(tr["batches"]), per_generation_best=LT.per_generation_best(tr),
                                  final=dict(rec=tr["final"]["rec"][2], counter=tr["final"]["counter"], calls=tr["final"]["calls"])))
        if len(rep.samples) < 3:
            rep.sample(dict(cfg=tr["cfg"], generations=len(tr["batches"]), per_generation_best=LT.per_generation_best(tr)[:6],
                            reported_best=tr["final"]["rec"][2], calls=tr["final"]["calls"]))
    if model:
        bad, errors = fc.run()
        rep.hist("coq_cases", len(fc))
        for e in errors:
            rep.problem("loop", "model evaluation failed: %s" % (e,), {}, "model-eval", False)
        for i in bad[:15]:
            why = fc.explain(i, "diff_loop c")
            rep.problem("loop", "loop model and implementation disagree on: " + why[-300:] + " (codes: %s)" % DIFF, fc.meta[i],
                        "loop:model-vs-impl", False, None, why[-600:])
    return cfgs


def replay_trace(ctx, rp, predicate):
    class R:
        def __init__(self):
            self.problems = []

        def problem(self, *a, **k):
            self.problems.append((a, k))

        def count(self, *a, **k):
            pass

        def hist(self, *a, **k):
            pass
    case = rp["first"]["case"]
    cfg = case.get("cfg", case)
    cfg = {k: v for k, v in cfg.items()}
    tr = LT.run_trace(cfg)
    r = R()
    predicate(tr, r)
    for a, k in r.problems:
        print("  still fails:", a[1] if len(a) > 1 else a)
    return not r.problems


def eq(a, b):
    return a == b or (isinstance(a, float) and isinstance(b, float) and np.isnan(a) and np.isnan(b))
