"""C20 — benchmark problems are pure functions with the documented optimum.

(T) gen(): regenerate coq/gen/GenBenchFootprint.v from /repo with translate_bench.py (fail-closed).
(X) run(): every scenario is executed by the REAL code in a FRESH interpreter (subprocess worker,
    below); the worker snapshots the module-level tables, the arrays kept on the instances and the
    argument before/after every event.  Checked:
      history   value of problem p at dimension D at a fixed point, after a random history of
                constructions/calls interleaving problems, instances and dimensions, is bit-identical
                to the value in a fresh interpreter (noisy problems: numpy's global generator is
                seeded identically before the compared call)
      argument  x is bit-identical before/after every call
      footprint every observed table change is predicted by the generated footprint (cell set and
                constant), i.e. the translator did not miss a write
      model     Bench.run over the generated table predicts the final table contents of every
                scenario from the initial ones (Coq, vm_compute, C20Check.chk_hist)
      rowwise   batch == each row alone (tolerance, see ROW_RTOL), optimum value at the prescribed
                point within fix_accuracy, value >= optimum - tol at random / border points.
"""
from __future__ import annotations

import json
import math
import os
import subprocess
import sys
import concurrent.futures as cf

HERE = os.path.dirname(os.path.abspath(__file__))
if __name__ != "__main__":
    import common as C
    import translate_bench as TB

RULE = ("per (class, D) in 39 problem classes x {2,10,30,50}: one fresh interpreter evaluates a fixed point "
        "(reference), batch-vs-row, the prescribed optimum and random/border points; H random histories "
        "(H=12 quick, 400 thorough; 5-40 random events, then all 156 (class,D) probes in random order) each in a "
        "fresh interpreter, probes compared bit-for-bit with the references; every event's observed table/argument "
        "changes compared with the generated footprint; every history replayed through the Coq model. "
        "A case is distinct by (family, class, D, scenario id).")
ASSUMPTIONS = ["value of a call depends on the store only through the read footprint extracted by the translator "
               "(validated by the bit-identical comparisons on the explored histories)",
               "data files are the CEC2005 data (contents not modelled: theorems hold for all initial contents)",
               "history / footprint scenarios use the dimensions {2,10,30,50}; optimum and lower bound are checked at every supported dimension"]
TRUSTED = ["translator harness/translate_bench.py (AST abstract interpretation; validated by observed-vs-generated "
           "footprints on every event of every scenario)",
           "models: coq/theories/Bench.v; checker coq/theories/C20Check.v; frozen pre-repair table BenchPre.v; "
           "BenchReal.v is an idealised hand transcription over Q (not tied to the code)",
           "row-wise equality is checked with relative tolerance 1e-6 (BLAS/SIMD kernels differ between batch shapes "
           "at the ulp level: measured up to 8e-11 on F22); history comparisons are exact (float.hex)"]
THEORIES = ["Base", "Bench", "BenchProofs", "BenchPre", "BenchProofs2", "BenchReal", "C20Check", "GenBenchFootprint"]

IMPORTS = ("From TF Require Import Base Bench C20Check.\nFrom TFG Require Import GenBenchFootprint.\n"
           "Open Scope Z_scope.")
GEN_PATH = None
TR = None            # translator result of this run
ROW_RTOL = 1e-6
NPSEED = 20050
DIMS = (2, 10, 30, 50)
BASIC_BOUNDS = (-5.0, 5.0)
BASIC_OPT = {  # basic functions: (optimum value, coordinate of the optimum point); OneMax is a counting function
    "Sphere": (0.0, 0.0), "Schwefe1_2": (0.0, 0.0), "HighConditionedElliptic": (0.0, 0.0), "Rosenbrock": (0.0, 1.0),
    "Rastrigin": (0.0, 0.0), "Griewank": (0.0, 0.0), "Ackley": (0.0, 0.0), "Weierstrass": (0.0, 0.0),
    "F8F2": (0.0, 1.0), "ExpandedScaffers_F6": (0.0, 0.0), "NonContinuosRastrigin": (0.0, 0.0),
    "NonContinuosExpandedScaffers_F6": (0.0, 0.0), "SphereWithNoise": (0.0, 0.0),
}


# =============================================================================== worker (fresh interpreter)
def _worker(job_path, out_path):
    import numpy as np
    job = json.load(open(job_path))
    import thefittest.benchmarks._optproblems as O
    import thefittest.benchmarks.CEC2005 as CEC  # noqa: F401  (what a user imports; constructs all 25 once)
    import thefittest.benchmarks.symbolicregression17 as SR

    tables = job.get("tables") or sorted(k for k, v in vars(O).items() if isinstance(v, np.ndarray))
    tables = [t for t in tables if isinstance(getattr(O, t, None), np.ndarray)]
    slots = {}

    def own_arrays():
        out = {}
        for k, inst in slots.items():
            for a, v in vars(inst).items():
                vs = v if isinstance(v, (list, tuple)) else [v]
                for j, w in enumerate(vs):
                    if isinstance(w, np.ndarray) and not any(np.shares_memory(w, getattr(O, t)) for t in tables):
                        out[(f"own:{type(inst).__name__}.{a}", k, j)] = w
        return out

    def snapshot():
        s = {("G", t): getattr(O, t).copy() for t in tables}
        for key, w in own_arrays().items():
            s[("O",) + key] = w.copy()
        return s

    def diff(before):
        ch = []
        now = {("G", t): getattr(O, t) for t in tables}
        for key, w in own_arrays().items():
            now[("O",) + key] = w
        for key, b in before.items():
            a = now.get(key)
            if a is None or a.shape != b.shape:
                ch.append([key[1], None, None, None])
                continue
            neq = ~((a == b) | (np.isnan(a) & np.isnan(b)))
            for idx in np.argwhere(neq)[:400]:
                ch.append([key[1], [int(i) for i in idx], float(b[tuple(idx)]).hex(), float(a[tuple(idx)]).hex()])
        return ch

    def make_x(spec, D):
        if spec["kind"] == "explicit":
            return np.array([[float.fromhex(h) for h in row] for row in spec["rows"]], dtype=np.float64)
        rng = np.random.default_rng(spec["seed"])
        lo, hi, n = spec["lo"], spec["hi"], spec["n"]
        x = rng.uniform(lo, hi, size=(n, D))
        if spec["kind"] == "border":
            pick = rng.integers(0, 3, size=(n, D))
            x = np.where(pick == 0, lo, np.where(pick == 1, hi, x))
            if n >= 3:
                x[0, :] = lo
                x[1, :] = hi
                x[2, :] = (lo + hi) / 2
        return np.ascontiguousarray(x, dtype=np.float64)

    init = snapshot()
    res = {"init": None, "steps": []}
    orig_normal = np.random.normal
    for st in job["steps"]:
        before = snapshot()
        r = {"op": st["op"]}
        try:
            if st["op"] == "new":
                slots[st["slot"]] = getattr(O, st["cls"])()
            elif st["op"] == "call":
                f = slots[st["slot"]]
                x = make_x(st["x"], st["D"])
                x0 = x.copy()
                if st.get("patch_noise"):
                    np.random.normal = lambda loc=0.0, scale=1.0, size=None: np.full(size, 0.75)
                if st.get("npseed") is not None:
                    np.random.seed(st["npseed"])
                try:
                    if st.get("rows_alone"):
                        y = np.array([f(x[i:i + 1])[0] for i in range(x.shape[0])])
                    else:
                        y = f(x)
                finally:
                    np.random.normal = orig_normal
                y = np.asarray(y, dtype=np.float64)
                r["y"] = [float(v).hex() for v in y.ravel()]
                r["yshape"] = list(y.shape)
                neq = ~((x == x0) | (np.isnan(x) & np.isnan(x0)))
                r["arg_changed"] = int(neq.sum())
                r["arg_examples"] = [[int(i), int(j), float(x0[i, j]).hex(), float(x[i, j]).hex()]
                                     for i, j in np.argwhere(neq)[:4]]
                if st.get("want_x"):
                    r["x"] = [[float(v).hex() for v in row] for row in x0]
            elif st["op"] == "perturb":
                # add 1.0 to every cell of every module-level table that is NOT in the given read footprint
                npert = 0
                for t in tables:
                    a = getattr(O, t)
                    mask = np.zeros(a.shape, dtype=bool)
                    for sels in st["keep"].get(t, []):
                        idx = []
                        for k in range(a.ndim):
                            if k < len(sels) and sels[k] is not None:
                                lo, hi, stp = sels[k]
                                idx.append(slice(max(lo, 0), max(min(hi, a.shape[k]), 0), stp))
                            else:
                                idx.append(slice(None))
                        mask[tuple(idx)] = True
                    a[~mask] += 1.0
                    npert += int((~mask).sum())
                r["perturbed"] = npert
            elif st["op"] == "sr17":
                out = {}
                for name, d in SR.problems_dict.items():
                    rng = np.random.default_rng(st["seed"] + int(name[1:]))
                    lo, hi = d["bounds"]
                    x = rng.uniform(lo, hi, size=(5, d["n_vars"]))
                    x0 = x.copy()
                    y1 = np.asarray(d["function"](x), dtype=np.float64)
                    y2 = np.asarray(d["function"](x), dtype=np.float64)
                    yr = np.array([d["function"](x[i:i + 1])[0] for i in range(5)], dtype=np.float64)
                    out[name] = dict(arg_changed=int((x != x0).sum()), repeat_equal=bool(np.array_equal(y1, y2)),
                                     shape=list(y1.shape),
                                     row_maxrel=float(np.max(np.abs(y1 - yr) / np.maximum(1.0, np.abs(y1)))))
                r["sr17"] = out
            else:
                raise ValueError(st["op"])
        except Exception as e:  # noqa: BLE001
            r["error"] = f"{type(e).__name__}: {e}"
        r["changes"] = diff(before) if st["op"] != "perturb" else []
        res["steps"].append(r)
    if job.get("want_final"):
        # initial and final contents of the requested cells (for the Coq model)
        fin = {}
        for t in tables:
            a0, a1 = init[("G", t)], getattr(O, t)
            fin[t] = dict(shape=list(a0.shape))
        res["tables"] = fin
        cells = []
        for (t, idx) in job.get("cells", []):
            a0, a1 = init[("G", t)], getattr(O, t)
            if all(0 <= i < s for i, s in zip(idx, a0.shape)) and len(idx) == a0.ndim:
                cells.append([t, idx, float(a0[tuple(idx)]).hex(), float(a1[tuple(idx)]).hex()])
        res["cells"] = cells
        allch = []
        for t in tables:
            a0, a1 = init[("G", t)], getattr(O, t)
            neq = ~((a0 == a1) | (np.isnan(a0) & np.isnan(a1)))
            for idx in np.argwhere(neq)[:600]:
                allch.append([t, [int(i) for i in idx], float(a0[tuple(idx)]).hex(), float(a1[tuple(idx)]).hex()])
        res["all_changes"] = allch
    json.dump(res, open(out_path, "w"))


if __name__ == "__main__":
    if len(sys.argv) == 4 and sys.argv[1] == "worker":
        _worker(sys.argv[2], sys.argv[3])
        sys.exit(0)
    sys.exit("usage: c20.py worker <job.json> <out.json>")


# =============================================================================== driver side
_JOBN = [0]


def run_job(ctx, job, timeout=600):
    _JOBN[0] += 1
    jp = ctx.scratch.path(f"job_{os.getpid()}_{_JOBN[0]}.json")
    op = jp[:-5] + ".out.json"
    json.dump(job, open(jp, "w"))
    env = dict(os.environ, OPENBLAS_NUM_THREADS="1", OMP_NUM_THREADS="1", MKL_NUM_THREADS="1",
               PYTHONPATH=C.SRC, PYTHONHASHSEED="0")
    p = subprocess.run([sys.executable, os.path.abspath(__file__), "worker", jp, op], capture_output=True, text=True,
                       timeout=timeout, env=env)
    if p.returncode != 0 or not os.path.exists(op):
        return {"crash": (p.stdout + p.stderr)[-3000:], "steps": []}
    out = json.load(open(op))
    os.remove(jp)
    os.remove(op)
    return out


def run_jobs(ctx, jobs):
    with cf.ThreadPoolExecutor(max_workers=C.NCPU) as ex:
        return list(ex.map(lambda j: run_job(ctx, j), jobs))


def gen(ctx):
    """(T) regenerate the footprint table from the working tree; fail-closed"""
    global TR, GEN_PATH
    GEN_PATH = os.path.join(C.COQ, "gen", "GenBenchFootprint.v")
    TR = None
    try:
        TR = TB.translate(os.path.join(C.SRC, "thefittest/benchmarks/_optproblems.py"),
                          os.path.join(C.SRC, "thefittest/benchmarks/CEC2005.py"))
    except Exception:
        # leave a table that cannot satisfy the obligations rather than a stale one
        os.makedirs(os.path.dirname(GEN_PATH), exist_ok=True)
        with open(GEN_PATH, "w") as fh:
            fh.write("(* translator failed closed: see the run's report *)\nFrom TF Require Import Base Bench.\n"
                     "From Coq Require Import String.\nOpen Scope string_scope.\n"
                     "Definition table_names : list string := [].\n"
                     "Definition table : list entry := [ {| e_name := \"TRANSLATOR-FAILED\"; e_ctor := []; e_call := "
                     "[ {| w_tab := 0; w_sel := []; w_val := VOpaque; w_line := 0 |} ]; e_arg := "
                     "[ {| w_tab := 0; w_sel := []; w_val := VOpaque; w_line := 0 |} ]; e_reads := "
                     "[ {| r_tab := 0; r_sel := [] |} ]; e_noisy := true |} ].\n"
                     "Definition cec_problems : list (string * string * list Z) := [].\n")
        raise
    TB.emit_coq(TR, GEN_PATH)


# ------------------------------------------------------------------ problem metadata (from the real modules)
def problem_meta():
    """class name -> dict(bounds, optimum, fix_accuracy, key, optimum_x (raw, before any call))"""
    import numpy as np
    import thefittest.benchmarks.CEC2005 as CEC
    import thefittest.benchmarks._optproblems as O
    meta = {}
    for k, v in CEC.problems_dict.items():
        cls = v["function"].__name__
        meta[cls] = dict(key=k, bounds=(float(v["bounds"][0]), float(v["bounds"][1])), optimum=float(v["optimum"]),
                         fix=float(v["fix_accuracy"]), optimum_x=np.array(v["optimum_x"], dtype=np.float64).copy(),
                         dims=list(v["dimentions"]))
    names = [n for n, c in vars(O).items() if isinstance(c, type) and c.__module__ == O.__name__]
    return meta, names


def prescribed_optimum(cls, meta, D):
    """the shifted optimal point CEC2005 prescribes for dimension D: problems_dict's optimum_x[:D] plus the
    dimension-dependent adjustments of the definition (F5: o_i=-100, i<=ceil(D/4); o_i=100, i>=floor(3D/4);
    F8: o_(2j-1)=-32; F20: 5 at the positions the implementation uses, o1[1:int(D/2):2])"""
    import numpy as np
    o = meta[cls]["optimum_x"][:D].copy()
    k = meta[cls]["key"]
    if k == "F5":
        o[int(math.floor(3 * D / 4)) - 1:D] = 100.0
        o[:int(math.ceil(D / 4))] = -100.0
    elif k == "F8":
        o[0:D:2] = -32.0
    elif k == "F20":
        o[1:int(D / 2):2] = 5.0
    return o


def bounds_of(cls, meta):
    return meta[cls]["bounds"] if cls in meta else BASIC_BOUNDS


# ------------------------------------------------------------------ footprint evaluation (python side)
def predicted_cells(entry, kind, D, shapes):
    """cells (table name -> {idx tuple: const or None}) the generated footprint says the event may write"""
    import itertools
    out = {}
    for w in entry["ctor" if kind == "new" else "call"]:
        t = TR["tables"][w["tab"]]
        shp = shapes.get(t)
        if shp is None:
            out.setdefault(t, {})["*"] = None
            continue
        sels = TB.eval_sels(w["sels"], D)
        axes = []
        for k, n in enumerate(shp):
            if k < len(sels) and sels[k] is not None:
                lo, hi, stp = sels[k]
                axes.append([i for i in range(max(lo, 0), min(hi, n), stp)])
            else:
                axes.append(list(range(n)))
        for idx in itertools.product(*axes):
            out.setdefault(t, {})[idx] = w["val"]
    return out


def check_footprint(rep, entry_by_name, cls, kind, D, changes, shapes, case):
    """observed changes of one event must be inside the generated write footprint, with the generated constant"""
    if TR is None:
        return
    e = entry_by_name.get(cls)
    if e is None:
        rep.problem("footprint", f"class {cls} is missing from the generated table", case, "footprint:missing-entry")
        return
    pred = predicted_cells(e, kind, D, shapes)
    for (t, idx, b, a) in changes:
        tname = t
        p = pred.get(tname, {})
        if idx is None:
            rep.problem("footprint", f"table {t} changed shape/identity during {kind} of {cls}", case, "footprint:shape")
            continue
        key = tuple(idx)
        if "*" in p:
            continue
        if key not in p:
            rep.problem("footprint", f"{kind} of {cls} (D={D}) changed {t}{list(key)} from {float.fromhex(b)} to "
                        f"{float.fromhex(a)} but the generated footprint has no such write (translator missed it)",
                        case, "footprint:unpredicted-write", False, dict(table=t, index=list(key)), None)
        elif p[key] is not None and float(p[key]) != float.fromhex(a):
            rep.problem("footprint", f"{kind} of {cls} (D={D}) wrote {float.fromhex(a)} into {t}{list(key)}; the generated "
                        f"footprint says constant {p[key]}", case, "footprint:constant", False)


# ------------------------------------------------------------------ main correspondence
def run(ctx, rep):
    import numpy as np
    meta, classes = problem_meta()
    abstract = set(TB.ABSTRACT)
    classes = [c for c in classes if c not in abstract]
    entry_by_name = {e["name"]: e for e in TR["entries"]} if TR else {}
    if TR is not None:
        gen_names = [e["name"] for e in TR["entries"]]
        if sorted(gen_names) != sorted(classes):
            rep.problem("footprint", "generated table and the module disagree on the set of problem classes: "
                        f"only generated {sorted(set(gen_names) - set(classes))}, only in module "
                        f"{sorted(set(classes) - set(gen_names))}", {}, "footprint:classes")
    tables = [t for t in TR["tables"] if not t.startswith("own:")] if TR else None
    rng = ctx.rng

    def xspec(cls, D, kind="uniform", n=3, seed=None):
        lo, hi = bounds_of(cls, meta)
        return dict(kind=kind, seed=seed if seed is not None else rng.randrange(2 ** 31), n=n, lo=lo, hi=hi)

    def ref_x(cls, D):
        lo, hi = bounds_of(cls, meta)
        return dict(kind="uniform", seed=(ctx.seed * 7919 + classes.index(cls) * 101 + D) % (2 ** 31), n=3, lo=lo, hi=hi)

    def probe_step(cls, D, slot):
        return dict(op="call", slot=slot, D=D, x=ref_x(cls, D), npseed=NPSEED)

    # ---------------- S1: one fresh interpreter per (class, D): reference + row-wise + optimum + lower bound
    npts = ctx.pick(12, 96)
    jobs, keys = [], []
    for cls in classes:
        for D in DIMS:
            steps = [dict(op="new", cls=cls, slot=0), probe_step(cls, D, 0)]
            xb = xspec(cls, D, n=4)
            steps.append(dict(op="call", slot=0, D=D, x=xb, patch_noise=True, npseed=NPSEED))
            steps.append(dict(op="call", slot=0, D=D, x=xb, patch_noise=True, npseed=NPSEED, rows_alone=True))
            steps.append(dict(op="call", slot=0, D=D, x=xspec(cls, D, "uniform", npts), npseed=NPSEED, want_x=True))
            steps.append(dict(op="call", slot=0, D=D, x=xspec(cls, D, "border", npts), npseed=NPSEED, want_x=True))
            if cls in meta:
                o = prescribed_optimum(cls, meta, D)
                steps.append(dict(op="call", slot=0, D=D, npseed=NPSEED,
                                  x=dict(kind="explicit", rows=[[float(v).hex() for v in o]])))
            elif cls in BASIC_OPT:
                steps.append(dict(op="call", slot=0, D=D, npseed=NPSEED,
                                  x=dict(kind="explicit", rows=[[float(BASIC_OPT[cls][1]).hex()] * D])))
            jobs.append(dict(steps=steps, tables=tables, want_final=True, cells=[]))
            keys.append((cls, D))
    outs = run_jobs(ctx, jobs)
    ref, shapes = {}, {}
    exact_rows = 0
    reported = set()
    for (cls, D), job, out in zip(keys, jobs, outs):
        case0 = dict(kind="fresh", cls=cls, D=D, steps=job["steps"][:2])
        if "crash" in out:
            rep.problem("worker", f"fresh interpreter crashed for {cls} D={D}: {out['crash'][-600:]}", case0, "worker-crash")
            continue
        for t, d in out.get("tables", {}).items():
            shapes[t] = tuple(d["shape"])
        st = out["steps"]
        errs = [s.get("error") for s in st if s.get("error")]
        if errs:
            rep.problem("worker", f"{cls} D={D}: exception in the implementation: {errs[0]}", case0, "impl-exception:" + cls, True,
                        errs[0], None, "C20 (call raises)")
            continue
        ref[(cls, D)] = st[1]["y"]
        rep.count("reference", (cls, D))
        # argument untouched + footprints on every event of this process
        for j, (sj, rj) in enumerate(zip(job["steps"], st)):
            kind = sj["op"]
            check_footprint(rep, entry_by_name, cls, kind, D, rj["changes"], shapes, dict(case0, step=j))
            if kind == "call":
                rep.count("argument", (cls, D, j))
                if rj["arg_changed"] and ("argument:" + cls) not in reported:
                    reported.add("argument:" + cls)
                    case = dict(kind="argument", cls=cls, D=D, x=sj["x"], npseed=sj.get("npseed"))
                    rep.problem("argument", f"{cls}.__call__ modified its argument in place ({rj['arg_changed']} entries, e.g. "
                                f"[row, col, before, after] = {[[e[0], e[1], float.fromhex(e[2]), float.fromhex(e[3])] for e in rj['arg_examples'][:2]]})",
                                case, "argument:" + cls, True, rj["arg_examples"], None, "C20_argument_untouched")
        # row-wise
        yb = np.array([float.fromhex(h) for h in st[2]["y"]])
        yr = np.array([float.fromhex(h) for h in st[3]["y"]])
        rep.count("rowwise", (cls, D), n=len(yb))
        if st[2]["yshape"] != [4]:
            rep.problem("rowwise", f"{cls} D={D}: a population of 4 rows gives output shape {st[2]['yshape']}", case0, "rowwise:shape", True)
        elif not np.all(np.abs(yb - yr) <= ROW_RTOL * np.maximum(1.0, np.abs(yb))):
            rep.problem("rowwise", f"{cls} D={D}: batch evaluation differs from row-by-row evaluation: {yb.tolist()} vs {yr.tolist()}",
                        dict(kind="rowwise", cls=cls, D=D, x=job["steps"][2]["x"]), "rowwise:" + cls, True, yb.tolist(), yr.tolist(),
                        "C20 row-wise")
        else:
            exact_rows += int(np.array_equal(yb, yr))
        # lower bound / finiteness
        if cls in meta:
            opt, tol = meta[cls]["optimum"], 1e-9 * max(1.0, abs(meta[cls]["optimum"]))
        elif cls in BASIC_OPT:
            opt, tol = BASIC_OPT[cls][0], 1e-9
        else:
            opt = None
        if opt is not None:
            for j in (4, 5):
                y = np.array([float.fromhex(h) for h in st[j]["y"]])
                rep.count("lower-bound", (cls, D, j), n=len(y))
                bad = np.where(~(y >= opt - tol))[0]
                if len(bad):
                    i = int(bad[0])
                    case = dict(kind="lower", cls=cls, D=D, opt=opt, tol=tol,
                                x=dict(kind="explicit", rows=[st[j]["x"][i]]), npseed=NPSEED)
                    rep.problem("lower-bound", f"{cls} D={D}: value {y[i]} below the documented optimum {opt} (or not finite) at a "
                                f"point {'on the border of' if j == 5 else 'inside'} the bounds", case, "lower:" + cls, True, float(y[i]), None,
                                "C20 lower bound")
            # optimum attained at the prescribed point
            y = float.fromhex(st[6]["y"][0])
            fix = meta[cls]["fix"] if cls in meta else 1e-9
            rep.count("optimum", (cls, D))
            if not abs(y - opt) <= fix:
                case = dict(kind="optimum", cls=cls, D=D, opt=opt, fix=fix, x=job["steps"][6]["x"], npseed=NPSEED)
                rep.problem("optimum", f"{cls} D={D}: value at the prescribed optimal point is {y}, documented optimum {opt} "
                            f"(fix_accuracy {fix})", case, "optimum:" + cls, True, y, None, "C20 optimum")
    rep.hist("rowwise_bit_exact_of_%d" % len(keys), exact_rows)
    # ---------------- every SUPPORTED dimension (problems_dict["dimentions"]: 2..100 for F1, F2, F4, F5, F6, F12, F13, 2..50 for F9):
    # optimum at the point prescribed for that dimension, lower bound on a few points, output shape
    import thefittest.benchmarks._optproblems as OPM0
    for cls in classes:
        if cls not in meta:
            continue
        extra_dims = [int(D) for D in meta[cls]["dims"] if int(D) not in DIMS]
        for D in extra_dims:
            opt, fix = meta[cls]["optimum"], meta[cls]["fix"]
            tol = 1e-9 * max(1.0, abs(opt))
            o = prescribed_optimum(cls, meta, D)
            lo, hi = bounds_of(cls, meta)
            rs = np.random.RandomState(ctx.seed * 131 + D)
            Xr = rs.uniform(lo, hi, size=(5, D))
            try:
                inst = getattr(OPM0, cls)()
                y0 = float(np.asarray(inst(o[None, :].copy()), dtype=np.float64)[0])
                yr = np.asarray(inst(Xr.copy()), dtype=np.float64)
            except Exception as e:   # noqa: BLE001
                rep.problem("worker", f"{cls} D={D}: exception at a supported dimension: {type(e).__name__}: {e}", dict(kind="dim-sweep", cls=cls, D=D),
                            "impl-exception:" + cls, True)
                continue
            rep.count("optimum-every-dimension", (cls, D))
            if not abs(y0 - opt) <= fix:
                rep.problem("optimum", f"{cls} D={D}: value at the prescribed optimal point is {y0}, documented optimum {opt} (fix_accuracy {fix})",
                            dict(kind="optimum", cls=cls, D=D, opt=opt, fix=fix, x=dict(kind="explicit", rows=[[float(v).hex() for v in o]]), npseed=NPSEED),
                            "optimum:" + cls, True, y0, None, "C20 optimum")
            if yr.shape != (5,) or not np.all(yr >= opt - tol):
                i = int(np.argmin(yr)) if yr.shape == (5,) else 0
                rep.problem("lower-bound", f"{cls} D={D}: value {yr.tolist()} below the documented optimum {opt} (or wrong shape) inside the bounds",
                            dict(kind="lower", cls=cls, D=D, opt=opt, tol=tol, x=dict(kind="explicit", rows=[[float(v).hex() for v in Xr[i]]]), npseed=NPSEED),
                            "lower:" + cls, True, yr.tolist(), None, "C20 lower bound")
    # ---------------- large batches ("all batch sizes"): rows of a population of > 1024 individuals equal the rows alone
    import thefittest.benchmarks._optproblems as OPM
    noisy_names = {e["name"] for e in TR["entries"] if e.get("noisy")} if TR else set()
    for cls in classes:
        if cls in noisy_names or "Noise" in cls:
            continue
        for n_rows, D in ((1030, 2), (2500, 10)) if not ctx.quick else ((1030, 2),):
            lo, hi = bounds_of(cls, meta)
            rs = np.random.RandomState(ctx.seed * 31 + len(cls) + n_rows)
            Xl = rs.uniform(lo, hi, size=(n_rows, D))
            try:
                yb = np.asarray(getattr(OPM, cls)()(Xl.copy()), dtype=np.float64)
            except Exception as e:
                rep.problem("worker", f"{cls} D={D}: exception on a batch of {n_rows} rows: {type(e).__name__}: {e}", dict(kind="bigbatch", cls=cls, D=D, n=n_rows),
                            "impl-exception:" + cls, True)
                continue
            idx = sorted(set([0, 1, 1023, 1024, 1025, n_rows - 2, n_rows - 1] + [int(v) for v in rs.randint(0, n_rows, 4)]))
            idx = [i for i in idx if 0 <= i < n_rows]
            rep.count("rowwise-bigbatch", (cls, D, n_rows), n=len(idx))
            bad = None
            if yb.shape != (n_rows,):
                bad = f"output shape {yb.shape}"
            else:
                for i in idx:
                    ya = float(np.asarray(getattr(OPM, cls)()(Xl[i:i + 1].copy()))[0])
                    if not (np.isfinite(yb[i]) and abs(yb[i] - ya) <= ROW_RTOL * max(1.0, abs(ya))):
                        bad = f"row {i}: {yb[i]!r} in the batch, {ya!r} alone"
                        break
            if bad:
                rep.problem("rowwise", f"{cls} D={D}: in a population of {n_rows} rows, {bad}", dict(kind="bigbatch", cls=cls, D=D, n=n_rows, seed=ctx.seed),
                            "rowwise-bigbatch:" + cls, True, None, None, "C20 row-wise")
    # ---------------- converged populations: rows that are close to each other (not identical), near the optimum and elsewhere in the box —
    #                  every row is still its own row (the property says "each row's value equals the value obtained when that row is evaluated alone")
    for cls in classes:
        if cls in noisy_names or "Noise" in cls:
            continue
        for D in (2, 10):
            try:
                lo, hi = bounds_of(cls, meta)
                inst0 = getattr(OPM, cls)()
                rs = np.random.RandomState(ctx.seed * 17 + len(cls) + D)
                centre = rs.uniform(lo, hi, size=D) * 0.5
                centres = [centre]
                o_ = optimum_point(cls, D) if "optimum_point" in globals() else None
                if o_ is not None:
                    centres.append(np.asarray(o_, dtype=np.float64) + 0.05)
                for c_ in centres:
                    Xc = c_[None, :] * (1.0 + 2e-6 * rs.uniform(-1, 1, size=(6, D))) + 1e-9 * rs.uniform(-1, 1, size=(6, D))
                    yb = np.asarray(inst0(Xc.copy()), dtype=np.float64)
                    rep.count("rowwise-cluster", (cls, D, len(centres)))
                    for i in range(len(Xc)):
                        ya = float(np.asarray(getattr(OPM, cls)()(Xc[i:i + 1].copy()))[0])
                        if not (np.isfinite(yb[i]) and abs(yb[i] - ya) <= ROW_RTOL * max(1.0, abs(ya))):
                            rep.problem("rowwise", f"{cls} D={D}: in a tight cluster of 6 rows, row {i}: {yb[i]!r} in the batch, {ya!r} alone",
                                        dict(kind="cluster", cls=cls, D=D, x=dict(kind="explicit", rows=[[float(v).hex() for v in r] for r in Xc])),
                                        "rowwise-cluster:" + cls, True, float(yb[i]), ya, "C20 row-wise")
                            break
            except Exception as e:   # noqa: BLE001
                rep.hist("cluster_skipped", f"{cls}:{type(e).__name__}")
    rep.sample(dict(family="reference", cls="Schwefel2_6", D=10, y=[float.fromhex(h) for h in ref.get(("Schwefel2_6", 10), [])]))

    # ---------------- S1b: symbolic-regression functions (plain functions of x)
    out = run_job(ctx, dict(steps=[dict(op="sr17", seed=rng.randrange(10 ** 6))], tables=tables))
    for name, d in (out["steps"][0].get("sr17", {}) if out.get("steps") else {}).items():
        rep.count("sr17", name)
        if d["arg_changed"] or not d["repeat_equal"] or d["row_maxrel"] > ROW_RTOL or d["shape"] != [5]:
            rep.problem("sr17", f"symbolicregression17.{name}: not a pure row-wise function of x: {d}", dict(kind="sr17", name=name),
                        "sr17:" + name, True, d)
    if out.get("crash") or (out.get("steps") and out["steps"][0].get("error")):
        rep.problem("worker", "symbolicregression17 worker failed: %s" % (out.get("crash") or out["steps"][0].get("error")), {}, "worker-crash")

    # ---------------- S1c: completeness of the READ footprint: perturb every table cell outside it
    if TR:
        jobs, keys = [], []
        for cls in classes:
            e = entry_by_name.get(cls)
            if e is None:
                continue
            for D in DIMS:
                keep = {}
                for r in e["reads"]:
                    keep.setdefault(TR["tables"][r["tab"]], []).append(TB.eval_sels(r["sels"], D))
                jobs.append(dict(steps=[dict(op="new", cls=cls, slot=0), dict(op="perturb", keep=keep), probe_step(cls, D, 0)],
                                 tables=tables))
                keys.append((cls, D))
        for (cls, D), job, out in zip(keys, jobs, run_jobs(ctx, jobs)):
            case = dict(kind="read-footprint", cls=cls, D=D, steps=job["steps"])
            if "crash" in out or any(s.get("error") for s in out["steps"]):
                rep.problem("read-footprint", f"{cls} D={D}: worker failed: {out.get('crash') or [s.get('error') for s in out['steps']]}",
                            case, "worker-crash")
                continue
            rep.count("read-footprint", (cls, D), nontrivial=out["steps"][1]["perturbed"] > 0)
            if (cls, D) in ref and out["steps"][2]["y"] != ref[(cls, D)]:
                rep.problem("read-footprint", f"{cls} D={D}: the value changes when table cells OUTSIDE the generated read footprint are "
                            f"perturbed ({out['steps'][1]['perturbed']} cells): the translator's read set is incomplete", case,
                            "read-footprint:incomplete", False, [float.fromhex(h) for h in out["steps"][2]["y"]],
                            [float.fromhex(h) for h in ref[(cls, D)]])

    # ---------------- S2: random histories, then all probes
    writers = [e["name"] for e in TR["entries"] if e["ctor"] or e["call"]] if TR else []
    nh = ctx.pick(12, 400)
    scen = []
    for s in range(nh):
        steps, live = [], {}      # slot -> cls
        L = rng.randint(5, 40)
        for _ in range(L):
            if not live or rng.random() < 0.35:
                pool = writers if (writers and rng.random() < 0.5) else classes
                cls = rng.choice(pool)
                slot = len(live)
                live[slot] = cls
                steps.append(dict(op="new", cls=cls, slot=slot))
            else:
                slot = rng.choice(list(live))
                D = rng.choice(DIMS)
                steps.append(dict(op="call", slot=slot, D=D, x=xspec(live[slot], D, rng.choice(["uniform", "border"]), rng.randint(1, 4))))
        probes = [(c, D) for c in classes for D in DIMS]
        rng.shuffle(probes)
        pidx = {}
        for (c, D) in probes:
            have = [k for k, v in live.items() if v == c]
            if have and rng.random() < 0.6:
                slot = rng.choice(have)
            else:
                slot = len(live)
                live[slot] = c
                steps.append(dict(op="new", cls=c, slot=slot))
            pidx[len(steps)] = (c, D)
            steps.append(probe_step(c, D, slot))
        scen.append((steps, pidx, dict(live)))
    # cells to observe for the model: everything any generated write can touch + a few others
    cells = []
    if TR:
        seen = set()
        for e in TR["entries"]:
            for kind in ("new", "call"):
                for D in (DIMS if kind == "call" else (2,)):
                    for t, d in predicted_cells(e, kind, D, shapes).items():
                        if t.startswith("own:"):
                            continue
                        for idx in d:
                            if idx != "*" and (t, idx) not in seen:
                                seen.add((t, idx))
                                cells.append([t, list(idx)])
        for t in ("sphere_func_data", "fbias_data", "rastrigin_func_data"):
            if t in shapes:
                cells.append([t, [0] * len(shapes[t])])
    outs = run_jobs(ctx, [dict(steps=st, tables=tables, want_final=True, cells=cells) for (st, _, _) in scen])
    f_hist = C.CoqCases(ctx.scratch, "hist", IMPORTS, "chk_hist table", "list event * list (cell * Q * Q)", shard=4)
    nshrink = 0
    for sid, ((steps, pidx, live), out) in enumerate(zip(scen, outs)):
        if "crash" in out:
            rep.problem("worker", f"history scenario crashed: {out['crash'][-600:]}", dict(kind="history", steps=steps[:40]), "worker-crash")
            continue
        slot_cls = {}
        for j, (sj, rj) in enumerate(zip(steps, out["steps"])):
            if sj["op"] == "new":
                slot_cls[sj["slot"]] = sj["cls"]
            cls = slot_cls[sj["slot"]]
            if rj.get("error"):
                rep.problem("worker", f"exception in {cls} during a history: {rj['error']}", dict(kind="history", steps=steps[:j + 1]),
                            "impl-exception:" + cls, True, rj["error"])
                continue
            check_footprint(rep, entry_by_name, cls, sj["op"], sj.get("D", 2), rj["changes"], shapes,
                            dict(kind="history-step", scenario=sid, step=j, cls=cls, D=sj.get("D")))
            rep.count("history-event", (sid, j), nontrivial=bool(rj["changes"]))
            if sj["op"] == "call" and rj["arg_changed"] and ("argument:" + cls) not in reported:
                reported.add("argument:" + cls)
                rep.problem("argument", f"{cls}.__call__ modified its argument in place", dict(kind="argument", cls=cls, D=sj["D"], x=sj["x"],
                            npseed=sj.get("npseed")), "argument:" + cls, True, rj["arg_examples"], None, "C20_argument_untouched")
            if j in pidx:
                c, D = pidx[j]
                rep.count("history-probe", (sid, c, D))
                rep.traces += 1
                if (c, D) in ref and rj["y"] != ref[(c, D)]:
                    sig = "history:" + c
                    if sig in reported:
                        continue
                    reported.add(sig)
                    pre = steps[:j]
                    if nshrink < 6:
                        nshrink += 1
                        pre = shrink(ctx, pre, steps[j], ref[(c, D)], tables)
                    got = [float.fromhex(h) for h in rj["y"]]
                    exp = [float.fromhex(h) for h in ref[(c, D)]]
                    case = dict(kind="history", cls=c, D=D, steps=pre, probe=steps[j], fresh_steps=[dict(op="new", cls=c, slot=0), probe_step(c, D, 0)])
                    rep.problem("history", f"{c} at D={D}: value at a fixed point depends on earlier calls: fresh interpreter {exp}, after "
                                f"{len(pre)} earlier event(s) {got}", case, sig, True, got, exp, "C20_history_independent")
        # model: events + observed cells
        if TR:
            idx_of = {e["name"]: k for k, e in enumerate(TR["entries"])}
            tab_of = {t: k for k, t in enumerate(TR["tables"])}
            evs = []
            for sj in steps:
                if sj["op"] == "new":
                    evs.append(f"Ctor {idx_of[sj['cls']]}")
                else:
                    evs.append(f"Call {idx_of[slot_cls_of(steps, sj['slot'])]} {sj['D']}")
            # the worker imported CEC2005, which constructed each of the 25 classes once before `init`
            obs = {(t, tuple(i)): (a, b) for (t, i, a, b) in out.get("cells", [])}
            for (t, i, a, b) in out.get("all_changes", []):
                obs[(t, tuple(i))] = (a, b)
            ps = [f"(({tab_of[t]}%nat, {C.clist(list(i), C.cz)}), {C.cq(float.fromhex(a))}, {C.cq(float.fromhex(b))})"
                  for (t, i), (a, b) in sorted(obs.items()) if t in tab_of]
            f_hist.add(f"({C.clist(evs)}, {C.clist(ps)})", dict(kind="history-model", scenario=sid, n_events=len(evs), n_cells=len(ps)))
            rep.count("history-model", sid)
            rep.hist("history_len", 10 * (len(steps) // 10))
            rep.hist("changed_cells", min(len(out.get("all_changes", [])), 99) // 10 * 10)
    if scen:
        rep.sample(dict(family="history", first_events=scen[0][0][:6], n_events=len(scen[0][0])))
    bad, errors = f_hist.run()
    rep.hist("coq_cases", "hist:" + str(len(f_hist)))
    for e in errors:
        rep.problem("history-model", "model evaluation failed: %s" % (e,), {}, "model-eval", False)
    for i in bad[:10]:
        rep.problem("history-model", "Bench.run over the generated table does not predict the observed final table contents",
                    f_hist.meta[i], "history-model:model-vs-impl", False)

    # ---------------- S3: corpus (recorded refutation witnesses / earlier findings), replayed on the real code
    for rec in load_corpus():
        rep.count("corpus", rec["name"])
        if rec["kind"] == "history":
            pre = [dict(s) for s in rec["steps"]]
            c, D = rec["cls"], rec["D"]
            for s_ in pre:
                if s_["op"] == "call":
                    s_["x"] = ref_x(slot_cls_of(pre, s_["slot"]), s_["D"])
            slot = next(s_["slot"] for s_ in pre if s_["op"] == "new" and s_["cls"] == c)
            case = dict(kind="history", cls=c, D=D, steps=pre, probe=probe_step(c, D, slot),
                        fresh_steps=[dict(op="new", cls=c, slot=0), probe_step(c, D, 0)])
            ok, got, exp = replay_history(ctx, case, tables)
            if not ok:
                rep.problem("history", f"{c} at D={D} ({rec['name']}): value depends on earlier calls: fresh {exp}, after the recorded "
                            f"history {got}", case, "history:" + c, True, got, exp, "C20_history_independent")
        elif rec["kind"] == "argument":
            c, D = rec["cls"], rec["D"]
            xs = xspec(c, D, "uniform", 3, seed=rec.get("seed", 1))
            out = run_job(ctx, dict(steps=[dict(op="new", cls=c, slot=0), dict(op="call", slot=0, D=D, x=xs, npseed=NPSEED)], tables=tables))
            st = out.get("steps", [])
            if len(st) < 2 or st[1].get("error") or st[1].get("arg_changed"):
                rep.problem("argument", f"{c}.__call__ modified its argument in place ({rec['name']})", dict(kind="argument", cls=c, D=D, x=xs,
                            npseed=NPSEED), "argument:" + c, True, st[1].get("arg_examples") if len(st) > 1 else out.get("crash"), None,
                            "C20_argument_untouched")
    rep.exhaustive = False
    rep.exhaustive_note = (f"all {len(classes)} problem classes x {list(DIMS)}: fresh reference, row-wise, optimum, {npts}+{npts} random/border "
                           f"points; {nh} random histories x {len(classes) * len(DIMS)} probes (sampled, not exhaustive)")


def load_corpus():
    p = os.path.join(C.VERIF, "corpus", "C20-witnesses.json")
    return json.load(open(p))["cases"] if os.path.exists(p) else []


def slot_cls_of(steps, slot):
    for s in steps:
        if s["op"] == "new" and s["slot"] == slot:
            return s["cls"]
    raise KeyError(slot)


def normalise(pre, probe):
    """drop calls whose instance is no longer created; keep the probe's instance"""
    made = {s["slot"] for s in pre if s["op"] == "new"}
    pre = [s for s in pre if s["op"] == "new" or s["slot"] in made]
    if probe["slot"] not in made:
        return None
    return pre


def still_fails(ctx, pre, probe, ref_y, tables):
    out = run_job(ctx, dict(steps=pre + [probe], tables=tables))
    if "crash" in out or not out["steps"] or out["steps"][-1].get("error"):
        return False
    return out["steps"][-1]["y"] != ref_y


def shrink(ctx, pre, probe, ref_y, tables, budget=40):
    """greedy delta-debugging of the history in front of a failing probe (each attempt = one fresh interpreter)"""
    cur = list(pre)
    n = max(1, len(cur) // 2)
    used = 0
    while n >= 1 and used < budget:
        i, changed = 0, False
        while i < len(cur) and used < budget:
            cand = normalise(cur[:i] + cur[i + n:], probe)
            used += 1
            if cand is not None and len(cand) < len(cur) and still_fails(ctx, cand, probe, ref_y, tables):
                cur, changed = cand, True
            else:
                i += n
        if not changed or n == 1:
            n //= 2
    return cur


def replay_history(ctx, case, tables=None):
    fresh = run_job(ctx, dict(steps=case["fresh_steps"], tables=tables))
    hist = run_job(ctx, dict(steps=case["steps"] + [case["probe"]], tables=tables))
    try:
        a, b = fresh["steps"][-1]["y"], hist["steps"][-1]["y"]
    except Exception:
        return False, None, None
    return a == b, [float.fromhex(h) for h in b], [float.fromhex(h) for h in a]


def replay(ctx, rp) -> bool:
    """re-execute the failing input of a replay file against the real code; True = property holds on it"""
    pr = rp.get("first", rp)
    case = pr.get("case", {})
    kind = case.get("kind")
    if kind == "history":
        ok, got, exp = replay_history(ctx, case)
        C.log("fresh interpreter:", exp, " after the history:", got)
        return ok
    if kind in ("argument", "lower", "optimum", "rowwise"):
        steps = [dict(op="new", cls=case["cls"], slot=0),
                 dict(op="call", slot=0, D=case["D"], x=case["x"], npseed=case.get("npseed"))]
        if kind == "rowwise":
            steps[1]["patch_noise"] = True
            steps.append(dict(steps[1], rows_alone=True))
        out = run_job(ctx, dict(steps=steps))
        st = out["steps"]
        if kind == "argument":
            C.log("argument entries changed:", st[1].get("arg_changed"), st[1].get("arg_examples"))
            return st[1].get("arg_changed") == 0
        ys = [float.fromhex(h) for h in st[1]["y"]]
        C.log("values:", ys)
        if kind == "lower":
            return all(y >= case["opt"] - case["tol"] for y in ys)
        if kind == "optimum":
            return abs(ys[0] - case["opt"]) <= case["fix"]
        yr = [float.fromhex(h) for h in st[2]["y"]]
        return all(abs(a - b) <= ROW_RTOL * max(1.0, abs(a)) for a, b in zip(ys, yr))
    C.log("replay: this record is not an executable input (kind=%r): %s" % (kind, pr.get("what", "")[:300]))
    return False
